module verif/gogen

go 1.23
