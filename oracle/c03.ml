(* C03 oracle: Dremel shredding / assembly of the extracted model and the
   null-run scanner.

   Text syntax (no spaces inside a token):
     schema  ::= L | G(field,...)           field ::= R:schema | O:schema | P:schema
                 (R required, O optional, P repeated)
     value   ::= x<hex>                     leaf (the hex digits are kept as the leaf value)
               | g(value,...)               group, one value per field
               | n | s<value>               optional: null / present
               | l(value,...)               repeated, l() = empty
     columns ::= column|column|...          column ::= _ | entry;entry;...
     entry   ::= <N or x<hex>>:<r>:<d>      decimal levels
   Commands:
     c03.shred_rows <schema> <row> ...      -> columns of shred_rows
     c03.batch <0|1|2> <schema> <row> ...   -> columns of shred_batch (0 = one call per row, 1 = maximal runs,
                                               2 = nullIndex + the bitmap run scanner)
     c03.asm <schema> <nrows> <fuel> <columns> -> rows separated by spaces, or FAIL
     c03.maxlevels <schema>                 -> r:d,r:d,...
     c03.scan <words hex,comma separated> <n hex>    -> isnull:start:end,... (decimal)
     c03.scan_pinned <words> <n>            -> the same for the pre-fix comparison *)
open Conv
open Model

(* ---- parser ---- *)
exception Parse of string

let parse_schema (s : string) : schema =
  let n = String.length s in
  let pos = ref 0 in
  let peek () = if !pos < n then s.[!pos] else '\000' in
  let adv () = incr pos in
  let expect c = if peek () <> c then raise (Parse (Printf.sprintf "schema: expected %c at %d" c !pos)); adv () in
  let rec sch () =
    match peek () with
    | 'L' -> adv (); Leaf
    | 'G' -> adv (); expect '('; let fs = fields () in expect ')'; Group fs
    | _ -> raise (Parse "schema")
  and fields () =
    if peek () = ')' then FNil else begin
      let rp = (match peek () with 'R' -> Req | 'O' -> Opt | 'P' -> Rpt | _ -> raise (Parse "rep")) in
      adv (); expect ':';
      let s1 = sch () in
      if peek () = ',' then (adv (); FCons (rp, s1, fields ()))
      else FCons (rp, s1, FNil)
    end in
  let r = sch () in
  if !pos <> n then raise (Parse "schema: trailing");
  r

let parse_value (s : string) : string value =
  let n = String.length s in
  let pos = ref 0 in
  let peek () = if !pos < n then s.[!pos] else '\000' in
  let adv () = incr pos in
  let expect c = if peek () <> c then raise (Parse (Printf.sprintf "value: expected %c at %d" c !pos)); adv () in
  let rec v () =
    match peek () with
    | 'x' ->
        let st = !pos in
        adv ();
        while (match peek () with '0'..'9' | 'a'..'f' -> true | _ -> false) do adv () done;
        VLeaf (String.sub s st (!pos - st))
    | 'g' -> adv (); expect '('; let l = vs () in expect ')'; VGroup l
    | 'l' -> adv (); expect '('; let l = vs () in expect ')'; VList l
    | 'n' -> adv (); VOpt None
    | 's' -> adv (); VOpt (Some (v ()))
    | _ -> raise (Parse (Printf.sprintf "value at %d" !pos))
  and vs () =
    if peek () = ')' then [] else begin
      let x = v () in
      if peek () = ',' then (adv (); x :: vs ()) else [x]
    end in
  let r = v () in
  if !pos <> n then raise (Parse "value: trailing");
  r

let rec print_value (b : Buffer.t) (v : string value) : unit =
  match v with
  | VLeaf x -> Buffer.add_string b x
  | VGroup l -> Buffer.add_string b "g("; print_values b l; Buffer.add_char b ')'
  | VList l -> Buffer.add_string b "l("; print_values b l; Buffer.add_char b ')'
  | VOpt None -> Buffer.add_char b 'n'
  | VOpt (Some x) -> Buffer.add_char b 's'; print_value b x
and print_values b l =
  List.iteri (fun i x -> if i > 0 then Buffer.add_char b ','; print_value b x) l

let print_entry (b : Buffer.t) (e : (string option * nat) * nat) : unit =
  let ((x, r), d) = e in
  (match x with None -> Buffer.add_char b 'N' | Some h -> Buffer.add_string b h);
  Buffer.add_char b ':'; Buffer.add_string b (string_of_int (int_of_nat r));
  Buffer.add_char b ':'; Buffer.add_string b (string_of_int (int_of_nat d))

let print_columns (cols : ((string option * nat) * nat) list list) : string =
  let b = Buffer.create 1024 in
  List.iteri (fun i col ->
    if i > 0 then Buffer.add_char b '|';
    if col = [] then Buffer.add_char b '_'
    else List.iteri (fun j e -> if j > 0 then Buffer.add_char b ';'; print_entry b e) col) cols;
  Buffer.contents b

let parse_entry (s : string) : (string option * nat) * nat =
  match String.split_on_char ':' s with
  | [x; r; d] -> (((if x = "N" then None else Some x), nat_of_int (int_of_string r)), nat_of_int (int_of_string d))
  | _ -> raise (Parse "entry")

let parse_columns (s : string) : ((string option * nat) * nat) list list =
  List.map (fun c -> if c = "_" then [] else List.map parse_entry (String.split_on_char ';' c))
    (String.split_on_char '|' s)

let print_runs (rs : ((bool * n) * n) list) : string =
  tok_of_list (fun ((isnull, s), e) -> Printf.sprintf "%s:%d:%d" (tok_of_bool isnull) (int_of_n s) (int_of_n e)) rs

let wrap f args = try f args with Parse m -> "ERR parse " ^ m

let () =
  register "c03.shred_rows" (wrap (function
    | sch :: rows ->
        let s = parse_schema sch in
        print_columns (shred_rows s (List.map parse_value rows))
    | _ -> failwith "c03.shred_rows args"));
  register "c03.batch" (wrap (function
    | pol :: sch :: rows ->
        let s = parse_schema sch in
        let chunks =
          if pol = "0" then (fun _ col -> singletons col)
          else if pol = "1" then (fun _ col -> max_runs col)
          else (fun _ col -> scan_chunks col) in
        print_columns (shred_batch chunks s (List.map parse_value rows))
    | _ -> failwith "c03.batch args"));
  register "c03.asm" (wrap (function
    | [sch; nrows; fuel; cols] ->
        let s = parse_schema sch in
        (match asm_rows (nat_of_int (int_of_string nrows)) s (nat_of_int (int_of_string fuel)) (parse_columns cols) with
         | None -> "FAIL"
         | Some vs ->
             let b = Buffer.create 1024 in
             List.iteri (fun i v -> if i > 0 then Buffer.add_char b ' '; print_value b v) vs;
             if vs = [] then "_" else Buffer.contents b)
    | _ -> failwith "c03.asm args"));
  register "c03.maxlevels" (wrap (function
    | [sch] ->
        let s = parse_schema sch in
        tok_of_list (fun (r, d) -> Printf.sprintf "%d:%d" (int_of_nat r) (int_of_nat d)) (max_levels s O O)
    | _ -> failwith "c03.maxlevels args"));
  register "c03.scan" (function
    | [words; n] -> print_runs (scan (list_of_tok n_of_hex words) (n_of_hex n))
    | _ -> failwith "c03.scan args");
  register "c03.scan_pinned" (function
    | [words; n] -> print_runs (scan_pinned (list_of_tok n_of_hex words) (n_of_hex n))
    | _ -> failwith "c03.scan_pinned args")
