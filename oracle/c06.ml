open Conv

let page_z tok =
  if tok = "N" then None else
  match String.split_on_char ':' tok with
  | [a; b] -> Some (z_of_hex a, z_of_hex b)
  | _ -> failwith "page"

let page_b tok =
  if tok = "N" then None else
  match String.split_on_char ':' tok with
  | [a; b] -> Some (bytes_of_tok a, bytes_of_tok b)
  | _ -> failwith "page"

let () =
  register "c06.find_z" (function
    | [nf; asc; idx; probes] ->
        let idx = list_of_tok page_z idx in
        let rs = List.map (fun v -> string_of_int (int_of_nat (Model.find_Z (bool_of_tok nf) (bool_of_tok asc) idx (z_of_hex v)))) (split_on ',' probes) in
        String.concat "," rs
    | _ -> failwith "c06.find_z args");
  register "c06.find_bytes" (function
    | [nf; asc; idx; probes] ->
        let idx = list_of_tok page_b idx in
        let rs = List.map (fun v -> string_of_int (int_of_nat (Model.find_bytes (bool_of_tok nf) (bool_of_tok asc) idx (bytes_of_tok v)))) (split_on ',' probes) in
        String.concat "," rs
    | _ -> failwith "c06.find_bytes args")

(* the column index of a MultiRowGroup column chunk: chunks separated by ';',
   a chunk is <IsAscending of its own index>@<pages>; answer: the IsAscending
   flag isOrdered computes, ';', Find's answer for every probe *)
let chunk page tok =
  match String.split_on_char '@' tok with
  | [a; pages] -> (bool_of_tok a, list_of_tok page pages)
  | _ -> failwith "chunk"

let () =
  register "c06.multi_find_z" (function
    | [nf; chunks; probes] ->
        let chunks = List.map (chunk page_z) (split_on ';' chunks) in
        let rs = List.map (fun v -> string_of_int (int_of_nat (Model.multi_find_Z (bool_of_tok nf) chunks (z_of_hex v)))) (split_on ',' probes) in
        tok_of_bool (Model.multi_ascending_Z chunks) ^ ";" ^ String.concat "," rs
    | _ -> failwith "c06.multi_find_z args");
  register "c06.multi_find_bytes" (function
    | [nf; chunks; probes] ->
        let chunks = List.map (chunk page_b) (split_on ';' chunks) in
        let rs = List.map (fun v -> string_of_int (int_of_nat (Model.multi_find_bytes (bool_of_tok nf) chunks (bytes_of_tok v)))) (split_on ',' probes) in
        tok_of_bool (Model.multi_ascending_bytes chunks) ^ ";" ^ String.concat "," rs
    | _ -> failwith "c06.multi_find_bytes args")
