open Conv

(* "x" alone is the empty byte string *)
let kind_of_tok = function
  | "dict" -> Model.DictPage
  | "v1" -> Model.DataPageV1
  | "v2" -> Model.DataPageV2
  | s -> failwith ("page kind: " ^ s)

let path_of_tok = function
  | "sequential" -> Model.PathSequential
  | "seek" -> Model.PathSeekThenRead
  | "readdict" -> Model.PathReadDictionary
  | "readdict+pages" -> Model.PathReadDictThenPages
  | s -> failwith ("access path: " ^ s)

let column_path_of_tok = function
  | "sequential" -> Model.ColSequential
  | "seek-before" -> Model.ColSeek Model.RgBefore
  | "seek-at" -> Model.ColSeek Model.RgAt
  | "seek-after" -> Model.ColSeek Model.RgAfter
  | s -> failwith ("column access path: " ^ s)

let tok_of_check = function
  | None -> "skip"
  | Some Model.CrcVerified -> "crc"
  | Some Model.AeadVerified -> "aead"
  | Some Model.Unverified -> "none"

let () =
  register "c13.crc32" (function
    | [b] -> hex_of_n (Model.crc32 (bytes_of_tok b))
    | _ -> failwith "c13.crc32 args");
  register "c13.table" (function
    | [b] -> hex_of_n (Model.crc32_table (bytes_of_tok b))
    | _ -> failwith "c13.table args");
  register "c13.update" (function
    | [c; b] -> hex_of_n (Model.crc32_update (n_of_hex c) (bytes_of_tok b))
    | _ -> failwith "c13.update args");
  register "c13.int32" (function
    | [c] -> hex_of_z (Model.crc_to_int32 (n_of_hex c))
    | _ -> failwith "c13.int32 args");
  register "c13.of_int32" (function
    | [z] -> hex_of_n (Model.int32_to_crc (z_of_hex z))
    | _ -> failwith "c13.of_int32 args");
  (* difference d -> the change of the last four body bytes with checksum difference d *)
  register "c13.suffix_fault" (function
    | [d] -> tok_of_bytes (Model.suffix_fault (n_of_hex d))
    | _ -> failwith "c13.suffix_fault args");
  register "c13.page_crc" (function
    | [r; d; p] -> hex_of_n (Model.page_crc (bytes_of_tok r) (bytes_of_tok d) (bytes_of_tok p))
    | _ -> failwith "c13.page_crc args");
  (* stored checksum, original body, error pattern of the same length -> accepted? *)
  register "c13.accepts" (function
    | [stored; body] -> tok_of_bool (Model.read_page_accepts (n_of_hex stored) (bytes_of_tok body))
    | [stored; body; e] ->
        tok_of_bool (Model.read_page_accepts (n_of_hex stored) (Model.xor_bytes (bytes_of_tok body) (bytes_of_tok e)))
    | _ -> failwith "c13.accepts args");
  (* pinned enc dict path kind target -> crc | aead | none | skip *)
  register "c13.path" (function
    | [pinned; enc; dict; path; kind; target] ->
        let tbl = if bool_of_tok pinned then Model.loader_check_pinned else Model.loader_check in
        tok_of_check (Model.path_check tbl (bool_of_tok enc) (bool_of_tok dict) (path_of_tok path) (kind_of_tok kind) (kind_of_tok target))
    | _ -> failwith "c13.path args");
  (* the reader of a column across row groups (Column.Pages):
     pinned enc dict path noindex kind target -> crc | aead | none | skip
     path = sequential | seek-before | seek-at | seek-after: where the row group of the
     page lies relative to the row group the seek went to *)
  register "c13.colpath" (function
    | [pinned; enc; dict; path; noindex; kind; target] ->
        let tbl = if bool_of_tok pinned then Model.loader_check_pinned else Model.loader_check in
        tok_of_check (Model.column_path_check tbl (bool_of_tok enc) (bool_of_tok dict) (column_path_of_tok path)
                        (bool_of_tok noindex) (kind_of_tok kind) (kind_of_tok target))
    | _ -> failwith "c13.colpath args")

(* consumers (Crc/Consumers.v) *)
let consumer_kind_of_tok = function
  | "decode" -> Model.Decoding
  | "verbatim" -> Model.Verbatim
  | "projected-away" -> Model.ProjectedAway
  | s -> failwith ("consumer kind: " ^ s)

let tok_of_report = function
  | Model.Untouched -> "skip"
  | Model.ByCall c -> tok_of_check (Some c)
  | Model.ByOutput c -> tok_of_check (Some c) ^ "-in-output"

let rec nat_to_int = function Model.O -> 0 | Model.S n -> 1 + nat_to_int n

let () =
  (* pinned enc dict kind pagekind target -> crc | aead | none | crc-in-output | ... | skip *)
  register "c13.consumer" (function
    | [pinned; enc; dict; kind; k; target] ->
        let tbl = if bool_of_tok pinned then Model.loader_check_pinned else Model.loader_check in
        tok_of_report (Model.consumer_check tbl (bool_of_tok enc) (bool_of_tok dict) (consumer_kind_of_tok kind)
                         (kind_of_tok k) (kind_of_tok target))
    | _ -> failwith "c13.consumer args");
  (* same_config src_encrypted chunk_transparent fits -> verbatim | reencode | rows *)
  register "c13.wrgpath" (function
    | [same; enc; transparent; fits] ->
        (match Model.write_row_group_path (bool_of_tok same) (bool_of_tok enc) (bool_of_tok transparent) (bool_of_tok fits) with
         | Model.WVerbatim -> "verbatim" | Model.WReencode -> "reencode" | Model.WRows -> "rows")
    | _ -> failwith "c13.wrgpath args");
  (* the loop: before after checked -> reported:<n> | done:<n>[:altered] *)
  register "c13.consume" (function
    | [before; after; checked] ->
        let c = if bool_of_tok checked then Model.CrcVerified else Model.Unverified in
        (match Model.consume (Model.source (nat_of_int (int_of_string before)) (nat_of_int (int_of_string after)) c) with
         | Model.Reported (n, _) -> "reported:" ^ string_of_int (nat_to_int n)
         | Model.Done (n, a) -> "done:" ^ string_of_int (nat_to_int n) ^ (if a then ":altered" else ""))
    | _ -> failwith "c13.consume args")
