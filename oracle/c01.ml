open Conv

(* recursive descent over the compact schema / value syntax *)
let parse_schema (s : Stdlib.String.t) : Model.schema =
  let pos = ref 0 in
  let peek () = if !pos < Stdlib.String.length s then s.[!pos] else '\000' in
  let next () = let c = peek () in incr pos; c in
  let rec schema () =
    match next () with
    | 'L' -> Model.Leaf
    | 'G' ->
        ignore (next ()); (* ( *)
        let rec fields () =
          let rp = (match next () with 'R' -> Model.Req | 'O' -> Model.Opt | 'P' -> Model.Rpt | _ -> failwith "rep") in
          let sc = schema () in
          (match next () with
           | ',' -> Model.FCons (rp, sc, fields ())
           | ')' -> Model.FCons (rp, sc, Model.FNil)
           | _ -> failwith "schema syntax") in
        Model.Group (fields ())
    | _ -> failwith "schema syntax" in
  schema ()

let parse_value (s : Stdlib.String.t) : (Model.n list) Model.value =
  let pos = ref 0 in
  let len = Stdlib.String.length s in
  let peek () = if !pos < len then s.[!pos] else '\000' in
  let next () = let c = peek () in incr pos; c in
  let rec value () =
    match next () with
    | 'x' ->
        let start = !pos in
        while !pos < len && (match s.[!pos] with '0'..'9' | 'a'..'f' -> true | _ -> false) do incr pos done;
        Model.VLeaf (bytes_of_tok ("x" ^ Stdlib.String.sub s start (!pos - start)))
    | 'N' -> Model.VOpt None
    | 'S' -> Model.VOpt (Some (value ()))
    | '[' ->
        if peek () = ']' then (ignore (next ()); Model.VList [])
        else
          let rec elems () =
            let v = value () in
            (match next () with
             | ';' -> v :: elems ()
             | ']' -> [v]
             | _ -> failwith "list syntax") in
          Model.VList (elems ())
    | 'G' ->
        ignore (next ());
        let rec fields () =
          let v = value () in
          (match next () with
           | ',' -> v :: fields ()
           | ')' -> [v]
           | _ -> failwith "group syntax") in
        Model.VGroup (fields ())
    | _ -> failwith "value syntax" in
  value ()

let entry_tok ((ov, r), d) =
  (match ov with None -> "N" | Some b -> tok_of_bytes b) ^ ":" ^ string_of_int (int_of_nat r) ^ ":" ^ string_of_int (int_of_nat d)

let () =
  register "c01.shred" (function
    | [s; v] ->
        let cols = Model.shred_row (parse_schema s) (parse_value v) in
        Stdlib.String.concat "|" (List.map (fun c -> Stdlib.String.concat "," (List.map entry_tok c)) cols)
    | _ -> failwith "args")
