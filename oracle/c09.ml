(* C09 oracle: the merge readers, dedupe and the plan of MergeRowGroups.
   Protocol (one line in, one line out; no spaces inside a token):
     cfg      : per sorting column two characters (descending, nulls first), comma separated: "00,10"
     nat list : hex, comma separated, "_" = empty
     key      : columns joined by ':' (hex with sign, "N" = null); key list comma separated, "_" = empty
     list of lists : joined by '/', "=" = no element
   Answers: batches joined by '/', a batch is "input.seq" items (decimal) joined by ',',
   "_" = empty batch, "=" = no batch; merge answers end with ";1" (io.EOF reached) or ";0".
   c09.refine <cfg> <ins> <layouts> <cuts>: the plan of MergeRowGroups with refinement (Merge/Refine.v).
     layouts : inputs joined by '/', within an input the sorting columns joined by '|', a column = the rows
               of each of its pages (hex nat list, "_" = empty): "2,2,2|6/2,2,2,2|8"
     cuts    : one character '0'/'1' per input ("_" = no input)
     answer  : pieces joined by '/', a piece = parts joined by ',', a part = "input.offset.rows" (decimal);
               "=" = no piece.
   c09.nrefine <cfg> <ins> <layouts> <cuts> <computed>: the same when some inputs are row groups whose rows are
     computed (merged, deduplicated, multi row groups; Merge/Nested.v); computed: one character '0'/'1' per input. *)
open Conv

let nat_of_hex s = nat_of_int (int_of_string ("0x" ^ s))
let nats tok = list_of_tok nat_of_hex tok
let lists f tok = if tok = "=" then [] else List.map f (String.split_on_char '/' tok)
let cfg tok = list_of_tok (fun s -> (s.[0] = '1', s.[1] = '1')) tok
let key tok = List.map (opt_of_tok z_of_hex) (String.split_on_char ':' tok)
let keys tok = list_of_tok key tok

let item (i, s) = Printf.sprintf "%d.%d" (int_of_nat i) (int_of_nat s)
let batch b = tok_of_list item b
let batches bs = if bs = [] then "=" else String.concat "/" (List.map batch bs)
let natbatches bs =
  if bs = [] then "=" else String.concat "/" (List.map (tok_of_list (fun n -> string_of_int (int_of_nat n))) bs)

let layouts tok =
  if tok = "=" || tok = "_" then []
  else List.map (fun inp -> List.map nats (String.split_on_char '|' inp)) (String.split_on_char '/' tok)
let cuts tok = if tok = "_" || tok = "=" then [] else List.init (String.length tok) (fun i -> tok.[i] = '1')
let part ((i, o), l) = Printf.sprintf "%d.%d.%d" (int_of_nat i) (int_of_nat o) (int_of_nat l)
let pieces ps = if ps = [] then "=" else String.concat "/" (List.map (fun pc -> String.concat "," (List.map part pc)) ps)

let () =
  register "c09.refine" (function
    | [c; ins; ls; cs] -> pieces (Model.c09_refine (cfg c) (lists keys ins) (layouts ls) (cuts cs))
    | _ -> failwith "c09.refine args");
  register "c09.nrefine" (function
    | [c; ins; ls; cs; cp] -> pieces (Model.c09_refine_nested (cfg c) (lists keys ins) (layouts ls) (cuts cs) (cuts cp))
    | _ -> failwith "c09.nrefine args");
  register "c09.merge2" (function
    | [c; ch0; ch1; bs; in0; in1] ->
        let (outs, eof) = Model.c09_merge2 (cfg c) (nats ch0) (nats ch1) (nats bs) (keys in0) (keys in1) in
        batches outs ^ ";" ^ tok_of_bool eof
    | _ -> failwith "c09.merge2 args");
  register "c09.mergek" (function
    | [c; chs; bs; ins] ->
        let (outs, eof) = Model.c09_mergek (cfg c) (lists nats chs) (nats bs) (lists keys ins) in
        batches outs ^ ";" ^ tok_of_bool eof
    | _ -> failwith "c09.mergek args");
  register "c09.dedupe" (function
    | [c; bs] -> natbatches (Model.c09_dedupe (cfg c) (lists keys bs))
    | _ -> failwith "c09.dedupe args");
  register "c09.plan" (function
    | [pinned; c; page_rows; bsz; dd; ins] ->
        batch (Model.c09_plan (bool_of_tok pinned) (cfg c) (nat_of_hex page_rows) (nat_of_hex bsz) (bool_of_tok dd) (lists keys ins))
    | _ -> failwith "c09.plan args");
  register "c09.segments" (function
    | [c; page_rows; ins] -> natbatches (Model.c09_segments (cfg c) (nat_of_hex page_rows) (lists keys ins))
    | _ -> failwith "c09.segments args")
