(* C16: replay of the harness's histories by the ownership model
   (Conc/Ownership.v replay): which batches the caller is entitled to after
   each operation, and (by theorem C16_replay_all_ok always true) whether
   every entitled value still has its content. *)
open Conv

let op_of_tok tok =
  let n = String.length tok in
  if n = 0 then failwith "op" else
  let arg () = nat_of_int (int_of_string ("0x" ^ String.sub tok 1 (n - 1))) in
  match tok.[0] with
  | 'r' -> Model.OReadRows (arg (), nat_of_int 1)
  | 't' -> Model.OReadTyped (arg (), nat_of_int 1)
  | 'k' -> Model.OClone (arg ())
  | 's' -> Model.OSeek (arg (), nat_of_int 0)
  | 'z' -> Model.OSeek (arg (), nat_of_int 0)   (* Reset = reposition at row 0: ends the batch, releases the page, keeps detach and closed *)
  | 'c' -> Model.OClose (arg ())
  | 'x' -> Model.OChurn (nat_of_int 77)
  | 'g' -> Model.OGC
  | _ -> failwith ("op " ^ tok)

let () =
  (* c16.replay <nreaders-hex> op,op,...  ->  per op, ';'-separated: '.'-separated entitled batch ids or '_' *)
  register "c16.replay" (function
    | [n; tok] ->
        let ops = list_of_tok op_of_tok tok in
        let nr = nat_of_int (int_of_string ("0x" ^ n)) in
        let res = Model.replay Model.default_pagefun (Model.oinit nr true) (nat_of_int 0) ops in
        if List.exists (fun (_, ok) -> not ok) res then "MODEL-VIOLATION an entitled value changed in the model"
        else if res = [] then "_"
        else String.concat ";" (List.map (fun (ids, _) ->
               if ids = [] then "_" else String.concat "." (List.map (fun i -> string_of_int (int_of_nat i)) ids)) res)
    | _ -> failwith "c16.replay args")
