open Conv

(* Coq strings are lists of Ascii characters (8 booleans): convert to OCaml strings *)
let string_of_coq (s : Model.string) : Stdlib.String.t =
  let buf = Buffer.create 16 in
  let rec go = function
    | Model.EmptyString -> ()
    | Model.String (Model.Ascii (b0,b1,b2,b3,b4,b5,b6,b7), r) ->
        let v = (if b0 then 1 else 0) + (if b1 then 2 else 0) + (if b2 then 4 else 0) + (if b3 then 8 else 0)
              + (if b4 then 16 else 0) + (if b5 then 32 else 0) + (if b6 then 64 else 0) + (if b7 then 128 else 0) in
        Buffer.add_char buf (Char.chr v); go r in
  go s; Buffer.contents buf

let dump_chunk (c : Model.chunk) : Stdlib.String.t =
  let dps = Model.data_pages c in
  let reps = List.concat_map (fun p -> p.Model.p_rep) dps in
  let defs = List.concat_map (fun p -> p.Model.p_def) dps in
  let vals = List.concat_map (fun p -> p.Model.p_values) dps in
  let types = List.map (fun p -> hex_of_z p.Model.p_type) c.Model.c_pages in
  let encs = List.map (fun p -> hex_of_z p.Model.p_encoding) dps in
  let nv = List.map (fun p -> string_of_int (int_of_nat p.Model.p_nvalues)) dps in
  Printf.sprintf "R=%s/D=%s/V=%s/T=%s/E=%s/N=%s"
    (tok_of_list hex_of_n reps) (tok_of_list hex_of_n defs) (tok_of_list tok_of_bytes vals)
    (String.concat "," types) (String.concat "," encs) (String.concat "," nv)

(* c02.verify <file> [<sections>]
   sections: '_' or entry,entry..., entry = CODEC:xCOMPRESSED:xCONTENT | CODEC:xCOMPRESSED:!
   The graph of the external decompressor [ext] of SpecDecoder.decompress on the compressed
   sections of this file: what the reference implementation of the codec (harness/c02/refcodec)
   answers for the section ('!' = it rejects the bytes: not a complete well-formed stream of the
   codec).  A section that is not listed is not decodable either.  The decoder consults [ext] for
   the codecs other than UNCOMPRESSED and SNAPPY only. *)
let ext_note = ref ""

let ext_of_tok (tok : Stdlib.String.t) : Model.z -> Model.n list -> Model.n list option =
  let tbl : (Stdlib.String.t, Model.n list option) Hashtbl.t = Hashtbl.create 16 in
  List.iter (fun e ->
    match String.split_on_char ':' e with
    | [codec; comp; content] ->
        Hashtbl.replace tbl (codec ^ ":" ^ comp) (if content = "!" then None else Some (bytes_of_tok content))
    | _ -> failwith "section token") (split_on ',' tok);
  fun codec b ->
    let key = hex_of_z codec ^ ":" ^ tok_of_bytes b in
    match Hashtbl.find_opt tbl key with
    | Some (Some d) -> Some d
    | Some None ->
        if !ext_note = "" then ext_note := Printf.sprintf "the reference decoder of codec %s rejects a section of %d bytes (%s)"
          (hex_of_z codec) (List.length b) (let t = tok_of_bytes b in if String.length t > 40 then String.sub t 0 40 ^ ".." else t);
        None
    | None ->
        if !ext_note = "" then ext_note := Printf.sprintf "a section of %d bytes with codec %s is not among the sections found by the page walk"
          (List.length b) (hex_of_z codec);
        None

let verify_answer ext b =
  ext_note := "";
  match Model.verify ext (bytes_of_tok b) with
  | None -> if !ext_note = "" then "UNPARSEABLE" else "UNPARSEABLE:" ^ String.concat "_" (String.split_on_char ' ' !ext_note)
  | Some (f, codes) ->
      let cs = if codes = [] then "_" else String.concat "," (List.map string_of_coq codes) in
      let groups = List.map (fun g ->
        let nrows = int_of_nat (Model.nat_of_field (z_of_int 3) g.Model.g_meta) in
        string_of_int nrows ^ "#" ^ String.concat ";" (List.map dump_chunk g.Model.g_chunks)) f.Model.f_groups in
      cs ^ " " ^ (if groups = [] then "_" else String.concat "|" groups)

let () =
  register "c02.verify" (function
    | [b] -> verify_answer Model.no_ext b
    | [b; sections] -> verify_answer (ext_of_tok sections) b
    | _ -> failwith "args");
  register "c02.thrift_roundtrip" (function
    | [b] ->
        (match Model.decode_thrift (bytes_of_tok b) with
         | Some (t, rest) -> tok_of_bytes (Model.encode t) ^ " " ^ tok_of_bytes rest
         | None -> "NONE")
    | _ -> failwith "args")

(* c02.layout <footer> <groups>
   footer: raw thrift of the FileMetaData the library wrote (only the fields that are not
           offsets / sizes / counts derived from the pages are taken from it);
   groups: '_' or group|group..., group = chunk;chunk..., chunk = bloom/cindex/pages,
           pages = '_' or page+page..., page = xHEADER:xBODY:rows (rows in hex).
   Answer: <bytes the model writer lays out> <file_ok: the hypotheses of the layout theorems hold> *)
let split_or_empty c s = if s = "_" || s = "" then [] else String.split_on_char c s

let () =
  register "c02.layout" (function
    | [footer; groups] ->
        (match Model.decode_thrift (bytes_of_tok footer) with
         | None -> "ERR footer"
         | Some (ft, _) ->
             let bad = ref "" in
             let page s =
               match String.split_on_char ':' s with
               | [h; b; rows] ->
                   (match Model.decode_thrift (bytes_of_tok h) with
                    | Some (ht, _) -> Model.observe_page ht (n_of_hex rows) (bytes_of_tok b)
                    | None -> bad := "header"; Model.observe_page (Model.TStruct []) Model.N0 [])
               | _ -> failwith "page token" in
             let chunk s =
               match String.split_on_char '/' s with
               | [bloom; cindex; pages] ->
                   ((List.map page (split_or_empty '+' pages), bytes_of_tok bloom), bytes_of_tok cindex)
               | _ -> failwith "chunk token" in
             let obs = List.map (fun g -> List.map chunk (split_or_empty ';' g)) (split_or_empty '|' groups) in
             if !bad <> "" then "ERR " ^ !bad else
             let fi = Model.observe_file ft obs in
             let (lb, ok) = Model.layout_checked fi in
             tok_of_bytes lb ^ " " ^ tok_of_bool ok)
    | _ -> failwith "args")
