open Conv

(* Coq strings are lists of Ascii characters (8 booleans): convert to OCaml strings *)
let string_of_coq (s : Model.string) : Stdlib.String.t =
  let buf = Buffer.create 16 in
  let rec go = function
    | Model.EmptyString -> ()
    | Model.String (Model.Ascii (b0,b1,b2,b3,b4,b5,b6,b7), r) ->
        let v = (if b0 then 1 else 0) + (if b1 then 2 else 0) + (if b2 then 4 else 0) + (if b3 then 8 else 0)
              + (if b4 then 16 else 0) + (if b5 then 32 else 0) + (if b6 then 64 else 0) + (if b7 then 128 else 0) in
        Buffer.add_char buf (Char.chr v); go r in
  go s; Buffer.contents buf

let dump_chunk (c : Model.chunk) : Stdlib.String.t =
  let dps = Model.data_pages c in
  let reps = List.concat_map (fun p -> p.Model.p_rep) dps in
  let defs = List.concat_map (fun p -> p.Model.p_def) dps in
  let vals = List.concat_map (fun p -> p.Model.p_values) dps in
  let types = List.map (fun p -> hex_of_z p.Model.p_type) c.Model.c_pages in
  let encs = List.map (fun p -> hex_of_z p.Model.p_encoding) dps in
  let nv = List.map (fun p -> string_of_int (int_of_nat p.Model.p_nvalues)) dps in
  Printf.sprintf "R=%s/D=%s/V=%s/T=%s/E=%s/N=%s"
    (tok_of_list hex_of_n reps) (tok_of_list hex_of_n defs) (tok_of_list tok_of_bytes vals)
    (String.concat "," types) (String.concat "," encs) (String.concat "," nv)

let () =
  register "c02.verify" (function
    | [b] ->
        (match Model.verify (bytes_of_tok b) with
         | None -> "UNPARSEABLE"
         | Some (f, codes) ->
             let cs = if codes = [] then "_" else String.concat "," (List.map string_of_coq codes) in
             let groups = List.map (fun g ->
               let nrows = int_of_nat (Model.nat_of_field (z_of_int 3) g.Model.g_meta) in
               string_of_int nrows ^ "#" ^ String.concat ";" (List.map dump_chunk g.Model.g_chunks)) f.Model.f_groups in
             cs ^ " " ^ (if groups = [] then "_" else String.concat "|" groups))
    | _ -> failwith "args");
  register "c02.thrift_roundtrip" (function
    | [b] ->
        (match Model.decode_thrift (bytes_of_tok b) with
         | Some (t, rest) -> tok_of_bytes (Model.encode t) ^ " " ^ tok_of_bytes rest
         | None -> "NONE")
    | _ -> failwith "args")
