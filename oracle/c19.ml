(* C19 oracle: variant encode/decode and shred/reconstruct of the extracted model.

   Text syntax (no spaces inside a token):
   tree   := n | t | f | i<K>:<z> | r<K>:<bits> | d<K>:<scale>:<z> | b<hex> | s<hex> | u<hex>
           | [tree,tree,...] | {<hexname>=tree,...}
             i: K = 0..9 = int8 int16 int32 int64 date ts ts_ntz time ts_nanos ts_ntz_nanos
             r: K = 0 float, 1 double (IEEE bits);  d: K = 0,1,2 = decimal4/8/16;  numbers are hex
   schema := N | Pb | Pi<K> | Pr<K> | Ps | Py | Pu | Pd<K>:<precision>:<scale> | L<schema> | O{<hexname>=schema,...}
   frag   := N<r> | P<r>;<pval> | L<r>[frag,...] | O<r>[frag,...]      r := - | x<hex>
   pval   := b0 | b1 | i<z> | l<z> | e<bits> | g<bits> | y<hex>
   columns:= col;col;...   col := _ | leaf,leaf,...   leaf := x<hex> | pval (y<hex> printed as x<hex>)
   path   := . | step/step/...   step := f<hexname> | e          (Field name | Elements)
   row    := _ (no value: a null row) | tree
   entries:= _ | entry entry ...   entry := <row>:<tree> | <row>:-   (- = missing; trees in canonical field order) *)
open Conv
open Model

let is_hex c = match c with '0'..'9' | 'a'..'f' | 'A'..'F' -> true | _ -> false

(* ---- parser state ---- *)
type st = { s : Stdlib.String.t; mutable p : int }
let peek st = if st.p < String.length st.s then st.s.[st.p] else '\000'
let adv st = st.p <- st.p + 1
let expect st c = if peek st <> c then failwith (Printf.sprintf "expected %c at %d" c st.p); adv st
let hexrun st =
  let b = st.p in
  while is_hex (peek st) do adv st done;
  String.sub st.s b (st.p - b)
let bytes_of_hex h =
  let n = String.length h / 2 in
  List.init n (fun i -> byte_tbl.(hexval h.[2*i] * 16 + hexval h.[2*i+1]))
let hex_of_bytes l =
  let buf = Buffer.create (2 * List.length l) in
  List.iter (fun b -> Buffer.add_string buf (Printf.sprintf "%02x" (int_of_n b))) l;
  Buffer.contents buf
let znum st =
  let neg = (peek st = '-') in
  if neg then adv st;
  let h = hexrun st in
  z_of_hex ((if neg then "-" else "") ^ h)
let nnum st = n_of_hex (hexrun st)

let int_kinds = [| I8; I16; I32; I64; IDate; ITs; ITsNtz; ITime; ITsNs; ITsNtzNs |]
let int_kind_idx k = let r = ref 0 in Array.iteri (fun i x -> if x = k then r := i) int_kinds; !r
let flt_kinds = [| F32; F64 |]
let dec_kinds = [| D4; D8; D16 |]
let dec_kind_idx = function D4 -> 0 | D8 -> 1 | D16 -> 2
let digit st = let c = peek st in adv st; Char.code c - 48

let rec seq st close item =
  (* after the opening bracket *)
  if peek st = close then (adv st; [])
  else begin
    let x = item st in
    if peek st = ',' then (adv st; x :: seq_rest st close item)
    else (expect st close; [x])
  end
and seq_rest st close item =
  let x = item st in
  if peek st = ',' then (adv st; x :: seq_rest st close item)
  else (expect st close; [x])

let rec tree st : value =
  let c = peek st in adv st;
  match c with
  | 'n' -> VNull
  | 't' -> VBool true
  | 'f' -> VBool false
  | 'i' -> let k = digit st in expect st ':'; VInt (int_kinds.(k), znum st)
  | 'r' -> let k = digit st in expect st ':'; VFlt (flt_kinds.(k), nnum st)
  | 'd' -> let k = digit st in expect st ':'; let sc = nnum st in expect st ':'; VDec (dec_kinds.(k), sc, znum st)
  | 'b' -> VBinary (bytes_of_hex (hexrun st))
  | 's' -> VString (bytes_of_hex (hexrun st))
  | 'u' -> VUuid (bytes_of_hex (hexrun st))
  | '[' -> VArray (seq st ']' tree)
  | '{' -> VObject (seq st '}' (fun st -> let k = bytes_of_hex (hexrun st) in expect st '='; (k, tree st)))
  | _ -> failwith (Printf.sprintf "tree: unexpected %c at %d" c (st.p - 1))

let parse f s = let st = { s; p = 0 } in let r = f st in
  if st.p <> String.length s then failwith "trailing input"; r

let rec print_tree buf (v : value) =
  match v with
  | VNull -> Buffer.add_char buf 'n'
  | VBool true -> Buffer.add_char buf 't'
  | VBool false -> Buffer.add_char buf 'f'
  | VInt (k, z) -> Buffer.add_string buf (Printf.sprintf "i%d:%s" (int_kind_idx k) (hex_of_z z))
  | VFlt (k, b) -> Buffer.add_string buf (Printf.sprintf "r%d:%s" (match k with F32 -> 0 | F64 -> 1) (hex_of_n b))
  | VDec (k, s, z) -> Buffer.add_string buf (Printf.sprintf "d%d:%s:%s" (dec_kind_idx k) (hex_of_n s) (hex_of_z z))
  | VBinary b -> Buffer.add_char buf 'b'; Buffer.add_string buf (hex_of_bytes b)
  | VString b -> Buffer.add_char buf 's'; Buffer.add_string buf (hex_of_bytes b)
  | VUuid b -> Buffer.add_char buf 'u'; Buffer.add_string buf (hex_of_bytes b)
  | VArray l ->
      Buffer.add_char buf '[';
      List.iteri (fun i x -> if i > 0 then Buffer.add_char buf ','; print_tree buf x) l;
      Buffer.add_char buf ']'
  | VObject fs ->
      Buffer.add_char buf '{';
      List.iteri (fun i (k, x) -> if i > 0 then Buffer.add_char buf ',';
                   Buffer.add_string buf (hex_of_bytes k); Buffer.add_char buf '='; print_tree buf x) fs;
      Buffer.add_char buf '}'
let tok_of_tree v = let b = Buffer.create 256 in print_tree b v; Buffer.contents b

let rec schema st : Model.schema =
  let c = peek st in adv st;
  match c with
  | 'N' -> SNone
  | 'P' ->
      let c = peek st in adv st;
      SPrim (match c with
        | 'b' -> PTBool
        | 'i' -> PTInt int_kinds.(digit st)
        | 'r' -> PTFlt flt_kinds.(digit st)
        | 's' -> PTString
        | 'y' -> PTBinary
        | 'u' -> PTUuid
        | 'd' -> let k = digit st in expect st ':'; let p = znum st in expect st ':'; PTDec (dec_kinds.(k), p, znum st)
        | _ -> failwith "ptype")
  | 'L' -> SList (schema st)
  | 'O' -> expect st '{';
      SObj (seq st '}' (fun st -> let k = bytes_of_hex (hexrun st) in expect st '='; (k, schema st)))
  | _ -> failwith (Printf.sprintf "schema: unexpected %c at %d" c (st.p - 1))

let pval st : pval =
  let c = peek st in adv st;
  match c with
  | 'b' -> PBool (digit st = 1)
  | 'i' -> PI32 (znum st)
  | 'l' -> PI64 (znum st)
  | 'e' -> PF32 (nnum st)
  | 'g' -> PF64 (nnum st)
  | 'y' -> PBytes (bytes_of_hex (hexrun st))
  | _ -> failwith "pval"

let tok_of_pval ?(bytes_tag = "y") = function
  | PBool b -> if b then "b1" else "b0"
  | PI32 z -> "i" ^ hex_of_z z
  | PI64 z -> "l" ^ hex_of_z z
  | PF32 b -> "e" ^ hex_of_n b
  | PF64 b -> "g" ^ hex_of_n b
  | PBytes b -> bytes_tag ^ hex_of_bytes b

let resid st : n list option =
  if peek st = '-' then (adv st; None)
  else (expect st 'x'; Some (bytes_of_hex (hexrun st)))

let rec frag st : n list Model.frag =
  let c = peek st in adv st;
  match c with
  | 'N' -> FNone (resid st)
  | 'P' -> let r = resid st in expect st ';'; FPrim (r, pval st)
  | 'L' -> let r = resid st in expect st '['; FList (r, seq st ']' frag)
  | 'O' -> let r = resid st in expect st '['; FObj (r, seq st ']' frag)
  | _ -> failwith "frag"

let tok_of_resid = function None -> "-" | Some b -> "x" ^ hex_of_bytes b
let rec print_frag buf (f : n list Model.frag) =
  match f with
  | FNone r -> Buffer.add_char buf 'N'; Buffer.add_string buf (tok_of_resid r)
  | FPrim (r, p) -> Buffer.add_char buf 'P'; Buffer.add_string buf (tok_of_resid r);
      Buffer.add_char buf ';'; Buffer.add_string buf (tok_of_pval p)
  | FList (r, es) -> Buffer.add_char buf 'L'; Buffer.add_string buf (tok_of_resid r); print_frags buf es
  | FObj (r, fs) -> Buffer.add_char buf 'O'; Buffer.add_string buf (tok_of_resid r); print_frags buf fs
and print_frags buf l =
  Buffer.add_char buf '[';
  List.iteri (fun i x -> if i > 0 then Buffer.add_char buf ','; print_frag buf x) l;
  Buffer.add_char buf ']'
let tok_of_frag f = let b = Buffer.create 256 in print_frag b f; Buffer.contents b

let tok_of_columns cols =
  String.concat ";" (List.map (fun col ->
    if col = [] then "_" else
    String.concat "," (List.map (function
      | LBytes b -> "x" ^ hex_of_bytes b
      | LVal p -> tok_of_pval ~bytes_tag:"x" p) col)) cols)

let tok_of_result = function
  | None -> "NONE"
  | Some None -> "MISSING"
  | Some (Some v) -> tok_of_tree v

let () =
  register "c19.encode" (function
    | [t] -> let (m, b) = Model.encode (parse tree t) in tok_of_bytes m ^ " " ^ tok_of_bytes b
    | _ -> failwith "c19.encode args");
  register "c19.decode" (function
    | [m; b] -> (match Model.decode (bytes_of_tok m) (bytes_of_tok b) with
                 | Some v -> tok_of_tree v | None -> "NONE")
    | _ -> failwith "c19.decode args");
  register "c19.canon" (function
    | [t] -> tok_of_tree (Model.canon (parse tree t))
    | _ -> failwith "c19.canon args");
  (* schema tree -> metadata, fragment (residuals as variant binary), leaf columns *)
  register "c19.shred" (function
    | [s; t] ->
        let sc = parse schema s in
        let (m, f) = Model.shred_bytes sc (parse tree t) in
        tok_of_bytes m ^ " " ^ tok_of_frag f ^ " " ^ tok_of_columns (Model.frag_columns sc f)
    | _ -> failwith "c19.shred args");
  register "c19.reconstruct" (function
    | [s; m; f] -> tok_of_result (Model.reconstruct_bytes (parse schema s) (bytes_of_tok m) (parse frag f))
    | _ -> failwith "c19.reconstruct args");
  (* schema tree -> reconstruct (shred tree) on value trees, canonical field order *)
  register "c19.roundtrip" (function
    | [s; t] ->
        let sc = parse schema s in
        (match Model.reconstruct sc (Model.shred sc (parse tree t)) with
         | Some (Some v) -> tok_of_tree (Model.canon v)
         | Some None -> "MISSING" | None -> "NONE")
    | _ -> failwith "c19.roundtrip args")
;;
(* headers as functions of the sizes of the children (Variant/Header.v): numbers hex, lists comma separated, _ = empty *)
let () =
  register "c19.osc" (function
    | [m] -> hex_of_n (Model.offset_size_code (n_of_hex m))
    | _ -> failwith "c19.osc args");
  register "c19.array_header" (function
    | [sizes] -> tok_of_bytes (Model.array_header (list_of_tok n_of_hex sizes))
    | _ -> failwith "c19.array_header args");
  register "c19.object_header" (function
    | [ids; sizes] -> tok_of_bytes (Model.object_header (list_of_tok n_of_hex ids) (list_of_tok n_of_hex sizes))
    | _ -> failwith "c19.object_header args");
  register "c19.metadata_header" (function
    | [sorted; sizes] -> tok_of_bytes (Model.metadata_header (sorted = "1") (list_of_tok n_of_hex sizes))
    | _ -> failwith "c19.metadata_header args")
(* typed navigation of the logical values of a window (Variant/Navigate.v) *)
let path_of_tok (t : string) : Model.step list =
  if t = "." then [] else
  List.map (fun s ->
    if s = "e" then StElems
    else if String.length s >= 1 && s.[0] = 'f' then StField (bytes_of_hex (String.sub s 1 (String.length s - 1)))
    else failwith "path step") (String.split_on_char '/' t)
let row_of_tok t = if t = "_" then None else Some (parse tree t)
let () =
  register "c19.navigate" (function
    | p :: rows ->
        let es = Model.navigate_rows (path_of_tok p) (List.map row_of_tok rows) in
        if es = [] then "_" else
        String.concat " " (List.map (fun (r, o) ->
          hex_of_n r ^ ":" ^ (match o with Some v -> tok_of_tree v | None -> "-")) es)
    | _ -> failwith "c19.navigate args");
  (* ListOffsets of the cursor at the path when its Elements cursor is read *)
  register "c19.offsets" (function
    | p :: rows ->
        let es = Model.navigate (path_of_tok p) (Model.root_entries (List.map row_of_tok rows)) in
        String.concat "," (List.map hex_of_n (Model.offsets es))
    | _ -> failwith "c19.offsets args")
