open Conv

(* layouts are registered once and referred to by number *)
let layouts : (int, Model.n Model.site list * int) Hashtbl.t = Hashtbl.create 16

let kinds = Array.of_list Model.all_kinds

let mech_of_int = function
  | 0 -> Model.MWrite | 1 -> Model.MWriteTo | 2 -> Model.MLowerWriteTo | 3 -> Model.MLowerCopy
  | _ -> failwith "mech"

(* the byte at absolute offset o of the modelled file *)
let byte_at o = byte_tbl.(o mod 251)

(* site = kind:mech:piece.piece...   piece = s<len> | b<len> (decimal) *)
let parse_layout (s : string) =
  let off = ref 0 in
  let sites = List.map (fun site ->
    match String.split_on_char ':' site with
    | [k; m; ps] ->
        let pieces = List.map (fun p ->
          let is_str = (p.[0] = 's') in
          let len = int_of_string (String.sub p 1 (String.length p - 1)) in
          let o = !off in
          off := o + len;
          (is_str, List.init len (fun i -> byte_at (o + i)))) (if ps = "_" then [] else String.split_on_char '.' ps) in
        { Model.st_kind = kinds.(int_of_string k); st_mech = mech_of_int (int_of_string m); st_pieces = pieces }
    | _ -> failwith "site") (String.split_on_char ';' s) in
  (sites, !off)

let tok_of_err = function Model.ENone -> "nil" | Model.ESink -> "sink" | Model.EShort -> "short"

let fault_of k = function
  | "none" -> Model.NoFault
  | "err" -> Model.ErrAt (n_of_int k)
  | "short" -> Model.ShortAt (n_of_int k)
  | "full" -> Model.FullErrAt (n_of_int k)
  | _ -> failwith "fault"

let verdict cur lay buf fk k =
  let (sites, _) = try Hashtbl.find layouts lay with Not_found -> failwith "unknown layout" in
  let bufsize = if buf <= 0 then None else Some (n_of_int buf) in
  let (((e, i), pos), complete) = Model.close_verdict cur (fault_of k fk) bufsize sites in
  Printf.sprintf "%s/%d/%d/%s" (tok_of_err e) (int_of_nat i) (int_of_n pos) (tok_of_bool complete)

let () =
  register "c14.layout" (function
    | [id; s] ->
        let (sites, total) = parse_layout s in
        Hashtbl.replace layouts (int_of_string id) (sites, total);
        Printf.sprintf "ok %d %d" (List.length sites) total
    | _ -> failwith "c14.layout args");
  register "c14.drop" (function
    | [id] -> Hashtbl.remove layouts (int_of_string id); "ok"
    | _ -> failwith "c14.drop args");
  (* c14.close <cur 1|0> <layout> <bufsize, 0 = none> <none|err|short> <k,k,...>  ->  err/site/pos/complete,... *)
  register "c14.close" (function
    | [cur; lay; buf; fk; ks] ->
        let lay = int_of_string lay and buf = int_of_string buf and cur = bool_of_tok cur in
        String.concat "," (List.map (fun k -> verdict cur lay buf fk (int_of_string k)) (split_on ',' ks))
    | _ -> failwith "c14.close args");
  register "c14.flags" (function
    | [] | [""] ->
        String.concat "," (List.map (fun k -> tok_of_bool (Model.site_checked k)) Model.all_kinds)
        ^ " " ^ tok_of_bool Model.all_sites_checked
    | _ -> failwith "c14.flags args");
  (* c14.open <has_key> <L> <hdr bytes> <tail bytes> <decodes>  ->  ok | error class *)
  register "c14.open" (function
    | [hk; l; hdr; tail; dec] ->
        (match Model.open_verdict (bool_of_tok hk) (n_of_int (int_of_string l)) (bytes_of_tok hdr) (bytes_of_tok tail) (bool_of_tok dec) with
         | None -> "ok"
         | Some Model.OShortHeader -> "short-header"
         | Some Model.OBadHeaderMagic -> "bad-header-magic"
         | Some Model.ONeedDecryption -> "need-decryption"
         | Some Model.OShortTail -> "short-tail"
         | Some Model.OBadTailMagic -> "bad-tail-magic"
         | Some Model.OFooterRange -> "footer-range"
         | Some Model.OFooterDecode -> "footer-decode")
    | _ -> failwith "c14.open args");
  (* c14.openx <skip_magic> <optimistic> <read buffer size> <has_key> <L> <hdr bytes> <tail bytes> <decodes>
     -> ok | error class : OpenFile under SkipMagicBytes / OptimisticRead / ReadBufferSize *)
  register "c14.openx" (function
    | [sm; opt; rbs; hk; l; hdr; tail; dec] ->
        (match Model.open_verdict_cfg (bool_of_tok sm) (bool_of_tok opt) (n_of_int (int_of_string rbs)) (bool_of_tok hk)
                 (n_of_int (int_of_string l)) (bytes_of_tok hdr) (bytes_of_tok tail) (bool_of_tok dec) with
         | None -> "ok"
         | Some Model.OShortHeader -> "short-header"
         | Some Model.OBadHeaderMagic -> "bad-header-magic"
         | Some Model.ONeedDecryption -> "need-decryption"
         | Some Model.OShortTail -> "short-tail"
         | Some Model.OBadTailMagic -> "bad-tail-magic"
         | Some Model.OFooterRange -> "footer-range"
         | Some Model.OFooterDecode -> "footer-decode")
    | _ -> failwith "c14.openx args");
  (* c14.pages <cur> <size> <avail> <header:body,...>  ->  <pages returned>/<end|unexpected> *)
  register "c14.pages" (function
    | [cur; size; avail; pages] ->
        let ps = List.map (fun x -> match String.split_on_char ':' x with
          | [h; b] -> (n_of_int (int_of_string h), n_of_int (int_of_string b))
          | _ -> failwith "page") (split_on ',' pages) in
        let (k, e) = Model.read_pages (bool_of_tok cur) (n_of_int (int_of_string size)) (n_of_int (int_of_string avail)) Model.N0 ps in
        Printf.sprintf "%d/%s" (int_of_nat k) (match e with Model.PEnd -> "end" | Model.PUnexpected -> "unexpected")
    | _ -> failwith "c14.pages args");
  (* c14.seekpages <cur> <noindex> <size> <avail> <dict pages|_> <skipped pages|_> <rest pages>
     SeekToRow then ReadPage to the end of the chunk  ->  <pages returned>/<end|unexpected> *)
  register "c14.seekpages" (function
    | [cur; noindex; size; avail; dict; skipped; rest] ->
        let parse s = if s = "_" then [] else List.map (fun x -> match String.split_on_char ':' x with
          | [h; b] -> (n_of_int (int_of_string h), n_of_int (int_of_string b))
          | _ -> failwith "page") (split_on ',' s) in
        let (k, e) = Model.seek_read_pages (bool_of_tok cur) (bool_of_tok noindex) (n_of_int (int_of_string size))
            (n_of_int (int_of_string avail)) (parse dict) (parse skipped) (parse rest) in
        Printf.sprintf "%d/%s" (int_of_nat k) (match e with Model.PEnd -> "end" | Model.PUnexpected -> "unexpected")
    | _ -> failwith "c14.seekpages args");
  (* c14.readat <size> <off> <len> <n> <nil|eof|other> : File.ReadAt over a reader answering (n, err) to the forwarded call *)
  register "c14.readat" (function
    | [size; off; len; n; e] ->
        let e = (match e with "nil" -> Model.RNone | "eof" -> Model.REOF | "other" -> Model.ROther | _ -> failwith "rerr") in
        let nn = n_of_int (int_of_string n) in
        let (rn, re) = Model.file_readat (n_of_int (int_of_string size)) (fun _ _ -> (nn, e))
            (n_of_int (int_of_string off)) (n_of_int (int_of_string len)) in
        Printf.sprintf "%d/%s" (int_of_n rn) (match re with Model.RNone -> "nil" | Model.REOF -> "eof" | Model.ROther -> "other")
    | _ -> failwith "c14.readat args")

(* ---- the copy path (Sink/Copy.v) ---- *)

(* item = p:<kind>:<mech>:<pieces> | c:<kind>:<pieces> | s:<pieces> | f:<mech>
   pieces as in c14.layout; copied and staged items are registered with their
   full length available, c14.copy overrides the available length per item *)
let copy_layouts : (int, Model.n Model.item list * int) Hashtbl.t = Hashtbl.create 16

let parse_items (s : string) =
  let ctr = ref 0 in
  let pieces ps =
    List.map (fun p ->
      let is_str = (p.[0] = 's') in
      let len = int_of_string (String.sub p 1 (String.length p - 1)) in
      let o = !ctr in
      ctr := o + len;
      (is_str, List.init len (fun i -> byte_at (o + i)))) (if ps = "_" then [] else String.split_on_char '.' ps) in
  let plen ps = List.fold_left (fun a (_, d) -> a + List.length d) 0 ps in
  let items = List.map (fun it ->
    match String.split_on_char ':' it with
    | ["p"; k; m; ps] ->
        Model.IPlain { Model.st_kind = kinds.(int_of_string k); st_mech = mech_of_int (int_of_string m); st_pieces = pieces ps }
    | ["c"; k; ps] -> let ps = pieces ps in Model.ICopied (kinds.(int_of_string k), ps, n_of_int (plen ps))
    | ["s"; ps] -> let ps = pieces ps in Model.IStage (ps, n_of_int (plen ps))
    | ["f"; m] -> Model.IFlushDeferred (mech_of_int (int_of_string m))
    | _ -> failwith "item") (String.split_on_char ';' s) in
  (items, !ctr)

(* spec = idx:avail+idx:avail... ("_" = none): the available length of the items at these indexes *)
let apply_short (items : Model.n Model.item list) (spec : string) =
  if spec = "_" || spec = "" then items else begin
    let ov = List.map (fun x -> match String.split_on_char ':' x with
      | [i; a] -> (int_of_string i, n_of_int (int_of_string a))
      | _ -> failwith "short spec") (String.split_on_char '+' spec) in
    List.mapi (fun i it ->
      match List.assoc_opt i ov with
      | None -> it
      | Some a ->
          (match it with
           | Model.ICopied (k, ps, _) -> Model.ICopied (k, ps, a)
           | Model.IStage (ps, _) -> Model.IStage (ps, a)
           | _ -> failwith "short spec designates an item without a source")) items
  end

let tok_of_cerr = function
  | Model.CNil -> "nil" | Model.CSrc -> "unexpected-eof" | Model.CDst e -> tok_of_err e

let copy_verdict cnt items buf fk k =
  let bufsize = if buf <= 0 then None else Some (n_of_int buf) in
  let (((e, i), pos), complete) = Model.copy_verdict cnt (fault_of k fk) bufsize items in
  Printf.sprintf "%s/%d/%d/%s" (tok_of_cerr e) (int_of_nat i) (int_of_n pos) (tok_of_bool complete)

let ranges_tok rs =
  if rs = [] then "_" else String.concat "," (List.map (fun (o, l) -> Printf.sprintf "%d:%d" (int_of_n o) (int_of_n l)) rs)

(* row = start:size:cioff:cilen:oioff:oilen:bloomoff:bloomhdr:h.b.h.b... *)
let parse_table size fs b rows =
  let n s = n_of_int (int_of_string s) in
  let row r = match String.split_on_char ':' r with
    | [st; sz; cio; cil; oio; oil; bo; bh; pg] ->
        let rec pairs = function
          | h :: b :: rest -> (n h, n b) :: pairs rest
          | [] -> []
          | _ -> failwith "pages" in
        { Model.ck_start = n st; ck_size = n sz;
          ck_pages = pairs (if pg = "_" then [] else String.split_on_char '.' pg);
          ck_ci = (n cio, n cil); ck_oi = (n oio, n oil); ck_bloom = (n bo, n bh) }
    | _ -> failwith "row" in
  { Model.ft_size = n size; ft_footer = n fs; ft_bufsize = n b;
    ft_rows = List.map row (if rows = "_" then [] else String.split_on_char ';' rows) }

let () =
  register "c14.copylayout" (function
    | [id; s] ->
        let (items, total) = parse_items s in
        Hashtbl.replace copy_layouts (int_of_string id) (items, total);
        Printf.sprintf "ok %d %d" (List.length items) total
    | _ -> failwith "c14.copylayout args");
  register "c14.copydrop" (function
    | [id] -> Hashtbl.remove copy_layouts (int_of_string id); "ok"
    | _ -> failwith "c14.copydrop args");
  (* c14.copy <cnt 1|0> <layout> <bufsize> <none|err|short> <k,k,...> <short spec>  ->  err/item/pos/complete,... *)
  register "c14.copy" (function
    | [cnt; lay; buf; fk; ks; spec] ->
        let (items, _) = try Hashtbl.find copy_layouts (int_of_string lay) with Not_found -> failwith "unknown copy layout" in
        let items = apply_short items spec in
        let buf = int_of_string buf and cnt = bool_of_tok cnt in
        String.concat "," (List.map (fun k -> copy_verdict cnt items buf fk (int_of_string k)) (split_on ',' ks))
    | _ -> failwith "c14.copy args");
  (* c14.copyshort <cnt> <layout> <bufsize> <spec;spec;...>: destination without fault  ->  verdict,... *)
  register "c14.copyshort" (function
    | [cnt; lay; buf; specs] ->
        let (items, _) = try Hashtbl.find copy_layouts (int_of_string lay) with Not_found -> failwith "unknown copy layout" in
        let buf = int_of_string buf and cnt = bool_of_tok cnt in
        String.concat "," (List.map (fun spec -> copy_verdict cnt (apply_short items spec) buf "none" 0) (String.split_on_char ';' specs))
    | _ -> failwith "c14.copyshort args");
  (* c14.demand <size> <footer length> <bufsize> <rows>  ->  open reads | reads of chunk 0 | reads of chunk 1 ... *)
  register "c14.demand" (function
    | [size; fs; b; rows] ->
        let t = parse_table size fs b rows in
        String.concat "|" (ranges_tok (Model.open_demand t) :: List.map (fun c -> ranges_tok (Model.chunk_reads t.Model.ft_bufsize c)) t.Model.ft_rows)
    | _ -> failwith "c14.demand args");
  (* c14.declared <size> <footer length> <bufsize> <rows>  ->  declared ranges | needed ranges *)
  register "c14.declared" (function
    | [size; fs; b; rows] ->
        let t = parse_table size fs b rows in
        ranges_tok (Model.declared_ranges t) ^ "|" ^ ranges_tok (Model.needed_ranges t)
    | _ -> failwith "c14.declared args")

(* bloom filter lookups over a failing source (Sink/Bloom.v)
   c14.bloom <part,part,...>   part = flags needs_read faulted clean [lazy], e.g. 1101
   ->  absent|maybe|failed/<filters consulted> *)
let () =
  register "c14.bloom" (function
    | [parts] ->
        let ps = List.map (fun p ->
          if String.length p <> 3 && String.length p <> 4 then failwith "part";
          { Model.p_needs_read = (p.[0] = '1'); p_faulted = (p.[1] = '1'); p_clean = (p.[2] = '1');
            p_lazy = (String.length p = 4 && p.[3] = '1') })
          (if parts = "_" then [] else split_on ',' parts) in
        let (a, n) = Model.lookup ps in
        Printf.sprintf "%s/%d" (match a with Model.Absent -> "absent" | Model.Maybe -> "maybe" | Model.Failed -> "failed") (int_of_nat n)
    | _ -> failwith "c14.bloom args")
