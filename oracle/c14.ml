open Conv

(* layouts are registered once and referred to by number *)
let layouts : (int, Model.n Model.site list * int) Hashtbl.t = Hashtbl.create 16

let kinds = Array.of_list Model.all_kinds

let mech_of_int = function
  | 0 -> Model.MWrite | 1 -> Model.MWriteTo | 2 -> Model.MLowerWriteTo | 3 -> Model.MLowerCopy
  | _ -> failwith "mech"

(* the byte at absolute offset o of the modelled file *)
let byte_at o = byte_tbl.(o mod 251)

(* site = kind:mech:piece.piece...   piece = s<len> | b<len> (decimal) *)
let parse_layout (s : string) =
  let off = ref 0 in
  let sites = List.map (fun site ->
    match String.split_on_char ':' site with
    | [k; m; ps] ->
        let pieces = List.map (fun p ->
          let is_str = (p.[0] = 's') in
          let len = int_of_string (String.sub p 1 (String.length p - 1)) in
          let o = !off in
          off := o + len;
          (is_str, List.init len (fun i -> byte_at (o + i)))) (if ps = "_" then [] else String.split_on_char '.' ps) in
        { Model.st_kind = kinds.(int_of_string k); st_mech = mech_of_int (int_of_string m); st_pieces = pieces }
    | _ -> failwith "site") (String.split_on_char ';' s) in
  (sites, !off)

let tok_of_err = function Model.ENone -> "nil" | Model.ESink -> "sink" | Model.EShort -> "short"

let fault_of k = function
  | "none" -> Model.NoFault
  | "err" -> Model.ErrAt (n_of_int k)
  | "short" -> Model.ShortAt (n_of_int k)
  | _ -> failwith "fault"

let verdict cur lay buf fk k =
  let (sites, _) = try Hashtbl.find layouts lay with Not_found -> failwith "unknown layout" in
  let bufsize = if buf <= 0 then None else Some (n_of_int buf) in
  let (((e, i), pos), complete) = Model.close_verdict cur (fault_of k fk) bufsize sites in
  Printf.sprintf "%s/%d/%d/%s" (tok_of_err e) (int_of_nat i) (int_of_n pos) (tok_of_bool complete)

let () =
  register "c14.layout" (function
    | [id; s] ->
        let (sites, total) = parse_layout s in
        Hashtbl.replace layouts (int_of_string id) (sites, total);
        Printf.sprintf "ok %d %d" (List.length sites) total
    | _ -> failwith "c14.layout args");
  register "c14.drop" (function
    | [id] -> Hashtbl.remove layouts (int_of_string id); "ok"
    | _ -> failwith "c14.drop args");
  (* c14.close <cur 1|0> <layout> <bufsize, 0 = none> <none|err|short> <k,k,...>  ->  err/site/pos/complete,... *)
  register "c14.close" (function
    | [cur; lay; buf; fk; ks] ->
        let lay = int_of_string lay and buf = int_of_string buf and cur = bool_of_tok cur in
        String.concat "," (List.map (fun k -> verdict cur lay buf fk (int_of_string k)) (split_on ',' ks))
    | _ -> failwith "c14.close args");
  register "c14.flags" (function
    | [] | [""] ->
        String.concat "," (List.map (fun k -> tok_of_bool (Model.site_checked k)) Model.all_kinds)
        ^ " " ^ tok_of_bool Model.all_sites_checked
    | _ -> failwith "c14.flags args");
  (* c14.open <has_key> <L> <hdr bytes> <tail bytes> <decodes>  ->  ok | error class *)
  register "c14.open" (function
    | [hk; l; hdr; tail; dec] ->
        (match Model.open_verdict (bool_of_tok hk) (n_of_int (int_of_string l)) (bytes_of_tok hdr) (bytes_of_tok tail) (bool_of_tok dec) with
         | None -> "ok"
         | Some Model.OShortHeader -> "short-header"
         | Some Model.OBadHeaderMagic -> "bad-header-magic"
         | Some Model.ONeedDecryption -> "need-decryption"
         | Some Model.OShortTail -> "short-tail"
         | Some Model.OBadTailMagic -> "bad-tail-magic"
         | Some Model.OFooterRange -> "footer-range"
         | Some Model.OFooterDecode -> "footer-decode")
    | _ -> failwith "c14.open args");
  (* c14.pages <cur> <size> <avail> <header:body,...>  ->  <pages returned>/<end|unexpected> *)
  register "c14.pages" (function
    | [cur; size; avail; pages] ->
        let ps = List.map (fun x -> match String.split_on_char ':' x with
          | [h; b] -> (n_of_int (int_of_string h), n_of_int (int_of_string b))
          | _ -> failwith "page") (split_on ',' pages) in
        let (k, e) = Model.read_pages (bool_of_tok cur) (n_of_int (int_of_string size)) (n_of_int (int_of_string avail)) Model.N0 ps in
        Printf.sprintf "%d/%s" (int_of_nat k) (match e with Model.PEnd -> "end" | Model.PUnexpected -> "unexpected")
    | _ -> failwith "c14.pages args");
  (* c14.readat <size> <off> <len> <n> <nil|eof|other> : File.ReadAt over a reader answering (n, err) to the forwarded call *)
  register "c14.readat" (function
    | [size; off; len; n; e] ->
        let e = (match e with "nil" -> Model.RNone | "eof" -> Model.REOF | "other" -> Model.ROther | _ -> failwith "rerr") in
        let nn = n_of_int (int_of_string n) in
        let (rn, re) = Model.file_readat (n_of_int (int_of_string size)) (fun _ _ -> (nn, e))
            (n_of_int (int_of_string off)) (n_of_int (int_of_string len)) in
        Printf.sprintf "%d/%s" (int_of_n rn) (match re with Model.RNone -> "nil" | Model.REOF -> "eof" | Model.ROther -> "other")
    | _ -> failwith "c14.readat args")
