(* C11 oracle: the decision cascade of WriteRowGroup, the batches of
   copyColumnValues and the re-based page locations of copied chunks.

   Token formats (no spaces inside a token):
     switches  two chars 0/1: disableWriteCopy disableWriteReencode
     writer    set.enc.maxrows.ncols          (0/1, 0/1, hex, decimal)
     tree      nodes in preorder separated by ';'
     node      kind!present!equal!rows!nsegs!cols
               kind: F B R M G S0 S1 C D E X ; rows hex ; nsegs decimal
               cols: col tokens separated by ',' or "_"
     col       class:flags:styp:dtyp:scodec:dcodec:bloomcodec:numbytes:filtersize:stats:dpagetype:denc:dictmax:dictsize:dictfilter
               class: F B O, prefixed by one R per range view
               flags: 16 chars 0/1 (src_encrypted dst_enc_key dst_filter bloom_offset bloom_length
                      header_ok split_block xxhash uncompressed column_index offset_index dst_dict
                      src_page_header_stats dst_page_header_stats src_dict_page src_dict_header_ok)
               dictmax: dst DictionaryMaxBytes ; dictsize: uncompressed size in the source dictionary page header
               dictfilter: dst filter size for the number of values in the source dictionary page header
               bloomcodec: N or hex ; stats: pt.enc/pt.enc/... or "_" ; page types are thrift codes 0..3 *)
open Conv
open Model

let page_type_of s = match s with
  | "0" -> PTData | "1" -> PTIndex | "2" -> PTDict | "3" -> PTDataV2
  | _ -> failwith ("page type " ^ s)

let rec class_of (s : Stdlib.String.t) : chunk_class =
  if s = "F" then CFile else if s = "B" then CBuf else if s = "O" then COther
  else if String.length s > 1 && s.[0] = 'R' then CRange (class_of (String.sub s 1 (String.length s - 1)))
  else failwith ("class " ^ s)

let col_of (s : Stdlib.String.t) : col =
  match String.split_on_char ':' s with
  | [cls; fl; st; dt; sc; dc; bc; nb; fs; stats; dpt; de; dmax; dsize; dfs] ->
      if String.length fl <> 16 then failwith "flags";
      let b i = fl.[i] = '1' in
      { c_class = class_of cls; c_src_encrypted = b 0; c_dst_enc_key = b 1;
        c_src_type = n_of_hex st; c_dst_type = n_of_hex dt;
        c_src_codec = n_of_hex sc; c_dst_codec = n_of_hex dc;
        c_dst_filter = b 2; c_src_bloom_offset = b 3; c_src_bloom_length = b 4;
        c_dst_bloom_codec = opt_of_tok n_of_hex bc;
        c_src_bloom_header_ok = b 5; c_src_bloom_split_block = b 6; c_src_bloom_xxhash = b 7;
        c_src_bloom_uncompressed = b 8;
        c_src_bloom_num_bytes = n_of_hex nb; c_dst_filter_size = n_of_hex fs; c_dst_filter_size_dict = n_of_hex dfs;
        c_src_column_index = b 9; c_src_offset_index = b 10;
        c_src_encoding_stats =
          List.map (fun t -> match String.split_on_char '.' t with
                      | [p; e] -> (page_type_of p, n_of_hex e)
                      | _ -> failwith "stat") (split_on '/' stats);
        c_dst_page_type = page_type_of dpt; c_dst_encoding = n_of_hex de;
        c_dst_dict = b 11;
        c_dst_dict_max = n_of_hex dmax; c_src_dict_page = b 14; c_src_dict_header_ok = b 15;
        c_src_dict_uncompressed = n_of_hex dsize;
        c_src_page_header_stats = b 12; c_dst_page_header_stats = b 13 }
  | _ -> failwith ("col " ^ s)

let kind_of s = match s with
  | "F" -> KFile | "B" -> KBuffer | "R" -> KRange | "M" -> KMulti | "G" -> KMerged
  | "S0" -> KSortedSegments false | "S1" -> KSortedSegments true
  | "C" -> KConverted | "D" -> KDedup | "E" -> KEmpty | "X" -> KForeign
  | _ -> failwith ("kind " ^ s)

(* preorder list of nodes -> tree *)
let tree_of (s : Stdlib.String.t) : rg =
  let nodes = ref (String.split_on_char ';' s) in
  let rec parse () =
    match !nodes with
    | [] -> failwith "tree: missing node"
    | t :: rest ->
        nodes := rest;
        (match String.split_on_char '!' t with
         | [k; p; e; rows; nsegs; cols] ->
             let cols = List.map col_of (split_on ',' cols) in
             let n = int_of_string nsegs in
             let segs = List.init n (fun _ -> ()) |> List.map (fun () -> parse ()) in
             RG (kind_of k, bool_of_tok p, bool_of_tok e, n_of_hex rows, cols, segs)
         | _ -> failwith ("node " ^ t)) in
  let r = parse () in
  if !nodes <> [] then failwith "tree: trailing nodes";
  r

let switches_of (s : Stdlib.String.t) : switches =
  if String.length s <> 2 then failwith "switches";
  { sw_disable_copy = (s.[0] = '1'); sw_disable_reencode = (s.[1] = '1') }

let writer_of (s : Stdlib.String.t) : writer =
  match String.split_on_char '.' s with
  | [set; enc; maxrows; ncols] ->
      { w_schema_set = bool_of_tok set; w_encryption = bool_of_tok enc;
        w_max_rows = n_of_hex maxrows; w_ncols = nat_of_int (int_of_string ncols) }
  | _ -> failwith "writer"

let path_name = function
  | PReject -> "reject" | PPacked -> "packed" | PCopy -> "copy" | PReencode -> "reencode" | PRows -> "rows"

let action_tok = function
  | ACopy (n, rows) -> Printf.sprintf "C%d:%s" (int_of_nat n) (hex_of_n rows)
  | AReencode rows -> "R:" ^ hex_of_n rows
  | APack (n, rows) -> Printf.sprintf "P%d:%s" (int_of_nat n) (hex_of_n rows)
  | ARows rows -> "W:" ^ hex_of_n rows
  | AReject -> "X"

let seg_chunk_of (s : Stdlib.String.t) : seg_chunk =
  match String.split_on_char '.' s with
  | [e; d; v] -> { sg_exact = bool_of_tok e; sg_declared = n_of_hex d; sg_delivered = n_of_hex v }
  | _ -> failwith ("chunk " ^ s)

let nats_of s = List.map (fun t -> nat_of_int (int_of_string t)) (split_on ',' s)
let tok_of_nats l = tok_of_list (fun n -> string_of_int (int_of_nat n)) l

let () =
  register "c11.decide" (function
    | [sw; w; t] -> path_name (decide (switches_of sw) (writer_of w) (tree_of t))
    | _ -> failwith "c11.decide args");
  register "c11.plan" (function
    | [sw; w; t; fuel] ->
        let acts = plan (nat_of_int (int_of_string fuel)) (switches_of sw) (writer_of w) (tree_of t) in
        Printf.sprintf "%s %d %d" (tok_of_list action_tok acts)
          (int_of_nat (copy_count acts)) (int_of_nat (reencode_count acts))
    | _ -> failwith "c11.plan args");
  register "c11.groups" (function
    | [sw; w; t; fuel; written] ->
        let wr = writer_of w in
        let acts = plan (nat_of_int (int_of_string fuel)) (switches_of sw) wr (tree_of t) in
        (match out_row_groups wr (n_of_hex written) acts with
         | Some l -> tok_of_list hex_of_n l
         | None -> "INEXACT")
    | _ -> failwith "c11.groups args");
  (* lengths of the batches writeSegmentsPacked makes of the segments of the top-level row group
     ("_" when the call does not take the segment branch) *)
  register "c11.packs" (function
    | [sw; w; t] ->
        let wr = writer_of w and r = tree_of t in
        (match decide (switches_of sw) wr r, segments_of r with
         | PPacked, Some segs -> tok_of_list (fun b -> string_of_int (List.length b)) (pack_segments wr segs)
         | _, _ -> "_")
    | _ -> failwith "c11.packs args");
  (* bytes of the bloom filter of a column written column-wise from the chunks exact.declared.delivered *)
  register "c11.packfilter" (function
    | [bits; chunks] -> hex_of_n (pack_filter_bytes (n_of_hex bits) (List.map seg_chunk_of (split_on ',' chunks)))
    | _ -> failwith "c11.packfilter args");
  register "c11.rgfilter" (function
    | [bits; rep; rows; maxrows; chunk] ->
        hex_of_n (rowgroup_filter_bytes (n_of_hex bits) (bool_of_tok rep) (n_of_hex rows) (n_of_hex maxrows) (seg_chunk_of chunk))
    | _ -> failwith "c11.rgfilter args");
  register "c11.column" (function
    | [c] -> tok_of_bool (column_copyable (col_of c))
    | _ -> failwith "c11.column args");
  register "c11.batches" (function
    | [rep; cap; pages; reps] ->
        (match batch_cuts (bool_of_tok rep) (nat_of_int (int_of_string cap)) (nats_of pages) (nats_of reps) with
         | Some l -> tok_of_nats l
         | None -> "NONE")
    | _ -> failwith "c11.batches args");
  register "c11.batches_pinned" (function
    | [cap; pages; reps] ->
        (match batch_cuts_pinned (nat_of_int (int_of_string cap)) (nats_of pages) (nats_of reps) with
         | Some l -> tok_of_nats l
         | None -> "NONE")
    | _ -> failwith "c11.batches_pinned args");
  register "c11.rebase" (function
    | [dict; data; total; locs; out] ->
        let m = { sc_dict_offset = z_of_hex dict; sc_data_offset = z_of_hex data;
                  sc_total_compressed = z_of_hex total;
                  sc_locs = List.map (fun o -> { pl_offset = z_of_hex o; pl_size = Z0; pl_first_row = Z0 })
                              (split_on ',' locs) } in
        (match rebased_offsets m (z_of_hex out) with
         | Some ((d, p), l) -> Printf.sprintf "%s %s %s" (hex_of_z d) (hex_of_z p) (tok_of_list hex_of_z l)
         | None -> "NONE")
    | _ -> failwith "c11.rebase args")
