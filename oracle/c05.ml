open Conv

let numkind = function
  | "bool" -> Model.NBool | "int32" -> Model.NInt32 | "int64" -> Model.NInt64
  | "uint32" -> Model.NUint32 | "uint64" -> Model.NUint64
  | "float" -> Model.NFloat | "double" -> Model.NDouble | "int96" -> Model.NInt96
  | s -> failwith ("numkind " ^ s)

let bytekind s =
  match s with
  | "bytes" -> Model.BBytes | "be128" -> Model.BBe128 | "decimal" -> Model.BDecimal
  | _ ->
      if String.length s > 5 && String.sub s 0 5 = "flba:" then
        Model.BFlba (nat_of_int (int_of_string (String.sub s 5 (String.length s - 5))))
      else failwith ("bytekind " ^ s)

let is_num = function
  | "bool" | "int32" | "int64" | "uint32" | "uint64" | "float" | "double" | "int96" -> true
  | _ -> false

(* a page: nv:nn:min:max or nv:nn:N *)
let page conv tok =
  match String.split_on_char ':' tok with
  | [nv; nn; "N"] -> { Model.pi_num_values = z_of_hex nv; pi_num_nulls = z_of_hex nn; pi_bounds = None }
  | [nv; nn; mn; mx] -> { Model.pi_num_values = z_of_hex nv; pi_num_nulls = z_of_hex nn; pi_bounds = Some (conv mn, conv mx) }
  | _ -> failwith ("page " ^ tok)

let show_index show (ci : 'a Model.col_index) =
  let np = if ci.Model.ci_null_pages = [] then "_" else String.concat "" (List.map tok_of_bool ci.Model.ci_null_pages) in
  String.concat "|" [
    np;
    tok_of_list hex_of_z ci.Model.ci_null_counts;
    tok_of_list show ci.Model.ci_min_values;
    tok_of_list show ci.Model.ci_max_values;
    hex_of_z ci.Model.ci_order ]

let show_bounds show = function
  | None -> "N"
  | Some (a, b) -> show a ^ ":" ^ show b

let sign z = match z with Model.Z0 -> "0" | Model.Zpos _ -> "1" | Model.Zneg _ -> "-1"

let () =
  register "c05.index" (function
    | [kind; limit; pages] ->
        if is_num kind then
          show_index hex_of_n (Model.index_num (numkind kind) (list_of_tok (page n_of_hex) pages))
        else
          show_index tok_of_bytes (Model.index_byte (bytekind kind) (z_of_hex limit) (list_of_tok (page bytes_of_tok) pages))
    | _ -> failwith "c05.index args");
  register "c05.bounds" (function
    | [kind; values] ->
        if is_num kind then show_bounds hex_of_n (Model.bounds_num (numkind kind) (list_of_tok n_of_hex values))
        else show_bounds tok_of_bytes (Model.bounds_byte (bytekind kind) (list_of_tok bytes_of_tok values))
    | _ -> failwith "c05.bounds args");
  register "c05.dictbounds" (function
    | [kind; values] ->
        if is_num kind then show_bounds hex_of_n (Model.dict_bounds_num (numkind kind) (list_of_tok n_of_hex values))
        else show_bounds tok_of_bytes (Model.bounds_byte (bytekind kind) (list_of_tok bytes_of_tok values))
    | _ -> failwith "c05.dictbounds args");
  register "c05.chunk" (function
    | [kind; pages] ->
        if is_num kind then
          let st = Model.chunk_num (numkind kind) (list_of_tok (page n_of_hex) pages) in
          String.concat "|" [hex_of_z st.Model.cs_num_values; hex_of_z st.Model.cs_null_count; show_bounds hex_of_n st.Model.cs_bounds]
        else
          let st = Model.chunk_byte (bytekind kind) (list_of_tok (page bytes_of_tok) pages) in
          String.concat "|" [hex_of_z st.Model.cs_num_values; hex_of_z st.Model.cs_null_count; show_bounds tok_of_bytes st.Model.cs_bounds]
    | _ -> failwith "c05.chunk args");
  (* the deprecated min / max of the chunk statistics: dep = 1 when the writer
     has DeprecatedDataPageStatistics(true); answer min:max with N for an absent field *)
  register "c05.chunkdep" (function
    | [kind; dep; pages] ->
        let dep = (dep = "1") in
        let opt show = function None -> "N" | Some v -> show v in
        if is_num kind then
          let (mn, mx) = Model.chunk_dep_num (numkind kind) dep (list_of_tok (page n_of_hex) pages) in
          opt hex_of_n mn ^ ":" ^ opt hex_of_n mx
        else
          let (mn, mx) = Model.chunk_dep_byte (bytekind kind) dep (list_of_tok (page bytes_of_tok) pages) in
          opt tok_of_bytes mn ^ ":" ^ opt tok_of_bytes mx
    | _ -> failwith "c05.chunkdep args");
  register "c05.trunc_max" (function
    | [limit; v] -> tok_of_bytes (Model.truncate_max (nat_of_int (int_of_string limit)) (bytes_of_tok v))
    | _ -> failwith "c05.trunc_max args");
  register "c05.trunc_min" (function
    | [limit; v] -> tok_of_bytes (Model.truncate_min (nat_of_int (int_of_string limit)) (bytes_of_tok v))
    | _ -> failwith "c05.trunc_min args");
  register "c05.cmp" (function
    | [kind; pairs] ->
        (* pairs: a:b,a:b,... *)
        let one tok =
          match String.split_on_char ':' tok with
          | [a; b] ->
              if is_num kind then sign (Model.cmp_num (numkind kind) (n_of_hex a) (n_of_hex b))
              else sign (Model.cmp_byte (bytekind kind) (bytes_of_tok a) (bytes_of_tok b))
          | _ -> failwith "pair" in
        tok_of_list one (split_on ',' pairs)
    | _ -> failwith "c05.cmp args");
  (* the column index of a MultiRowGroup column chunk: chunks separated by '/',
     a chunk is <IsAscending><IsDescending>~page,page,... with page = N (null
     page) or min:max; answer: <IsAscending><IsDescending> of the multi index *)
  register "c05.multi" (function
    | [kind; chunks] ->
        let parse conv tok =
          match String.split_on_char '~' tok with
          | [flags; pages] when String.length flags = 2 ->
              let pg p =
                match String.split_on_char ':' p with
                | ["N"] -> None
                | [mn; mx] -> Some (conv mn, conv mx)
                | _ -> failwith ("multi page " ^ p) in
              ((flags.[0] = '1', flags.[1] = '1'), list_of_tok pg pages)
          | _ -> failwith ("multi chunk " ^ tok) in
        let answer cmp conv =
          let cs = List.map (parse conv) (split_on '/' chunks) in
          let idx = List.map snd cs in
          let a = Model.multi_is_ordered cmp true (List.map (fun c -> fst (fst c)) cs) idx in
          let d = Model.multi_is_ordered cmp false (List.map (fun c -> snd (fst c)) cs) idx in
          tok_of_bool a ^ tok_of_bool d in
        if is_num kind then answer (Model.cmp_num (numkind kind)) n_of_hex
        else answer (Model.cmp_byte (bytekind kind)) bytes_of_tok
    | _ -> failwith "c05.multi args");
  register "c05.hist" (function
    | [maxl; levels] ->
        let ml = int_of_string maxl in
        let col = List.init (ml + 1) (fun _ -> Model.Z0) in
        let (c, p) = Model.level_histograms (nat_of_int ml) col (list_of_tok (fun s -> nat_of_int (int_of_string s)) levels) in
        tok_of_list hex_of_z p
    | _ -> failwith "c05.hist args")
