open Conv

(* c10.run <pinned_order> <pinned_page> <schema> <sorting> <ops>
     schema   comma list of max definition levels (hex; 0 = required column)
     sorting  comma list of  <col>:<desc>:<nullsfirst>   (col decimal, flags 0/1)
     ops      '/' separated:  W<rows> (Value path)  T<rows> (typed path)  S<i>:<j>  P
              C<k> (Page of column k alone: the column-level API)
              rows '|' separated, cells ';' separated:  i<hex Z>  x<hex bytes>  n<hex level>
   answer:  <logical rows>#<rows read from the pages>#<less matrix>#<comparator sign matrix>
     rows '|' separated, cells ';' separated: i<hex>@<level> x<hex>@<level> n@<level> *)

let sortcol_of_tok t =
  match String.split_on_char ':' t with
  | [k; d; n] -> { Model.sc_col = nat_of_int (int_of_string k); sc_desc = bool_of_tok d; sc_nf = bool_of_tok n }
  | _ -> failwith "sortcol"

let wval_of_tok t =
  if String.length t = 0 then failwith "cell" else
  let rest = String.sub t 1 (String.length t - 1) in
  match t.[0] with
  | 'i' -> Model.WVal (Model.VI (z_of_hex rest))
  | 'x' -> Model.WVal (Model.VB (bytes_of_tok t))
  | 'n' -> Model.WNull (n_of_hex rest)
  | _ -> failwith "cell kind"

let batch_of_tok s =
  if s = "" then [] else
  List.map (fun r -> List.map wval_of_tok (String.split_on_char ';' r)) (String.split_on_char '|' s)

let op_of_tok t =
  if String.length t = 0 then failwith "op" else
  let rest = String.sub t 1 (String.length t - 1) in
  match t.[0] with
  | 'W' -> Model.OWrite (false, batch_of_tok rest)
  | 'T' -> Model.OWrite (true, batch_of_tok rest)
  | 'S' -> (match String.split_on_char ':' rest with
            | [i; j] -> Model.OSwap (nat_of_int (int_of_string i), nat_of_int (int_of_string j))
            | _ -> failwith "swap")
  | 'P' -> Model.OPage
  | 'C' -> Model.OPageCol (nat_of_int (int_of_string rest))
  | _ -> failwith "op kind"

let tok_of_cell (v, d) =
  (match v with
   | None -> "n"
   | Some (Model.VI z) -> "i" ^ hex_of_z z
   | Some (Model.VB b) -> tok_of_bytes b) ^ "@" ^ hex_of_n d

let tok_of_rows rs =
  if rs = [] then "_" else
  String.concat "|" (List.map (fun r -> String.concat ";" (List.map tok_of_cell r)) rs)

let sign z = match z with Model.Z0 -> "0" | Model.Zpos _ -> "+" | Model.Zneg _ -> "-"

let () =
  register "c10.run" (function
    | [po; pp; schema; sorting; ops] ->
        let schema = list_of_tok n_of_hex schema in
        let sorting = list_of_tok sortcol_of_tok sorting in
        let ops = if ops = "_" then [] else List.map op_of_tok (String.split_on_char '/' ops) in
        let (((rs, prs), less), cm) = Model.c10_run (bool_of_tok po) (bool_of_tok pp) schema sorting ops in
        let mat f m = if m = [] then "_" else String.concat "|" (List.map (fun r -> String.concat "" (List.map f r)) m) in
        tok_of_rows rs ^ "#" ^ tok_of_rows prs ^ "#" ^ mat tok_of_bool less ^ "#" ^ mat sign cm
    | _ -> failwith "c10.run args")

(* c10.readat <schema> <sorting> <ops> <col> <off> <n>     ColumnBuffers()[col].ReadValuesAt(values[:n], off)
   after the history (schema, sorting, ops as for c10.run; col, off, n decimal)
   answer: the cells read, ';' separated ("_" when none) *)
let () =
  register "c10.readat" (function
    | [schema; sorting; ops; k; off; n] ->
        let schema = list_of_tok n_of_hex schema in
        let sorting = list_of_tok sortcol_of_tok sorting in
        let ops = if ops = "_" then [] else List.map op_of_tok (String.split_on_char '/' ops) in
        let nat t = nat_of_int (int_of_string t) in
        let cs = Model.c10_read_at schema sorting ops (nat k) (nat off) (nat n) in
        if cs = [] then "_" else String.concat ";" (List.map tok_of_cell cs)
    | _ -> failwith "c10.readat args")

(* c10.rep <maxdef> <nullsfirst> <descending> <ops>      one repeated column
     ops '/' separated:  W<values>  S<i>:<j>  P ;  values ';' separated  <rep>.<def>.<i<hex>|x<hex>|n>
   answer: <logical rows>#<rows read from the page>#<less matrix>#<comparator sign matrix>; rows '|' separated *)
let rval_of_tok t =
  match String.split_on_char '.' t with
  | [r; d; v] ->
      { Model.rv_rep = n_of_hex r; rv_def = n_of_hex d;
        rv_val = (if v = "n" then None
                  else if v.[0] = 'i' then Some (Model.VI (z_of_hex (String.sub v 1 (String.length v - 1))))
                  else Some (Model.VB (bytes_of_tok v))) }
  | _ -> failwith "rval"

let rop_of_tok t =
  if String.length t = 0 then failwith "op" else
  let rest = String.sub t 1 (String.length t - 1) in
  match t.[0] with
  | 'W' -> Model.RWrite (if rest = "" then [] else List.map rval_of_tok (String.split_on_char ';' rest))
  | 'S' -> (match String.split_on_char ':' rest with
            | [i; j] -> Model.RSwap (nat_of_int (int_of_string i), nat_of_int (int_of_string j))
            | _ -> failwith "swap")
  | 'P' -> Model.RPage
  | _ -> failwith "op kind"

let tok_of_rval (v : Model.sval Model.rval) =
  hex_of_n v.Model.rv_rep ^ "." ^ hex_of_n v.Model.rv_def ^ "." ^
  (match v.Model.rv_val with
   | None -> "n"
   | Some (Model.VI z) -> "i" ^ hex_of_z z
   | Some (Model.VB b) -> tok_of_bytes b)

let tok_of_rrows rs =
  if rs = [] then "_" else
  String.concat "|" (List.map (fun r -> String.concat ";" (List.map tok_of_rval r)) rs)

let () =
  register "c10.rep" (function
    | [md; nf; desc; ops] ->
        let ops = if ops = "_" then [] else List.map rop_of_tok (String.split_on_char '/' ops) in
        let (((rs, prs), less), cm) = Model.c10_rep (n_of_hex md) (bool_of_tok nf) (bool_of_tok desc) ops in
        let mat f m = if m = [] then "_" else String.concat "|" (List.map (fun r -> String.concat "" (List.map f r)) m) in
        tok_of_rrows rs ^ "#" ^ tok_of_rrows prs ^ "#" ^ mat tok_of_bool less ^ "#" ^ mat sign cm
    | _ -> failwith "c10.rep args")

(* c10.sw <sorting> <maxrows> <dedupe> <keep_last> <ops>      the SortingWriter
     sorting   as for c10.run (column indexes refer to the cells of a row)
     maxrows   sortRowCount (hex);  dedupe = DropDuplicatedRows;  keep_last = 1 models
               the writer without "defer w.dedupe.reset()" (used by tests of the check only)
     ops '/' separated:  W<rows> (rows '|' separated, cells ';' separated as for c10.run)  F (Flush)
               C (Close)  R (Reset); the rows are numbered 0,1,2,... in the order they appear
   answer: the row numbers of every closed file in order: files '|' separated ("-" when no file was
           closed), numbers ',' separated (hex), "_" for a file without rows *)
let cell_of_wtok t =
  match wval_of_tok t with
  | Model.WVal v -> (Some v, Model.N0)
  | Model.WNull d -> (None, d)

let () =
  register "c10.sw" (function
    | [sorting; maxrows; dedupe; keep; ops] ->
        let sorting = list_of_tok sortcol_of_tok sorting in
        let next = ref 0 in
        let op_of t =
          if String.length t = 0 then failwith "op" else
          let rest = String.sub t 1 (String.length t - 1) in
          match t.[0] with
          | 'W' ->
              let rows = if rest = "" then [] else String.split_on_char '|' rest in
              Model.SWWrite (List.map (fun r ->
                let id = !next in incr next;
                (nat_of_int id, List.map cell_of_wtok (String.split_on_char ';' r))) rows)
          | 'F' -> Model.SWFlush
          | 'C' -> Model.SWClose
          | 'R' -> Model.SWReset
          | _ -> failwith "op kind" in
        let ops = if ops = "_" then [] else List.map op_of (String.split_on_char '/' ops) in
        let files = Model.c10_sw sorting (nat_of_int (int_of_string ("0x" ^ maxrows)))
                      (bool_of_tok dedupe) (bool_of_tok keep) ops in
        if files = [] then "-" else
        String.concat "|" (List.map (fun f ->
          if f = [] then "_" else String.concat "," (List.map (fun n -> Printf.sprintf "%x" (int_of_nat n)) f)) files)
    | _ -> failwith "c10.sw args")
