(* Line driver of the extracted model: one request per line "cmd arg arg ...",
   one answer per line.  Errors are answered as "ERR <message>". *)
let () =
  try
    while true do
      let line = input_line stdin in
      let ans =
        match String.split_on_char ' ' line with
        | [] -> "ERR empty"
        | cmd :: args ->
            (match Hashtbl.find_opt Conv.commands cmd with
             | None -> "ERR unknown command " ^ cmd
             | Some f -> (try f args with
                 | Failure m -> "ERR " ^ m
                 | Not_found -> "ERR not_found"
                 | Invalid_argument m -> "ERR invalid " ^ m
                 | Stack_overflow -> "ERR stack_overflow")) in
      print_string ans; print_char '\n'; flush stdout
    done
  with End_of_file -> ()
