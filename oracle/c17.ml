(* C17: runs operation lists on the abstract writer state machine
   (Reset/Model.v, rows as identifiers) and looks fields up in the
   classification (Reset/Classification.v). *)
open Conv

(* OCaml string <-> Coq string (ascii = Ascii of 8 bools, least significant first) *)
let coq_ascii (c : char) : Model.ascii =
  let n = Char.code c in
  let b i = (n lsr i) land 1 = 1 in
  Model.Ascii (b 0, b 1, b 2, b 3, b 4, b 5, b 6, b 7)

let coq_string (s : Stdlib.String.t) : Model.string =
  let r = ref Model.EmptyString in
  for i = String.length s - 1 downto 0 do r := Model.String (coq_ascii s.[i], !r) done;
  !r

let ocaml_string (s : Model.string) : Stdlib.String.t =
  let buf = Buffer.create 16 in
  let rec go = function
    | Model.EmptyString -> ()
    | Model.String (Model.Ascii (b0, b1, b2, b3, b4, b5, b6, b7), t) ->
        let v i b = if b then 1 lsl i else 0 in
        Buffer.add_char buf (Char.chr (v 0 b0 + v 1 b1 + v 2 b2 + v 3 b3 + v 4 b4 + v 5 b5 + v 6 b6 + v 7 b7));
        go t in
  go s; Buffer.contents buf

(* cfg token:  maxrows:pagerows:encrypted:createdby:col;col;...   col = dict/dictmax/bloom/path.path
   numbers are hex *)
let col_of_tok (s : Stdlib.String.t) : Model.colcfg =
  match String.split_on_char '/' s with
  | [d; m; b; p] ->
      { Model.cc_path = List.map n_of_hex (List.filter (fun x -> x <> "") (String.split_on_char '.' p));
        cc_dict = bool_of_tok d; cc_dict_max = n_of_hex m; cc_bloom = bool_of_tok b }
  | _ -> failwith ("column: " ^ s)

let cfg_of_tok (s : Stdlib.String.t) : Model.config =
  match String.split_on_char ':' s with
  | [mr; pr; e; cb; cols] ->
      { Model.cf_cols = List.map col_of_tok (List.filter (fun x -> x <> "") (String.split_on_char ';' cols));
        cf_max_rows = n_of_hex mr; cf_page_rows = n_of_hex pr; cf_encrypted = bool_of_tok e; cf_created_by = n_of_hex cb }
  | _ -> failwith ("config: " ^ s)

(* kv token: k=v,k=v or _ *)
let kv_of_tok (s : Stdlib.String.t) : (Model.n * Model.n) list =
  list_of_tok (fun t -> match String.split_on_char '=' t with
    | [k; v] -> (n_of_hex k, n_of_hex v) | _ -> failwith "kv") s

(* ops token, comma separated:
   w<start>+<count>  Write of rows start..start+count-1     f Flush    c Close    r Reset    a Abandon
   x<start>+<count>+<k> FailWrite     g<start>+<count> WriteRowGroup     k<key>=<val> SetKeyValueMetadata *)
let rows_of a b = Model.iota (n_of_hex a) (nat_of_int (int_of_string ("0x" ^ b)))

let op_of_tok (t : Stdlib.String.t) : Model.op =
  let body = String.sub t 1 (String.length t - 1) in
  match t.[0] with
  | 'w' -> (match String.split_on_char '+' body with [a; b] -> Model.Write (rows_of a b) | _ -> failwith "w")
  | 'g' -> (match String.split_on_char '+' body with [a; b] -> Model.WriteRG (rows_of a b) | _ -> failwith "g")
  | 'x' -> (match String.split_on_char '+' body with
            | [a; b; k] -> Model.FailWrite (rows_of a b, nat_of_int (int_of_string ("0x" ^ k))) | _ -> failwith "x")
  | 'k' -> (match String.split_on_char '=' body with [a; b] -> Model.SetKV (n_of_hex a, n_of_hex b) | _ -> failwith "k")
  | 'f' -> Model.Flush
  | 'c' -> Model.Close
  | 'r' -> Model.Reset
  | 'a' -> Model.Abandon
  | _ -> failwith ("op: " ^ t)

let show_structure (evs : Model.event list) : Stdlib.String.t =
  let st = Model.structure evs in
  let footers = String.concat "|" (List.map (fun rgs -> tok_of_list hex_of_n rgs) st) in
  let kv = match Model.last_footer evs None with
    | None -> "N"
    | Some f -> tok_of_list (fun (k, v) -> hex_of_n k ^ "=" ^ hex_of_n v) f.Model.ft_kv in
  Printf.sprintf "footers=%s pages=%s kv=%s" (if st = [] then "_" else footers) (hex_of_n (Model.count_pages evs)) kv

let resets = [ "current", Model.lreset; "pinned-aliasing", Model.lreset_pinned;
               "pinned-ordinal", Model.lreset_pinned_ordinal; "pinned-kv", Model.lreset_pinned_kv;
               "pinned-plain", Model.lreset_pinned_plain ]

let () =
  (* c17.run cfg kv ops -> structure of what the current sink received *)
  register "c17.run" (function
    | [cfg; kv; ops] ->
        let s = Model.run_ids (cfg_of_tok cfg) (kv_of_tok kv) (list_of_tok op_of_tok ops) in
        show_structure (Model.observe s)
    | _ -> failwith "c17.run args");
  (* c17.equiv which cfg kv hist ops -> 1 when  run (hist ++ [Reset] ++ ops)  and  run ops  emit the same *)
  register "c17.equiv" (function
    | [which; cfg; kv; hist; ops] ->
        let lr = List.assoc which resets in
        let c = cfg_of_tok cfg and m = kv_of_tok kv in
        let h = list_of_tok op_of_tok hist and o = list_of_tok op_of_tok ops in
        let a = Model.observe (Model.run_ids_gen lr c m (h @ [Model.Reset] @ o)) in
        let b = Model.observe (Model.run_ids c m o) in
        tok_of_bool (a = b)
    | _ -> failwith "c17.equiv args");
  (* c17.totality -> "ok", or what stops C17_classification_total *)
  register "c17.totality" (function
    | _ ->
        let un = List.map (fun (a, b) -> ocaml_string a ^ "." ^ ocaml_string b) Model.unclassified in
        if un <> [] then "unclassified:" ^ String.concat "," un
        else if not Model.classification_total then "not-total"
        else if not Model.classification_no_stale then "stale-entry"
        else if not Model.reset_fields_modelled then "reset-field-not-modelled"
        else "ok");
  (* c17.widen signed bits phys raw,raw,... -> the bit patterns stored in a column of
     physical width phys for Go values of the kind (signed, bits) (Reset/Ints.v) *)
  register "c17.widen" (function
    | [sg; bits; phys; raws] ->
        tok_of_list hex_of_z (Model.widen_column (bool_of_tok sg) (z_of_hex bits) (z_of_hex phys) (list_of_tok z_of_hex raws))
    | _ -> failwith "c17.widen args");
  (* c17.geostats v,v,... -> the geospatial statistics of a row group holding these non-null
     values (Reset/Geo.v).  v = B (unparseable) | code:empty:x:y:z:m  with a bound = N (NaN) |
     min~max, and z, m also _ (the layout has no such dimension); numbers are hex keys *)
  register "c17.geostats" (function
    | [vals] ->
        let range s = match String.split_on_char '~' s with
          | [a; b] -> (z_of_hex a, z_of_hex b) | _ -> failwith ("range: " ^ s) in
        let bound s = if s = "N" then None else Some (range s) in
        let dim s = if s = "_" then None else Some (bound s) in
        let value s =
          if s = "B" then Model.GBad else
          match String.split_on_char ':' s with
          | [code; empty; x; y; z; m] ->
              Model.GGeom { Model.g_code = n_of_hex code; g_empty = bool_of_tok empty; g_x = bound x; g_y = bound y;
                            g_z = dim z; g_m = dim m }
          | _ -> failwith ("value: " ^ s) in
        let show_range (a, b) = hex_of_z a ^ "~" ^ hex_of_z b in
        (match Model.row_group_stats (list_of_tok value vals) with
         | None -> "none"
         | Some st ->
             let types = tok_of_list hex_of_n st.Model.gs_types in
             (match st.Model.gs_bbox with
              | None -> Printf.sprintf "types=%s nobbox" types
              | Some bb -> Printf.sprintf "types=%s x=%s y=%s z=%s m=%s" types (show_range bb.Model.bb_x) (show_range bb.Model.bb_y)
                             (tok_of_opt show_range bb.Model.bb_z) (tok_of_opt show_range bb.Model.bb_m)))
    | _ -> failwith "c17.geostats args");
  (* c17.bloomloc reset bits history rgs -> the bloom filter locations off:len recorded for the
     row groups rgs of a life that follows the row groups of history and a reset
     (Reset/BloomLoc.v).  A row group is off:b<n> (built by the column writer from n values) or
     off:c<len> (copied verbatim with a filter of len bytes); reset = current | pinned *)
  register "c17.bloomloc" (function
    | [which; bits; hist; rgs] ->
        let rg s = match String.split_on_char ':' s with
          | [off; o] when String.length o > 1 ->
              let v = n_of_hex (String.sub o 1 (String.length o - 1)) in
              (n_of_hex off, (if o.[0] = 'c' then Model.Copied v else Model.Built v))
          | _ -> failwith ("row group: " ^ s) in
        let rs = if which = "pinned" then Model.breset_pinned else Model.breset in
        let bits = n_of_hex bits in
        let (_, s) = Model.blife rs bits Model.bnew (list_of_tok rg hist) in
        let (locs, _) = Model.blife rs bits (rs s) (list_of_tok rg rgs) in
        tok_of_list (fun (o, l) -> hex_of_n o ^ ":" ^ hex_of_n l) locs
    | _ -> failwith "c17.bloomloc args");
  register "c17.classify" (function
    | [s; f] -> ocaml_string (Model.classify_name (coq_string s) (coq_string f))
    | _ -> failwith "c17.classify args")
