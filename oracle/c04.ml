open Conv

let nlist s = list_of_tok n_of_hex s
let zlist s = list_of_tok z_of_hex s
let blist s = list_of_tok bytes_of_tok s          (* list of byte strings *)
let out_nlist l = tok_of_list hex_of_n l
let out_zlist l = tok_of_list hex_of_z l
let out_blist l = tok_of_list tok_of_bytes l
let opt f = function None -> "NONE" | Some x -> f x
let k_of s = n_of_int (int_of_string s)

let () =
  register "c04.dbp_enc" (function [k; xs] -> tok_of_bytes (Model.enc_fast (k_of k) (zlist xs)) | _ -> failwith "args");
  (* (the encoders run are those of Enc/DeltaBPFast.v, proved to write the bytes of DeltaBP.enc_g / enc,
     dlba_enc(_g), dba_enc(_g): DeltaBPFastProofs.enc_f_eq, enc_fast_eq, ...; the BYTE_STREAM_SPLIT decoder
     is PlainFast.bss_dec_fast = Plain.bss_dec: Properties/C04.v, C04_oracle_fast_functions) *)
  (* the encoder at any geometry: c04.dbp_enc_g <block size> <mini-blocks> <32|64> <values> *)
  let nat s = nat_of_int (int_of_string s) in
  register "c04.dbp_enc_g" (function [bs; nmb; k; xs] -> tok_of_bytes (Model.enc_f (nat bs) (nat nmb) (k_of k) (zlist xs)) | _ -> failwith "args");
  register "c04.dlba_enc_g" (function [bs; nmb; vs] -> tok_of_bytes (Model.dlba_enc_f (nat bs) (nat nmb) (blist vs)) | _ -> failwith "args");
  (* c04.dba_enc_g <prefix cap> <bs prefixes> <nmb prefixes> <bs suffixes> <nmb suffixes> <values> *)
  register "c04.dba_enc_g" (function [cap; bs1; nmb1; bs2; nmb2; vs] ->
      tok_of_bytes (Model.dba_enc_f (nat cap) (nat bs1) (nat nmb1) (nat bs2) (nat nmb2) (blist vs)) | _ -> failwith "args");
  register "c04.dbp_dec" (function [k; b] ->
      opt (fun (xs, rest) -> out_zlist xs ^ " " ^ tok_of_bytes rest) (Model.dec (k_of k) (bytes_of_tok b)) | _ -> failwith "args");
  register "c04.rle_levels" (function [w; xs] -> opt tok_of_bytes (Model.enc_levels (k_of w) (nlist xs)) | _ -> failwith "args");
  register "c04.rle_int32" (function [w; xs] -> opt tok_of_bytes (Model.enc_int32 (k_of w) (nlist xs)) | _ -> failwith "args");
  register "c04.rle_dec" (function [w; b] -> opt out_nlist (Model.dec_hybrid (k_of w) (bytes_of_tok b)) | _ -> failwith "args");
  register "c04.dict_enc" (function [xs] -> opt tok_of_bytes (Model.enc_dict_indexes (nlist xs)) | _ -> failwith "args");
  register "c04.dict_dec" (function [b] -> opt out_nlist (Model.dec_dict_indexes (bytes_of_tok b)) | _ -> failwith "args");
  register "c04.rle_bool_enc" (function [b] -> tok_of_bytes (Model.enc_boolean (bytes_of_tok b)) | _ -> failwith "args");
  register "c04.rle_bool_dec" (function [n; b] ->
      opt out_nlist (Model.dec_boolean_n (nat_of_int (int_of_string n)) (bytes_of_tok b)) | _ -> failwith "args");
  register "c04.plain_fixed" (function [k; xs] -> tok_of_bytes (Model.plain_fixed (nat_of_int (int_of_string k)) (nlist xs)) | _ -> failwith "args");
  register "c04.plain_fixed_dec" (function [k; b] -> opt out_nlist (Model.dec_plain_fixed (nat_of_int (int_of_string k)) (bytes_of_tok b)) | _ -> failwith "args");
  register "c04.plain_ba" (function [vs] -> tok_of_bytes (Model.plain_byte_array (blist vs)) | _ -> failwith "args");
  register "c04.plain_ba_dec" (function [b] ->
      let bs = bytes_of_tok b in opt out_blist (Model.dec_plain_byte_array (nat_of_int (List.length bs + 1)) bs) | _ -> failwith "args");
  register "c04.plain_flba_dec" (function [k; b] -> opt out_blist (Model.dec_plain_flba (nat_of_int (int_of_string k)) (bytes_of_tok b)) | _ -> failwith "args");
  register "c04.plain_bool" (function [bits] -> tok_of_bytes (Model.plain_boolean (nlist bits)) | _ -> failwith "args");
  register "c04.plain_bool_dec" (function [n; b] -> opt out_nlist (Model.dec_plain_boolean (nat_of_int (int_of_string n)) (bytes_of_tok b)) | _ -> failwith "args");
  register "c04.bss_enc" (function [k; vs] -> tok_of_bytes (Model.bss_enc (nat_of_int (int_of_string k)) (blist vs)) | _ -> failwith "args");
  register "c04.bss_dec" (function [k; b] -> opt out_blist (Model.bss_dec_fast (nat_of_int (int_of_string k)) (bytes_of_tok b)) | _ -> failwith "args");
  register "c04.dlba_enc" (function [vs] -> tok_of_bytes (Model.dlba_enc_fast (blist vs)) | _ -> failwith "args");
  register "c04.dlba_dec" (function [b] -> opt out_blist (Model.dlba_dec (bytes_of_tok b)) | _ -> failwith "args");
  register "c04.dba_enc" (function [vs] -> tok_of_bytes (Model.dba_enc_fast (blist vs)) | _ -> failwith "args");
  register "c04.dba_dec" (function [b] -> opt out_blist (Model.dba_dec (bytes_of_tok b)) | _ -> failwith "args");
  (* models of the Go decoders: answer "GOK <values>", "GERR" or "GPANIC" *)
  let gres f = function Model.GOk x -> "GOK " ^ f x | Model.GErr -> "GERR" | Model.GPanic -> "GPANIC" in
  register "c04.go_rle_dec" (function [kind; w; b] ->
      let bs = bytes_of_tok b in
      (match kind with
       | "levels" -> gres out_nlist (Model.go_decode_levels (k_of w) bs)
       | "int32" -> gres out_nlist (Model.go_decode_int32_top (k_of w) bs)
       | "dict" -> gres out_nlist (Model.go_decode_dict bs)
       | "bool" -> gres tok_of_bytes (Model.go_decode_boolean bs)
       | _ -> failwith "kind") | _ -> failwith "args");
  (* "<cost of Go's walk> <cost of the specification decoder's walk> <1 when a walk meets an empty run>" *)
  register "c04.go_rle_cost" (function [kind; w; b] ->
      let bs = bytes_of_tok b in
      let kd = match kind with "levels" -> 0 | "int32" -> 1 | "bool" -> 2 | _ -> failwith "kind" in
      hex_of_n (Model.go_rle_cost (n_of_int kd) (k_of w) bs) ^ " " ^ hex_of_n (Model.spec_rle_cost (n_of_int kd) (k_of w) bs)
      ^ " " ^ tok_of_bool (Model.go_rle_empty_run (n_of_int kd) (k_of w) bs)
    | _ -> failwith "args");
  register "c04.go_delta_dec" (function [k; b] ->
      gres (fun (xs, rest) -> out_zlist xs ^ " " ^ tok_of_bytes rest) (Model.go_dbp_dec (k_of k) (bytes_of_tok b)) | _ -> failwith "args");
  register "c04.go_delta_cost" (function [sections; limit; b] ->
      hex_of_n (Model.dbp_sections_cost (nat_of_int (int_of_string sections)) (n_of_int (int_of_string limit)) (bytes_of_tok b)) | _ -> failwith "args");
  register "c04.go_dlba_dec" (function [b] ->
      gres (fun (data, offs) -> tok_of_bytes data ^ " " ^ out_nlist offs) (Model.go_dlba_dec (bytes_of_tok b)) | _ -> failwith "args");
  register "c04.go_dba_dec" (function [b] -> gres out_blist (Model.go_dba_dec (bytes_of_tok b)) | _ -> failwith "args");
  (* the indexes of an RLE_DICTIONARY page as the page reader builds them: c04.go_index_page <num_values> <page data> *)
  register "c04.go_index_page" (function [n; b] -> gres out_nlist (Model.go_indexed_page (nat n) (bytes_of_tok b)) | _ -> failwith "args")
