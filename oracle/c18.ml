open Conv

(* chunk "d.p.b": dictionary 0|1, pages (hex), bloom filter 0|1;
   chunks of a row group separated by ',', row groups by '/'; "_" = no row group *)
let chunk_of_tok s =
  match String.split_on_char '.' s with
  | [d; p; b] -> { Model.c_dict = bool_of_tok d; Model.c_pages = nat_of_int (int_of_string ("0x" ^ p)); Model.c_bloom = bool_of_tok b }
  | _ -> failwith ("chunk: " ^ s)

let layout_of_tok s =
  if s = "_" || s = "" then []
  else List.map (fun rg -> if rg = "-" then [] else List.map chunk_of_tok (String.split_on_char ',' rg))
         (String.split_on_char '/' s)

(* history: n0 | n1 (next page, dictionary-encoded?), s<hex>.<0|1> (seek through the
   offset index to page, serve-last-page shortcut?), z (seek without index), d (ReadDictionary) *)
let rop_of_tok s =
  match s.[0] with
  | 'n' -> Model.RNext (s = "n1")
  | 'z' -> Model.RSeekNoIndex
  | 'd' -> Model.RLoadDict
  | 's' ->
      (match String.split_on_char '.' (String.sub s 1 (String.length s - 1)) with
       | [t; a] -> Model.RSeekIndex (nat_of_int (int_of_string ("0x" ^ t)), bool_of_tok a)
       | _ -> failwith ("seek: " ^ s))
  | _ -> failwith ("rop: " ^ s)

(* writer options: comma separated list of O (any other option), E / X
   (WithEncryption of configuration 1 / 2), C(...) / L(...) (a WriterConfig built
   from the options listed, used as an option) *)
let wopts_of_tok (s : string) : Model.wopt list =
  let n = String.length s in
  let pos = ref 0 in
  let rec plist () =
    let items = ref [] in
    let continue = ref true in
    while !continue do
      items := pitem () :: !items;
      if !pos < n && s.[!pos] = ',' then incr pos else continue := false
    done;
    List.rev !items
  and pitem () =
    if !pos >= n then failwith ("options: " ^ s);
    let ch = s.[!pos] in
    incr pos;
    match ch with
    | 'O' -> Model.WOther
    | 'E' -> Model.WEnc (n_of_hex "1")
    | 'X' -> Model.WEnc (n_of_hex "2")
    | 'C' | 'L' ->
        if !pos >= n || s.[!pos] <> '(' then failwith ("options: " ^ s);
        incr pos;
        let l = if !pos < n && s.[!pos] = ')' then [] else plist () in
        if !pos >= n || s.[!pos] <> ')' then failwith ("options: " ^ s);
        incr pos;
        Model.WConf l
    | _ -> failwith ("options: " ^ s)
  in
  if s = "_" || s = "" then [] else begin
    let l = plist () in
    if !pos <> n then failwith ("options: " ^ s);
    l
  end

let tok_of_wmod (m : Model.wmodule) =
  hex_of_z (Model.mtype_code m.Model.m_type) ^ ":" ^ tok_of_bytes m.Model.m_aad

let () =
  (* c18.aad <prefix> <file_unique> <module type code> <rg> <col> <page> *)
  register "c18.aad" (function
    | [pfx; fu; code; rg; col; pg] ->
        (match Model.oracle_aad (bytes_of_tok pfx) (bytes_of_tok fu) (z_of_hex code)
                 (z_of_hex rg) (z_of_hex col) (z_of_hex pg) with
         | Some b -> tok_of_bytes b
         | None -> "ERR unknown module type")
    | _ -> failwith "c18.aad args");
  (* c18.aads <prefix> <file_unique> code:rg:col:page,... *)
  register "c18.aads" (function
    | [pfx; fu; items] ->
        let pfx = bytes_of_tok pfx and fu = bytes_of_tok fu in
        tok_of_list (fun it ->
          match String.split_on_char ':' it with
          | [code; rg; col; pg] ->
              (match Model.oracle_aad pfx fu (z_of_hex code) (z_of_hex rg) (z_of_hex col) (z_of_hex pg) with
               | Some b -> tok_of_bytes b
               | None -> failwith "unknown module type")
          | _ -> failwith "c18.aads item") (split_on ',' items)
    | _ -> failwith "c18.aads args");
  (* c18.raw <prefix> <file_unique> <module type byte> <ordinals,...> : makeAAD itself *)
  register "c18.raw" (function
    | [pfx; fu; mt; ords] ->
        tok_of_bytes (Model.make_aad_raw (bytes_of_tok pfx) (bytes_of_tok fu) (n_of_hex mt)
                        (list_of_tok z_of_hex ords))
    | _ -> failwith "c18.raw args");
  (* c18.ordinals <prefix> <file_unique> <encrypted footer 0|1> <layout> <rg> <col> <history>
     -> at:code:aad:agrees,... *)
  register "c18.ordinals" (function
    | [pfx; fu; ef; lay; rg; col; h] ->
        (match Model.oracle_ordinals (bytes_of_tok pfx) (bytes_of_tok fu) (bool_of_tok ef) (layout_of_tok lay)
                 (nat_of_int (int_of_string ("0x" ^ rg))) (nat_of_int (int_of_string ("0x" ^ col)))
                 (list_of_tok rop_of_tok h) with
         | None -> "ERR no such chunk"
         | Some evs ->
             tok_of_list (fun (((at, code), aad), ok) ->
               Printf.sprintf "%d:%s:%s:%s" (int_of_nat at) (hex_of_z code) (tok_of_bytes aad) (tok_of_bool ok)) evs)
    | _ -> failwith "c18.ordinals args");
  (* c18.chunk <prefix> <file_unique> <ef> <layout> <rg> <col> -> the writer's modules of the chunk:
     pages (file order), bloom filter, column index, offset index, column metadata *)
  register "c18.chunk" (function
    | [pfx; fu; ef; lay; rg; col] ->
        let wf = Model.write_file (bytes_of_tok pfx) (bytes_of_tok fu) (bool_of_tok ef) (layout_of_tok lay) in
        (match Model.wfile_chunk wf (nat_of_int (int_of_string ("0x" ^ rg))) (nat_of_int (int_of_string ("0x" ^ col))) with
         | None -> "ERR no such chunk"
         | Some wc -> tok_of_list tok_of_wmod (Model.chunk_listing wc))
    | _ -> failwith "c18.chunk args");
  (* c18.accepts <layout> -> does the writer accept the layout (page / row group / column limits) *)
  register "c18.accepts" (function
    | [lay] -> tok_of_bool (Model.oracle_accepts (layout_of_tok lay))
    | _ -> failwith "c18.accepts args");
  (* c18.envelope <plaintext length> <bytes following the length field>
     -> <the 4 bytes of the length field> <does the streamed reader accept it 0|1> *)
  register "c18.envelope" (function
    | [pl; avail] ->
        let (field, ok) = Model.oracle_envelope (n_of_hex pl) (n_of_hex avail) in
        tok_of_bytes field ^ " " ^ tok_of_bool ok
    | _ -> failwith "c18.envelope args");
  (* c18.effective <d|c> <options> -> number of the EncryptionConfig the writer of the
     file uses (0: none).  d: NewGenericWriter / NewWriter; c: NewSortingWriter / Write *)
  register "c18.effective" (function
    | [ct; opts] ->
        (match Model.oracle_effective (ct = "c") (wopts_of_tok opts) with
         | Some c -> hex_of_n c
         | None -> "0")
    | _ -> failwith "c18.effective args");
  (* c18.colkey <dot-joined path:key number,...> <path components,...>
     -> <number of the key the writer seals the column with (0: footer key)> <own key 0|1> *)
  register "c18.colkey" (function
    | [m; p] ->
        let m = list_of_tok (fun it ->
          match String.split_on_char ':' it with
          | [n; k] -> (bytes_of_tok n, n_of_hex k)
          | _ -> failwith "c18.colkey item") m in
        let (k, own) = Model.oracle_column_key m (list_of_tok bytes_of_tok p) in
        hex_of_n k ^ " " ^ tok_of_bool own
    | _ -> failwith "c18.colkey args");
  register "c18.limits" (function
    | _ -> hex_of_n Model.max_int16 ^ " " ^ hex_of_n Model.max_row_groups ^ " " ^ hex_of_n Model.max_column_index)
