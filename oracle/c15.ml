(* C15: the trace checker extracted from Conc/Refcount.v (check_trace_N,
   check_buf) run on the get/ref/unref/put events recorded from the Go code, and
   commit_all of Conc/RowGroups.v (the file obtained by committing, in order, row
   groups that hold all their rows) run on the programs of scenario
   D-parent-pending. *)
open Conv

let event_of_tok = function
  | "1" -> Model.EGet | "2" -> Model.ERef | "3" -> Model.EUnref | "4" -> Model.EPut
  | s -> failwith ("event " ^ s)

let state_name = function
  | Model.BNew -> "new"
  | Model.BPooled -> "pooled"
  | Model.BLive (p, n) -> (if p then "live" else "ulive") ^ string_of_int (int_of_nat n)
  | Model.BZero -> "zero"
  | Model.BDead -> "dead"

(* tail-recursive map: traces have several hundred thousand events *)
let tmap f l = List.rev (List.rev_map f l)
let toks s = if s = "_" || s = "" then [] else String.split_on_char ',' s

let pair_of_tok tok =
  match String.split_on_char ':' tok with
  | [e; id] -> (event_of_tok e, n_of_hex id)
  | _ -> failwith "event:id"

let () =
  (* c15.trace e:id,e:id,...  ->  "ok <events> <buffers>" | "reject <index> <state>" *)
  register "c15.trace" (function
    | [tok] ->
        let tr = tmap pair_of_tok (toks tok) in
        (match Model.check_trace_N tr with
         | Model.Inl m -> Printf.sprintf "ok %d %d" (List.length tr) (List.length m)
         | Model.Inr (i, s) -> Printf.sprintf "reject %d %s" (int_of_n i) (state_name s))
    | _ -> failwith "c15.trace args");
  (* c15.buf e,e,...  (one buffer)  ->  "ok <events> 1" | "reject <index> <state>" *)
  register "c15.buf" (function
    | [tok] ->
        let es = tmap event_of_tok (toks tok) in
        let rec go s i = function
          | [] -> Printf.sprintf "ok %d 1" i
          | e :: r -> (match Model.buf_step s e with
                       | Some s' -> go s' (i + 1) r
                       | None -> Printf.sprintf "reject %d %s" i (state_name s)) in
        (* agreement of the fold above with the extracted check_buf *)
        let whole = Model.check_buf Model.BNew es in
        let ans = go Model.BNew 0 es in
        (match whole with
         | Some _ when String.length ans >= 2 && String.sub ans 0 2 = "ok" -> ans
         | None when String.length ans >= 6 && String.sub ans 0 6 = "reject" -> ans
         | _ -> "ERR check_buf disagrees with buf_step fold")
    | _ -> failwith "c15.buf args");
  (* c15.commit <order> <writers>: order = writer indexes in commit order (hex, "_" = none);
     writers = w;w;...  w = batch,batch,...  batch = lo-hi (hex, rows lo..hi-1 of the input).
     enc offset rows = offset, count, rows: the answer is the file as a flat list
     (what the harness renders from the row groups it reads back). *)
  register "c15.commit" (function
    | [ord; ws] ->
        let range tok =
          match String.split_on_char '-' tok with
          | [a; b] ->
              let lo = int_of_string ("0x" ^ a) and hi = int_of_string ("0x" ^ b) in
              List.init (max 0 (hi - lo)) (fun i -> lo + i)
          | _ -> failwith "batch lo-hi" in
        let writer w = tmap range (toks w) in
        let batches = tmap writer (String.split_on_char ';' ws) in
        let order = tmap (fun t -> nat_of_int (int_of_string ("0x" ^ t))) (toks ord) in
        let enc off rows = int_of_nat off :: List.length rows :: rows in
        let file = Model.commit_all enc batches order [] in
        if file = [] then "_" else String.concat "," (tmap (Printf.sprintf "%x") file)
    | _ -> failwith "c15.commit args")
