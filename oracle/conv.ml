(* Conversions between the line protocol (strings) and the datatypes of the
   extracted model (Coq positive / N / Z / nat stay the Coq inductives). *)
open Model

let hexval c =
  match c with
  | '0'..'9' -> Char.code c - 48
  | 'a'..'f' -> Char.code c - 87
  | 'A'..'F' -> Char.code c - 55
  | _ -> failwith "hex digit"

(* positive from a list of bits, most significant first (leading one consumed) *)
let pos_of_hex (s : Stdlib.String.t) : positive option =
  (* returns None for zero *)
  let acc = ref None in
  String.iter (fun c ->
    let d = hexval c in
    for b = 3 downto 0 do
      let bit = (d lsr b) land 1 = 1 in
      acc := (match !acc with
        | None -> if bit then Some XH else None
        | Some p -> Some (if bit then XI p else XO p))
    done) s;
  !acc

let n_of_hex s : n = match pos_of_hex s with None -> N0 | Some p -> Npos p

let z_of_hex s : z =
  if String.length s > 0 && s.[0] = '-' then
    (match pos_of_hex (String.sub s 1 (String.length s - 1)) with None -> Z0 | Some p -> Zneg p)
  else (match pos_of_hex s with None -> Z0 | Some p -> Zpos p)

let rec bits_of_pos (p : positive) (acc : bool list) : bool list =
  (* least significant first traversal, building most significant first *)
  match p with
  | XH -> true :: acc
  | XO q -> bits_of_pos q (false :: acc)
  | XI q -> bits_of_pos q (true :: acc)

let hex_of_pos (p : positive) : Stdlib.String.t =
  let bits = bits_of_pos p [] in
  let n = List.length bits in
  let pad = (4 - n mod 4) mod 4 in
  let bits = List.init pad (fun _ -> false) @ bits in
  let buf = Buffer.create 16 in
  let rec go = function
    | a :: b :: c :: d :: rest ->
        let v = (if a then 8 else 0) + (if b then 4 else 0) + (if c then 2 else 0) + (if d then 1 else 0) in
        Buffer.add_char buf "0123456789abcdef".[v]; go rest
    | [] -> ()
    | _ -> assert false in
  go bits; Buffer.contents buf

let hex_of_n = function N0 -> "0" | Npos p -> hex_of_pos p
let hex_of_z = function Z0 -> "0" | Zpos p -> hex_of_pos p | Zneg p -> "-" ^ hex_of_pos p

let rec nat_of_int (i : int) : nat = if i <= 0 then O else S (nat_of_int (i - 1))
let int_of_nat (n : nat) : int = let rec go n acc = match n with O -> acc | S m -> go m (acc + 1) in go n 0

let int_of_pos p = int_of_string ("0x" ^ hex_of_pos p)
let int_of_n = function N0 -> 0 | Npos p -> int_of_pos p
let int_of_z = function Z0 -> 0 | Zpos p -> int_of_pos p | Zneg p -> - (int_of_pos p)

let n_of_int i = n_of_hex (Printf.sprintf "%x" i)
let z_of_int i = if i < 0 then z_of_hex (Printf.sprintf "-%x" (-i)) else z_of_hex (Printf.sprintf "%x" i)

(* bytes: "x" followed by hex digits; a byte is an N < 256 *)
let byte_tbl : n array = Array.init 256 n_of_int
let bytes_of_tok (s : Stdlib.String.t) : n list =
  if String.length s = 0 || s.[0] <> 'x' then failwith ("bytes token: " ^ s);
  let n = (String.length s - 1) / 2 in
  List.init n (fun i -> byte_tbl.(hexval s.[1 + 2*i] * 16 + hexval s.[2 + 2*i]))
let tok_of_bytes (l : n list) : Stdlib.String.t =
  let buf = Buffer.create (2 * List.length l + 1) in
  Buffer.add_char buf 'x';
  List.iter (fun b -> Buffer.add_string buf (Printf.sprintf "%02x" (int_of_n b))) l;
  Buffer.contents buf

let split_on c s = if s = "_" || s = "" then [] else String.split_on_char c s
let list_of_tok f s = List.map f (split_on ',' s)
let tok_of_list f l = if l = [] then "_" else String.concat "," (List.map f l)
let bool_of_tok s = (s = "1")
let tok_of_bool b = if b then "1" else "0"
let opt_of_tok f s = if s = "N" then None else Some (f s)
let tok_of_opt f = function None -> "N" | Some x -> f x

(* command registry *)
let commands : (Stdlib.String.t, Stdlib.String.t list -> Stdlib.String.t) Hashtbl.t = Hashtbl.create 64
let register name f = Hashtbl.replace commands name f
