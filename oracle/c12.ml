(* C12: schema conversion.  Text syntax (no spaces inside a token):
   schema  ::= '(' field {',' field} ')'
   field   ::= NAMEHEX ':' ('R'|'O'|'P') ( ':' TYHEX | '(' field {',' field} ')' )
   row     ::= column {'|' column}          column ::= '_' | entry {';' entry}
   entry   ::= R '.' D '.' ('N' | 'x' HEX)  (levels decimal)
   A conversion is named by three schemas: the source, the target in which the
   nodes that are required in the source are required (tgtn), and the target
   (tgt, = tgtn unless it reads required nodes as optional ones). *)
open Conv

exception Parse of string

let parse_schema (s : Stdlib.String.t) : Model.nschema =
  let n = String.length s in
  let pos = ref 0 in
  let peek () = if !pos < n then s.[!pos] else '\000' in
  let expect c = if peek () = c then incr pos else raise (Parse (Printf.sprintf "expected %c at %d in %s" c !pos s)) in
  let hex () =
    let st = !pos in
    while (match peek () with '0'..'9' | 'a'..'f' | 'A'..'F' -> true | _ -> false) do incr pos done;
    if !pos = st then raise (Parse (Printf.sprintf "hex expected at %d in %s" st s));
    String.sub s st (!pos - st) in
  let rec fields () : Model.nfields =
    let f = field () in
    if peek () = ',' then (incr pos; let rest = fields () in f rest) else f Model.NNil
  and field () : Model.nfields -> Model.nfields =
    let name = n_of_hex (hex ()) in
    expect ':';
    let rep = (match peek () with
      | 'R' -> Model.Req | 'O' -> Model.Opt | 'P' -> Model.Rpt
      | _ -> raise (Parse "repetition")) in
    incr pos;
    let node =
      if peek () = ':' then (incr pos; Model.NLeaf (n_of_hex (hex ())))
      else (expect '('; let fs = fields () in expect ')'; Model.NGroup fs) in
    (fun rest -> Model.NCons (name, rep, node, rest)) in
  expect '(';
  let fs = fields () in
  expect ')';
  if !pos <> n then raise (Parse "trailing characters in schema");
  Model.NGroup fs

let parse_entry (t : Stdlib.String.t) =
  match String.split_on_char '.' t with
  | [r; d; v] ->
      let v = if v = "N" then None else Some (bytes_of_tok v) in
      ((v, nat_of_int (int_of_string r)), nat_of_int (int_of_string d))
  | _ -> raise (Parse ("entry " ^ t))

let parse_column (t : Stdlib.String.t) = if t = "_" then [] else List.map parse_entry (String.split_on_char ';' t)
let parse_row (t : Stdlib.String.t) = if t = "-" then [] else List.map parse_column (String.split_on_char '|' t)

let show_entry ((v, r), d) =
  Printf.sprintf "%d.%d.%s" (int_of_nat r) (int_of_nat d) (match v with None -> "N" | Some b -> tok_of_bytes b)
let show_column c = if c = [] then "_" else String.concat ";" (List.map show_entry c)
let show_row cols = if cols = [] then "-" else String.concat "|" (List.map show_column cols)

let show_action = function
  | Model.ACopy i -> Printf.sprintf "C%d" (int_of_nat i)
  | Model.AFill (i, k, d, z) ->
      Printf.sprintf "F%d.%d.%d.%s" (int_of_nat i) (int_of_nat k) (int_of_nat d)
        (match z with None -> "n" | Some b -> tok_of_bytes b)
  | Model.AHold z -> "H" ^ (match z with None -> "n" | Some b -> tok_of_bytes b)

let action_column = function
  | Model.ACopy i | Model.AFill (i, _, _, _) -> string_of_int (int_of_nat i)
  | Model.AHold _ -> "-1"

let guard f = try f () with Parse m -> "ERR parse " ^ m

let () =
  register "c12.convert" (function
    | mode :: src :: tgtn :: tgt :: rows -> guard (fun () ->
        let s = parse_schema src and tn = parse_schema tgtn and t = parse_schema tgt in
        let one row =
          let cols = parse_row row in
          match mode with
          | "fixed" -> (match Model.convert_widen_bytes s tn t cols with Some c -> show_row c | None -> "REJECT")
          | "general" -> show_row (Model.convert_general_bytes s tn cols)
          | "pinned" -> show_row (Model.convert_pinned_bytes s tn cols)
          | _ -> raise (Parse "mode") in
        String.concat " " (List.map one rows))
    | _ -> failwith "c12.convert args");
  register "c12.project" (function
    | src :: tgtn :: tgt :: fuel :: rows -> guard (fun () ->
        let s = parse_schema src and tn = parse_schema tgtn and t = parse_schema tgt in
        let fuel = nat_of_int (int_of_string fuel) in
        let one row =
          match Model.project_widen_bytes s tn t fuel (parse_row row) with
          | Some c -> show_row c
          | None -> "NONE" in
        String.concat " " (List.map one rows))
    | _ -> failwith "c12.project args");
  register "c12.plan" (function
    | [mode; src; tgtn; tgt] -> guard (fun () ->
        let s = parse_schema src and t = parse_schema tgtn and tw = parse_schema tgt in
        (match mode with
         | "fixed" -> tok_of_list show_action (Model.plan_bytes s t O O)
         | "columns" ->
             tok_of_list (function Some i -> string_of_int (int_of_nat i) | None -> "-1") (Model.columns_of_bytes s t tw)
         | "pinned" ->
             tok_of_list (fun a -> match Model.pinned_column a with Some i -> string_of_int (int_of_nat i) | None -> "-1")
               (Model.plan_pinned_bytes s t)
         | _ -> raise (Parse "mode")))
    | _ -> failwith "c12.plan args");
  (* c12.sorting FLAGS: one character per sorting column of the source row group, '1' when the target keeps
     the column; answers how many sorting columns the converted row group declares *)
  register "c12.sorting" (function
    | [flags] -> guard (fun () ->
        let l = List.init (String.length flags) (fun i ->
          match flags.[i] with '1' -> true | '0' -> false | _ -> raise (Parse "flag")) in
        string_of_int (int_of_nat (Model.kept_count l)))
    | _ -> failwith "c12.sorting args");
  (* c12.chunk SRC TGT I J ROW...: the column-chunk view of the rows I .. J-1 of the converted row group, one
     column per target column ('?' = not a copied column: not modelled) *)
  register "c12.chunk" (function
    | src :: tgt :: i :: j :: rows -> guard (fun () ->
        let s = parse_schema src and t = parse_schema tgt in
        let views = Model.chunk_views_bytes s t (nat_of_int (int_of_string i)) (nat_of_int (int_of_string j))
                      (List.map parse_row rows) in
        String.concat "|" (List.map (function Some c -> show_column c | None -> "?") views))
    | _ -> failwith "c12.chunk args");
  register "c12.compat" (function
    | [src; tgtn; tgt] -> guard (fun () ->
        let s = parse_schema src and tn = parse_schema tgtn and t = parse_schema tgt in
        Printf.sprintf "%s%s%s%s%s"
          (tok_of_bool (Model.compat s tn)) (tok_of_bool (Model.wf_nschemab s)) (tok_of_bool (Model.wf_nschemab t))
          (tok_of_bool (Model.nschema_eqb s t)) (tok_of_bool (Model.widens tn t)))
    | _ -> failwith "c12.compat args")
