open Conv

(* c20.snappy_decode <xbytes>            -> x<hex> | ERR-CORRUPT
   c20.lz4_decode <maxout hex> <xbytes>  -> x<hex> | ERR-CORRUPT   (raw block, dst of maxout bytes)
   c20.lz4_codec_decode <dstcap hex> <xbytes> -> x<hex> | ERR-CORRUPT (lz4.Codec.Decode retry loop around it)
   c20.pool_run <fuel> <events>          -> outcomes of the magic-byte codec run through the
                                            model of the pooled wrappers; events are comma separated
        E:<pick>:<dstcap>:<xsrc>  Encode      D:<pick>:<dstcap>:<xsrc>  Decode     G:<r|w>:<i>  GC drop
        pick = N (pool miss) or a decimal index;  answer per event: <err 0|1>:<xout> or H (hang) *)

let opt_bytes = function None -> "ERR-CORRUPT" | Some l -> tok_of_bytes l

(* guard: the decoders convert declared lengths to unary numbers *)
let small_enough (l : Model.n list) = List.length l <= 64 * 1024 * 1024

let zeros n = List.init n (fun _ -> Model.N0)

let event tok =
  match String.split_on_char ':' tok with
  | ["E"; pick; cap; src] ->
      Model.EvEncode ((if pick = "N" then None else Some (nat_of_int (int_of_string pick))),
                      zeros (int_of_string cap), bytes_of_tok src)
  | ["D"; pick; cap; src] ->
      Model.EvDecode ((if pick = "N" then None else Some (nat_of_int (int_of_string pick))),
                      zeros (int_of_string cap), bytes_of_tok src)
  | ["G"; which; i] -> Model.EvGc (which = "r", nat_of_int (int_of_string i))
  | _ -> failwith "event"

let outcome = function
  | Model.Hang -> "H"
  | Model.Done (out, err) -> tok_of_bool err ^ ":" ^ tok_of_bytes out

let () =
  register "c20.snappy_decode" (function
    | [b] -> let l = bytes_of_tok b in
             if not (small_enough l) then failwith "too large" else opt_bytes (Model.snappy_decode l)
    | _ -> failwith "c20.snappy_decode args");
  register "c20.lz4_decode" (function
    | [m; b] -> opt_bytes (Model.lz4_decode (n_of_hex m) (bytes_of_tok b))
    | _ -> failwith "c20.lz4_decode args");
  register "c20.lz4_codec_decode" (function
    | [m; b] -> opt_bytes (Model.lz4_codec_decode (n_of_hex m) (bytes_of_tok b))
    | _ -> failwith "c20.lz4_codec_decode args");
  register "c20.pool_run" (function
    | [fuel; evs] ->
        let h = list_of_tok event evs in
        tok_of_list outcome (Model.mg_outcomes (nat_of_int (int_of_string fuel)) h)
    | _ -> failwith "c20.pool_run args")
