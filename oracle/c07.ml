open Conv

(* page data of one physical type from the tokens of a request *)
let page_of_args ty args =
  match ty, args with
  | "bool", [packed] -> Model.PBoolean (bytes_of_tok packed)
  | "i32", [ws] -> Model.PInt32 (list_of_tok n_of_hex ws)
  | "i64", [ws] -> Model.PInt64 (list_of_tok n_of_hex ws)
  | "f32", [ws] -> Model.PFloat (list_of_tok n_of_hex ws)
  | "f64", [ws] -> Model.PDouble (list_of_tok n_of_hex ws)
  | "i96", [data] -> Model.PInt96 (bytes_of_tok data)
  | "ba", [data; offs] -> Model.PByteArray (bytes_of_tok data, list_of_tok (fun s -> nat_of_int (int_of_string s)) offs)
  | "flba", [size; data] -> Model.PFixedLenByteArray (nat_of_int (int_of_string size), bytes_of_tok data)
  | _ -> failwith ("page type " ^ ty)

(* "flba:16" -> TFixedLenByteArray 16 *)
let ptype_of_tok s =
  match String.split_on_char ':' s with
  | ["bool"] -> Model.TBoolean
  | ["i32"] -> Model.TInt32
  | ["i64"] -> Model.TInt64
  | ["i96"] -> Model.TInt96
  | ["f32"] -> Model.TFloat
  | ["f64"] -> Model.TDouble
  | ["ba"] -> Model.TByteArray
  | ["flba"; n] -> Model.TFixedLenByteArray (nat_of_int (int_of_string n))
  | _ -> failwith ("type " ^ s)

let value_of_tok ty s =
  match ty with
  | Model.TBoolean -> Model.VBoolean (s = "1")
  | Model.TInt32 -> Model.VInt32 (n_of_hex s)
  | Model.TInt64 -> Model.VInt64 (n_of_hex s)
  | Model.TInt96 -> Model.VInt96 (bytes_of_tok s)
  | Model.TFloat -> Model.VFloat (n_of_hex s)
  | Model.TDouble -> Model.VDouble (n_of_hex s)
  | Model.TByteArray -> Model.VByteArray (bytes_of_tok s)
  | Model.TFixedLenByteArray _ -> Model.VFixedLenByteArray (bytes_of_tok s)

(* pages separated by ';', values by ',' ("_" = no page) *)
let pages_of_tok ty s =
  if s = "_" then [] else
  List.map (fun p -> list_of_tok (value_of_tok ty) p) (String.split_on_char ';' s)

let () =
  register "c07.xxh64" (function
    | [b] -> hex_of_n (Model.xxh64 (bytes_of_tok b))
    | _ -> failwith "c07.xxh64 args");
  register "c07.sum" (function
    | [k; v] ->
        let v = n_of_hex v in
        hex_of_n (match k with
          | "8" -> Model.sum64uint8 v
          | "16" -> Model.sum64uint16 v
          | "32" -> Model.sum64uint32 v
          | "64" -> Model.sum64uint64 v
          | _ -> failwith "c07.sum width")
    | _ -> failwith "c07.sum args");
  register "c07.sum128" (function
    | [b] -> hex_of_n (Model.sum64uint128 (bytes_of_tok b))
    | _ -> failwith "c07.sum128 args");
  (* filter bytes after inserting the hashes in an empty filter of n blocks *)
  register "c07.filter" (function
    | [n; hs] ->
        let f = Model.filter_insert_bulk (Model.empty_filter (nat_of_int (int_of_string n))) (list_of_tok n_of_hex hs) in
        tok_of_bytes (Model.filter_bytes f)
    | _ -> failwith "c07.filter args");
  (* CheckSplitBlock on serialised filter bytes *)
  register "c07.check" (function
    | [fb; probes] ->
        let data = bytes_of_tok fb in
        tok_of_list (fun p -> tok_of_bool (Model.check_split_block data (n_of_hex p))) (split_on ',' probes)
    | _ -> failwith "c07.check args");
  (* SplitBlockFilter.Check in memory after inserting *)
  register "c07.memcheck" (function
    | [n; hs; probes] ->
        let f = Model.filter_insert_bulk (Model.empty_filter (nat_of_int (int_of_string n))) (list_of_tok n_of_hex hs) in
        tok_of_list (fun p -> tok_of_bool (Model.filter_check f (n_of_hex p))) (split_on ',' probes)
    | _ -> failwith "c07.memcheck args");
  register "c07.nblocks" (function
    | [nv; bits] -> hex_of_n (Model.num_split_blocks_of (n_of_hex nv) (n_of_hex bits))
    | _ -> failwith "c07.nblocks args");
  (* splitBlockEncoding.Encode<T> of one page into an empty filter of n blocks *)
  register "c07.encode" (function
    | ty :: n :: rest ->
        let f = Model.write_page_to_filter (Model.empty_filter (nat_of_int (int_of_string n))) (page_of_args ty rest) in
        tok_of_bytes (Model.filter_bytes f)
    | _ -> failwith "c07.encode args");
  register "c07.hashes" (function
    | ty :: rest -> tok_of_list hex_of_n (Model.hashes_write (page_of_args ty rest))
    | _ -> failwith "c07.hashes args");
  (* Value.hash *)
  register "c07.hread" (function
    | [ty; v] -> hex_of_n (Model.hash_read (value_of_tok (ptype_of_tok ty) v))
    | _ -> failwith "c07.hread args");
  (* values -> page data -> hashes -> filter bytes of a column chunk *)
  register "c07.build" (function
    | [ty; n; pages] ->
        let t = ptype_of_tok ty in
        tok_of_bytes (Model.filter_bytes (Model.chunk_filter (nat_of_int (int_of_string n)) t (pages_of_tok t pages)))
    | _ -> failwith "c07.build args");
  (* FileBloomFilter.Check of values on stored filter bytes *)
  register "c07.filecheck" (function
    | [ty; fb; probes] ->
        let t = ptype_of_tok ty in
        let data = bytes_of_tok fb in
        tok_of_list (fun p -> tok_of_bool (Model.file_check data (value_of_tok t p))) (split_on ',' probes)
    | _ -> failwith "c07.filecheck args")
