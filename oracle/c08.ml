(* C08: page cursor / batch row reader models.
   c08.pages <machine> <pagecounts> <ops>
     machine: idx | noidx | lazy (the current code) | pinned (SeekToRow before b7bb510)
              | noidx_pinned_dict | lazy_pinned_dict (index-less seek before 5c1fea6 on a
              chunk with a dictionary page) | spec | specnoidx | speclazy
     pagecounts: comma separated hex row counts ("_" = no page)
     ops: comma separated  r (ReadPage) | s<hex> (SeekToRow) | l (load the offset index; lazy machines only)
     answer: per op  p<first>.<count> | e (io.EOF) | k (seek ok) | o (ErrSeekOutOfRange) | d (done)
   c08.rows <machine> <pagecounts> <ops>
     machine: idx | noidx (the current code) | idx_pinned_reset | noidx_pinned_reset
              (Reset before 3b258db) | spec | specnoidx
     ops: r<hex n> (ReadRows) | s<hex> (SeekToRow) | x (Reset)
     answer: per op  i<first>.<count>+<first>.<count>.../<eof> | k | o | d
   c08.mrows <machine> <cols> <ops>      rowGroupRows over several columns of one row group
     machine: idx | noidx | idx_stale (rowIndex left stale on io.EOF) | spec
     cols: the page counts of every column, columns separated by "/"
     answer: as c08.rows; a batch whose rows are not the same row in every column is
             i!<id>.<id>...;<id>.<id>.../<eof>
   c08.mpages <machine> <chunks> <ops>   multiPages: chunks (row groups) of one column separated by ";"
     machine: idx | noidx | spec          ops and answer as c08.pages, global row numbers
   c08.cpages <machine> <chunks> <ops>   columnPages (Column.Pages() of a file): one page cursor per row group
     machine: idx | noidx | upto_last (the seeded variant: SeekToRow does not rewind the row group
              that was being read) | spec          chunks, ops and answer as c08.mpages
   c08.nested <machine> <nest> <chunks> <ops>   multiPages over the column of MultiRowGroup applied as <nest>
     says, e.g. (((0,1),2),3) over the chunks 0..3 (Cursor/Nested.v: the flattening of multiRowGroup.init)
     machine: idx | noidx | children_counts (row counts of the direct children) | spec
   c08.mgrows <machine> <cols> <ops>     rows of a multiRowGroup: columns "/", chunks ";", pages ","
     machine: idx | noidx | spec
   c08.reader <machine> <cols> <ops>     Reader / GenericReader
     machine: idx | noidx (several row groups) | idx1 | noidx1 (one row group: one chunk per column) | spec
     ops: r<hex n> (ReadRows) | g (Reader.Read, one row) | G<hex n> (GenericReader.Read) | s<hex> | x
   c08.async <machine> <pagecounts> <calls> <seed> <steps>
     machine: idx | noidx; calls: r | s<hex>; the schedule is drawn from the seed (at most <steps> steps)
     answer: the outputs of the consumer's calls as c08.pages, then /1 when the consumer finished, /0 otherwise
   c08.fwd <machine> <rows> <caps> <eof_with_last> <ops>    readers that seek forward only (Cursor/Forward.v)
     machine: seeker (forwardRowSeeker) | merged (mergedRowGroupRows) | concat (concatenatingRowsWrapper)
              | merged_once (the seeded variant: at most one batch is dropped)
     rows: hex; caps: the reader underneath returns at most caps[c mod len] rows on its c-th call (0 or "_": no cap);
     eof_with_last: 1 = it returns io.EOF together with the last rows, 0 = on the call after
     ops: r<hex n> (ReadRows) | r<hex n>:<hex cap> (every call underneath made by this ReadRows returns at most
          cap rows: how an observed short batch is told to the model) | s<hex> (SeekToRow)
          (the policy of the theorems is one function of the call number; the caps of the operations define it
           call by call as the run proceeds)
     answer: per op  i<first>.<count>/<eof> | i/<eof> (no row) | k | b (seek backward refused) | e (seek returned io.EOF)
   c08.variant <machine> <leaves> <rows> <ops>    the row window of VariantReader (Cursor/VariantLeaves.v)
     machine: cur | seeded (SeekToRow marks unopened leaves, open() does not position) | spec
     ops: c<hex j> (a cursor that needs leaf j is created) | r<hex n>[:<j>.<j>...] (Next; the leaves whose
          first row is to be reported) | s<hex k>
     answer: per op  d | w<first>.<count>[;<j>=<first row leaf j delivered>...] | e (io.EOF) | k | o (out of range)
   c08.mrows / c08.mgrows / c08.reader (machines idx, noidx, idx1, noidx1, spec) also take the op c<hex d>
     (parquet.CopyRows(dst, reader), Cursor/Copy.v: ReadRows(42) until io.EOF); answer: the batch of the
     whole copy, i<first>.<count>/1 (i/1: no row left; /0: the copy did not end on io.EOF) *)
open Conv

let nat_of_hex s = nat_of_int (int_of_string ("0x" ^ s))
let hex_of_nat n = Printf.sprintf "%x" (int_of_nat n)
let tail s = String.sub s 1 (String.length s - 1)

let op_of_tok t : Model.op =
  if t = "r" then Model.ReadPage
  else if String.length t > 1 && t.[0] = 's' then Model.SeekToRow (nat_of_hex (tail t))
  else failwith ("op " ^ t)

let lop_of_tok t : Model.lop =
  if t = "l" then Model.LoadIndex else Model.Op (op_of_tok t)

let rop_of_tok t : Model.rop =
  if t = "x" then Model.RReset
  else if String.length t > 1 && t.[0] = 'r' then Model.RRead (nat_of_hex (tail t))
  else if String.length t > 1 && t.[0] = 's' then Model.RSeek (nat_of_hex (tail t))
  else failwith ("rop " ^ t)

let tok_of_out (o : Model.out) =
  match o with
  | Model.Rows (f, c) -> "p" ^ hex_of_nat f ^ "." ^ hex_of_nat c
  | Model.EOF -> "e"
  | Model.SeekOk -> "k"
  | Model.OutOfRange -> "o"
  | Model.Done -> "d"

(* consecutive runs of a list of ints *)
let runs (l : int list) : (int * int) list =
  let rec go acc cur = function
    | [] -> List.rev (match cur with None -> acc | Some c -> c :: acc)
    | x :: rest ->
        (match cur with
         | Some (f, c) when f + c = x -> go acc (Some (f, c + 1)) rest
         | Some c -> go (c :: acc) (Some (x, 1)) rest
         | None -> go acc (Some (x, 1)) rest) in
  go [] None l

let tok_of_rout (o : Model.rout) =
  match o with
  | Model.RRows (ids, eof) ->
      let segs = runs (List.map int_of_nat ids) in
      "i" ^ String.concat "+" (List.map (fun (f, c) -> Printf.sprintf "%x.%x" f c) segs)
      ^ "/" ^ tok_of_bool eof
  | Model.RSeekOk -> "k"
  | Model.ROutOfRange -> "o"
  | Model.RDone -> "d"

let uniform_id (row : Model.nat list) : int option =
  match List.map int_of_nat row with
  | [] -> None
  | x :: rest -> if List.for_all (fun y -> y = x) rest then Some x else None

let tok_of_mout ncols (o : Model.mout) =
  match o with
  | Model.MRows (rows, eof) ->
      let ids = List.map (fun r -> if List.length r = ncols then uniform_id r else None) rows in
      if List.for_all (fun x -> x <> None) ids then
        let segs = runs (List.map (function Some x -> x | None -> 0) ids) in
        "i" ^ String.concat "+" (List.map (fun (f, c) -> Printf.sprintf "%x.%x" f c) segs)
        ^ "/" ^ tok_of_bool eof
      else
        "i!" ^ String.concat ";" (List.map (fun r ->
                 String.concat "." (List.map (fun x -> Printf.sprintf "%x" (int_of_nat x)) r)) rows)
        ^ "/" ^ tok_of_bool eof
  | Model.MSeekOk -> "k"
  | Model.MOutOfRange -> "o"
  | Model.MDone -> "d"

let chunk_of_tok s = list_of_tok nat_of_hex s
let chunks_of_tok s = List.map chunk_of_tok (String.split_on_char ';' s)
let cols1_of_tok s = List.map chunk_of_tok (String.split_on_char '/' s)
let colsn_of_tok s = List.map chunks_of_tok (String.split_on_char '/' s)

let rec nat_sum = function [] -> 0 | x :: r -> int_of_nat x + nat_sum r

let xop_of_tok t : Model.xop =
  if t = "x" then Model.XReset
  else if t = "g" then Model.XRead1
  else if String.length t > 1 && t.[0] = 'r' then Model.XReadRows (nat_of_hex (tail t))
  else if String.length t > 1 && t.[0] = 'G' then Model.XGRead (nat_of_hex (tail t))
  else if String.length t > 1 && t.[0] = 's' then Model.XSeek (nat_of_hex (tail t))
  else failwith ("xop " ^ t)

let cop_of_tok t : Model.cop =
  if t = "r" then Model.CRead
  else if String.length t > 1 && t.[0] = 's' then Model.CSeek (nat_of_hex (tail t))
  else failwith ("cop " ^ t)

(* "(((0,1),2),3)": applications of MultiRowGroup, the leaves are indexes of chunks *)
let tree_of_nest (s : string) (chunks : Model.nat list array) : Model.rgtree =
  let n = String.length s in
  let pos = ref 0 in
  let rec parse () =
    if !pos >= n then failwith "nest";
    if s.[!pos] = '(' then begin
      incr pos;
      let rec children acc =
        let c = parse () in
        if !pos < n && s.[!pos] = ',' then (incr pos; children (c :: acc))
        else if !pos < n && s.[!pos] = ')' then (incr pos; List.rev (c :: acc))
        else failwith "nest" in
      Model.RGNode (children [])
    end else begin
      let st = !pos in
      while !pos < n && s.[!pos] >= '0' && s.[!pos] <= '9' do incr pos done;
      if !pos = st then failwith "nest";
      Model.RGLeaf chunks.(int_of_string (String.sub s st (!pos - st)))
    end in
  let t = parse () in
  if !pos <> n then failwith "nest";
  t

(* r<n> | r<n>:<cap> | s<k> *)
let fop_of_tok t : Model.fop * int =
  if String.length t > 1 && t.[0] = 's' then (Model.FSeek (nat_of_hex (tail t)), 0)
  else if String.length t > 1 && t.[0] = 'r' then
    (match String.split_on_char ':' (tail t) with
     | [n] -> (Model.FRead (nat_of_hex n), 0)
     | [n; cap] -> (Model.FRead (nat_of_hex n), int_of_string ("0x" ^ cap))
     | _ -> failwith ("fop " ^ t))
  else failwith ("fop " ^ t)

let tok_of_fout (o : Model.fout) =
  match o with
  | Model.FRows (f, c, e) ->
      if int_of_nat c = 0 then "i/" ^ tok_of_bool e
      else Printf.sprintf "i%x.%x/%s" (int_of_nat f) (int_of_nat c) (tok_of_bool e)
  | Model.FSeekOk -> "k"
  | Model.FRefused -> "b"
  | Model.FSeekEOF -> "e"

let run_fwd (step : (Model.nat -> Model.nat) -> 's -> Model.fop -> Model.fout * 's) (caps : Model.nat list)
    (s0 : 's) (ops : (Model.fop * int) list) : Model.fout list =
  let rec go s = function
    | [] -> []
    | (o, cap) :: rest ->
        let pol = if cap > 0 then (fun _ -> nat_of_int cap) else Model.cycle caps in
        let (out, s') = step pol s o in
        out :: go s' rest in
  go s0 ops

let vop_of_tok t : Model.vop * int list =
  if String.length t > 1 && t.[0] = 'c' then (Model.VCreate (nat_of_hex (tail t)), [])
  else if String.length t > 1 && t.[0] = 's' then (Model.VSeek (nat_of_hex (tail t)), [])
  else if String.length t > 1 && t.[0] = 'r' then
    (match String.split_on_char ':' (tail t) with
     | [n] -> (Model.VNext (nat_of_hex n), [])
     | [n; ls] -> (Model.VNext (nat_of_hex n), List.map (fun x -> int_of_string ("0x" ^ x)) (String.split_on_char '.' ls))
     | _ -> failwith ("vop " ^ t))
  else failwith ("vop " ^ t)

let tok_of_vout (o : Model.vout) (seen : int list) =
  match o with
  | Model.VDone -> "d"
  | Model.VEOF -> "e"
  | Model.VSeekOk -> "k"
  | Model.VOutOfRange -> "o"
  | Model.VWindow (f, c, firsts) ->
      let firsts = Array.of_list firsts in
      Printf.sprintf "w%x.%x" (int_of_nat f) (int_of_nat c)
      ^ String.concat "" (List.map (fun j ->
          match (if j < Array.length firsts then firsts.(j) else None) with
          | Some r -> Printf.sprintf ";%x=%x" j (int_of_nat r)
          | None -> Printf.sprintf ";%x=-" j) seen)

(* histories with copies (Cursor/Copy.v): c<hex d> = parquet.CopyRows(dst of kind d, reader); the
   destination is not part of the model *)
let is_copy_tok t = String.length t > 1 && t.[0] = 'c'
let has_copy ops = List.exists is_copy_tok (String.split_on_char ',' ops)
let kops_of_tok (f : string -> 'a) ops : 'a Model.kop list =
  list_of_tok (fun t -> if is_copy_tok t then Model.KCopy else Model.KOp (f t)) ops
let copy_fuel rows = nat_of_int (rows / 42 + 3)

let () =
  register "c08.variant" (function
    | [m; leaves; rows; ops] ->
        let nl = nat_of_hex leaves and n = nat_of_hex rows in
        let ops = list_of_tok vop_of_tok ops in
        let vops = List.map fst ops in
        let outs =
          match m with
          | "cur" -> Model.run_variant nl n vops
          | "seeded" -> Model.run_variant_seeded nl n vops
          | "spec" -> Model.run_vspec nl n vops
          | _ -> failwith "c08.variant machine" in
        String.concat "," (List.map2 (fun o (_, seen) -> tok_of_vout o seen) outs ops)
    | _ -> failwith "c08.variant args");
  register "c08.fwd" (function
    | [m; rows; caps; eofl; ops] ->
        let n = nat_of_hex rows in
        let caps = list_of_tok nat_of_hex caps in
        let eofl = bool_of_tok eofl in
        let ops = list_of_tok fop_of_tok ops in
        let z = nat_of_int 0 in
        let outs =
          match m with
          | "seeker" -> run_fwd (fun pol -> Model.fws_step n eofl pol) caps
                          { Model.f_u = Model.u0; Model.f_seek = z; Model.f_index = z } ops
          | "merged" -> run_fwd (fun pol -> Model.lz_step n eofl pol) caps
                          { Model.l_u = Model.u0; Model.l_index = z; Model.l_seek = z } ops
          | "merged_once" ->
              run_fwd (fun pol s o -> match o with
                         | Model.FRead k -> Model.lz_read_fuel (nat_of_int 1) n eofl pol s k
                         | Model.FSeek k -> Model.lz_seek s k) caps
                { Model.l_u = Model.u0; Model.l_index = z; Model.l_seek = z } ops
          | "concat" -> run_fwd (fun pol -> Model.eg_step n eofl pol) caps
                          { Model.e_u = Model.u0; Model.e_index = z } ops
          | _ -> failwith "c08.fwd machine" in
        tok_of_list tok_of_fout outs
    | _ -> failwith "c08.fwd args");
  register "c08.mrows" (function
    | [m; cols; ops] ->
        let cols = cols1_of_tok cols in
        let ncols = List.length cols in
        if has_copy ops then begin
          let kops = kops_of_tok rop_of_tok ops in
          let n = nat_sum (List.hd cols) in
          let fuel = copy_fuel n in
          let outs =
            match m with
            | "idx" -> Model.run_mrows_indexed_k cols fuel kops
            | "noidx" -> Model.run_mrows_noindex_k cols fuel kops
            | "spec" -> Model.run_mspec_k true (nat_of_int ncols) (nat_of_int n) fuel kops
            | _ -> failwith "c08.mrows machine (copies)" in
          tok_of_list (tok_of_mout ncols) outs
        end else
        let ops = list_of_tok rop_of_tok ops in
        let outs =
          match m with
          | "idx" -> Model.run_mrows_indexed cols ops
          | "noidx" -> Model.run_mrows_noindex cols ops
          | "idx_stale" -> Model.run_mrows_indexed_stale cols ops
          | "spec" -> Model.run_mspec true (nat_of_int ncols) (nat_of_int (nat_sum (List.hd cols))) ops
          | _ -> failwith "c08.mrows machine" in
        tok_of_list (tok_of_mout ncols) outs
    | _ -> failwith "c08.mrows args");
  register "c08.mpages" (function
    | [m; chunks; ops] ->
        let chunks = chunks_of_tok chunks in
        let ops = list_of_tok op_of_tok ops in
        let outs =
          match m with
          | "idx" -> Model.run_mpages_indexed chunks ops
          | "noidx" -> Model.run_mpages_noindex chunks ops
          | "spec" -> Model.run_spec_noindex (List.concat chunks) ops
          | _ -> failwith "c08.mpages machine" in
        tok_of_list tok_of_out outs
    | _ -> failwith "c08.mpages args");
  register "c08.cpages" (function
    | [m; chunks; ops] ->
        let chunks = chunks_of_tok chunks in
        let ops = list_of_tok op_of_tok ops in
        let outs =
          match m with
          | "idx" -> Model.run_cpages_indexed chunks ops
          | "noidx" -> Model.run_cpages_noindex chunks ops
          | "upto_last" -> Model.run_cpages_upto_last chunks ops
          | "spec" -> Model.run_spec_noindex (List.concat chunks) ops
          | _ -> failwith "c08.cpages machine" in
        tok_of_list tok_of_out outs
    | _ -> failwith "c08.cpages args");
  register "c08.nested" (function
    | [m; nest; chunks; ops] ->
        let chunks = Array.of_list (chunks_of_tok chunks) in
        let ops = list_of_tok op_of_tok ops in
        let t = tree_of_nest nest chunks in
        let outs =
          match m with
          | "idx" -> Model.run_nested_indexed t ops
          | "noidx" -> Model.run_nested_noindex t ops
          | "children_counts" -> Model.run_nested_children_counts t ops
          | "spec" -> Model.run_spec_noindex (List.concat (Array.to_list chunks)) ops
          | _ -> failwith "c08.nested machine" in
        tok_of_list tok_of_out outs
    | _ -> failwith "c08.nested args");
  register "c08.mgrows" (function
    | [m; cols; ops] ->
        let cols = colsn_of_tok cols in
        let ncols = List.length cols in
        if has_copy ops then begin
          let kops = kops_of_tok rop_of_tok ops in
          let n = nat_sum (List.concat (List.hd cols)) in
          let fuel = copy_fuel n in
          let outs =
            match m with
            | "idx" -> Model.run_mgrows_indexed_k cols fuel kops
            | "noidx" -> Model.run_mgrows_noindex_k cols fuel kops
            | "spec" -> Model.run_mspec_k false (nat_of_int ncols) (nat_of_int n) fuel kops
            | _ -> failwith "c08.mgrows machine (copies)" in
          tok_of_list (tok_of_mout ncols) outs
        end else
        let ops = list_of_tok rop_of_tok ops in
        let outs =
          match m with
          | "idx" -> Model.run_mgrows_indexed cols ops
          | "noidx" -> Model.run_mgrows_noindex cols ops
          | "spec" -> Model.run_mspec false (nat_of_int ncols)
                        (nat_of_int (nat_sum (List.concat (List.hd cols)))) ops
          | _ -> failwith "c08.mgrows machine" in
        tok_of_list (tok_of_mout ncols) outs
    | _ -> failwith "c08.mgrows args");
  register "c08.reader" (function
    | [m; cols; ops] ->
        let colsn = colsn_of_tok cols in
        let cols1 () = List.map (function [c] -> c | _ -> failwith "c08.reader: one chunk per column expected") colsn in
        let ncols = List.length colsn in
        if has_copy ops then begin
          let kops = kops_of_tok xop_of_tok ops in
          let n = nat_sum (List.concat (List.hd colsn)) in
          let fuel = copy_fuel n in
          let outs =
            match m with
            | "idx" -> Model.run_reader_indexed_k colsn fuel kops
            | "noidx" -> Model.run_reader_noindex_k colsn fuel kops
            | "idx1" -> Model.run_reader1_indexed_k (cols1 ()) fuel kops
            | "noidx1" -> Model.run_reader1_noindex_k (cols1 ()) fuel kops
            | "spec" -> Model.run_xspec_k (nat_of_int ncols) (nat_of_int n) fuel kops
            | _ -> failwith "c08.reader machine (copies)" in
          tok_of_list (tok_of_mout ncols) outs
        end else
        let ops = list_of_tok xop_of_tok ops in
        let outs =
          match m with
          | "idx" -> Model.run_reader_indexed colsn ops
          | "noidx" -> Model.run_reader_noindex colsn ops
          | "idx1" -> Model.run_reader1_indexed (cols1 ()) ops
          | "noidx1" -> Model.run_reader1_noindex (cols1 ()) ops
          | "spec" -> Model.run_xspec (nat_of_int ncols)
                        (nat_of_int (nat_sum (List.concat (List.hd colsn)))) ops
          | _ -> failwith "c08.reader machine" in
        tok_of_list (tok_of_mout ncols) outs
    | _ -> failwith "c08.reader args");
  register "c08.async" (function
    | [m; pages; calls; seed; steps] ->
        let pages = list_of_tok nat_of_hex pages in
        let calls = list_of_tok cop_of_tok calls in
        let st = ref (int_of_string ("0x" ^ seed) land 0x3fffffff) in
        let next () = st := (!st * 1103515245 + 12345) land 0x3fffffff; ((!st lsr 8) land 0xffff) mod 12 in
        let choices = List.init (int_of_string ("0x" ^ steps)) (fun _ -> nat_of_int (next ())) in
        let (outs, fin) =
          match m with
          | "idx" -> Model.run_async_indexed pages calls choices
          | "noidx" -> Model.run_async_noindex pages calls choices
          | _ -> failwith "c08.async machine" in
        tok_of_list tok_of_out outs ^ "/" ^ tok_of_bool fin
    | _ -> failwith "c08.async args");
  register "c08.pages" (function
    | [m; pages; ops] ->
        let pages = list_of_tok nat_of_hex pages in
        let outs =
          match m with
          | "idx" -> Model.run_indexed pages (list_of_tok op_of_tok ops)
          | "pinned" -> Model.run_pinned pages (list_of_tok op_of_tok ops)
          | "noidx" -> Model.run_noindex pages (list_of_tok op_of_tok ops)
          | "noidx_pinned_dict" -> Model.run_noindex_pinned true pages (list_of_tok op_of_tok ops)
          | "lazy" -> Model.run_lazy pages (list_of_tok lop_of_tok ops)
          | "lazy_pinned_dict" -> Model.run_lazy_pinned true pages (list_of_tok lop_of_tok ops)
          | "spec" -> Model.run_spec pages (list_of_tok op_of_tok ops)
          | "specnoidx" -> Model.run_spec_noindex pages (list_of_tok op_of_tok ops)
          | "speclazy" -> Model.run_spec_lazy pages (list_of_tok lop_of_tok ops)
          | _ -> failwith "c08.pages machine" in
        tok_of_list tok_of_out outs
    | _ -> failwith "c08.pages args");
  register "c08.rows" (function
    | [m; pages; ops] ->
        let pages = list_of_tok nat_of_hex pages in
        let ops = list_of_tok rop_of_tok ops in
        let outs =
          match m with
          | "idx" -> Model.run_rows_indexed pages ops
          | "noidx" -> Model.run_rows_noindex pages ops
          | "idx_pinned_reset" -> Model.run_rows_indexed_gen false pages ops
          | "noidx_pinned_reset" -> Model.run_rows_noindex_gen false false pages ops
          | "spec" -> Model.run_rspec true pages ops
          | "specnoidx" -> Model.run_rspec false pages ops
          | _ -> failwith "c08.rows machine" in
        tok_of_list tok_of_rout outs
    | _ -> failwith "c08.rows args")
