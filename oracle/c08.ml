(* C08: page cursor / batch row reader models.
   c08.pages <machine> <pagecounts> <ops>
     machine: idx | noidx | lazy (the current code) | pinned (SeekToRow before b7bb510)
              | noidx_pinned_dict | lazy_pinned_dict (index-less seek before 5c1fea6 on a
              chunk with a dictionary page) | spec | specnoidx | speclazy
     pagecounts: comma separated hex row counts ("_" = no page)
     ops: comma separated  r (ReadPage) | s<hex> (SeekToRow) | l (load the offset index; lazy machines only)
     answer: per op  p<first>.<count> | e (io.EOF) | k (seek ok) | o (ErrSeekOutOfRange) | d (done)
   c08.rows <machine> <pagecounts> <ops>
     machine: idx | noidx (the current code) | idx_pinned_reset | noidx_pinned_reset
              (Reset before 3b258db) | spec | specnoidx
     ops: r<hex n> (ReadRows) | s<hex> (SeekToRow) | x (Reset)
     answer: per op  i<first>.<count>+<first>.<count>.../<eof> | k | o | d *)
open Conv

let nat_of_hex s = nat_of_int (int_of_string ("0x" ^ s))
let hex_of_nat n = Printf.sprintf "%x" (int_of_nat n)
let tail s = String.sub s 1 (String.length s - 1)

let op_of_tok t : Model.op =
  if t = "r" then Model.ReadPage
  else if String.length t > 1 && t.[0] = 's' then Model.SeekToRow (nat_of_hex (tail t))
  else failwith ("op " ^ t)

let lop_of_tok t : Model.lop =
  if t = "l" then Model.LoadIndex else Model.Op (op_of_tok t)

let rop_of_tok t : Model.rop =
  if t = "x" then Model.RReset
  else if String.length t > 1 && t.[0] = 'r' then Model.RRead (nat_of_hex (tail t))
  else if String.length t > 1 && t.[0] = 's' then Model.RSeek (nat_of_hex (tail t))
  else failwith ("rop " ^ t)

let tok_of_out (o : Model.out) =
  match o with
  | Model.Rows (f, c) -> "p" ^ hex_of_nat f ^ "." ^ hex_of_nat c
  | Model.EOF -> "e"
  | Model.SeekOk -> "k"
  | Model.OutOfRange -> "o"
  | Model.Done -> "d"

(* consecutive runs of a list of ints *)
let runs (l : int list) : (int * int) list =
  let rec go acc cur = function
    | [] -> List.rev (match cur with None -> acc | Some c -> c :: acc)
    | x :: rest ->
        (match cur with
         | Some (f, c) when f + c = x -> go acc (Some (f, c + 1)) rest
         | Some c -> go (c :: acc) (Some (x, 1)) rest
         | None -> go acc (Some (x, 1)) rest) in
  go [] None l

let tok_of_rout (o : Model.rout) =
  match o with
  | Model.RRows (ids, eof) ->
      let segs = runs (List.map int_of_nat ids) in
      "i" ^ String.concat "+" (List.map (fun (f, c) -> Printf.sprintf "%x.%x" f c) segs)
      ^ "/" ^ tok_of_bool eof
  | Model.RSeekOk -> "k"
  | Model.ROutOfRange -> "o"
  | Model.RDone -> "d"

let () =
  register "c08.pages" (function
    | [m; pages; ops] ->
        let pages = list_of_tok nat_of_hex pages in
        let outs =
          match m with
          | "idx" -> Model.run_indexed pages (list_of_tok op_of_tok ops)
          | "pinned" -> Model.run_pinned pages (list_of_tok op_of_tok ops)
          | "noidx" -> Model.run_noindex pages (list_of_tok op_of_tok ops)
          | "noidx_pinned_dict" -> Model.run_noindex_pinned true pages (list_of_tok op_of_tok ops)
          | "lazy" -> Model.run_lazy pages (list_of_tok lop_of_tok ops)
          | "lazy_pinned_dict" -> Model.run_lazy_pinned true pages (list_of_tok lop_of_tok ops)
          | "spec" -> Model.run_spec pages (list_of_tok op_of_tok ops)
          | "specnoidx" -> Model.run_spec_noindex pages (list_of_tok op_of_tok ops)
          | "speclazy" -> Model.run_spec_lazy pages (list_of_tok lop_of_tok ops)
          | _ -> failwith "c08.pages machine" in
        tok_of_list tok_of_out outs
    | _ -> failwith "c08.pages args");
  register "c08.rows" (function
    | [m; pages; ops] ->
        let pages = list_of_tok nat_of_hex pages in
        let ops = list_of_tok rop_of_tok ops in
        let outs =
          match m with
          | "idx" -> Model.run_rows_indexed pages ops
          | "noidx" -> Model.run_rows_noindex pages ops
          | "idx_pinned_reset" -> Model.run_rows_indexed_gen false pages ops
          | "noidx_pinned_reset" -> Model.run_rows_noindex_gen false false pages ops
          | "spec" -> Model.run_rspec true pages ops
          | "specnoidx" -> Model.run_rspec false pages ops
          | _ -> failwith "c08.rows machine" in
        tok_of_list tok_of_rout outs
    | _ -> failwith "c08.rows args")
