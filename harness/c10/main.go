package main

import (
	"bytes"
	"encoding/json"
	"fmt"
	"io"
	"os"
	"sort"
	"strconv"
	"strings"
	"time"

	"github.com/parquet-go/parquet-go"

	"verif/harness/core"
)

func main() {
	c10InitKinds()
	c10InitFacs()
	core.Main("C10", runC10, replayC10)
}

// ---------------------------------------------------------------------------
// cases

// c10Col describes one leaf column (in schema order).
type c10Col struct {
	Name   string `json:"name"` // path joined by "."
	Str    bool   `json:"str,omitempty"`
	MaxDef int    `json:"maxdef,omitempty"` // 0 = required
	Rep    bool   `json:"rep,omitempty"`    // repeated int64 (max repetition level 1, max definition level 1)
	// Type: the kind of the column (types.go); "" = INT(64) (or STRING when Str). The cells of a typed
	// column hold ordinals; the column holds their images emb_K(ordinal).
	Type string `json:"type,omitempty"`
}

// c10Cell is the value of one column of one row. A non-repeated cell is null
// when D < MaxDef of its column.
type c10Cell struct {
	D int     `json:"d,omitempty"`
	I int64   `json:"i,omitempty"`
	S string  `json:"s,omitempty"`
	L []int64 `json:"l,omitempty"`
	N []bool  `json:"n,omitempty"` // repeated columns of max definition level 2: null elements
	NZ bool   `json:"nz,omitempty"` // FLOAT / DOUBLE columns, ordinal 0: the value is -0
}

type c10Sort struct {
	Col        int  `json:"col"`
	Desc       bool `json:"desc,omitempty"`
	NullsFirst bool `json:"nulls_first,omitempty"`
}

// c10Step is one step of a history: "write" (typed Write of the Go struct
// rows, for the master schema), "writerows" (WriteRows of parquet.Row values),
// "sort" (sort.Sort), "read" (read all rows through Rows()), "flush"
// (SortingWriter.Flush), "close" (SortingWriter.Close: ends an output file),
// "reset" (SortingWriter.Reset with a new output: the writer is reused), "cols"
// (buffers only: every leaf column is read through a view of the column-level
// API, see views.go).
type c10Step struct {
	Op   string      `json:"op"`
	Rows [][]c10Cell `json:"rows,omitempty"`
	// "cols" (views.go): the view each leaf column is read through (clone | page | pages | chunk |
	// readat) and the length of the destinations of ReadValuesAt
	Views []string `json:"views,omitempty"`
	Chunk int      `json:"chunk,omitempty"`
}

type c10Case struct {
	Kind    string     `json:"kind"`   // generic | buffer | rowbuffer | writer | repeated
	Master  bool       `json:"master"` // the schema is the Go struct c10RowT
	Struct  string     `json:"struct,omitempty"` // the schema is the Go struct of this name (typed.go): generic | rowbuffer | writer
	Cols    []c10Col   `json:"cols"`
	Sorting []c10Sort  `json:"sorting"`
	Steps   []c10Step  `json:"steps"`
	// SortingWriter only
	SortRows   int    `json:"sort_rows,omitempty"`
	Dedupe     bool   `json:"dedupe,omitempty"`
	Pool       string `json:"pool,omitempty"` // "", "chunk", "file", "mem"
	MaxRowsRG  int    `json:"max_rows_per_row_group,omitempty"`
	// Reuse: the caller overwrites the memory of every batch once the Write / WriteRows call it was
	// handed to has returned (views.go)
	Reuse bool `json:"reuse,omitempty"`
	// SortingWriter only: PageBufferSize of the writer (0: the default)
	PageBuf int `json:"page_buffer_size,omitempty"`
	// the steps are those of a nearly sorted stream (near.go): written out when the case is run
	Near *c10Near `json:"near,omitempty"`
}

// MarshalJSON: the steps of a case of the nearly sorted family are a function of its parameters and
// are left out.
func (cs c10Case) MarshalJSON() ([]byte, error) {
	type plain c10Case
	if cs.Near != nil {
		cs.Steps = []c10Step{}
	}
	return json.Marshal(plain(cs))
}

type c10Grp struct {
	X *int64 `parquet:"x,optional"`
	Y string `parquet:"y"`
}

// c10RowT is the master schema: every kind of non-repeated column the model
// covers plus a repeated payload column.
type c10RowT struct {
	ID int64   `parquet:"id"`
	A  int64   `parquet:"a,optional"` // zero = null: written through writeValues runs
	B  *int64  `parquet:"b,optional"`
	C  string  `parquet:"c,optional"` // "" = null
	D  int64   `parquet:"d"`
	E  string  `parquet:"e,dict"`
	G  *c10Grp `parquet:"g,optional"`
	R  []int64 `parquet:"r"`
}

var c10MasterCols = []c10Col{
	{Name: "id"},
	{Name: "a", MaxDef: 1},
	{Name: "b", MaxDef: 1},
	{Name: "c", Str: true, MaxDef: 1},
	{Name: "d"},
	{Name: "e", Str: true},
	{Name: "g.x", MaxDef: 2},
	{Name: "g.y", Str: true, MaxDef: 1},
	{Name: "r", Rep: true, MaxDef: 1},
}

// c10RepT: the schema for sorting by repeated columns; items.x is a repeated
// column whose elements may be null (max definition level 2).
type c10Item struct {
	X *int64 `parquet:"x,optional"`
}

type c10RepT struct {
	ID    int64     `parquet:"id"`
	K     int64     `parquet:"k"`
	Items []c10Item `parquet:"items"`
	R     []int64   `parquet:"r"`
}

var c10RepCols = []c10Col{
	{Name: "id"},
	{Name: "k"},
	{Name: "items.x", Rep: true, MaxDef: 2},
	{Name: "r", Rep: true, MaxDef: 1},
}

func c10ToRepStruct(cells []c10Cell) c10RepT {
	r := c10RepT{ID: cells[0].I, K: cells[1].I}
	for i, x := range cells[2].L {
		it := c10Item{}
		if i >= len(cells[2].N) || !cells[2].N[i] {
			v := x
			it.X = &v
		}
		r.Items = append(r.Items, it)
	}
	if len(cells[3].L) > 0 {
		r.R = append([]int64(nil), cells[3].L...)
	}
	return r
}

func c10ElemNull(cell c10Cell, i int) bool { return i < len(cell.N) && cell.N[i] }

func c10ToStruct(cells []c10Cell) c10RowT {
	r := c10RowT{ID: cells[0].I, D: cells[4].I, E: cells[5].S}
	if cells[1].D == 1 {
		r.A = cells[1].I
	}
	if cells[2].D == 1 {
		v := cells[2].I
		r.B = &v
	}
	if cells[3].D == 1 {
		r.C = cells[3].S
	}
	if cells[7].D == 1 {
		g := &c10Grp{Y: cells[7].S}
		if cells[6].D == 2 {
			v := cells[6].I
			g.X = &v
		}
		r.G = g
	}
	if len(cells[8].L) > 0 {
		r.R = append([]int64(nil), cells[8].L...)
	}
	return r
}

func c10Null(col c10Col, cell c10Cell) bool { return !col.Rep && cell.D < col.MaxDef }

// c10MakeRow builds the parquet.Row of a logical row.
func c10MakeRow(cols []c10Col, cells []c10Cell) parquet.Row {
	row := make(parquet.Row, 0, len(cols)+2)
	for k, col := range cols {
		cell := cells[k]
		switch {
		case col.Rep:
			if len(cell.L) == 0 {
				row = append(row, parquet.Value{}.Level(0, 0, k))
			}
			for i, x := range cell.L {
				rep := 0
				if i > 0 {
					rep = 1
				}
				if c10ElemNull(cell, i) {
					row = append(row, parquet.Value{}.Level(rep, col.MaxDef-1, k))
				} else {
					row = append(row, parquet.Int64Value(x).Level(rep, col.MaxDef, k))
				}
			}
		case cell.D < col.MaxDef:
			row = append(row, parquet.Value{}.Level(0, cell.D, k))
		case col.Str:
			row = append(row, parquet.ByteArrayValue([]byte(cell.S)).Level(0, col.MaxDef, k))
		case col.typed():
			kd := c10KindOf(col.Type)
			row = append(row, kd.val(c10CellTV(kd, cell)).Level(0, col.MaxDef, k))
		default:
			row = append(row, parquet.Int64Value(cell.I).Level(0, col.MaxDef, k))
		}
	}
	return row
}

// c10ParseRow converts a row produced by the implementation back to cells;
// ok is false when the row does not have the shape of the schema.
func c10ParseRow(cols []c10Col, row parquet.Row) (cells []c10Cell, ok bool) {
	cells = make([]c10Cell, len(cols))
	seen := make([]int, len(cols))
	for _, v := range row {
		k := v.Column()
		if k < 0 || k >= len(cols) {
			return nil, false
		}
		col := cols[k]
		seen[k]++
		if col.Rep {
			switch {
			case !v.IsNull():
				if v.DefinitionLevel() != col.MaxDef {
					return nil, false
				}
				cells[k].L = append(cells[k].L, v.Int64())
				cells[k].N = append(cells[k].N, false)
			case v.DefinitionLevel() == 0 && seen[k] == 1:
				// the empty list
			case col.MaxDef == 2 && v.DefinitionLevel() == 1:
				cells[k].L = append(cells[k].L, 0)
				cells[k].N = append(cells[k].N, true)
			default:
				return nil, false
			}
			if (seen[k] == 1) != (v.RepetitionLevel() == 0) {
				return nil, false
			}
			continue
		}
		cells[k].D = v.DefinitionLevel()
		if v.IsNull() {
			if v.DefinitionLevel() >= col.MaxDef && col.MaxDef > 0 {
				return nil, false
			}
			if col.MaxDef == 0 {
				return nil, false
			}
			continue
		}
		if v.DefinitionLevel() != col.MaxDef {
			return nil, false
		}
		switch {
		case col.Str:
			if v.Kind() != parquet.ByteArray {
				return nil, false
			}
			cells[k].S = string(v.ByteArray())
		case col.typed():
			// the value must be of the physical type of the kind and the image of an ordinal
			kd := c10KindOf(col.Type)
			if v.Kind() != kd.phys {
				return nil, false
			}
			o, nz, good := c10Unembed(kd, kd.read(v))
			if !good {
				return nil, false
			}
			cells[k].I, cells[k].NZ = o, nz
		default:
			if v.Kind() != parquet.Int64 {
				return nil, false
			}
			cells[k].I = v.Int64()
		}
	}
	for k := range cols {
		if seen[k] == 0 || (!cols[k].Rep && seen[k] != 1) {
			return nil, false
		}
	}
	return cells, true
}

func c10Canon(cols []c10Col, cells []c10Cell) string {
	var sb strings.Builder
	for k, col := range cols {
		if k > 0 {
			sb.WriteByte(';')
		}
		cell := cells[k]
		switch {
		case col.Rep:
			sb.WriteString("l")
			for i, x := range cell.L {
				if c10ElemNull(cell, i) {
					sb.WriteString(":n")
				} else {
					sb.WriteString(":" + strconv.FormatInt(x, 10))
				}
			}
		case cell.D < col.MaxDef:
			sb.WriteString("n@" + strconv.Itoa(cell.D))
		case col.Str:
			sb.WriteString(core.Hexs([]byte(cell.S)) + "@" + strconv.Itoa(cell.D))
		case col.typed():
			// the ordinal and the value it stands for
			kd := c10KindOf(col.Type)
			sb.WriteString("i" + core.Zs(cell.I) + "=" + c10TVString(kd.order, c10CellTV(kd, cell)) + "@" + strconv.Itoa(cell.D))
		default:
			sb.WriteString("i" + core.Zs(cell.I) + "@" + strconv.Itoa(cell.D))
		}
	}
	return sb.String()
}

// model tokens (non-repeated columns only; the repeated payload is last)
func c10ModelCols(cols []c10Col) []c10Col {
	for len(cols) > 0 && cols[len(cols)-1].Rep {
		cols = cols[:len(cols)-1]
	}
	return cols
}

func c10ModelCellW(col c10Col, cell c10Cell) string {
	switch {
	case cell.D < col.MaxDef:
		return "n" + strconv.FormatInt(int64(cell.D), 16)
	case col.Str:
		return core.Hexs([]byte(cell.S))
	default:
		return "i" + core.Zs(cell.I)
	}
}

func c10ModelCellR(col c10Col, cell c10Cell) string {
	switch {
	case cell.D < col.MaxDef:
		return "n@" + strconv.FormatInt(int64(cell.D), 16)
	case col.Str:
		return core.Hexs([]byte(cell.S)) + "@" + strconv.FormatInt(int64(cell.D), 16)
	default:
		return "i" + core.Zs(cell.I) + "@" + strconv.FormatInt(int64(cell.D), 16)
	}
}

func c10ModelRowsW(cols []c10Col, rows [][]c10Cell) string {
	mc := c10ModelCols(cols)
	var sb strings.Builder
	for i, r := range rows {
		if i > 0 {
			sb.WriteByte('|')
		}
		for k, col := range mc {
			if k > 0 {
				sb.WriteByte(';')
			}
			sb.WriteString(c10ModelCellW(col, r[k]))
		}
	}
	return sb.String()
}

func c10ModelRowsR(cols []c10Col, rows [][]c10Cell) string {
	mc := c10ModelCols(cols)
	if len(rows) == 0 {
		return "_"
	}
	var sb strings.Builder
	for i, r := range rows {
		if i > 0 {
			sb.WriteByte('|')
		}
		for k, col := range mc {
			if k > 0 {
				sb.WriteByte(';')
			}
			sb.WriteString(c10ModelCellR(col, r[k]))
		}
	}
	return sb.String()
}

func c10ModelHead(cs *c10Case) string {
	mc := c10ModelCols(cs.Cols)
	var sch, srt []string
	for _, col := range mc {
		sch = append(sch, strconv.FormatInt(int64(col.MaxDef), 16))
	}
	for _, s := range cs.Sorting {
		srt = append(srt, fmt.Sprintf("%d:%s:%s", s.Col, b01(s.Desc), b01(s.NullsFirst)))
	}
	s := "_"
	if len(srt) > 0 {
		s = strings.Join(srt, ",")
	}
	return "c10.run 0 0 " + strings.Join(sch, ",") + " " + s + " "
}

func b01(b bool) string {
	if b {
		return "1"
	}
	return "0"
}

func c10SortingColumns(cs *c10Case) []parquet.SortingColumn {
	var out []parquet.SortingColumn
	for _, s := range cs.Sorting {
		path := strings.Split(cs.Cols[s.Col].Name, ".")
		var sc parquet.SortingColumn
		if s.Desc {
			sc = parquet.Descending(path...)
		} else {
			sc = parquet.Ascending(path...)
		}
		if s.NullsFirst {
			sc = parquet.NullsFirst(sc)
		}
		out = append(out, sc)
	}
	return out
}

func c10Schema(cs *c10Case) *parquet.Schema {
	if cs.Master {
		return parquet.SchemaOf(c10RowT{})
	}
	if cs.Struct != "" {
		return c10Facs[cs.Struct].schema()
	}
	g := parquet.Group{}
	for _, col := range cs.Cols {
		var n parquet.Node
		if col.Str {
			n = parquet.String()
		} else if col.typed() {
			n = c10KindOf(col.Type).node()
		} else {
			n = parquet.Int(64)
		}
		if col.Rep {
			n = parquet.Repeated(n)
		} else if col.MaxDef > 0 {
			n = parquet.Optional(n)
		}
		g[col.Name] = n
	}
	return parquet.NewSchema("t", g)
}

// c10Buf is what the three buffer types have in common.
type c10Buf interface {
	sort.Interface
	WriteRows([]parquet.Row) (int, error)
	Rows() parquet.Rows
}

type c10Recorder struct {
	sort.Interface
	swaps [][2]int
}

func (r *c10Recorder) Swap(i, j int) {
	r.swaps = append(r.swaps, [2]int{i, j})
	r.Interface.Swap(i, j)
}

func c10ReadAll(rows parquet.Rows) ([]parquet.Row, error) {
	defer rows.Close()
	var out []parquet.Row
	buf := make([]parquet.Row, 7)
	for {
		n, err := rows.ReadRows(buf)
		for i := 0; i < n; i++ {
			out = append(out, buf[i].Clone())
		}
		if err == io.EOF {
			return out, nil
		}
		if err != nil {
			return out, err
		}
		if n == 0 && len(out) > 100000 {
			return out, fmt.Errorf("reader does not terminate")
		}
	}
}

// c10Hangs counts calls into the implementation that did not return; each
// leaves a spinning goroutine behind, so the run stops early after a few.
var c10Hangs int

// c10Guard runs a call into the implementation, recovering a panic and
// giving up on a call that does not return.
func c10Guard(f func()) (msg string) {
	done := make(chan string, 1)
	go func() {
		defer func() {
			if r := recover(); r != nil {
				done <- fmt.Sprint(r)
			}
		}()
		f()
		done <- ""
	}()
	select {
	case m := <-done:
		return m
	case <-time.After(6 * time.Second):
		c10Hangs++
		return "the call did not return within 6 s (endless loop)"
	}
}

// c10Large: buffers of more than 2^16 rows. The row -> value index of an
// optional column is filled by kernels that add a base to a lane index; the
// interesting bases are the ones where the sum crosses a multiple of 65536
// inside the scalar tail of a run (run lengths that are not a multiple of 8).
func c10Large(c *core.Ctx) {
	type rowT struct {
		ID int64 `parquet:"id"`
		A  int64 `parquet:"a,optional"` // 0 = null
	}
	for _, before := range []int{65536 - 6, 65536 - 13, 2*65536 - 3} {
		var rows []rowT
		val := func(i int) int64 { return int64(1 + (i*7919)%29) }
		for i := 0; i < before; i++ {
			rows = append(rows, rowT{ID: int64(i), A: val(i)})
		}
		// null, a run of 15, null, a run of 9, null, a run of 23
		for _, run := range []int{15, 9, 23} {
			rows = append(rows, rowT{ID: int64(len(rows))})
			for k := 0; k < run; k++ {
				rows = append(rows, rowT{ID: int64(len(rows)), A: val(len(rows))})
			}
		}
		buf := parquet.NewGenericBuffer[rowT](parquet.SortingRowGroupConfig(parquet.SortingColumns(parquet.Ascending("a"), parquet.Ascending("id"))))
		what := fmt.Sprintf("GenericBuffer of %d rows (optional int64 sorted ascending, runs of 15/9/23 non-null values after %d values)", len(rows), before)
		replay := map[string]any{"kind": "large-buffer", "values_before": before}
		bad := ""
		msg := c10Guard(func() {
			// one Write call per run, so that the typed path sees the runs
			for i := 0; i < before; i += 4096 {
				j := i + 4096
				if j > before {
					j = before
				}
				buf.Write(rows[i:j])
			}
			buf.Write(rows[before:])
			// Less on the tail against the values
			for i := before - 4; i+1 < len(rows) && bad == ""; i++ {
				want := func(x, y rowT) bool {
					switch {
					case x.A == 0 || y.A == 0:
						return x.A != 0 && y.A == 0 // nulls last
					case x.A != y.A:
						return x.A < y.A
					}
					return x.ID < y.ID
				}
				if got := buf.Less(i, i+1); got != want(rows[i], rows[i+1]) {
					bad = fmt.Sprintf("Less(%d,%d) = %v, rows a=%d and a=%d", i, i+1, got, rows[i].A, rows[i+1].A)
				}
			}
			if bad != "" {
				return
			}
			sort.Sort(buf)
			out := make([]rowT, len(rows))
			r := parquet.NewGenericRowGroupReader[rowT](buf)
			n, _ := r.Read(out)
			r.Close()
			if n != len(rows) {
				bad = fmt.Sprintf("%d rows read back of %d", n, len(rows))
				return
			}
			seen := make([]bool, len(rows))
			for i, o := range out {
				if o.ID < 0 || int(o.ID) >= len(rows) || seen[o.ID] || rows[o.ID] != o {
					bad = fmt.Sprintf("row %d read back as %+v is not an intact row of the input", i, o)
					return
				}
				seen[o.ID] = true
				if i > 0 {
					p := out[i-1]
					ok := (p.A != 0 && o.A == 0) || (p.A != 0 && o.A != 0 && (p.A < o.A || p.A == o.A && p.ID < o.ID)) || (p.A == 0 && o.A == 0)
					if !ok {
						bad = fmt.Sprintf("rows %d,%d out of order after sort: %+v then %+v", i-1, i, p, o)
						return
					}
				}
			}
		})
		c.Res.Evaluations++
		if msg != "" {
			c.Violation("large-buffer", what+": "+msg, replay)
		} else if bad != "" {
			c.Violation("large-buffer", what+": "+bad, replay)
		}
		c.Case("large/buffer", fmt.Sprint(before), true)
	}
}

// c10CmpCells: the order the sorting columns declare on two logical rows (< 0: a before b), decided by
// the harness on the decoded Go values of the cells (c10CmpTV for the columns of a kind, signed integers
// and unsigned bytes for the INT(64) and STRING columns); the library's comparison functions are not
// involved. Ascending/descending applies to the values, nulls first/last to the position of the nulls
// whatever the direction. ok = false when a sorting column is repeated (no order is declared by the
// harness for those: see the repeated-column model).
func c10CmpCells(cols []c10Col, sorting []c10Sort, a, b []c10Cell) (cmp int, ok bool) {
	for _, s := range sorting {
		col := cols[s.Col]
		if col.Rep {
			return 0, false
		}
		x, y := a[s.Col], b[s.Col]
		nx, ny := x.D < col.MaxDef, y.D < col.MaxDef
		switch {
		case nx && ny:
			continue
		case nx || ny:
			if nx == s.NullsFirst {
				return -1, true
			}
			return +1, true
		}
		c := 0
		switch {
		case col.Str:
			c = c10CmpTV(c10OrdBytes, c10TV{b: []byte(x.S)}, c10TV{b: []byte(y.S)})
		case col.typed():
			kd := c10KindOf(col.Type)
			c = c10CmpTV(kd.order, c10CellTV(kd, x), c10CellTV(kd, y))
		default:
			c = c10CmpTV(c10OrdSigned, c10TV{i: x.I}, c10TV{i: y.I})
		}
		if s.Desc {
			c = -c
		}
		if c != 0 {
			return c, true
		}
	}
	return 0, true
}

// c10Comparator: Schema.Comparator of the case's schema (schema = nil: derived from the case); a panic of
// its construction or of a comparison is a violation (the comparison then counts as 0).
func c10Comparator(c *core.Ctx, cs *c10Case, schema *parquet.Schema, sorting []parquet.SortingColumn) func(a, b parquet.Row) int {
	var f func(a, b parquet.Row) int
	func() {
		defer func() {
			if e := recover(); e != nil {
				c.Violation("panic", fmt.Sprintf("Schema.Comparator(%v) panicked: %v", sorting, e), cs)
			}
		}()
		if schema == nil {
			schema = c10Schema(cs)
		}
		f = schema.Comparator(sorting...)
	}()
	return func(a, b parquet.Row) (r int) {
		if f == nil {
			return 0
		}
		defer func() {
			if e := recover(); e != nil {
				c.Violation("panic", fmt.Sprintf("Schema.Comparator panicked on the rows %v and %v: %v; sorting %+v", a, b, e, cs.Sorting), cs)
				r = 0
			}
		}()
		return f(a, b)
	}
}

func c10Sgn(x int) int {
	switch {
	case x < 0:
		return -1
	case x > 0:
		return 1
	}
	return 0
}

func c10Sign(x int) byte {
	switch {
	case x < 0:
		return '-'
	case x > 0:
		return '+'
	}
	return '0'
}

// ---------------------------------------------------------------------------
// buffers: GenericBuffer / Buffer / RowBuffer

// c10CheckBuffer runs one history and evaluates the property on the
// implementation's output and the correspondence with the model. It returns
// the page rows and less matrices observed (for cases.v) when everything held.
type c10Obs struct {
	ops   string // model ops up to the observation
	rows  string // rows read (model notation)
	less  string
	nrows int
}

func c10CheckBuffer(c *core.Ctx, cs *c10Case) (obs []c10Obs, ok bool) {
	ok = true
	cols := cs.Cols
	sorting := c10SortingColumns(cs)
	var buf c10Buf
	var typedWrite func(rows [][]c10Cell, reuse bool) error
	var schema *parquet.Schema
	typedTok := "W"
	toStructs := func(rows [][]c10Cell) []c10RowT {
		rs := make([]c10RowT, len(rows))
		for i := range rows {
			rs[i] = c10ToStruct(rows[i])
		}
		return rs
	}
	if msg := c10Guard(func() {
		opt := parquet.SortingRowGroupConfig(parquet.SortingColumns(sorting...))
		if cs.Struct != "" {
			f := c10Facs[cs.Struct]
			if cs.Kind == "generic" {
				buf, typedWrite = f.newGeneric(opt)
				typedTok = "T"
			} else {
				buf, typedWrite = f.newRowBuffer(opt)
			}
			schema = f.schema()
			return
		}
		switch cs.Kind {
		case "generic":
			b := parquet.NewGenericBuffer[c10RowT](opt)
			buf, schema = b, b.Schema()
			typedWrite = func(rows [][]c10Cell, reuse bool) error {
				rs := toStructs(rows)
				_, err := b.Write(rs)
				if reuse {
					c10ClobberStructs(rs)
				}
				return err
			}
			typedTok = "T"
		case "repeated":
			b := parquet.NewGenericBuffer[c10RepT](opt)
			buf, schema = b, b.Schema()
			typedWrite = func(rows [][]c10Cell, reuse bool) error {
				rs := make([]c10RepT, len(rows))
				for i := range rows {
					rs[i] = c10ToRepStruct(rows[i])
				}
				_, err := b.Write(rs)
				if reuse {
					c10ClobberStructs(rs)
				}
				return err
			}
		case "rowbuffer":
			if cs.Master {
				b := parquet.NewRowBuffer[c10RowT](opt)
				buf, schema = b, b.Schema()
				typedWrite = func(rows [][]c10Cell, reuse bool) error {
					rs := toStructs(rows)
					_, err := b.Write(rs)
					if reuse {
						c10ClobberStructs(rs)
					}
					return err
				}
			} else {
				schema = c10Schema(cs)
				b := parquet.NewRowBuffer[any](schema, opt)
				buf = b
			}
		default: // "buffer"
			schema = c10Schema(cs)
			b := parquet.NewBuffer(schema, opt)
			buf = b
			if cs.Master {
				typedWrite = func(cells [][]c10Cell, reuse bool) error {
					rows := toStructs(cells)
					for i := range rows {
						if err := b.Write(&rows[i]); err != nil {
							return err
						}
						if reuse {
							c10ClobberStructs(rows[i : i+1])
						}
					}
					return nil
				}
			}
		}
	}); msg != "" {
		c.Violation("panic", "constructing the buffer panicked: "+msg, cs)
		return nil, false
	}
	compare := c10Comparator(c, cs, schema, sorting)
	head := c10ModelHead(cs)
	// the model: the multi-column buffer of required and optional columns, or
	// (sorting by one repeated column) the repeated column buffer alone
	useModel, repCol := true, -1
	const nparts = 4
	rowsW := func(rows [][]c10Cell) string { return c10ModelRowsW(cols, rows) }
	rowsR := func(rows [][]c10Cell) string { return c10ModelRowsR(cols, rows) }
	if cs.Kind == "repeated" {
		useModel = false
		if len(cs.Sorting) == 1 && cols[cs.Sorting[0].Col].Rep {
			useModel, repCol = true, cs.Sorting[0].Col
			head = fmt.Sprintf("c10.rep %x %s %s ", cols[repCol].MaxDef, b01(cs.Sorting[0].NullsFirst), b01(cs.Sorting[0].Desc))
			rowsW = func(rows [][]c10Cell) string { return c10RepRows(cols[repCol], repCol, rows, ";") }
			rowsR = func(rows [][]c10Cell) string {
				if len(rows) == 0 {
					return "_"
				}
				return c10RepRows(cols[repCol], repCol, rows, "|")
			}
		}
	}
	cls := func(k string) string {
		if cs.Kind == "repeated" && (k == "less-vs-comparator" || k == "not-sorted") {
			return "repeated-sort-order"
		}
		return k
	}
	var ops []string
	var cur, written [][]c10Cell
	sortedNow := false
	var clones []c10ColClone

	// less matrix of the implementation + predicate Less <=> comparator < 0
	lessMatrix := func(where string) (string, bool) {
		n := buf.Len()
		if n != len(cur) {
			c.Violation("wrong-length", fmt.Sprintf("%s: Len() = %d after %d rows were written", where, n, len(cur)), cs)
			return "", false
		}
		if n == 0 {
			return "_", true
		}
		prs := make([]parquet.Row, n)
		for i := range cur {
			prs[i] = c10MakeRow(cols, cur[i])
		}
		var sb strings.Builder
		good := true
		if msg := c10Guard(func() {
			for i := 0; i < n; i++ {
				if i > 0 {
					sb.WriteByte('|')
				}
				for j := 0; j < n; j++ {
					l := buf.Less(i, j)
					sb.WriteString(b01(l))
					// the order declared by the sorting columns (the harness's own comparator)
					if own, has := c10CmpCells(cols, cs.Sorting, cur[i], cur[j]); has && good {
						if (own < 0) != l {
							good = false
							c.Violation("less-not-declared-order", fmt.Sprintf("%s: Less(%d,%d) = %v but the sorting columns order row %d %s row %d; rows %s and %s; sorting %+v",
								where, i, j, l, i, map[int]string{-1: "before", 0: "equal to", 1: "after"}[c10Sgn(own)], j, c10Canon(cols, cur[i]), c10Canon(cols, cur[j]), cs.Sorting), cs)
						} else if x := compare(prs[i], prs[j]); c10Sgn(x) != c10Sgn(own) {
							good = false
							c.Violation("comparator-not-declared-order", fmt.Sprintf("%s: Schema.Comparator(row %d, row %d) = %d but the sorting columns order row %d %s row %d; rows %s and %s; sorting %+v",
								where, i, j, x, i, map[int]string{-1: "before", 0: "equal to", 1: "after"}[c10Sgn(own)], j, c10Canon(cols, cur[i]), c10Canon(cols, cur[j]), cs.Sorting), cs)
						}
					}
					if want := compare(prs[i], prs[j]) < 0; want != l && good {
						good = false
						c.Violation(cls("less-vs-comparator"), fmt.Sprintf("%s: Less(%d,%d) = %v but Schema.Comparator(row %d, row %d) = %d; rows %s and %s; sorting %+v",
							where, i, j, l, i, j, compare(prs[i], prs[j]), c10Canon(cols, cur[i]), c10Canon(cols, cur[j]), cs.Sorting), cs)
					}
				}
			}
		}); msg != "" {
			c.Violation("panic", where+": Less panicked: "+msg, cs)
			return "", false
		}
		return sb.String(), good
	}
	cmpMatrix := func() string {
		n := len(cur)
		if n == 0 {
			return "_"
		}
		prs := make([]parquet.Row, n)
		for i := range cur {
			prs[i] = c10MakeRow(cols, cur[i])
		}
		var sb strings.Builder
		for i := 0; i < n; i++ {
			if i > 0 {
				sb.WriteByte('|')
			}
			for j := 0; j < n; j++ {
				sb.WriteByte(c10Sign(compare(prs[i], prs[j])))
			}
		}
		return sb.String()
	}
	askModel := func() []string {
		o := "_"
		if len(ops) > 0 {
			o = strings.Join(ops, "/")
		}
		return strings.Split(c.Ask(head+o), "#")
	}

	for si, st := range cs.Steps {
		where := fmt.Sprintf("step %d (%s)", si, st.Op)
		switch st.Op {
		case "write", "writerows":
			typed := st.Op == "write" && typedWrite != nil
			var err error
			msg := c10Guard(func() {
				if typed {
					err = typedWrite(st.Rows, cs.Reuse)
				} else {
					prs := make([]parquet.Row, len(st.Rows))
					for i := range st.Rows {
						prs[i] = c10MakeRow(cols, st.Rows[i])
					}
					_, err = buf.WriteRows(prs)
					if cs.Reuse {
						c10ClobberRows(prs)
					}
				}
			})
			if msg != "" || err != nil {
				c.Violation("panic", fmt.Sprintf("%s: write failed: %s %v", where, msg, err), cs)
				return nil, false
			}
			cur = append(cur, st.Rows...)
			written = append(written, st.Rows...)
			tok := "W"
			if typed {
				tok = typedTok
			}
			if repCol >= 0 {
				tok = "W"
			}
			ops = append(ops, tok+rowsW(st.Rows))
			sortedNow = false
		case "sort":
			if len(cur) <= 40 {
				lm, good := lessMatrix(where + " before sorting")
				if !good {
					ok = false
				}
				if lm == "" {
					return nil, false
				}
				if !useModel {
				} else if ans := askModel(); len(ans) == nparts {
					if ans[2] != lm && good {
						c.Mismatch("corr:C10.less", head+strings.Join(ops, "/"), lm, ans[2], cs)
						ok = false
					}
					if cm := cmpMatrix(); ans[3] != cm && good {
						c.Mismatch("corr:C10.comparator", head+strings.Join(ops, "/"), cm, ans[3], cs)
						ok = false
					}
					if repCol >= 0 && good {
						// Go's Less matrix against the comparator of the model, for which
						// C10_repeated_less_is_comparator is proved: Less(i,j) <=> comparator < 0
						want := strings.Map(func(r rune) rune {
							switch r {
							case '-':
								return '1'
							case '0', '+':
								return '0'
							}
							return r
						}, ans[3])
						if want != lm {
							c.Mismatch("corr:C10.repeated-less-vs-proved-comparator", head+strings.Join(ops, "/"), lm, want, cs)
							ok = false
						}
					}
					if mr := rowsR(cur); ans[0] != mr {
						c.Mismatch("corr:C10.logical-rows", head+strings.Join(ops, "/"), mr, ans[0], cs)
						ok = false
					}
				} else if c.HasOracle() {
					c.Mismatch("corr:C10.less", head+strings.Join(ops, "/"), lm, strings.Join(ans, "#"), cs)
					ok = false
				}
			}
			rec := &c10Recorder{Interface: buf}
			if msg := c10Guard(func() { sort.Sort(rec) }); msg != "" {
				c.Violation("panic", where+": sort.Sort panicked: "+msg, cs)
				return nil, false
			}
			for _, sw := range rec.swaps {
				if sw[0] < 0 || sw[1] < 0 || sw[0] >= len(cur) || sw[1] >= len(cur) {
					c.Violation("panic", where+": sort.Sort swapped out of range", cs)
					return nil, false
				}
				cur[sw[0]], cur[sw[1]] = cur[sw[1]], cur[sw[0]]
				ops = append(ops, fmt.Sprintf("S%d:%d", sw[0], sw[1]))
			}
			// cur was aliasing the steps' rows: keep it private
			cur = append([][]c10Cell(nil), cur...)
			sortedNow = true
		case "cols":
			// every leaf column through a view of the column-level API (views.go)
			if len(st.Views) != len(cols) {
				return nil, false
			}
			colRows := make([][][]parquet.Value, len(cols))
			used := make([]string, len(cols))
			for k := range cols {
				var vals []parquet.Value
				var clone parquet.ColumnBuffer
				var err error
				used[k] = st.Views[k]
				if msg := c10Guard(func() { vals, clone, used[k], err = c10ViewColumn(buf, k, st.Views[k], st.Chunk) }); msg != "" || err != nil {
					c.Violation("column-view-failed", fmt.Sprintf("%s: reading column %d (%s) through the view %q failed: %s %v", where, k, cols[k].Name, used[k], msg, err), cs)
					return nil, false
				}
				if clone != nil {
					clones = append(clones, c10ColClone{col: k, step: si, clone: clone, values: c10ValueKeys(vals)})
				}
				colRows[k] = c10CutRows(cols[k], vals)
				if len(colRows[k]) != len(cur) {
					c.Violation("column-view-not-the-rows", fmt.Sprintf("%s: column %d (%s) read through the view %q has %d rows (%d values), the buffer holds %d rows", where, k, cols[k].Name, used[k], len(colRows[k]), len(vals), len(cur)), cs)
					return nil, false
				}
				if c10ViewMutates(used[k]) {
					if repCol < 0 {
						ops = append(ops, fmt.Sprintf("C%d", k))
					} else if k == repCol {
						ops = append(ops, "P")
					}
				}
			}
			// the rows the columns hold side by side: row i is the row the exchanges put at position i
			gotCells := make([][]c10Cell, len(cur))
			for i := range cur {
				var row parquet.Row
				for k := range cols {
					row = append(row, colRows[k][i]...)
				}
				want := c10MakeRow(cols, cur[i])
				cells, good := c10ParseRow(cols, row)
				if !good || c10Canon(cols, cells) != c10Canon(cols, cur[i]) || len(row) != len(want) {
					// name the first column that differs
					at, pos := -1, 0
					for k := range cols {
						n := len(colRows[k][i])
						for x := 0; x < n && at < 0; x++ {
							if pos+x >= len(want) || c10ValueKey(want[pos+x]) != c10ValueKey(colRows[k][i][x]) {
								at = k
							}
						}
						pos += n
					}
					if at < 0 {
						at = len(cols) - 1
					}
					c.Violation("column-view-not-the-rows", fmt.Sprintf("%s: row %d read through the column views %v is %v but the exchanges performed put the row %s there (written as %v): column %d (%s), view %q",
						where, i, used, row, c10Canon(cols, cur[i]), want, at, cols[at].Name, used[at]), cs)
					return nil, false
				}
				// the values bit for bit (levels and column index included)
				for x := range want {
					if c10ValueKey(want[x]) != c10ValueKey(row[x]) {
						c.Violation("column-view-not-the-rows", fmt.Sprintf("%s: row %d read through the column views %v: value %d is %s, written as %s", where, i, used, x, c10ValueKey(row[x]), c10ValueKey(want[x])), cs)
						return nil, false
					}
				}
				gotCells[i] = cells
			}
			if sortedNow {
				for i := 0; i+1 < len(gotCells); i++ {
					if own, has := c10CmpCells(cols, cs.Sorting, gotCells[i], gotCells[i+1]); has && own > 0 {
						c.Violation("not-sorted", fmt.Sprintf("%s: after sort.Sort rows %d and %d of the column views are not in the order of the sorting columns: %s then %s; sorting %+v", where, i, i+1, c10Canon(cols, gotCells[i]), c10Canon(cols, gotCells[i+1]), cs.Sorting), cs)
						ok = false
						break
					}
				}
			}
			if len(cur) <= 40 && useModel {
				if ans := askModel(); len(ans) == nparts {
					mr := rowsR(gotCells)
					if ans[1] != mr {
						c.Mismatch("corr:C10.column-views-page-rows", head+strings.Join(ops, "/"), mr, ans[1], cs)
						ok = false
					}
					if ans[0] != mr {
						c.Mismatch("corr:C10.column-views-logical-rows", head+strings.Join(ops, "/"), mr, ans[0], cs)
						ok = false
					}
				} else if c.HasOracle() {
					c.Mismatch("corr:C10.column-views-page-rows", head+strings.Join(ops, "/"), "", strings.Join(ans, "#"), cs)
					ok = false
				}
				// ReadValuesAt against the model of it (c10.readat)
				mc := c10ModelCols(cols)
				for k := range mc {
					if used[k] != "readat" || repCol >= 0 || !c.HasOracle() || len(cur) == 0 {
						continue
					}
					chunk := st.Chunk
					if chunk < 1 {
						chunk = 1
					}
					// (one window per column: inside the column or reaching past its end, in turn)
					for _, off := range []int{(chunk + 1) % len(cur), len(cur) - 1 - (chunk/2)%len(cur)}[(k+chunk)%2:][:1] {
						var toks []string
						for i := off; i < off+chunk && i < len(cur); i++ {
							toks = append(toks, c10ModelCellR(mc[k], gotCells[i][k]))
						}
						req := fmt.Sprintf("%s%s %d %d %d", strings.Replace(head, "c10.run 0 0 ", "c10.readat ", 1), strings.Join(ops, "/"), k, off, chunk)
						if ans := c.Ask(req); ans != strings.Join(toks, ";") {
							c.Mismatch("corr:C10.read-values-at", req, strings.Join(toks, ";"), ans, cs)
							ok = false
						}
					}
				}
			}
		case "read":
			var got []parquet.Row
			var err error
			if msg := c10Guard(func() { got, err = c10ReadAll(buf.Rows()) }); msg != "" || err != nil {
				c.Violation("panic", fmt.Sprintf("%s: reading the rows failed: %s %v", where, msg, err), cs)
				return nil, false
			}
			gotCells := make([][]c10Cell, len(got))
			shape := true
			for i, r := range got {
				cells, good := c10ParseRow(cols, r)
				if !good {
					c.Violation("not-a-permutation", fmt.Sprintf("%s: row %d read back is malformed: %v", where, i, r), cs)
					shape = false
					break
				}
				gotCells[i] = cells
			}
			if !shape {
				return nil, false
			}
			// permutation of the rows written (whole rows)
			a := make([]string, len(gotCells))
			b := make([]string, len(written))
			for i := range gotCells {
				a[i] = c10Canon(cols, gotCells[i])
			}
			for i := range written {
				b[i] = c10Canon(cols, written[i])
			}
			sa, sb := append([]string(nil), a...), append([]string(nil), b...)
			sort.Strings(sa)
			sort.Strings(sb)
			if strings.Join(sa, "\n") != strings.Join(sb, "\n") {
				c.Violation("not-a-permutation", fmt.Sprintf("%s: the %d rows read are not a permutation of the %d rows written (whole rows): read %v", where, len(a), len(b), a), cs)
				return nil, false
			}
			// the order is the one the recorded swaps produce
			for i := range cur {
				if a[i] != c10Canon(cols, cur[i]) {
					c.Violation("rows-not-where-swapped", fmt.Sprintf("%s: row %d read is %s but the swaps performed put %s there", where, i, a[i], c10Canon(cols, cur[i])), cs)
					return nil, false
				}
			}
			// ordered by the comparator
			if sortedNow {
				for i := 0; i+1 < len(got); i++ {
					if own, has := c10CmpCells(cols, cs.Sorting, gotCells[i], gotCells[i+1]); has && own > 0 {
						c.Violation("not-sorted", fmt.Sprintf("%s: after sort.Sort rows %d and %d are not in the order of the sorting columns: %s then %s; sorting %+v", where, i, i+1, a[i], a[i+1], cs.Sorting), cs)
						ok = false
						break
					}
					if x := compare(got[i], got[i+1]); x > 0 {
						c.Violation(cls("not-sorted"), fmt.Sprintf("%s: after sort.Sort rows %d and %d are out of order for Schema.Comparator (%d): %s then %s; sorting %+v", where, i, i+1, x, a[i], a[i+1], cs.Sorting), cs)
						ok = false
						break
					}
				}
			}
			ops = append(ops, "P")
			if len(cur) <= 40 {
				lm, good := lessMatrix(where + " after reading")
				if !good {
					ok = false
				}
				if lm == "" {
					return nil, false
				}
				if !useModel {
				} else if ans := askModel(); len(ans) == nparts {
					mr := rowsR(gotCells)
					if ans[1] != mr {
						c.Mismatch("corr:C10.page-rows", head+strings.Join(ops, "/"), mr, ans[1], cs)
						ok = false
					}
					if ans[0] != mr {
						c.Mismatch("corr:C10.logical-rows", head+strings.Join(ops, "/"), mr, ans[0], cs)
						ok = false
					}
					if ans[2] != lm && good {
						c.Mismatch("corr:C10.less-after-page", head+strings.Join(ops, "/"), lm, ans[2], cs)
						ok = false
					}
					if repCol < 0 {
						obs = append(obs, c10Obs{ops: strings.Join(ops, "/"), rows: mr, less: lm, nrows: len(cur)})
					}
				} else if c.HasOracle() {
					c.Mismatch("corr:C10.page-rows", head+strings.Join(ops, "/"), lm, strings.Join(ans, "#"), cs)
					ok = false
				}
			}
		}
	}
	// the clones taken on the way share no memory with the buffer: they still hold what they held
	for _, cl := range clones {
		var vals []parquet.Value
		var err error
		if msg := c10Guard(func() { vals, err = c10ReadPage(cl.clone.Page()) }); msg != "" || err != nil {
			c.Violation("column-view-failed", fmt.Sprintf("reading the clone of column %d (%s) taken at step %d again at the end of the history failed: %s %v", cl.col, cols[cl.col].Name, cl.step, msg, err), cs)
			return nil, false
		}
		if now := c10ValueKeys(vals); strings.Join(now, "\n") != strings.Join(cl.values, "\n") {
			c.Violation("column-clone-changed", fmt.Sprintf("the clone of column %d (%s) taken at step %d held %v; at the end of the history it holds %v", cl.col, cols[cl.col].Name, cl.step, cl.values, now), cs)
			return nil, false
		}
	}
	return obs, ok
}

// ---------------------------------------------------------------------------
// SortingWriter

// c10File is one output file of a SortingWriter history: its bytes and the
// rows written to it (between the previous Close/Reset and its Close).
type c10File struct {
	data    []byte
	written [][]c10Cell
}

// c10CheckWriter runs a history (write | writerows | flush | close | reset)* on
// one SortingWriter; a Close is implied at the end unless the history ends with
// one. Every closed file is checked against the rows written to it, and the
// files together against the model of the writer (Sort/Writer.v).
func c10CheckWriter(c *core.Ctx, cs *c10Case) bool {
	cols := cs.Cols
	sorting := c10SortingColumns(cs)
	var files []c10File
	var tmpdir string
	defer func() {
		if tmpdir != "" {
			os.RemoveAll(tmpdir)
		}
	}()
	var failure string
	msg := c10Guard(func() {
		sopts := []parquet.SortingOption{parquet.SortingColumns(sorting...), parquet.DropDuplicatedRows(cs.Dedupe)}
		switch cs.Pool {
		case "chunk":
			sopts = append(sopts, parquet.SortingBuffers(parquet.NewChunkBufferPool(64)))
		case "mem":
			sopts = append(sopts, parquet.SortingBuffers(parquet.NewBufferPool()))
		case "file":
			d, err := os.MkdirTemp("", "c10-")
			if err != nil {
				failure = err.Error()
				return
			}
			tmpdir = d
			sopts = append(sopts, parquet.SortingBuffers(parquet.NewFileBufferPool(d, "sort.*")))
		}
		wopts := []parquet.WriterOption{parquet.SortingWriterConfig(sopts...)}
		if cs.MaxRowsRG > 0 {
			wopts = append(wopts, parquet.MaxRowsPerRowGroup(int64(cs.MaxRowsRG)))
		}
		if cs.PageBuf > 0 {
			wopts = append(wopts, parquet.PageBufferSize(cs.PageBuf))
		}
		out := new(bytes.Buffer)
		var written [][]c10Cell
		closed := false
		// the writer: over the master struct, over the struct of a kind (typed.go), or over a Group
		// schema (SortingWriter[any]: rows are written with WriteRows only)
		var w c10SW
		var typedWrite func(rows [][]c10Cell, reuse bool) error
		switch {
		case cs.Master:
			mw := parquet.NewSortingWriter[c10RowT](out, int64(cs.SortRows), wopts...)
			w = mw
			typedWrite = func(rows [][]c10Cell, reuse bool) error {
				rs := make([]c10RowT, len(rows))
				for i := range rows {
					rs[i] = c10ToStruct(rows[i])
				}
				_, err := mw.Write(rs)
				if reuse {
					c10ClobberStructs(rs)
				}
				return err
			}
		case cs.Struct != "":
			w, typedWrite = c10Facs[cs.Struct].newWriter(out, int64(cs.SortRows), wopts...)
		default:
			w = parquet.NewSortingWriter[any](out, int64(cs.SortRows), append(wopts, c10Schema(cs))...)
		}
		closeFile := func() bool {
			if err := w.Close(); err != nil {
				failure = "Close: " + err.Error()
				return false
			}
			files = append(files, c10File{data: append([]byte(nil), out.Bytes()...), written: written})
			closed = true
			return true
		}
		for _, st := range cs.Steps {
			op := st.Op
			if op == "write" && typedWrite == nil {
				op = "writerows"
			}
			switch op {
			case "write":
				if err := typedWrite(st.Rows, cs.Reuse); err != nil {
					failure = "Write: " + err.Error()
					return
				}
				written = append(written, st.Rows...)
				closed = false
			case "writerows":
				prs := make([]parquet.Row, len(st.Rows))
				for i := range st.Rows {
					prs[i] = c10MakeRow(cols, st.Rows[i])
				}
				_, err := w.WriteRows(prs)
				if cs.Reuse {
					c10ClobberRows(prs)
				}
				if err != nil {
					failure = "WriteRows: " + err.Error()
					return
				}
				written = append(written, st.Rows...)
				closed = false
			case "flush":
				if err := w.Flush(); err != nil {
					failure = "Flush: " + err.Error()
					return
				}
			case "close":
				if !closeFile() {
					return
				}
			case "reset":
				out = new(bytes.Buffer)
				w.Reset(out)
				written = nil
				closed = false
			}
		}
		if !closed {
			closeFile()
		}
	})
	if msg != "" || failure != "" {
		c.Violation("writer-error", "SortingWriter failed: "+msg+failure, cs)
		return false
	}
	ok := true
	gotIDs := make([][]int64, len(files))
	for fi, f := range files {
		ids, good := c10CheckWriterFile(c, cs, fi, len(files), f)
		if !good {
			ok = false
		}
		if ids == nil {
			return false
		}
		gotIDs[fi] = ids
	}
	if ok && !c10CheckWriterModel(c, cs, files, gotIDs) {
		ok = false
	}
	return ok
}

// c10WriterOps renders a writer history for the oracle (c10.sw) and numbers
// the rows in the order they are written: num maps the id cell of a row to
// its number, rows[k] is the row numbered k.
func c10WriterOps(cs *c10Case) (ops string, num map[int64]int, rows [][]c10Cell) {
	num = map[int64]int{}
	var toks []string
	closed := false
	for _, st := range cs.Steps {
		switch st.Op {
		case "write", "writerows":
			toks = append(toks, "W"+c10ModelRowsW(cs.Cols, st.Rows))
			for _, r := range st.Rows {
				num[r[0].I] = len(rows)
				rows = append(rows, r)
			}
			closed = false
		case "flush":
			toks = append(toks, "F")
		case "close":
			toks = append(toks, "C")
			closed = true
		case "reset":
			toks = append(toks, "R")
			closed = false
		}
	}
	if !closed {
		toks = append(toks, "C")
	}
	return strings.Join(toks, "/"), num, rows
}

// c10CheckWriterModel: the files of the Go SortingWriter against the model of
// the writer. The order sort.Sort gives rows of equal keys is not specified, so
// the files are compared position by position up to rows of equal keys: the
// same number of rows, and at every position a row whose key equals the key of
// the model's row (Schema.Comparator == 0); without DropDuplicatedRows also the
// same set of rows.
func c10CheckWriterModel(c *core.Ctx, cs *c10Case, files []c10File, gotIDs [][]int64) bool {
	ops, num, rows := c10WriterOps(cs)
	if len(rows) > 400 || !c.HasOracle() {
		return true
	}
	if len(num) != len(rows) {
		return true // ids are not unique: the rows cannot be told apart
	}
	var srt []string
	for _, s := range cs.Sorting {
		srt = append(srt, fmt.Sprintf("%d:%s:%s", s.Col, b01(s.Desc), b01(s.NullsFirst)))
	}
	req := fmt.Sprintf("c10.sw %s %x %s 0 %s", strings.Join(srt, ","), cs.SortRows, b01(cs.Dedupe), ops)
	ans := c.Ask(req)
	var got []string
	for _, ids := range gotIDs {
		var t []string
		for _, id := range ids {
			t = append(t, strconv.FormatInt(int64(num[id]), 16))
		}
		if len(t) == 0 {
			got = append(got, "_")
		} else {
			got = append(got, strings.Join(t, ","))
		}
	}
	impl := strings.Join(got, "|")
	if len(got) == 0 {
		impl = "-"
	}
	bad := func() bool {
		c.Mismatch("corr:C10.writer-model", req, impl, ans, cs)
		return false
	}
	var model [][]int
	if ans != "-" {
		for _, f := range strings.Split(ans, "|") {
			var m []int
			if f != "_" {
				for _, t := range strings.Split(f, ",") {
					k, err := strconv.ParseInt(t, 16, 32)
					if err != nil || int(k) >= len(rows) {
						return bad()
					}
					m = append(m, int(k))
				}
			}
			model = append(model, m)
		}
	}
	if len(model) != len(gotIDs) {
		return bad()
	}
	// rows of equal keys: by the harness's comparator on the cells
	for fi := range model {
		if len(model[fi]) != len(gotIDs[fi]) {
			return bad()
		}
		var a, b []int
		for p, k := range model[fi] {
			g := num[gotIDs[fi][p]]
			if own, _ := c10CmpCells(cs.Cols, cs.Sorting, rows[g], rows[k]); g != k && own != 0 {
				return bad()
			}
			a, b = append(a, g), append(b, k)
		}
		if !cs.Dedupe {
			sort.Ints(a)
			sort.Ints(b)
			for p := range a {
				if a[p] != b[p] {
					return bad()
				}
			}
		}
	}
	return true
}

// c10CheckWriterFile evaluates the property on one closed file: rows of the
// file in order (their ids are returned; nil when the file cannot be used).
func c10CheckWriterFile(c *core.Ctx, cs *c10Case, fi, nfiles int, file c10File) ([]int64, bool) {
	cols := cs.Cols
	sorting := c10SortingColumns(cs)
	written := file.written
	where := ""
	if nfiles > 1 {
		where = fmt.Sprintf("file %d of %d written by the same SortingWriter: ", fi+1, nfiles)
	}
	var failure string
	var got []parquet.Row
	var meta [][]c10Sort
	msg := c10Guard(func() {
		f, err := parquet.OpenFile(bytes.NewReader(file.data), int64(len(file.data)))
		if err != nil {
			failure = "OpenFile: " + err.Error()
			return
		}
		for gi, rg := range f.RowGroups() {
			var m []c10Sort
			for _, sc := range f.Metadata().RowGroups[gi].SortingColumns {
				m = append(m, c10Sort{Col: int(sc.ColumnIdx), Desc: sc.Descending, NullsFirst: sc.NullsFirst})
			}
			meta = append(meta, m)
			// the API view of the same metadata
			api := rg.SortingColumns()
			if len(api) != len(m) {
				failure = fmt.Sprintf("row group %d: SortingColumns() has %d entries, the footer %d", gi, len(api), len(m))
				return
			}
			for i, sc := range api {
				if strings.Join(sc.Path(), ".") != cols[m[i].Col].Name || sc.Descending() != m[i].Desc || sc.NullsFirst() != m[i].NullsFirst {
					failure = fmt.Sprintf("row group %d: SortingColumns()[%d] disagrees with the footer", gi, i)
					return
				}
			}
			rows, err := c10ReadAll(rg.Rows())
			if err != nil {
				failure = "reading row group: " + err.Error()
				return
			}
			got = append(got, rows...)
		}
	})
	if msg != "" || failure != "" {
		c.Violation("writer-output-unreadable", where+"reading the SortingWriter output failed: "+msg+failure, cs)
		return nil, false
	}
	ok := true
	for gi, m := range meta {
		same := len(m) == len(cs.Sorting)
		for i := 0; same && i < len(m); i++ {
			same = m[i] == cs.Sorting[i]
		}
		if !same {
			c.Violation("sorting-metadata", fmt.Sprintf("%srow group %d records sorting columns %+v, declared %+v", where, gi, m, cs.Sorting), cs)
			ok = false
			break
		}
	}
	compare := c10Comparator(c, cs, nil, sorting)
	gotCells := make([][]c10Cell, len(got))
	ids := make([]int64, len(got))
	a := make([]string, len(got))
	for i, r := range got {
		cells, good := c10ParseRow(cols, r)
		if !good {
			c.Violation("writer-not-a-permutation", fmt.Sprintf("%soutput row %d is malformed: %v", where, i, r), cs)
			return nil, false
		}
		gotCells[i] = cells
		ids[i] = cells[0].I
		a[i] = c10Canon(cols, cells)
	}
	for i := 0; i+1 < len(got); i++ {
		// the order declared by the sorting columns (the harness's own comparator), then Schema.Comparator
		own, _ := c10CmpCells(cols, cs.Sorting, gotCells[i], gotCells[i+1])
		if own > 0 {
			c.Violation("writer-not-sorted", fmt.Sprintf("%soutput rows %d and %d are not in the order of the sorting columns: %s then %s; sorting %+v", where, i, i+1, a[i], a[i+1], cs.Sorting), cs)
			ok = false
			break
		}
		if own == 0 && cs.Dedupe {
			c.Violation("writer-duplicate-key", fmt.Sprintf("%sDropDuplicatedRows: output rows %d and %d have the same key: %s and %s", where, i, i+1, a[i], a[i+1]), cs)
			ok = false
			break
		}
		x := compare(got[i], got[i+1])
		if x > 0 {
			c.Violation("writer-not-sorted", fmt.Sprintf("%soutput rows %d and %d are out of order for Schema.Comparator: %s then %s; sorting %+v", where, i, i+1, a[i], a[i+1], cs.Sorting), cs)
			ok = false
			break
		}
		if x == 0 && cs.Dedupe {
			c.Violation("writer-duplicate-key", fmt.Sprintf("%sDropDuplicatedRows: output rows %d and %d have the same key: %s and %s", where, i, i+1, a[i], a[i+1]), cs)
			ok = false
			break
		}
	}
	b := make([]string, len(written))
	wrows := make([]parquet.Row, len(written))
	for i := range written {
		b[i] = c10Canon(cols, written[i])
		wrows[i] = c10MakeRow(cols, written[i])
	}
	if !cs.Dedupe {
		sa, sb := append([]string(nil), a...), append([]string(nil), b...)
		sort.Strings(sa)
		sort.Strings(sb)
		if strings.Join(sa, "\n") != strings.Join(sb, "\n") {
			c.Violation("writer-not-a-permutation", fmt.Sprintf("%sthe %d output rows are not a permutation of the %d rows written", where, len(a), len(b)), cs)
			return nil, false
		}
	} else {
		// every output row is one of the rows written (rows carry a unique id),
		// and exactly one row per distinct key remains
		in := map[string]bool{}
		for _, s := range b {
			in[s] = true
		}
		seen := map[string]bool{}
		for _, s := range a {
			if !in[s] || seen[s] {
				c.Violation("writer-not-a-permutation", where+"DropDuplicatedRows: output row "+s+" was not written to this file or appears twice", cs)
				return nil, false
			}
			seen[s] = true
		}
		idx := make([]int, len(wrows))
		for i := range idx {
			idx[i] = i
		}
		ownCmp := func(x, y []c10Cell) int { r, _ := c10CmpCells(cols, cs.Sorting, x, y); return r }
		sort.SliceStable(idx, func(x, y int) bool { return ownCmp(written[idx[x]], written[idx[y]]) < 0 })
		keys := 0
		for i := range idx {
			if i == 0 || ownCmp(written[idx[i-1]], written[idx[i]]) != 0 {
				keys++
			}
		}
		if keys != len(a) {
			c.Violation("writer-dedupe-count", fmt.Sprintf("%sDropDuplicatedRows: %d distinct keys were written, the output has %d rows", where, keys, len(a)), cs)
			ok = false
		}
		// the key set is preserved: every key written is the key of an output row
		for i := range wrows {
			found := false
			for j := range got {
				if ownCmp(written[i], gotCells[j]) == 0 {
					found = true
					break
				}
			}
			if !found && ok {
				c.Violation("writer-key-lost", fmt.Sprintf("%sDropDuplicatedRows: no output row has the key of the written row %s", where, b[i]), cs)
				ok = false
				break
			}
		}
	}
	// the model's comparator orders the output too
	if n := len(written); n > 0 && n <= 60 && ok {
		ans := strings.Split(c.Ask(c10ModelHead(cs)+"W"+c10ModelRowsW(cols, written)), "#")
		if len(ans) == 4 {
			rowsOf := strings.Split(ans[3], "|")
			var sb strings.Builder
			for i := 0; i < n; i++ {
				if i > 0 {
					sb.WriteByte('|')
				}
				for j := 0; j < n; j++ {
					sb.WriteByte(c10Sign(compare(wrows[i], wrows[j])))
				}
			}
			if sb.String() != ans[3] {
				c.Mismatch("corr:C10.comparator", "writer "+c10ModelHead(cs), sb.String(), ans[3], cs)
				ok = false
			} else {
				pos := map[int64]int{}
				for i, r := range written {
					pos[r[0].I] = i
				}
				for i := 0; i+1 < len(gotCells); i++ {
					x, y := pos[gotCells[i][0].I], pos[gotCells[i+1][0].I]
					if rowsOf[x][y] == '+' {
						c.Mismatch("corr:C10.writer-order", "writer "+c10ModelHead(cs), a[i]+" before "+a[i+1], "model comparator > 0", cs)
						ok = false
						break
					}
				}
			}
		} else if c.HasOracle() {
			c.Mismatch("corr:C10.comparator", "writer "+c10ModelHead(cs), "", strings.Join(ans, "#"), cs)
			ok = false
		}
	}
	return ids, ok
}

// ---------------------------------------------------------------------------
// a repeated column as sorting column: the same histories on
// GenericBuffer[c10RepT]; c10RepRows renders one repeated column for the model

func c10RepRows(col c10Col, k int, rows [][]c10Cell, rowSep string) string {
	var out []string
	for _, r := range rows {
		cell := r[k]
		if len(cell.L) == 0 {
			out = append(out, "0.0.n")
			continue
		}
		var vs []string
		for i, x := range cell.L {
			rep := "0"
			if i > 0 {
				rep = "1"
			}
			if c10ElemNull(cell, i) {
				vs = append(vs, fmt.Sprintf("%s.%x.n", rep, col.MaxDef-1))
			} else {
				vs = append(vs, fmt.Sprintf("%s.%x.i%s", rep, col.MaxDef, core.Zs(x)))
			}
		}
		out = append(out, strings.Join(vs, ";"))
	}
	return strings.Join(out, rowSep)
}

// ---------------------------------------------------------------------------
// dispatch, shrinking

func c10Check(c *core.Ctx, cs *c10Case) ([]c10Obs, bool) {
	cs = c10Expanded(cs)
	switch cs.Kind {
	case "writer":
		return nil, c10CheckWriter(c, cs)
	}
	return c10CheckBuffer(c, cs)
}

func c10Valid(cs *c10Case) bool {
	for _, s := range cs.Sorting {
		if s.Col < 0 || s.Col >= len(cs.Cols) {
			return false
		}
	}
	for i, st := range cs.Steps {
		for _, r := range st.Rows {
			if len(r) != len(cs.Cols) {
				return false
			}
		}
		// a closed SortingWriter is only used again after Reset
		if st.Op == "close" && i+1 < len(cs.Steps) && cs.Steps[i+1].Op != "reset" {
			return false
		}
		if (st.Op == "close" || st.Op == "reset") && cs.Kind != "writer" {
			return false
		}
		if st.Op == "cols" && (cs.Kind == "writer" || len(st.Views) != len(cs.Cols)) {
			return false
		}
	}
	return true
}

func c10Clone(cs *c10Case) *c10Case {
	t := *cs
	t.Sorting = append([]c10Sort(nil), cs.Sorting...)
	t.Steps = make([]c10Step, len(cs.Steps))
	for i, st := range cs.Steps {
		t.Steps[i] = c10Step{Op: st.Op, Rows: append([][]c10Cell(nil), st.Rows...), Views: st.Views, Chunk: st.Chunk}
	}
	return &t
}

// c10Shrink minimises a failing case: fewer steps, fewer rows, fewer sorting
// columns, simpler writer settings.
func c10Shrink(c *core.Ctx, cs *c10Case) *c10Case {
	budget := 600
	fails := func(t *c10Case) bool {
		if budget <= 0 || !c10Valid(t) || c10Hangs >= 4 {
			return false
		}
		budget--
		return c.Probe(func() { c10Check(c, t) })
	}
	cur := c10Clone(cs)
	for changed := true; changed && budget > 0; {
		changed = false
		for i := len(cur.Steps) - 1; i >= 0 && !changed; i-- {
			t := c10Clone(cur)
			t.Steps = append(t.Steps[:i], t.Steps[i+1:]...)
			if fails(t) {
				cur, changed = t, true
			}
		}
		for i := len(cur.Steps) - 1; i >= 0 && !changed; i-- {
			for r := len(cur.Steps[i].Rows) - 1; r >= 0 && !changed; r-- {
				t := c10Clone(cur)
				t.Steps[i].Rows = append(t.Steps[i].Rows[:r], t.Steps[i].Rows[r+1:]...)
				if fails(t) {
					cur, changed = t, true
				}
			}
		}
		for i := len(cur.Sorting) - 1; i >= 0 && !changed && len(cur.Sorting) > 1; i-- {
			t := c10Clone(cur)
			t.Sorting = append(t.Sorting[:i], t.Sorting[i+1:]...)
			if fails(t) {
				cur, changed = t, true
			}
		}
		// column views: the view that does not touch the buffer, then a destination of one value
		for i := range cur.Steps {
			for k := range cur.Steps[i].Views {
				if changed || cur.Steps[i].Views[k] == "clone" || cur.Kind == "rowbuffer" {
					continue
				}
				t := c10Clone(cur)
				t.Steps[i].Views = append([]string(nil), t.Steps[i].Views...)
				t.Steps[i].Views[k] = "clone"
				if fails(t) {
					cur, changed = t, true
				}
			}
			if !changed && cur.Steps[i].Op == "cols" && cur.Steps[i].Chunk > 1 {
				t := c10Clone(cur)
				t.Steps[i].Chunk = 1
				if fails(t) {
					cur, changed = t, true
				}
			}
		}
		if !changed && cur.Reuse {
			t := c10Clone(cur)
			t.Reuse = false
			if fails(t) {
				cur, changed = t, true
			}
		}
		if !changed && cur.Kind == "writer" {
			for _, f := range []func(t *c10Case) bool{
				func(t *c10Case) bool { r := t.Pool != ""; t.Pool = ""; return r },
				func(t *c10Case) bool { r := t.MaxRowsRG != 0; t.MaxRowsRG = 0; return r },
				func(t *c10Case) bool { r := t.Dedupe; t.Dedupe = false; return r },
			} {
				t := c10Clone(cur)
				if f(t) && fails(t) {
					cur, changed = t, true
					break
				}
			}
		}
	}
	return cur
}

func c10Run(c *core.Ctx, cs *c10Case, bucket string) ([]c10Obs, bool) {
	if !c10Valid(cs) {
		return nil, true
	}
	obs, ok := []c10Obs(nil), true
	if c.Probe(func() { c10Check(c, cs) }) {
		ok = false
		var min *c10Case
		if cs.Near != nil {
			min = c10ShrinkNear(c, cs)
		} else {
			min = c10Shrink(c, cs)
		}
		c10Check(c, min)
	} else {
		obs, _ = c10Check(c, cs)
	}
	n, sorts := 0, 0
	for _, st := range c10Expanded(cs).Steps {
		n += len(st.Rows)
		if st.Op == "sort" {
			sorts++
		}
	}
	key, _ := json.Marshal(cs)
	c.Case(bucket, string(key), n >= 2 && (sorts > 0 || cs.Kind == "writer" || cs.Kind == "repeated"))
	return obs, ok
}

// ---------------------------------------------------------------------------
// generation

var c10Ints = []int64{-2, -1, 1, 2, 3, 1 << 40}
var c10Strs = []string{"a", "ab", "b", "a\x00", "\xff", "B"}

type c10Gen struct {
	c    *core.Ctx
	cols []c10Col
	id   int64
	// per optional column: remaining length of the current run and whether it is a null run
	run  []int
	null []bool
	maxRun int
	pNull  int // percent of runs that are null
	dom    int // size of the value domain used (duplicates)
}

func c10NewGen(c *core.Ctx, cols []c10Col) *c10Gen {
	g := &c10Gen{c: c, cols: cols, run: make([]int, len(cols)), null: make([]bool, len(cols))}
	g.maxRun = []int{1, 2, 3, 7, 8, 9, 12, 20}[c.Rng.Intn(8)]
	g.pNull = []int{20, 50, 50, 80}[c.Rng.Intn(4)]
	g.dom = 1 + c.Rng.Intn(len(c10Ints))
	return g
}

func (g *c10Gen) row() []c10Cell {
	c := g.c
	cells := make([]c10Cell, len(g.cols))
	for k, col := range g.cols {
		switch {
		case col.Name == "id" || col.Name == "a_id":
			g.id++
			cells[k] = c10Cell{I: g.id}
		case col.Rep:
			n := c.Rng.Intn(4)
			for i := 0; i < n; i++ {
				if col.MaxDef == 2 && c.Rng.Intn(4) == 0 {
					cells[k].L = append(cells[k].L, 0)
					cells[k].N = append(cells[k].N, true)
				} else {
					cells[k].L = append(cells[k].L, int64(c.Rng.Intn(3)))
					cells[k].N = append(cells[k].N, false)
				}
			}
			if col.MaxDef != 2 {
				cells[k].N = nil
			}
		default:
			null := false
			if col.MaxDef > 0 {
				if g.run[k] == 0 {
					g.run[k] = 1 + c.Rng.Intn(g.maxRun)
					g.null[k] = c.Rng.Intn(100) < g.pNull
				}
				g.run[k]--
				null = g.null[k]
			}
			if null {
				cells[k] = c10Cell{D: c.Rng.Intn(col.MaxDef)}
			} else if col.typed() {
				// an ordinal of the kind's domain: the first 2+2*dom of c10KindOrdinals (both signs and both
				// ends of the domain also in the smallest domain)
				kd := c10KindOf(col.Type)
				ords := c10KindOrdinals(kd)
				n := 2 + 2*g.dom
				if n > len(ords) {
					n = len(ords)
				}
				cells[k] = c10Cell{D: col.MaxDef, I: ords[c.Rng.Intn(n)]}
				if kd.order == c10OrdFloat && cells[k].I == 0 {
					cells[k].NZ = c.Rng.Intn(2) == 0
				}
			} else if col.Str {
				cells[k] = c10Cell{D: col.MaxDef, S: c10Strs[c.Rng.Intn(g.dom)]}
			} else {
				cells[k] = c10Cell{D: col.MaxDef, I: c10Ints[c.Rng.Intn(g.dom)]}
			}
		}
	}
	if len(g.cols) == len(c10MasterCols) && g.cols[6].Name == "g.x" {
		// the group g: g.y is null exactly when g is, g.x can only be defined inside g
		if cells[7].D == 0 {
			cells[6] = c10Cell{D: 0}
		} else if cells[6].D == 0 {
			cells[6] = c10Cell{D: 1}
		}
		// required strings may be empty
		if c.Rng.Intn(8) == 0 {
			cells[5].S = ""
		}
	}
	return cells
}

func (g *c10Gen) batch(n int) [][]c10Cell {
	out := make([][]c10Cell, n)
	for i := range out {
		out[i] = g.row()
	}
	return out
}

func c10GenSorting(c *core.Ctx, cols []c10Col) []c10Sort {
	var cand []int
	for k, col := range cols {
		if !col.Rep {
			cand = append(cand, k)
		}
	}
	c.Rng.Shuffle(len(cand), func(i, j int) { cand[i], cand[j] = cand[j], cand[i] })
	n := 1 + c.Rng.Intn(3)
	if n > len(cand) {
		n = len(cand)
	}
	var out []c10Sort
	for _, k := range cand[:n] {
		// the unique id as a leading key would make the other keys irrelevant
		if (cols[k].Name == "id" || cols[k].Name == "a_id") && len(out) == 0 && len(cand) > 1 {
			continue
		}
		out = append(out, c10Sort{Col: k, Desc: c.Rng.Intn(2) == 0, NullsFirst: c.Rng.Intn(2) == 0})
	}
	if len(out) == 0 {
		out = append(out, c10Sort{Col: cand[0], Desc: c.Rng.Intn(2) == 0, NullsFirst: c.Rng.Intn(2) == 0})
	}
	return out
}

func c10GenCols(c *core.Ctx) []c10Col {
	cols := []c10Col{{Name: "a_id"}}
	// one schema in three has no repeated leaf, and half of those required columns only: sorting columns
	// that are all required then leave Schema.Comparator (the Less of a RowBuffer) on its index fast path
	flat := c.Rng.Intn(3) == 0
	allReq := flat && c.Rng.Intn(2) == 0
	if !flat && c.Rng.Intn(2) == 0 {
		// a repeated column BEFORE the candidate sorting columns: the values of
		// a row are then not at the index of their column
		cols = append(cols, c10Col{Name: "b_r", Rep: true, MaxDef: 1})
	}
	n := 1 + c.Rng.Intn(4)
	for i := 0; i < n; i++ {
		col := c10Col{Name: fmt.Sprintf("c%d", i+1)}
		switch c.Rng.Intn(4) {
		case 0:
			col.Str = true
		case 1:
		default:
			col.Type = c10KindNames[c.Rng.Intn(len(c10KindNames))]
		}
		if c.Rng.Intn(3) != 0 && !allReq {
			col.MaxDef = 1
		}
		cols = append(cols, col)
	}
	if !flat && c.Rng.Intn(2) == 0 {
		cols = append(cols, c10Col{Name: "r", Rep: true, MaxDef: 1})
	}
	return cols
}

// c10GenColsStep: a "cols" step for the case: three times in five all columns through the same view,
// else a view drawn per column (a buffer of which only some columns were materialised).
func c10GenColsStep(c *core.Ctx, cs *c10Case) c10Step {
	views := make([]string, len(cs.Cols))
	same := c10ViewNames[c.Rng.Intn(len(c10ViewNames))]
	each := c.Rng.Intn(5) >= 3
	for k := range views {
		switch {
		case cs.Kind == "rowbuffer":
			views[k] = "chunk"
		case each:
			views[k] = c10ViewNames[c.Rng.Intn(len(c10ViewNames))]
		default:
			views[k] = same
		}
	}
	return c10Step{Op: "cols", Views: views, Chunk: 1 + c.Rng.Intn(9)}
}

// c10WithCols inserts "cols" steps into a history: after a sort.Sort (before the rows are read: the
// columns of a buffer whose values are not yet in row order), now and then also before it and after a read.
func c10WithCols(c *core.Ctx, cs *c10Case, steps []c10Step, p int) []c10Step {
	var out []c10Step
	for i, st := range steps {
		out = append(out, st)
		switch {
		case st.Op == "sort" && (i+1 == len(steps) || steps[i+1].Op != "sort") && c.Rng.Intn(100) < p:
			out = append(out, c10GenColsStep(c, cs))
			if c.Rng.Intn(4) == 0 {
				out = append(out, c10GenColsStep(c, cs))
			}
		case (st.Op == "write" || st.Op == "writerows" || st.Op == "read") && c.Rng.Intn(100) < p/4:
			out = append(out, c10GenColsStep(c, cs))
		}
	}
	return out
}

// c10GenHistory: write; sort; read; write more; sort; read ... with at most max rows.
func c10GenHistory(c *core.Ctx, g *c10Gen, max int, typedOK bool) []c10Step {
	var steps []c10Step
	total := 0
	rounds := 1 + c.Rng.Intn(4)
	for r := 0; r < rounds && total < max; r++ {
		writes := 1 + c.Rng.Intn(3)
		for w := 0; w < writes && total < max; w++ {
			n := 1 + c.Rng.Intn(24)
			if c.Rng.Intn(4) == 0 {
				n = 1 + c.Rng.Intn(3)
			}
			if total+n > max {
				n = max - total
			}
			op := "writerows"
			if typedOK && c.Rng.Intn(3) != 0 {
				op = "write"
			}
			steps = append(steps, c10Step{Op: op, Rows: g.batch(n)})
			total += n
		}
		switch c.Rng.Intn(8) {
		case 0:
			steps = append(steps, c10Step{Op: "read"})
		case 1:
			steps = append(steps, c10Step{Op: "sort"})
		case 2:
			steps = append(steps, c10Step{Op: "sort"}, c10Step{Op: "sort"}, c10Step{Op: "read"})
		case 3:
			steps = append(steps, c10Step{Op: "sort"}, c10Step{Op: "read"}, c10Step{Op: "read"})
		default:
			steps = append(steps, c10Step{Op: "sort"}, c10Step{Op: "read"})
		}
	}
	if steps[len(steps)-1].Op != "read" {
		steps = append(steps, c10Step{Op: "sort"}, c10Step{Op: "read"})
	}
	return steps
}

func c10Cell1(d int, i int64) c10Cell { return c10Cell{D: d, I: i} }

// c10MasterRow builds a master row with the given id and a-column value (nil = null).
func c10MasterRow(id int64, a *int64) []c10Cell {
	r := []c10Cell{{I: id}, {}, {}, {}, {I: 7}, {S: "e"}, {}, {}, {L: []int64{id, id + 1}}}
	if a != nil {
		r[1] = c10Cell1(1, *a)
	}
	return r
}

func i64(v int64) *int64 { return &v }

// c10KeyRow builds a master row with the given id whose column col (1 = a,
// 2 = b, 4 = d) holds key; the other optional columns are null.
func c10KeyRow(col int, id, key int64) []c10Cell {
	r := []c10Cell{{I: id}, {}, {}, {}, {I: 7}, {S: "e"}, {}, {}, {L: []int64{id}}}
	switch col {
	case 1, 2:
		r[col] = c10Cell1(1, key)
	default:
		r[4] = c10Cell{I: key}
	}
	return r
}

// c10GenReuse: one SortingWriter producing several files, each file's
// smallest key (in sort order) being the greatest key of the previous file and
// occurring once, in the first sort run of its file; the greatest key of a file
// is the key of the last row written to it (so it is in the last sort run).
func c10GenReuse(c *core.Ctx) *c10Case {
	col := []int{4, 4, 1, 2}[c.Rng.Intn(4)]
	cs := &c10Case{Kind: "writer", Master: true, Cols: c10MasterCols, Dedupe: c.Rng.Intn(6) != 0}
	cs.Sorting = []c10Sort{{Col: col, Desc: c.Rng.Intn(2) == 0, NullsFirst: c.Rng.Intn(2) == 0}}
	cs.SortRows = 1 + c.Rng.Intn(6)
	cs.Pool = []string{"", "", "chunk", "mem"}[c.Rng.Intn(4)]
	cs.Reuse = c.Rng.Intn(2) == 0
	sign := int64(1)
	if cs.Sorting[0].Desc {
		sign = -1
	}
	nfiles := 2 + c.Rng.Intn(2)
	id := int64(0)
	lo := int64(1)
	for f := 0; f < nfiles; f++ {
		n := 1 + c.Rng.Intn(10)
		keys := make([]int64, n)
		for i := range keys {
			keys[i] = lo + 1 + int64(c.Rng.Intn(3))
		}
		keys[n-1] = lo + 3
		first := cs.SortRows
		if first > n {
			first = n
		}
		if f > 0 && (n > 1 || c.Rng.Intn(2) == 0) {
			// the link key: once, in the first sort run (alone in the file when n = 1)
			p := c.Rng.Intn(first)
			if p == n-1 && n > 1 {
				p = 0
			}
			keys[p] = lo
		}
		abandoned := f > 0 && f+1 < nfiles && c.Rng.Intn(5) == 0
		for i := 0; i < n; {
			k := 1 + c.Rng.Intn(n-i)
			if i == 0 && k < first && c.Rng.Intn(2) == 0 {
				k = first // keep the first sort run in one batch
			}
			if i+k > n {
				k = n - i
			}
			var rows [][]c10Cell
			for _, key := range keys[i : i+k] {
				id++
				rows = append(rows, c10KeyRow(col, id, sign*key))
			}
			op := "write"
			if c.Rng.Intn(3) == 0 {
				op = "writerows"
			}
			cs.Steps = append(cs.Steps, c10Step{Op: op, Rows: rows})
			i += k
			if i < n && i >= first && c.Rng.Intn(6) == 0 {
				cs.Steps = append(cs.Steps, c10Step{Op: "flush"})
			}
		}
		if abandoned {
			// the file is dropped by Reset: its rows must not reach the next file
			cs.Steps = append(cs.Steps, c10Step{Op: "reset"})
			continue
		}
		cs.Steps = append(cs.Steps, c10Step{Op: "close"})
		if f+1 < nfiles {
			cs.Steps = append(cs.Steps, c10Step{Op: "reset"})
		}
		lo += 3
	}
	return cs
}

// ---------------------------------------------------------------------------
// cases.v

func c10CoqCellW(col c10Col, cell c10Cell) string {
	switch {
	case cell.D < col.MaxDef:
		return fmt.Sprintf("WNull %d%%N", cell.D)
	case col.Str:
		return "WVal (VB " + core.CoqBytes([]byte(cell.S)) + ")"
	default:
		return "WVal (VI " + core.CoqZ(cell.I) + ")"
	}
}

// c10CoqOps renders model ops (the protocol text) as a Coq term.
func c10CoqOps(cols []c10Col, ops string) string {
	var out []string
	for _, o := range strings.Split(ops, "/") {
		switch o[0] {
		case 'P':
			out = append(out, "OPage")
		case 'S':
			ij := strings.Split(o[1:], ":")
			out = append(out, fmt.Sprintf("OSwap %s %s", ij[0], ij[1]))
		case 'C':
			out = append(out, "OPageCol "+o[1:])
		default:
			typed := "false"
			if o[0] == 'T' {
				typed = "true"
			}
			var rows []string
			if len(o) > 1 {
				for _, r := range strings.Split(o[1:], "|") {
					var cells []string
					for _, t := range strings.Split(r, ";") {
						switch t[0] {
						case 'n':
							d, _ := strconv.ParseInt(t[1:], 16, 64)
							cells = append(cells, fmt.Sprintf("WNull %d%%N", d))
						case 'i':
							cells = append(cells, "WVal (VI "+c10CoqHexZ(t[1:])+")")
						default:
							cells = append(cells, "WVal (VB "+c10CoqHexBytes(t[1:])+")")
						}
					}
					rows = append(rows, core.CoqList(cells))
				}
			}
			out = append(out, "OWrite "+typed+" "+core.CoqList(rows))
		}
	}
	return core.CoqList(out)
}

func c10CoqHexZ(h string) string {
	neg := strings.HasPrefix(h, "-")
	u, _ := strconv.ParseUint(strings.TrimPrefix(h, "-"), 16, 64)
	if neg {
		return fmt.Sprintf("(-%d)%%Z", u)
	}
	return fmt.Sprintf("%d%%Z", u)
}

func c10CoqHexBytes(h string) string {
	var b []byte
	for i := 0; i+1 < len(h); i += 2 {
		x, _ := strconv.ParseUint(h[i:i+2], 16, 8)
		b = append(b, byte(x))
	}
	return core.CoqBytes(b)
}

func c10CoqRowsR(rows string) string {
	if rows == "_" {
		return "[]"
	}
	var out []string
	for _, r := range strings.Split(rows, "|") {
		var cells []string
		for _, t := range strings.Split(r, ";") {
			at := strings.LastIndex(t, "@")
			d, _ := strconv.ParseInt(t[at+1:], 16, 64)
			v := t[:at]
			switch v[0] {
			case 'n':
				cells = append(cells, fmt.Sprintf("(None, %d%%N)", d))
			case 'i':
				cells = append(cells, fmt.Sprintf("(Some (VI %s), %d%%N)", c10CoqHexZ(v[1:]), d))
			default:
				cells = append(cells, fmt.Sprintf("(Some (VB %s), %d%%N)", c10CoqHexBytes(v[1:]), d))
			}
		}
		out = append(out, core.CoqList(cells))
	}
	return core.CoqList(out)
}

func c10CoqMatrix(m string) string {
	if m == "_" {
		return "[]"
	}
	var out []string
	for _, r := range strings.Split(m, "|") {
		var bs []string
		for _, ch := range r {
			if ch == '1' {
				bs = append(bs, "true")
			} else {
				bs = append(bs, "false")
			}
		}
		out = append(out, core.CoqList(bs))
	}
	return core.CoqList(out)
}

func c10VmCase(cs *c10Case, o c10Obs) string {
	mc := c10ModelCols(cs.Cols)
	var sch, srt []string
	for _, col := range mc {
		sch = append(sch, fmt.Sprintf("%d%%N", col.MaxDef))
	}
	for _, s := range cs.Sorting {
		srt = append(srt, fmt.Sprintf("mkSortcol %d %s %s", s.Col, core.CoqBool(s.Desc), core.CoqBool(s.NullsFirst)))
	}
	return fmt.Sprintf("(%s, %s, %s, %s, %s)", core.CoqList(sch), core.CoqList(srt), c10CoqOps(cs.Cols, o.ops), c10CoqRowsR(o.rows), c10CoqMatrix(o.less))
}

const c10VmPrelude = `From Coq Require Import List ZArith NArith Bool Arith.
From PQ Require Import Sort.Model.
Import ListNotations.
Fixpoint list_eqb {A} (e : A -> A -> bool) (a b : list A) : bool :=
  match a, b with
  | [], [] => true
  | x :: a', y :: b' => e x y && list_eqb e a' b'
  | _, _ => false
  end.
Definition sval_eqb (a b : sval) : bool :=
  match a, b with
  | VI x, VI y => Z.eqb x y
  | VB x, VB y => list_eqb N.eqb x y
  | _, _ => false
  end.
Definition cell_eqb (a b : option sval * N) : bool :=
  N.eqb (snd a) (snd b) &&
  match fst a, fst b with
  | None, None => true
  | Some x, Some y => sval_eqb x y
  | _, _ => false
  end.
Definition case := (list N * list sortcol * list (op sval) * list (list (option sval * N)) * list (list bool))%type.
Definition agrees (c : case) : bool :=
  match c with
  | (schema, sorting, ops, rows, less) =>
      match c10_run false false schema sorting ops with
      | (rs, prs, lm, _) =>
          list_eqb (list_eqb cell_eqb) rs rows && list_eqb (list_eqb cell_eqb) prs rows &&
          list_eqb (list_eqb Bool.eqb) lm less
      end
  end.`

// ---------------------------------------------------------------------------

func runC10(c *core.Ctx) {
	c.Res.Rule = "histories (write | writerows)* ; sort ; read ; write more ; sort ; read ... on parquet.NewGenericBuffer[T] (typed column writes), parquet.NewBuffer (dynamic Group schemas, WriteRows / Write), parquet.NewRowBuffer, and parquet.NewSortingWriter (sort-run sizes 1..N, buffer pools, DropDuplicatedRows, MaxRowsPerRowGroup; histories (write | writerows | flush)* close, one writer reused for 2-3 files through Reset, files abandoned by Reset; generated so that a file's smallest key is the previous file's greatest key and occurs once, in its first sort run) with every output file read back and checked against the rows written to it (sorted by Schema.Comparator, permutation; DropDuplicatedRows: one row per key, every key written kept) and against the model of the writer (c10.sw, Sort/Writer.v: same number of rows per file, at every position a row of the model's key, the same rows without DropDuplicatedRows). Schemas: a master struct (required/optional int64 and string columns, a dictionary column, an optional group with a nested optional leaf of max definition level 2, a repeated payload) and generated Group schemas; 1-3 sorting columns, asc/desc x nulls first/last; values from a small domain (duplicates), null/non-null runs of length 1..20 per column. Kinds of sorting columns (types.go): boolean, INT32/INT64 without logical type, INT(8|16|32|64) signed and unsigned, FLOAT, DOUBLE (negative values, +0 and -0, no NaN), BYTE_ARRAY, STRING, ENUM, FIXED_LEN_BYTE_ARRAY(5|16), UUID, DATE, TIME(ms|us|ns), TIMESTAMP(ms|us|ns), DECIMAL on INT32 / INT64 / FIXED_LEN_BYTE_ARRAY(9|16) / BYTE_ARRAY, INT96 (ordered as signed 96-bit integers, the order deprecated.Int96.Less documents; images spread over the three words): the cells of such a column are integers (what the model compares) and the column holds their images under a strictly increasing embedding into the values of the type, spread over its whole width (both signs, both halves of the unsigned range, both ends of the domain so that differences overflow the width; checked exhaustively against the harness's comparator at the start of the run); every kind x {Buffer, RowBuffer, SortingWriter[any] over a Group schema, GenericBuffer[T], RowBuffer[T], SortingWriter[T] over a Go struct with fields of the kind (typed.go)} x {required ascending, required descending (no repeated leaf and no optional sorting column: the index fast path of Schema.Comparator), optional ascending/descending x nulls first/last + required}, and as columns of the generated Group schemas (one in three without a repeated leaf) of the random histories. Ordered is decided by the harness's own comparator on the decoded Go values (c10CmpCells: Less(i,j) for all pairs, Schema.Comparator's sign for all pairs, adjacent rows after sort.Sort and of every SortingWriter file, duplicate keys), not by the library's compare functions; the agreement of Less with Schema.Comparator is checked besides. Every swap sort.Sort performs is recorded and replayed in the model. Sorting by repeated columns (a []int64 column and a repeated group's optional leaf with null elements) runs the same histories on GenericBuffer against the model of repeatedColumnBuffer (logical rows, rows after Page, Less matrix == model's Less and == the proved comparator < 0, comparator matrix). Column views (views.go; step cols, drawn after 40% of the sorts (25% in the grid), before the rows are read, and after some writes and reads): every leaf column of a GenericBuffer / Buffer through one of ColumnBuffers()[k].Clone().Page() | Page() | Pages() | ColumnChunks()[k].Pages() | ReadValuesAt (destinations of 1..9 values walked over the column, windows at other offsets, past the end), all columns through the same view or a view per column (only some columns materialised: the model's OPageCol), a RowBuffer through ColumnChunks()[k].Pages(); the values cut into rows and put side by side must be the rows the recorded exchanges put at each position, bit for bit (levels and column index included), sorted after a sort; against the model: logical rows, page rows, and c10.readat for a window of each column read with ReadValuesAt (inside the column or reaching past its end); every clone is read again at the end of the history. Caller reuse (case flag reuse, half of the generated cases of every section and container): once a Write / WriteRows call returned, the harness overwrites all the memory it handed in (parquet.Row values and the bytes their BYTE_ARRAY / FIXED_LEN_BYTE_ARRAY values point to; the Go structs: integers, floats, arrays, byte slices, pointees, slice elements). Nearly sorted streams into the SortingWriter (near.go): streams ordered by a coarse first sorting column and unordered on the later ones, so that sort runs of 1100..3000 rows only touch (ties on the first sorting column, page boundaries on a tie with PageBufferSize 256..2048, stretches of more than 1024 rows that belong to one run). A case is one history; non-trivial = at least 2 rows and a sort; distinct by the JSON of the case (the steps of a nearly sorted case are a function of its parameters)."
	var vm []string
	addVm := func(cs *c10Case, obs []c10Obs) {
		for _, o := range obs {
			if len(vm) < c.N(60, 200) && o.nrows <= 24 && o.nrows >= 1 {
				vm = append(vm, c10VmCase(cs, o))
			}
		}
	}

	// C10_TIMES=1: the time each section took, in the notes
	tSec := time.Now()
	section := func(name string) {
		if os.Getenv("C10_TIMES") != "" {
			c.Note("time %s: %.1fs (%d oracle calls so far)", name, time.Since(tSec).Seconds(), c.Res.OracleCalls)
		}
		tSec = time.Now()
	}
	// ---- the harness's own tables: every embedding is strictly increasing for the harness's comparator,
	// every struct of typed.go has the schema of its columns
	if msg := c10KindsSelfTest(); msg != "" {
		panic("C10 harness self-test (types.go): " + msg)
	}
	if msg := c10TypedSelfTest(); msg != "" {
		panic("C10 harness self-test (typed.go): " + msg)
	}

	section("self-tests")
	// ---- corpus first: the two defects repaired in /repo
	sw := []c10Step{
		{Op: "write", Rows: [][]c10Cell{c10MasterRow(1, i64(5)), c10MasterRow(2, nil), c10MasterRow(3, i64(3))}},
		{Op: "sort"}, {Op: "read"},
		{Op: "write", Rows: [][]c10Cell{c10MasterRow(4, i64(1))}},
		{Op: "sort"}, {Op: "read"},
	}
	corpus := []*c10Case{
		{Kind: "generic", Master: true, Cols: c10MasterCols, Sorting: []c10Sort{{Col: 1}}, Steps: sw},
		{Kind: "buffer", Master: true, Cols: c10MasterCols, Sorting: []c10Sort{{Col: 1}}, Steps: sw},
		{Kind: "generic", Master: true, Cols: c10MasterCols, Sorting: []c10Sort{{Col: 1, Desc: true}}, Steps: sw[:3]},
		{Kind: "generic", Master: true, Cols: c10MasterCols, Sorting: []c10Sort{{Col: 1, Desc: true, NullsFirst: true}}, Steps: sw[:3]},
		{Kind: "rowbuffer", Master: true, Cols: c10MasterCols, Sorting: []c10Sort{{Col: 1, Desc: true}}, Steps: sw},
		{Kind: "writer", Master: true, Cols: c10MasterCols, Sorting: []c10Sort{{Col: 1, Desc: true}}, SortRows: 2,
			Steps: []c10Step{sw[0], sw[3]}},
	}
	// one writer, two files: the smallest key of the second file is the greatest
	// key of the last sort run of the first (DropDuplicatedRows)
	keyRows := func(id0 int64, keys ...int64) [][]c10Cell {
		var rows [][]c10Cell
		for i, k := range keys {
			rows = append(rows, c10KeyRow(4, id0+int64(i), k))
		}
		return rows
	}
	for _, sortRows := range []int{4, 3, 100} {
		corpus = append(corpus, &c10Case{Kind: "writer", Master: true, Cols: c10MasterCols, Sorting: []c10Sort{{Col: 4}}, SortRows: sortRows, Dedupe: true,
			Steps: []c10Step{{Op: "write", Rows: keyRows(1, 5, 3, 7, 3, 1, 7, 9, 2)}, {Op: "close"}, {Op: "reset"},
				{Op: "write", Rows: keyRows(9, 12, 9, 10, 12, 11, 10)}, {Op: "close"}}})
	}
	for _, cs := range corpus {
		obs, _ := c10Run(c, cs, "corpus/"+cs.Kind)
		addVm(cs, obs)
		c.Sample(cs)
	}
	section("corpus")
	c10Large(c)
	section("large")

	// ---- every direction x null order x column kind, single sorting column, runs around the kernel threshold
	for _, kind := range []string{"generic", "buffer", "rowbuffer"} {
		for col := 1; col <= 7; col++ {
			for _, desc := range []bool{false, true} {
				for _, nf := range []bool{false, true} {
					for _, runLen := range []int{1, 7, 8, 9, 20} {
						if c10Hangs > 0 {
							continue
						}
						g := c10NewGen(c, c10MasterCols)
						g.maxRun, g.pNull = runLen, 50
						cs := &c10Case{Kind: kind, Master: true, Cols: c10MasterCols, Sorting: []c10Sort{{Col: col, Desc: desc, NullsFirst: nf}}}
						n := 4 + c.Rng.Intn(30)
						cs.Steps = []c10Step{{Op: "write", Rows: g.batch(n)}, {Op: "sort"}, {Op: "read"},
							{Op: "write", Rows: g.batch(1 + c.Rng.Intn(40-n))}, {Op: "sort"}, {Op: "read"}}
						cs.Reuse = c.Rng.Intn(2) == 0
						cs.Steps = c10WithCols(c, cs, cs.Steps, 25)
						obs, _ := c10Run(c, cs, fmt.Sprintf("grid/%s", kind))
						if runLen == 8 && kind == "generic" {
							addVm(cs, obs)
						}
					}
				}
			}
		}
	}
	section("grid")
	c.Note("grid: 3 buffer types x 7 sorting columns x asc/desc x nulls first/last x run lengths {1,7,8,9,20}")

	// ---- every kind of sorting column x container x direction x required / optional (nulls first / last)
	type c10Cont struct{ kind, strct string }
	nKinds := 0
	for round := 0; round < c.N(1, 5); round++ {
		for _, kind := range c10KindNames {
			conts := []c10Cont{{"buffer", ""}, {"rowbuffer", ""}, {"writer", ""}}
			for _, fn := range c10FacNames {
				if c10Facs[fn].kind == kind {
					conts = append(conts, c10Cont{"generic", fn}, c10Cont{"rowbuffer", fn}, c10Cont{"writer", fn})
				}
			}
			for _, ct := range conts {
				for v := 0; v < 4 && c10Hangs == 0; v++ {
					cs := &c10Case{Kind: ct.kind, Struct: ct.strct, Cols: c10TypedCols(kind)}
					switch v {
					case 0: // the required column alone: the comparator's index fast path
						cs.Sorting = []c10Sort{{Col: 1}}
					case 1:
						cs.Sorting = []c10Sort{{Col: 1, Desc: true}}
					case 2:
						cs.Sorting = []c10Sort{{Col: 2, NullsFirst: c.Rng.Intn(2) == 0}, {Col: 1, Desc: c.Rng.Intn(2) == 0}}
					default:
						cs.Sorting = []c10Sort{{Col: 2, Desc: true, NullsFirst: c.Rng.Intn(2) == 0}, {Col: 1, Desc: c.Rng.Intn(2) == 0}}
					}
					g := c10NewGen(c, cs.Cols)
					if g.maxRun > 9 {
						g.maxRun = 9
					}
					cs.Reuse = c.Rng.Intn(2) == 0
					if ct.kind == "writer" {
						cs.SortRows = 2 + c.Rng.Intn(6)
						cs.Dedupe = c.Rng.Intn(3) == 0
						n := 10 + c.Rng.Intn(12)
						k := 1 + c.Rng.Intn(n-1)
						cs.Steps = []c10Step{{Op: "write", Rows: g.batch(k)}, {Op: "writerows", Rows: g.batch(n - k)}}
					} else {
						n := 6 + c.Rng.Intn(10)
						cs.Steps = []c10Step{{Op: "write", Rows: g.batch(n)}, {Op: "sort"}, {Op: "read"},
							{Op: "writerows", Rows: g.batch(1 + c.Rng.Intn(6))}, {Op: "sort"}, {Op: "read"}}
						cs.Steps = c10WithCols(c, cs, cs.Steps, 40)
					}
					name := ct.kind
					if ct.strct != "" {
						name += "[struct]"
					}
					c10Run(c, cs, "kinds/"+name)
					nKinds++
					if nKinds == 1 || nKinds == 200 {
						c.Sample(cs)
					}
				}
			}
		}
	}
	c.Note("kinds: %d kinds of sorting columns (%s) x {Buffer, RowBuffer, SortingWriter over a Group schema; GenericBuffer[T], RowBuffer[T], SortingWriter[T] over %d Go struct types} x {required asc, required desc (comparator index fast path), optional asc + required, optional desc + required}",
		len(c10KindNames), strings.Join(c10KindNames, ", "), len(c10FacNames))

	section("kinds")
	// ---- random histories
	nRand := c.N(620, 9000)
	for i := 0; i < nRand && c10Hangs == 0; i++ {
		cs := &c10Case{}
		switch c.Rng.Intn(8) {
		case 0, 1:
			cs.Kind, cs.Master, cs.Cols = "generic", true, c10MasterCols
		case 2:
			cs.Kind, cs.Master, cs.Cols = "buffer", true, c10MasterCols
		case 3:
			cs.Kind, cs.Cols = "buffer", c10GenCols(c)
		case 4:
			cs.Kind, cs.Master, cs.Cols = "rowbuffer", true, c10MasterCols
		case 5:
			cs.Kind, cs.Cols = "rowbuffer", c10GenCols(c)
		case 6:
			cs.Kind, cs.Struct = "generic", c10FacNames[c.Rng.Intn(len(c10FacNames))]
			cs.Cols = c10Facs[cs.Struct].cols
		default:
			cs.Kind, cs.Struct = "rowbuffer", c10FacNames[c.Rng.Intn(len(c10FacNames))]
			cs.Cols = c10Facs[cs.Struct].cols
		}
		cs.Sorting = c10GenSorting(c, cs.Cols)
		g := c10NewGen(c, cs.Cols)
		max := 40
		if c.Rng.Intn(10) == 0 {
			max = 120 // beyond the matrix limit: predicates only
		}
		cs.Steps = c10GenHistory(c, g, max, cs.Master || cs.Struct != "")
		cs.Reuse = c.Rng.Intn(2) == 0
		cs.Steps = c10WithCols(c, cs, cs.Steps, 40)
		obs, _ := c10Run(c, cs, "random/"+cs.Kind)
		if i%9 == 0 {
			addVm(cs, obs)
		}
		if i < 2 {
			c.Sample(cs)
		}
	}

	section("random")
	// ---- SortingWriter
	nW := c.N(260, 3000)
	for i := 0; i < nW && c10Hangs == 0; i++ {
		cs := &c10Case{Kind: "writer", Master: true, Cols: c10MasterCols}
		switch c.Rng.Intn(5) {
		case 0: // the struct of a kind
			cs.Master, cs.Struct = false, c10FacNames[c.Rng.Intn(len(c10FacNames))]
			cs.Cols = c10Facs[cs.Struct].cols
		case 1: // a Group schema (SortingWriter[any], WriteRows)
			cs.Master, cs.Cols = false, c10GenCols(c)
		}
		cs.Sorting = c10GenSorting(c, cs.Cols)
		cs.SortRows = 1 + c.Rng.Intn(12)
		if c.Rng.Intn(5) == 0 {
			cs.SortRows = 1 + c.Rng.Intn(80)
		}
		cs.Dedupe = c.Rng.Intn(2) == 0
		cs.Reuse = c.Rng.Intn(2) == 0
		cs.Pool = []string{"", "", "chunk", "mem", "file"}[c.Rng.Intn(5)]
		if cs.Pool == "file" && c.Rng.Intn(4) != 0 {
			cs.Pool = "chunk"
		}
		if c.Rng.Intn(3) == 0 {
			cs.MaxRowsRG = 1 + c.Rng.Intn(20)
		}
		g := c10NewGen(c, cs.Cols)
		nfiles := 1
		if c.Rng.Intn(3) == 0 {
			nfiles = 2 + c.Rng.Intn(2) // the writer is reused through Reset
		}
		for f := 0; f < nfiles; f++ {
			total := c.Rng.Intn(60 / nfiles)
			for total > 0 {
				n := 1 + c.Rng.Intn(25)
				if n > total {
					n = total
				}
				op := "write"
				if c.Rng.Intn(4) == 0 {
					op = "writerows"
				}
				cs.Steps = append(cs.Steps, c10Step{Op: op, Rows: g.batch(n)})
				if c.Rng.Intn(6) == 0 {
					cs.Steps = append(cs.Steps, c10Step{Op: "flush"})
				}
				total -= n
			}
			if f+1 < nfiles {
				if c.Rng.Intn(6) != 0 {
					cs.Steps = append(cs.Steps, c10Step{Op: "close"})
				}
				cs.Steps = append(cs.Steps, c10Step{Op: "reset"})
			}
		}
		bucket := fmt.Sprintf("writer/dedupe=%v", cs.Dedupe)
		if nfiles > 1 {
			bucket += "/reused"
		}
		c10Run(c, cs, bucket)
		if i == 0 {
			c.Sample(cs)
		}
	}

	section("writer")
	// ---- one SortingWriter, several files: the next file starts at the previous file's greatest key
	nReuse := c.N(120, 1200)
	for i := 0; i < nReuse && c10Hangs == 0; i++ {
		cs := c10GenReuse(c)
		c10Run(c, cs, fmt.Sprintf("writer-reuse/dedupe=%v", cs.Dedupe))
		if i == 0 {
			c.Sample(cs)
		}
	}

	section("writer-reuse")
	// ---- nearly sorted streams into the SortingWriter (near.go): sort runs that only touch
	nNear := c.N(24, 300)
	for i := 0; i < nNear && c10Hangs == 0; i++ {
		cs := c10GenNear(c)
		c10Run(c, cs, "writer-near/"+cs.Cols[1].Type)
		if i == 0 {
			c.Sample(cs)
		}
	}
	c.Note("nearly sorted streams: %d SortingWriter cases of 2..4 sort runs of 1100..3000 rows over a stream ordered by the first sorting column only (kinds %s; groups of 1..3 and of up to 1 / 40 / 300 / 900 rows per value, one case in three with rows up to 30 positions late), 2-3 sorting columns (then the optional column of the kind and / or the string), PageBufferSize 256..2048, written in batches of 97 / 1000 / 4096 rows: consecutive sort runs tie on the first sorting column and interleave on the later ones, and stretches of more than 1024 rows belong to one run only (the merge planner streams them out ahead of the merged region, cut at a page boundary)", nNear, strings.Join(c10NearKinds, ", "))
	section("writer-near")
	// ---- repeated columns as sorting columns (model: the repeated column buffer alone)
	repRow := func(id int64, items []int64, nulls []bool, r []int64) []c10Cell {
		return []c10Cell{{I: id}, {I: 1}, {L: items, N: nulls}, {L: r}}
	}
	repCorpus := []*c10Case{
		// Less must compare every element, not only the first
		{Kind: "repeated", Cols: c10RepCols, Sorting: []c10Sort{{Col: 3}},
			Steps: []c10Step{{Op: "write", Rows: [][]c10Cell{repRow(1, nil, nil, []int64{1, 3}), repRow(2, nil, nil, []int64{1, 2})}}, {Op: "sort"}, {Op: "read"}}},
		// descending: a prefix row still sorts first
		{Kind: "repeated", Cols: c10RepCols, Sorting: []c10Sort{{Col: 3, Desc: true}},
			Steps: []c10Step{{Op: "write", Rows: [][]c10Cell{repRow(1, nil, nil, []int64{1, 3}), repRow(2, nil, nil, []int64{1}), repRow(3, nil, nil, nil)}}, {Op: "sort"}, {Op: "read"}}},
		// null elements before the compared position: the base index must skip them
		{Kind: "repeated", Cols: c10RepCols, Sorting: []c10Sort{{Col: 2, NullsFirst: true}},
			Steps: []c10Step{{Op: "write", Rows: [][]c10Cell{
				repRow(1, []int64{0, 2, 1}, []bool{true, false, false}, nil),
				repRow(2, []int64{0, 2, 0}, []bool{true, false, false}, nil),
				repRow(3, []int64{5}, []bool{false}, nil)}}, {Op: "sort"}, {Op: "read"},
				{Op: "writerows", Rows: [][]c10Cell{repRow(4, []int64{0, 0}, []bool{true, true}, []int64{7})}}, {Op: "sort"}, {Op: "read"}}},
	}
	for _, cs := range repCorpus {
		c10Run(c, cs, "repeated-sorting-column")
	}
	nR := c.N(160, 2000)
	for i := 0; i < nR && c10Hangs == 0; i++ {
		cs := &c10Case{Kind: "repeated", Cols: c10RepCols}
		cs.Sorting = []c10Sort{{Col: 2 + c.Rng.Intn(2), Desc: c.Rng.Intn(2) == 0, NullsFirst: c.Rng.Intn(2) == 0}}
		switch c.Rng.Intn(4) {
		case 0:
			cs.Sorting = append([]c10Sort{{Col: 1, Desc: c.Rng.Intn(2) == 0}}, cs.Sorting...)
		case 1:
			cs.Sorting = append(cs.Sorting, c10Sort{Col: 5 - cs.Sorting[0].Col, Desc: c.Rng.Intn(2) == 0, NullsFirst: c.Rng.Intn(2) == 0})
		}
		g := c10NewGen(c, cs.Cols)
		g.dom = 1 + c.Rng.Intn(2)
		cs.Steps = c10GenHistory(c, g, 30, true)
		cs.Reuse = c.Rng.Intn(2) == 0
		cs.Steps = c10WithCols(c, cs, cs.Steps, 40)
		c10Run(c, cs, fmt.Sprintf("repeated-sorting-column/%d", len(cs.Sorting)))
		if i == 0 {
			c.Sample(cs)
		}
	}

	section("repeated")
	if c10Hangs > 0 {
		c.Note("the run was cut short: %d calls into the implementation did not return", c10Hangs)
	}
	c.Vm(c10VmPrelude)
	c.Vm("Definition cases : list case := [\n  " + strings.Join(vm, ";\n  ") + "].")
	c.Vm("Definition mismatches := filter (fun c => negb (agrees c)) cases.")
	c.Vm("Definition M := Eval vm_compute in (length cases, map (fun c => snd (fst (fst c))) mismatches).\nPrint M.")
	c.Res.VmCases = len(vm)
}

func replayC10(c *core.Ctx, raw json.RawMessage) {
	var cs c10Case
	if err := json.Unmarshal(raw, &cs); err != nil || cs.Kind == "" {
		c.Note("replay is not a C10 case; rerun the check with the recorded seed")
		return
	}
	if cs.Kind == "large-buffer" {
		c10Large(c)
		return
	}
	c10Run(c, &cs, "replay")
}
