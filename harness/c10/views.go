// C10 — two dimensions of the histories that are about the CALLER and about the column-level API:
//
//  1. caller reuse (c10Case.Reuse): after every Write / WriteRows call returned, the harness overwrites
//     all the memory it handed to the call (the parquet.Row slices and the bytes their BYTE_ARRAY /
//     FIXED_LEN_BYTE_ARRAY values point to; the Go structs, their arrays, byte slices, pointees and the
//     backing arrays of their slices), as an application does that refills one batch slice for the next
//     call.  The rows a container delivers must be the rows that were WRITTEN, so a container that kept a
//     pointer into the caller's memory delivers rows that are not a permutation of the input.
//
//  2. the column views of a buffer (step "cols"): between the steps of a history (in particular after
//     sort.Sort and before anything read the buffer) the columns are read through the column-level API,
//     each leaf column through one view:
//        clone    ColumnBuffers()[k].Clone().Page()          (the buffer is not touched)
//        page     ColumnBuffers()[k].Page()                  (materialises column k only)
//        pages    ColumnBuffers()[k].Pages()                 (the same through the Pages reader)
//        chunk    ColumnChunks()[k].Pages()                  (the only view a RowBuffer has)
//        readat   ColumnBuffers()[k].ReadValuesAt(dst, off)  (destinations of a given length, walked
//                                                             over the column, then windows at other
//                                                             offsets and past the end)
//     The values of the columns are cut into rows (a repeated column starts a row at repetition level 0),
//     put side by side and compared with the rows the recorded exchanges put at each position: the same
//     predicate as for Rows().  A clone is read again at the end of the history: it must still hold the
//     rows of the moment it was taken.
package main

import (
	"fmt"
	"io"
	"math"
	"reflect"
	"time"

	"github.com/parquet-go/parquet-go"
)

// ---- caller reuse -------------------------------------------------------------------------------

const c10Junk = 0xA5

// c10ClobberRows overwrites the rows handed to a WriteRows call: the bytes the values point to (they
// were allocated by c10MakeRow for this call only) and the values themselves.
func c10ClobberRows(prs []parquet.Row) {
	for _, row := range prs {
		for i, v := range row {
			if !v.IsNull() && (v.Kind() == parquet.ByteArray || v.Kind() == parquet.FixedLenByteArray) {
				b := v.ByteArray()
				for k := range b {
					b[k] = c10Junk
				}
			}
			row[i] = parquet.Int64Value(0x5A5A5A5A5A5A5A5A).Level(1, 1, 0)
		}
	}
}

var c10TimeType = reflect.TypeOf(time.Time{})

// c10ClobberStructs overwrites the Go values handed to a typed Write call, in place: every field of
// every element, the arrays, the bytes of byte slices, the elements of slices and what pointers point to.
func c10ClobberStructs[T any](rs []T) {
	for i := range rs {
		c10ClobberValue(reflect.ValueOf(&rs[i]).Elem())
	}
}

func c10ClobberValue(v reflect.Value) {
	if !v.CanSet() {
		return
	}
	if v.Type() == c10TimeType {
		v.Set(reflect.ValueOf(time.Unix(0x5A5A5A5A, 0x5A5A).UTC()))
		return
	}
	switch v.Kind() {
	case reflect.Bool:
		v.SetBool(!v.Bool())
	case reflect.Int, reflect.Int8, reflect.Int16, reflect.Int32, reflect.Int64:
		v.SetInt(0x5A5A5A5A5A5A5A5A)
	case reflect.Uint, reflect.Uint8, reflect.Uint16, reflect.Uint32, reflect.Uint64:
		v.SetUint(0xA5A5A5A5A5A5A5A5)
	case reflect.Float32, reflect.Float64:
		v.SetFloat(-12345.6789)
	case reflect.String:
		// the bytes of a Go string cannot be overwritten; the header is
		v.SetString("\xa5\xa5 overwritten by the caller")
	case reflect.Array:
		for k := 0; k < v.Len(); k++ {
			c10ClobberValue(v.Index(k))
		}
	case reflect.Slice:
		for k := 0; k < v.Len(); k++ {
			c10ClobberValue(v.Index(k))
		}
		v.Set(reflect.Zero(v.Type()))
	case reflect.Pointer:
		if !v.IsNil() {
			c10ClobberValue(v.Elem())
		}
		v.Set(reflect.Zero(v.Type()))
	case reflect.Struct:
		for k := 0; k < v.NumField(); k++ {
			c10ClobberValue(v.Field(k))
		}
	}
}

// ---- column views -------------------------------------------------------------------------------

var c10ViewNames = []string{"clone", "page", "pages", "chunk", "readat"}

// c10ViewMutates: the view calls Page() on the column of the buffer itself (the optional and repeated
// column buffers then move their values into row order: the model's OPageCol); ReadValuesAt does so
// when the rows were exchanged since the last Page.
func c10ViewMutates(view string) bool { return view != "clone" }

type c10ColumnBuffers interface {
	ColumnBuffers() []parquet.ColumnBuffer
}

type c10ColumnChunks interface {
	ColumnChunks() []parquet.ColumnChunk
}

// c10ColClone: a clone of a column and the values it held when it was taken.
type c10ColClone struct {
	col    int
	step   int
	clone  parquet.ColumnBuffer
	values []string
}

func c10ReadValueReader(r parquet.ValueReader, out []parquet.Value) ([]parquet.Value, error) {
	buf := make([]parquet.Value, 5)
	for spins := 0; ; {
		n, err := r.ReadValues(buf)
		for _, v := range buf[:n] {
			out = append(out, v.Clone())
		}
		if err == io.EOF {
			return out, nil
		}
		if err != nil {
			return out, err
		}
		if n == 0 {
			if spins++; spins > 1000 {
				return out, fmt.Errorf("the value reader does not terminate")
			}
		}
	}
}

func c10ReadPage(p parquet.Page) ([]parquet.Value, error) {
	if p == nil {
		return nil, fmt.Errorf("nil page")
	}
	return c10ReadValueReader(p.Values(), nil)
}

func c10ReadPages(ps parquet.Pages) ([]parquet.Value, error) {
	defer ps.Close()
	var out []parquet.Value
	for n := 0; n < 100000; n++ {
		p, err := ps.ReadPage()
		if err == io.EOF {
			return out, nil
		}
		if err != nil {
			return out, err
		}
		out, err = c10ReadValueReader(p.Values(), out)
		parquet.Release(p)
		if err != nil {
			return out, err
		}
	}
	return out, fmt.Errorf("the page reader does not terminate")
}

// c10ReadAt walks ReadValuesAt over the column with destinations of length chunk, then reads windows
// at every offset that is a multiple of chunk+1 (so that windows start inside runs of nulls and of
// values) and compares them with the walk.  n and err: n = min(len(dst), values left); an error other
// than io.EOF, or io.EOF before the end of the column, is a failure.
func c10ReadAt(cb parquet.ColumnBuffer, chunk int) ([]parquet.Value, error) {
	if chunk < 1 {
		chunk = 1
	}
	total := cb.NumValues()
	var out []parquet.Value
	for off := int64(0); off < total; {
		dst := make([]parquet.Value, chunk)
		n, err := cb.ReadValuesAt(dst, off)
		want := int64(chunk)
		if total-off < want {
			want = total - off
		}
		if err != nil && err != io.EOF {
			return out, fmt.Errorf("ReadValuesAt(len %d, offset %d) of %d values: %v", chunk, off, total, err)
		}
		if int64(n) != want {
			return out, fmt.Errorf("ReadValuesAt(len %d, offset %d) of %d values returned %d values (%v), want %d", chunk, off, total, n, err, want)
		}
		if err == io.EOF && off+int64(n) < total {
			return out, fmt.Errorf("ReadValuesAt(len %d, offset %d) of %d values returned io.EOF after %d values", chunk, off, total, n)
		}
		for _, v := range dst[:n] {
			out = append(out, v.Clone())
		}
		off += int64(n)
	}
	for off := int64(0); off < total; off += int64(chunk) + 1 {
		dst := make([]parquet.Value, chunk)
		n, err := cb.ReadValuesAt(dst, off)
		if err != nil && err != io.EOF {
			return out, fmt.Errorf("ReadValuesAt(len %d, offset %d) of %d values: %v", chunk, off, total, err)
		}
		want := int64(chunk)
		if total-off < want {
			want = total - off
		}
		if int64(n) != want {
			return out, fmt.Errorf("ReadValuesAt(len %d, offset %d) of %d values returned %d values (%v), want %d", chunk, off, total, n, err, want)
		}
		for k, v := range dst[:n] {
			if c10ValueKey(v) != c10ValueKey(out[off+int64(k)]) {
				return out, fmt.Errorf("ReadValuesAt(len %d, offset %d)[%d] = %s, but the value at %d read in steps of %d from offset 0 is %s",
					chunk, off, k, c10ValueKey(v), off+int64(k), chunk, c10ValueKey(out[off+int64(k)]))
			}
		}
	}
	// past the end: nothing is read
	dst := make([]parquet.Value, chunk)
	if n, err := cb.ReadValuesAt(dst, total); n != 0 || (err != nil && err != io.EOF) {
		return out, fmt.Errorf("ReadValuesAt(len %d, offset %d) at the end of %d values returned %d values, %v", chunk, total, total, n, err)
	}
	return out, nil
}

// c10ValueKey: a value with its levels and column, bit for bit.
func c10ValueKey(v parquet.Value) string {
	head := fmt.Sprintf("C%d R%d D%d ", v.Column(), v.RepetitionLevel(), v.DefinitionLevel())
	if v.IsNull() {
		return head + "null"
	}
	switch v.Kind() {
	case parquet.Boolean:
		return head + fmt.Sprintf("bool %v", v.Boolean())
	case parquet.Int32:
		return head + fmt.Sprintf("int32 %d", v.Int32())
	case parquet.Int64:
		return head + fmt.Sprintf("int64 %d", v.Int64())
	case parquet.Float:
		return head + fmt.Sprintf("float %#x", math.Float32bits(v.Float()))
	case parquet.Double:
		return head + fmt.Sprintf("double %#x", math.Float64bits(v.Double()))
	case parquet.ByteArray:
		return head + fmt.Sprintf("bytes x%x", v.ByteArray())
	case parquet.FixedLenByteArray:
		return head + fmt.Sprintf("fixed x%x", v.ByteArray())
	case parquet.Int96:
		x := v.Int96()
		return head + fmt.Sprintf("int96 %08x%08x%08x", x[2], x[1], x[0])
	}
	return head + v.Kind().String() + " " + v.String()
}

func c10ValueKeys(vs []parquet.Value) []string {
	out := make([]string, len(vs))
	for i, v := range vs {
		out[i] = c10ValueKey(v)
	}
	return out
}

// c10ViewColumn reads leaf column k of the buffer through a view.  A RowBuffer has column chunks only:
// every view of it is "chunk".  clone is the clone taken (view "clone").
func c10ViewColumn(buf c10Buf, k int, view string, chunk int) (values []parquet.Value, clone parquet.ColumnBuffer, used string, err error) {
	var cb parquet.ColumnBuffer
	if b, ok := buf.(c10ColumnBuffers); ok {
		cbs := b.ColumnBuffers()
		if k >= len(cbs) {
			return nil, nil, view, fmt.Errorf("ColumnBuffers() has %d columns", len(cbs))
		}
		cb = cbs[k]
	} else {
		view = "chunk"
	}
	switch view {
	case "clone":
		clone = cb.Clone()
		values, err = c10ReadPage(clone.Page())
	case "page":
		values, err = c10ReadPage(cb.Page())
	case "pages":
		values, err = c10ReadPages(cb.Pages())
	case "readat":
		values, err = c10ReadAt(cb, chunk)
	default:
		view = "chunk"
		b, ok := buf.(c10ColumnChunks)
		if !ok {
			return nil, nil, view, fmt.Errorf("the buffer has no ColumnChunks()")
		}
		ccs := b.ColumnChunks()
		if k >= len(ccs) {
			return nil, nil, view, fmt.Errorf("ColumnChunks() has %d columns", len(ccs))
		}
		values, err = c10ReadPages(ccs[k].Pages())
	}
	return values, clone, view, err
}

// c10CutRows cuts the values of one column into rows.
func c10CutRows(col c10Col, values []parquet.Value) [][]parquet.Value {
	var out [][]parquet.Value
	for _, v := range values {
		if !col.Rep || v.RepetitionLevel() == 0 || len(out) == 0 {
			out = append(out, nil)
		}
		out[len(out)-1] = append(out[len(out)-1], v)
	}
	return out
}
