// C10 — the kinds of the sorting columns (the scheme of harness/c09/types.go, copied).
//
// The cell of a typed column stays an integer ("ordinal", what the Coq model
// compares: the model's value VI z).  A column of kind K holds, for the ordinal o,
// the value emb_K(o) of the parquet type of K, where emb_K is a strictly
// increasing map from the domain of K (at most [-32768, 32767]) into the
// values of the type ordered as the parquet format orders them (signed,
// unsigned, IEEE numeric, unsigned lexicographic bytes, signed big-endian two's
// complement for DECIMAL).  The images are spread over the whole width of the
// type: neighbouring ordinals differ in the high bits, the low bits are a hash
// of the ordinal, o < 0 maps to negative values (to the lower half of
// the unsigned range, to bytes below 0x80), so that a comparison on part of
// the width, of the wrong signedness or of the wrong byte order disagrees with
// the order of the ordinals.
//
// The comparator of the predicates (c10CmpTV, used by c10CmpCells) works on the
// decoded Go values (Value.Int32(), .Int64(), .Float(), .Double(), .Boolean(),
// .ByteArray()) and is written here; it does not call the library's
// Type.Compare nor its compare functions.  c10KindsSelfTest checks, for every
// kind and exhaustively over its domain, that emb_K is strictly increasing for
// that comparator and that a value survives Value construction and reading.
package main

import (
	"bytes"
	"encoding/binary"
	"fmt"
	"math"
	"math/big"

	"github.com/parquet-go/parquet-go"
	"github.com/parquet-go/parquet-go/deprecated"
)

// c10TV: a decoded key value; which field is meaningful depends on the kind.
type c10TV struct {
	i int64
	u uint64
	f float64
	b []byte
}

const (
	c10OrdSigned   = iota // i, signed
	c10OrdUnsigned        // u, unsigned
	c10OrdFloat           // f, IEEE numeric order, -0 = +0, no NaN
	c10OrdBytes           // b, unsigned bytes, lexicographic, a proper prefix first
	c10OrdDecimal         // b, big-endian two's complement, signed numeric order (any lengths)
)

type c10Kind struct {
	name   string
	node   func() parquet.Node
	phys   parquet.Kind
	lo, hi int64 // domain of (ordinal - bias)
	order  int
	tv     func(o int64) c10TV         // emb_K
	val    func(t c10TV) parquet.Value // the parquet value holding t
	read   func(v parquet.Value) c10TV // the Go value of a parquet value of kind phys
	inv    map[string]int64            // byte strings: the ordinals (less the bias) of the images decoded so far
}

// c10Int96: the INT96 value of a decoded 12-byte big-endian image (word 2 is the most significant one).
func c10Int96(t c10TV) deprecated.Int96 {
	return deprecated.Int96{0: binary.BigEndian.Uint32(t.b[8:]), 1: binary.BigEndian.Uint32(t.b[4:]), 2: binary.BigEndian.Uint32(t.b[0:])}
}

// ---- hashing of an ordinal (the low bits of the images) -----------------------

func c10Mix(o int64) uint64 {
	z := uint64(o)*0x9E3779B97F4A7C15 + 0x632BE59BD9B4E019
	z = (z ^ (z >> 30)) * 0xBF58476D1CE4E5B9
	z = (z ^ (z >> 27)) * 0x94D049BB133111EB
	return z ^ (z >> 31)
}

// ---- the comparator of the harness on decoded values ---------------------------

func c10CmpTV(order int, a, b c10TV) int {
	switch order {
	case c10OrdSigned:
		switch {
		case a.i < b.i:
			return -1
		case a.i > b.i:
			return 1
		}
		return 0
	case c10OrdUnsigned:
		switch {
		case a.u < b.u:
			return -1
		case a.u > b.u:
			return 1
		}
		return 0
	case c10OrdFloat:
		switch {
		case a.f < b.f:
			return -1
		case a.f > b.f:
			return 1
		}
		return 0
	case c10OrdBytes:
		n := len(a.b)
		if len(b.b) < n {
			n = len(b.b)
		}
		for k := 0; k < n; k++ {
			if a.b[k] != b.b[k] {
				if a.b[k] < b.b[k] {
					return -1
				}
				return 1
			}
		}
		switch {
		case len(a.b) < len(b.b):
			return -1
		case len(a.b) > len(b.b):
			return 1
		}
		return 0
	case c10OrdDecimal:
		return c10TwosComplement(a.b).Cmp(c10TwosComplement(b.b))
	}
	return 0
}

// the integer a big-endian two's complement byte string denotes
func c10TwosComplement(b []byte) *big.Int {
	x := new(big.Int).SetBytes(b)
	if len(b) > 0 && b[0]&0x80 != 0 {
		x.Sub(x, new(big.Int).Lsh(big.NewInt(1), uint(8*len(b))))
	}
	return x
}

// bit-exact equality of two decoded values of one kind
func c10SameTV(order int, a, b c10TV) bool {
	switch order {
	case c10OrdSigned:
		return a.i == b.i
	case c10OrdUnsigned:
		return a.u == b.u
	case c10OrdFloat:
		return math.Float64bits(a.f) == math.Float64bits(b.f)
	}
	return bytes.Equal(a.b, b.b)
}

func c10TVString(order int, t c10TV) string {
	switch order {
	case c10OrdSigned:
		return fmt.Sprint(t.i)
	case c10OrdUnsigned:
		return fmt.Sprint(t.u)
	case c10OrdFloat:
		return fmt.Sprintf("%g(%#x)", t.f, math.Float64bits(t.f))
	}
	return fmt.Sprintf("x%x", t.b)
}

// ---- the kinds -----------------------------------------------------------------

var c10Kinds = map[string]*c10Kind{}
var c10KindNames []string // all kinds (the default int64 / string columns of the master schema have no kind)

func c10KindOf(name string) *c10Kind { return c10Kinds[name] }

func c10InitKinds() {
	add := func(k *c10Kind) {
		c10Kinds[k.name] = k
		c10KindNames = append(c10KindNames, k.name)
	}
	const lo, hi = -32768, 32767
	leaf := func(t parquet.Type) func() parquet.Node { return func() parquet.Node { return parquet.Leaf(t) } }

	// -- 32-bit integers: o*2^16 + 16 hashed bits
	i32 := func(o int64) c10TV { return c10TV{i: o*65536 + int64(c10Mix(o)&0xFFFF)} }
	i32val := func(t c10TV) parquet.Value { return parquet.Int32Value(int32(t.i)) }
	i32read := func(v parquet.Value) c10TV { return c10TV{i: int64(v.Int32())} }
	u32val := func(t c10TV) parquet.Value { return parquet.Int32Value(int32(uint32(t.u))) }
	u32read := func(v parquet.Value) c10TV { return c10TV{u: uint64(uint32(v.Int32()))} }
	// -- 64-bit integers: o*2^48 + 48 hashed bits
	i64 := func(o int64) c10TV { return c10TV{i: o*(1<<48) + int64(c10Mix(o)&(1<<48-1))} }
	i64val := func(t c10TV) parquet.Value { return parquet.Int64Value(t.i) }
	i64read := func(v parquet.Value) c10TV { return c10TV{i: v.Int64()} }
	u64val := func(t c10TV) parquet.Value { return parquet.Int64Value(int64(t.u)) }
	u64read := func(v parquet.Value) c10TV { return c10TV{u: uint64(v.Int64())} }
	small := func(o int64) c10TV { return c10TV{i: o} }
	within := func(m int64) func(o int64) int64 { return func(o int64) int64 { return int64(c10Mix(o) % uint64(m)) } }

	add(&c10Kind{name: "boolean", node: leaf(parquet.BooleanType), phys: parquet.Boolean, lo: 0, hi: 1, order: c10OrdSigned,
		tv:  small,
		val: func(t c10TV) parquet.Value { return parquet.BooleanValue(t.i != 0) },
		read: func(v parquet.Value) c10TV {
			if v.Boolean() {
				return c10TV{i: 1}
			}
			return c10TV{}
		}})
	add(&c10Kind{name: "int32", node: leaf(parquet.Int32Type), phys: parquet.Int32, lo: lo, hi: hi, order: c10OrdSigned, tv: i32, val: i32val, read: i32read})
	add(&c10Kind{name: "int(32)", node: func() parquet.Node { return parquet.Int(32) }, phys: parquet.Int32, lo: lo, hi: hi, order: c10OrdSigned, tv: i32, val: i32val, read: i32read})
	add(&c10Kind{name: "int(16)", node: func() parquet.Node { return parquet.Int(16) }, phys: parquet.Int32, lo: lo, hi: hi, order: c10OrdSigned, tv: small, val: i32val, read: i32read})
	add(&c10Kind{name: "int(8)", node: func() parquet.Node { return parquet.Int(8) }, phys: parquet.Int32, lo: -128, hi: 127, order: c10OrdSigned, tv: small, val: i32val, read: i32read})
	add(&c10Kind{name: "uint(32)", node: func() parquet.Node { return parquet.Uint(32) }, phys: parquet.Int32, lo: lo, hi: hi, order: c10OrdUnsigned,
		tv: func(o int64) c10TV { return c10TV{u: uint64(uint32(int64(1<<31) + i32(o).i))} }, val: u32val, read: u32read})
	add(&c10Kind{name: "uint(16)", node: func() parquet.Node { return parquet.Uint(16) }, phys: parquet.Int32, lo: lo, hi: hi, order: c10OrdUnsigned,
		tv: func(o int64) c10TV { return c10TV{u: uint64(o + 32768)} }, val: u32val, read: u32read})
	add(&c10Kind{name: "uint(8)", node: func() parquet.Node { return parquet.Uint(8) }, phys: parquet.Int32, lo: -128, hi: 127, order: c10OrdUnsigned,
		tv: func(o int64) c10TV { return c10TV{u: uint64(o + 128)} }, val: u32val, read: u32read})
	add(&c10Kind{name: "int64", node: leaf(parquet.Int64Type), phys: parquet.Int64, lo: lo, hi: hi, order: c10OrdSigned, tv: i64, val: i64val, read: i64read})
	add(&c10Kind{name: "int(64)", node: func() parquet.Node { return parquet.Int(64) }, phys: parquet.Int64, lo: lo, hi: hi, order: c10OrdSigned, tv: i64, val: i64val, read: i64read})
	add(&c10Kind{name: "uint(64)", node: func() parquet.Node { return parquet.Uint(64) }, phys: parquet.Int64, lo: lo, hi: hi, order: c10OrdUnsigned,
		tv: func(o int64) c10TV { return c10TV{u: uint64(1)<<63 + uint64(i64(o).i)} }, val: u64val, read: u64read})

	// -- floating point: the magnitude |o|*m + hash is used as the bit pattern (finite, subnormals for |o| = 1),
	// the sign is the sign of o; o = 0 is zero (the cell decides between +0 and -0, see c10CellTV)
	add(&c10Kind{name: "float", node: leaf(parquet.FloatType), phys: parquet.Float, lo: lo, hi: hi, order: c10OrdFloat,
		tv: func(o int64) c10TV {
			if o == 0 {
				return c10TV{f: 0}
			}
			a := o
			if a < 0 {
				a = -a
			}
			bits := uint32(a*65000 + within(65000)(o))
			if o < 0 {
				bits |= 1 << 31
			}
			return c10TV{f: float64(math.Float32frombits(bits))}
		},
		val:  func(t c10TV) parquet.Value { return parquet.FloatValue(float32(t.f)) },
		read: func(v parquet.Value) c10TV { return c10TV{f: float64(v.Float())} }})
	add(&c10Kind{name: "double", node: leaf(parquet.DoubleType), phys: parquet.Double, lo: lo, hi: hi, order: c10OrdFloat,
		tv: func(o int64) c10TV {
			if o == 0 {
				return c10TV{f: 0}
			}
			a := o
			if a < 0 {
				a = -a
			}
			const m = 281000000000000
			bits := uint64(a*m + within(m)(o))
			if o < 0 {
				bits |= 1 << 63
			}
			return c10TV{f: math.Float64frombits(bits)}
		},
		val:  func(t c10TV) parquet.Value { return parquet.DoubleValue(t.f) },
		read: func(v parquet.Value) c10TV { return c10TV{f: v.Double()} }})

	// -- byte strings.  u = o + 32768 = 4q + r: two bytes (q >> 6, (q & 63) << 2) then one of four
	// suffixes of increasing order and length 0, 1, 2, 21 (a proper prefix sorts first; values longer than the
	// 16 bytes a column index keeps of a bound).  Bytes >= 0x80 for o >= 0.
	binSuffix := [][]byte{{}, {0x00}, {0x00, 0xFF}, append([]byte{0x7F}, bytes.Repeat([]byte{0xFE}, 20)...)}
	bin := func(o int64) c10TV {
		u := uint64(o + 32768)
		q, r := u>>2, u&3
		b := []byte{byte(q >> 6), byte(q&63) << 2}
		return c10TV{b: append(b, binSuffix[r]...)}
	}
	// the same over valid UTF-8: the digits are the code points U+0020..U+011F (UTF-8 keeps the code point order)
	strSuffix := []string{"", " ", " ÿ", "~" + string(bytes.Repeat([]byte("}"), 20))}
	str := func(o int64) c10TV {
		u := uint64(o + 32768)
		q, r := u>>2, u&3
		s := string([]rune{rune(0x20 + q>>6), rune(0x20 + (q&63)<<2)}) + strSuffix[r]
		return c10TV{b: []byte(s)}
	}
	baval := func(t c10TV) parquet.Value { return parquet.ByteArrayValue(t.b) }
	flval := func(t c10TV) parquet.Value { return parquet.FixedLenByteArrayValue(t.b) }
	bread := func(v parquet.Value) c10TV { return c10TV{b: append([]byte(nil), v.ByteArray()...)} }
	add(&c10Kind{name: "bytearray", node: leaf(parquet.ByteArrayType), phys: parquet.ByteArray, lo: lo, hi: hi, order: c10OrdBytes, tv: bin, val: baval, read: bread})
	add(&c10Kind{name: "string", node: parquet.String, phys: parquet.ByteArray, lo: lo, hi: hi, order: c10OrdBytes, tv: str, val: baval, read: bread})
	add(&c10Kind{name: "enum", node: parquet.Enum, phys: parquet.ByteArray, lo: lo, hi: hi, order: c10OrdBytes, tv: str, val: baval, read: bread})
	add(&c10Kind{name: "flba(5)", node: leaf(parquet.FixedLenByteArrayType(5)), phys: parquet.FixedLenByteArray, lo: lo, hi: hi, order: c10OrdBytes,
		tv: func(o int64) c10TV {
			b := make([]byte, 8)
			binary.BigEndian.PutUint64(b, uint64(o+32768)<<48|c10Mix(o)>>16)
			return c10TV{b: b[:5]}
		}, val: flval, read: bread})
	// 16 bytes: the high half depends on u >> 8 only, the low half carries u & 255 in its top byte
	// (keys that differ in the low half only; low halves on both sides of 2^63)
	b16 := func(o int64) c10TV {
		u := uint64(o + 32768)
		b := make([]byte, 16)
		binary.BigEndian.PutUint64(b, (u>>8)<<56|c10Mix(int64(u>>8))>>8)
		binary.BigEndian.PutUint64(b[8:], (u&255)<<56|c10Mix(o)>>8)
		return c10TV{b: b}
	}
	add(&c10Kind{name: "flba(16)", node: leaf(parquet.FixedLenByteArrayType(16)), phys: parquet.FixedLenByteArray, lo: lo, hi: hi, order: c10OrdBytes, tv: b16, val: flval, read: bread})
	add(&c10Kind{name: "uuid", node: parquet.UUID, phys: parquet.FixedLenByteArray, lo: lo, hi: hi, order: c10OrdBytes, tv: b16, val: flval, read: bread})

	// -- date, time of day (values within a day), timestamps
	add(&c10Kind{name: "date", node: parquet.Date, phys: parquet.Int32, lo: lo, hi: hi, order: c10OrdSigned, tv: i32, val: i32val, read: i32read})
	add(&c10Kind{name: "time(ms)", node: func() parquet.Node { return parquet.Time(parquet.Millisecond) }, phys: parquet.Int32, lo: lo, hi: hi, order: c10OrdSigned,
		tv: func(o int64) c10TV { return c10TV{i: 43200000 + o*1318 + within(1318)(o)} }, val: i32val, read: i32read})
	add(&c10Kind{name: "time(us)", node: func() parquet.Node { return parquet.Time(parquet.Microsecond) }, phys: parquet.Int64, lo: lo, hi: hi, order: c10OrdSigned,
		tv: func(o int64) c10TV { return c10TV{i: 43200000000 + o*1318000 + within(1318000)(o)} }, val: i64val, read: i64read})
	add(&c10Kind{name: "time(ns)", node: func() parquet.Node { return parquet.Time(parquet.Nanosecond) }, phys: parquet.Int64, lo: lo, hi: hi, order: c10OrdSigned,
		tv: func(o int64) c10TV { return c10TV{i: 43200000000000 + o*1318000000 + within(1318000000)(o)} }, val: i64val, read: i64read})
	for _, u := range []struct {
		name string
		unit parquet.TimeUnit
	}{{"timestamp(ms)", parquet.Millisecond}, {"timestamp(us)", parquet.Microsecond}, {"timestamp(ns)", parquet.Nanosecond}} {
		unit := u.unit
		add(&c10Kind{name: u.name, node: func() parquet.Node { return parquet.Timestamp(unit) }, phys: parquet.Int64, lo: lo, hi: hi, order: c10OrdSigned, tv: i64, val: i64val, read: i64read})
	}

	// -- decimals: unscaled integers within the precision; on byte strings big-endian two's complement
	add(&c10Kind{name: "decimal(int32)", node: func() parquet.Node { return parquet.Decimal(2, 9, parquet.Int32Type) }, phys: parquet.Int32, lo: lo, hi: hi, order: c10OrdSigned,
		tv: func(o int64) c10TV { return c10TV{i: o*30000 + within(30000)(o)} }, val: i32val, read: i32read})
	add(&c10Kind{name: "decimal(int64)", node: func() parquet.Node { return parquet.Decimal(4, 18, parquet.Int64Type) }, phys: parquet.Int64, lo: lo, hi: hi, order: c10OrdSigned,
		tv: func(o int64) c10TV { return c10TV{i: o*30000000000000 + within(30000000000000)(o)} }, val: i64val, read: i64read})
	signExt := func(x int64, n int) []byte {
		b := make([]byte, n)
		for k := range b {
			if x < 0 {
				b[k] = 0xFF
			}
		}
		binary.BigEndian.PutUint64(b[n-8:], uint64(x))
		return b
	}
	add(&c10Kind{name: "decimal(flba9)", node: func() parquet.Node { return parquet.Decimal(3, 20, parquet.FixedLenByteArrayType(9)) }, phys: parquet.FixedLenByteArray, lo: lo, hi: hi, order: c10OrdDecimal,
		tv: func(o int64) c10TV { return c10TV{b: signExt(i64(o).i, 9)} }, val: flval, read: bread})
	add(&c10Kind{name: "decimal(flba16)", node: func() parquet.Node { return parquet.Decimal(3, 38, parquet.FixedLenByteArrayType(16)) }, phys: parquet.FixedLenByteArray, lo: lo, hi: hi, order: c10OrdDecimal,
		tv: func(o int64) c10TV { return c10TV{b: signExt(i64(o).i, 16)} }, val: flval, read: bread})
	// -- INT96: the format defines no order for it (its statistics are not to be trusted); the library sorts
	// INT96 columns as signed 96-bit integers, most significant word last (deprecated.Int96.Less: "a signed
	// comparison between the two operands"): that documented order is the order of the kind.  The image is
	// spread over the three 32-bit words so that every word decides some comparisons: with u = o + 2^15,
	// the high word holds u>>2 (signed, in its top 14 bits) over a hash of it, bit 31 of the middle word
	// is bit 1 of u, bit 31 of the low word is bit 0 of u (their other 31 bits are hashes of u>>1 and u):
	// neighbouring ordinals agree on the higher words and differ in the TOP bit of a lower word, which a
	// signed comparison of the lower words, a comparison of the high word alone or an unsigned comparison
	// of the high word gets wrong.  Decoded value: the 12 bytes, big-endian, two's complement.
	add(&c10Kind{name: "int96", node: leaf(parquet.Int96Type), phys: parquet.Int96, lo: lo, hi: hi, order: c10OrdDecimal,
		tv: func(o int64) c10TV {
			u := uint64(o + 32768)
			a := int64(u>>2) - 8192
			w2 := uint32(int32(a))<<18 | uint32(c10Mix(a)&(1<<18-1))
			w1 := uint32(u>>1&1)<<31 | uint32(c10Mix(int64(u>>1)+1<<20)&(1<<31-1))
			w0 := uint32(u&1)<<31 | uint32(c10Mix(int64(u)+1<<21)&(1<<31-1))
			b := make([]byte, 12)
			binary.BigEndian.PutUint32(b[0:], w2)
			binary.BigEndian.PutUint32(b[4:], w1)
			binary.BigEndian.PutUint32(b[8:], w0)
			return c10TV{b: b}
		},
		val:  func(t c10TV) parquet.Value { return parquet.Int96Value(c10Int96(t)) },
		read: func(v parquet.Value) c10TV {
			x := v.Int96()
			b := make([]byte, 12)
			binary.BigEndian.PutUint32(b[0:], x[2])
			binary.BigEndian.PutUint32(b[4:], x[1])
			binary.BigEndian.PutUint32(b[8:], x[0])
			return c10TV{b: b}
		}})
	// variable length: o*|o|*2^33 + 33 hashed bits in the shortest two's complement form (3..8 bytes)
	add(&c10Kind{name: "decimal(bytearray)", node: func() parquet.Node { return parquet.Decimal(3, 19, parquet.ByteArrayType) }, phys: parquet.ByteArray, lo: -32767, hi: hi, order: c10OrdDecimal,
		tv: func(o int64) c10TV {
			a := o
			if a < 0 {
				a = -a
			}
			x := o*a*(1<<33) + int64(c10Mix(o)&(1<<33-1))
			b := signExt(x, 8)
			for len(b) > 1 && ((b[0] == 0x00 && b[1]&0x80 == 0) || (b[0] == 0xFF && b[1]&0x80 != 0)) {
				b = b[1:]
			}
			return c10TV{b: b}
		}, val: baval, read: bread})
}

// c10KindsSelfTest: emb_K strictly increasing for the harness comparator over the whole domain of
// every kind, and stable through parquet.Value.  Returns the first failure.
func c10KindsSelfTest() string {
	for _, name := range c10KindNames {
		k := c10Kinds[name]
		prev := k.tv(k.lo)
		for o := k.lo; o <= k.hi; o++ {
			t := k.tv(o)
			v := k.val(t)
			if v.Kind() != k.phys {
				return fmt.Sprintf("kind %s: the value of ordinal %d has kind %v, want %v", name, o, v.Kind(), k.phys)
			}
			if !c10SameTV(k.order, k.read(v), t) {
				return fmt.Sprintf("kind %s: ordinal %d: %s read back as %s", name, o, c10TVString(k.order, t), c10TVString(k.order, k.read(v)))
			}
			if c10CmpTV(k.order, t, t) != 0 {
				return fmt.Sprintf("kind %s: ordinal %d does not compare equal to itself", name, o)
			}
			if o > k.lo && (c10CmpTV(k.order, prev, t) >= 0 || c10CmpTV(k.order, t, prev) <= 0) {
				return fmt.Sprintf("kind %s: ordinals %d and %d: %s is not below %s", name, o-1, o, c10TVString(k.order, prev), c10TVString(k.order, t))
			}
			prev = t
		}
	}
	return ""
}

// ---- values of a typed column ----------------------------------------------------------

func (col c10Col) typed() bool { return col.Type != "" }

// c10CellTV: the decoded value the cell of a typed column holds: emb_K of the ordinal cell.I; the zero of
// the floating point kinds is -0 when the cell says so.
func c10CellTV(k *c10Kind, cell c10Cell) c10TV {
	t := k.tv(cell.I)
	if k.order == c10OrdFloat && t.f == 0 && cell.NZ {
		t.f = math.Copysign(0, -1)
	}
	return t
}

// c10Unembed: the ordinal of a decoded value (binary search with the harness comparator); ok = false
// when the value is not the image of an ordinal (bit-exact, but for the sign of zero, which is returned).
func c10Unembed(k *c10Kind, t c10TV) (ord int64, negZero, ok bool) {
	// byte strings: the images found so far are remembered (the comparisons of the search allocate)
	if k.order == c10OrdBytes || k.order == c10OrdDecimal {
		if k.inv == nil {
			k.inv = map[string]int64{}
		}
		if o, ok := k.inv[string(t.b)]; ok {
			return o, false, true
		}
		o, ok := c10Search(k, t)
		if ok {
			k.inv[string(t.b)] = o
		}
		return o, false, ok
	}
	o, ok := c10Search(k, t)
	return o, ok && k.order == c10OrdFloat && t.f == 0 && math.Signbit(t.f), ok
}

func c10Search(k *c10Kind, t c10TV) (int64, bool) {
	lo, hi := k.lo, k.hi
	for lo < hi {
		mid := lo + (hi-lo)/2
		if c10CmpTV(k.order, k.tv(mid), t) < 0 {
			lo = mid + 1
		} else {
			hi = mid
		}
	}
	w := k.tv(lo)
	if c10CmpTV(k.order, w, t) != 0 {
		return 0, false
	}
	if !c10SameTV(k.order, w, t) && !(k.order == c10OrdFloat && t.f == 0) {
		return 0, false
	}
	return lo, true
}

// c10KindOrdinals: the ordinals a generator draws from for a column of kind k (it uses a prefix of the
// list: small domains give duplicates): the neighbours of zero (images on both sides of zero / of the
// middle of the unsigned range / of byte 0x80), the two ends of the domain (differences that overflow the
// width of the type), zero (+0 and -0 for the floating point kinds) and ordinals in between.
func c10KindOrdinals(k *c10Kind) []int64 {
	var out []int64
	for _, o := range []int64{-1, 1, k.lo, k.hi, 0, -2, 2, 3, k.lo + 1, k.hi - 1, -77, 100, -12345, 23456, 255, -256} {
		if o < k.lo || o > k.hi {
			continue
		}
		dup := false
		for _, p := range out {
			dup = dup || p == o
		}
		if !dup {
			out = append(out, o)
		}
	}
	return out
}
