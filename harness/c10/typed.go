// C10 — Go struct types whose fields are of the kinds of types.go: the typed write paths of
// GenericBuffer[T].Write, RowBuffer[T].Write and SortingWriter[T].Write (the struct fields are
// written to the column buffers through the sparse-array kernels of each column buffer type, not
// through parquet.Value rows).
//
// Every struct has the columns
//
//	a_id  int64, required   the unique id of the row
//	k     kind K, required  (a sorting column on it alone leaves the comparator on its index fast path:
//	                         no repeated leaf, no optional sorting column)
//	o     kind K, optional  (a pointer where the struct tags of the library accept one, else a field
//	                         whose zero value is null: no image of an ordinal of these kinds is zero)
//	p     string, required  payload
//
// which a Group schema with the same columns reproduces (c10Schema); c10TypedSelfTest checks that the
// schema the library derives of each struct is the one of the kind.
package main

import (
	"fmt"
	"io"
	"time"

	"github.com/parquet-go/parquet-go"
	"github.com/parquet-go/parquet-go/deprecated"
)

// c10SW is what the harness uses of a SortingWriter[T].
type c10SW interface {
	WriteRows([]parquet.Row) (int, error)
	Flush() error
	Close() error
	Reset(io.Writer)
}

// c10Fac: the containers over one struct type.
type c10Fac struct {
	name string // the name of the struct type in a case (c10Case.Struct)
	kind string // the kind of the columns k and o
	cols []c10Col
	// each constructor returns the container and the typed write of logical rows
	schema       func() *parquet.Schema
	newGeneric   func(opt ...parquet.RowGroupOption) (c10Buf, func([][]c10Cell, bool) error)
	newRowBuffer func(opt ...parquet.RowGroupOption) (c10Buf, func([][]c10Cell, bool) error)
	newWriter    func(out io.Writer, sortRows int64, opt ...parquet.WriterOption) (c10SW, func([][]c10Cell, bool) error)
}

var c10Facs = map[string]*c10Fac{}
var c10FacNames []string

func c10TypedCols(kind string) []c10Col {
	return []c10Col{{Name: "a_id"}, {Name: "k", Type: kind}, {Name: "o", Type: kind, MaxDef: 1}, {Name: "p", Str: true}}
}

// c10Setter is implemented by the pointer to each struct template.
type c10Setter[K any] interface {
	set(id int64, k K, o *K, p string)
}

func c10AddFac[K any, T any, PT interface {
	*T
	c10Setter[K]
}](name, kind string, conv func(t c10TV) K) {
	kd := c10KindOf(kind)
	if kd == nil {
		panic("C10 harness: no kind " + kind)
	}
	cols := c10TypedCols(kind)
	toT := func(rows [][]c10Cell) []T {
		out := make([]T, len(rows))
		for i, cells := range rows {
			var o *K
			if cells[2].D == 1 {
				v := conv(c10CellTV(kd, cells[2]))
				o = &v
			}
			PT(&out[i]).set(cells[0].I, conv(c10CellTV(kd, cells[1])), o, cells[3].S)
		}
		return out
	}
	f := &c10Fac{name: name, kind: kind, cols: cols}
	f.schema = func() *parquet.Schema { return parquet.SchemaOf(new(T)) }
	f.newGeneric = func(opt ...parquet.RowGroupOption) (c10Buf, func([][]c10Cell, bool) error) {
		b := parquet.NewGenericBuffer[T](opt...)
		return b, func(rows [][]c10Cell, reuse bool) error {
			rs := toT(rows)
			_, err := b.Write(rs)
			if reuse {
				c10ClobberStructs(rs)
			}
			return err
		}
	}
	f.newRowBuffer = func(opt ...parquet.RowGroupOption) (c10Buf, func([][]c10Cell, bool) error) {
		b := parquet.NewRowBuffer[T](opt...)
		return b, func(rows [][]c10Cell, reuse bool) error {
			rs := toT(rows)
			_, err := b.Write(rs)
			if reuse {
				c10ClobberStructs(rs)
			}
			return err
		}
	}
	f.newWriter = func(out io.Writer, sortRows int64, opt ...parquet.WriterOption) (c10SW, func([][]c10Cell, bool) error) {
		w := parquet.NewSortingWriter[T](out, sortRows, opt...)
		return w, func(rows [][]c10Cell, reuse bool) error {
			rs := toT(rows)
			_, err := w.Write(rs)
			if reuse {
				c10ClobberStructs(rs)
			}
			return err
		}
	}
	c10Facs[name] = f
	c10FacNames = append(c10FacNames, name)
}

// ---- the struct templates ----------------------------------------------------------------

// no logical type tag: the Go type of the field decides (int8 -> INT(8,signed), uint16 -> INT(16,unsigned),
// float32 -> FLOAT, string -> STRING, [5]byte -> FIXED_LEN_BYTE_ARRAY(5), [16]byte -> FIXED_LEN_BYTE_ARRAY(16), ...)
type c10TPlain[K any] struct {
	ID int64  `parquet:"a_id"`
	K  K      `parquet:"k"`
	O  *K     `parquet:"o,optional"`
	P  string `parquet:"p"`
}

func (r *c10TPlain[K]) set(id int64, k K, o *K, p string) { *r = c10TPlain[K]{id, k, o, p} }

// byte slices: a nil slice is the null of the optional column
type c10TBytes struct {
	ID int64  `parquet:"a_id"`
	K  []byte `parquet:"k"`
	O  []byte `parquet:"o,optional"`
	P  string `parquet:"p"`
}

func (r *c10TBytes) set(id int64, k []byte, o *[]byte, p string) {
	*r = c10TBytes{ID: id, K: k, P: p}
	if o != nil {
		r.O = *o
	}
}

type c10TEnum struct {
	ID int64  `parquet:"a_id"`
	K  string `parquet:"k,enum"`
	O  string `parquet:"o,optional,enum"`
	P  string `parquet:"p"`
}

func (r *c10TEnum) set(id int64, k string, o *string, p string) {
	*r = c10TEnum{ID: id, K: k, P: p}
	if o != nil {
		r.O = *o
	}
}

type c10TUUID struct {
	ID int64    `parquet:"a_id"`
	K  [16]byte `parquet:"k,uuid"`
	O  [16]byte `parquet:"o,optional,uuid"`
	P  string   `parquet:"p"`
}

func (r *c10TUUID) set(id int64, k [16]byte, o *[16]byte, p string) {
	*r = c10TUUID{ID: id, K: k, P: p}
	if o != nil {
		r.O = *o
	}
}

type c10TDate struct {
	ID int64  `parquet:"a_id"`
	K  int32  `parquet:"k,date"`
	O  *int32 `parquet:"o,optional,date"`
	P  string `parquet:"p"`
}

func (r *c10TDate) set(id int64, k int32, o *int32, p string) { *r = c10TDate{id, k, o, p} }

type c10TTimeMs struct {
	ID int64  `parquet:"a_id"`
	K  int32  `parquet:"k,time(millisecond)"`
	O  int32  `parquet:"o,optional,time(millisecond)"`
	P  string `parquet:"p"`
}

func (r *c10TTimeMs) set(id int64, k int32, o *int32, p string) {
	*r = c10TTimeMs{ID: id, K: k, P: p}
	if o != nil {
		r.O = *o
	}
}

type c10TTimeUs struct {
	ID int64  `parquet:"a_id"`
	K  int64  `parquet:"k,time(microsecond)"`
	O  int64  `parquet:"o,optional,time(microsecond)"`
	P  string `parquet:"p"`
}

func (r *c10TTimeUs) set(id int64, k int64, o *int64, p string) {
	*r = c10TTimeUs{ID: id, K: k, P: p}
	if o != nil {
		r.O = *o
	}
}

type c10TTimeNs struct {
	ID int64  `parquet:"a_id"`
	K  int64  `parquet:"k,time(nanosecond)"`
	O  int64  `parquet:"o,optional,time(nanosecond)"`
	P  string `parquet:"p"`
}

func (r *c10TTimeNs) set(id int64, k int64, o *int64, p string) {
	*r = c10TTimeNs{ID: id, K: k, P: p}
	if o != nil {
		r.O = *o
	}
}

type c10TTsMs struct {
	ID int64  `parquet:"a_id"`
	K  int64  `parquet:"k,timestamp(millisecond)"`
	O  *int64 `parquet:"o,optional,timestamp(millisecond)"`
	P  string `parquet:"p"`
}

func (r *c10TTsMs) set(id int64, k int64, o *int64, p string) { *r = c10TTsMs{id, k, o, p} }

type c10TTsUs struct {
	ID int64  `parquet:"a_id"`
	K  int64  `parquet:"k,timestamp(microsecond)"`
	O  *int64 `parquet:"o,optional,timestamp(microsecond)"`
	P  string `parquet:"p"`
}

func (r *c10TTsUs) set(id int64, k int64, o *int64, p string) { *r = c10TTsUs{id, k, o, p} }

type c10TTsNs struct {
	ID int64  `parquet:"a_id"`
	K  int64  `parquet:"k,timestamp(nanosecond)"`
	O  *int64 `parquet:"o,optional,timestamp(nanosecond)"`
	P  string `parquet:"p"`
}

func (r *c10TTsNs) set(id int64, k int64, o *int64, p string) { *r = c10TTsNs{id, k, o, p} }

// time.Time fields (converted to the unit of the column by the typed write path)
type c10TTsUsTime struct {
	ID int64      `parquet:"a_id"`
	K  time.Time  `parquet:"k,timestamp(microsecond)"`
	O  *time.Time `parquet:"o,optional,timestamp(microsecond)"`
	P  string     `parquet:"p"`
}

func (r *c10TTsUsTime) set(id int64, k time.Time, o *time.Time, p string) {
	*r = c10TTsUsTime{id, k, o, p}
}

type c10TDec32 struct {
	ID int64  `parquet:"a_id"`
	K  int32  `parquet:"k,decimal(2:9)"`
	O  *int32 `parquet:"o,optional,decimal(2:9)"`
	P  string `parquet:"p"`
}

func (r *c10TDec32) set(id int64, k int32, o *int32, p string) { *r = c10TDec32{id, k, o, p} }

type c10TDec64 struct {
	ID int64  `parquet:"a_id"`
	K  int64  `parquet:"k,decimal(4:18)"`
	O  *int64 `parquet:"o,optional,decimal(4:18)"`
	P  string `parquet:"p"`
}

func (r *c10TDec64) set(id int64, k int64, o *int64, p string) { *r = c10TDec64{id, k, o, p} }

type c10TDecF9 struct {
	ID int64    `parquet:"a_id"`
	K  [9]byte  `parquet:"k,decimal(3:20)"`
	O  *[9]byte `parquet:"o,optional,decimal(3:20)"`
	P  string   `parquet:"p"`
}

func (r *c10TDecF9) set(id int64, k [9]byte, o *[9]byte, p string) { *r = c10TDecF9{id, k, o, p} }

type c10TDecF16 struct {
	ID int64     `parquet:"a_id"`
	K  [16]byte  `parquet:"k,decimal(3:38)"`
	O  *[16]byte `parquet:"o,optional,decimal(3:38)"`
	P  string    `parquet:"p"`
}

func (r *c10TDecF16) set(id int64, k [16]byte, o *[16]byte, p string) { *r = c10TDecF16{id, k, o, p} }

func c10InitFacs() {
	i32 := func(t c10TV) int32 { return int32(t.i) }
	i64 := func(t c10TV) int64 { return t.i }
	str := func(t c10TV) string { return string(t.b) }
	arr16 := func(t c10TV) (a [16]byte) { copy(a[:], t.b); return }
	c10AddFac[bool, c10TPlain[bool]]("boolean", "boolean", func(t c10TV) bool { return t.i != 0 })
	c10AddFac[int8, c10TPlain[int8]]("int(8)", "int(8)", func(t c10TV) int8 { return int8(t.i) })
	c10AddFac[int16, c10TPlain[int16]]("int(16)", "int(16)", func(t c10TV) int16 { return int16(t.i) })
	c10AddFac[int32, c10TPlain[int32]]("int(32)", "int(32)", i32)
	c10AddFac[int64, c10TPlain[int64]]("int(64)", "int(64)", i64)
	c10AddFac[uint8, c10TPlain[uint8]]("uint(8)", "uint(8)", func(t c10TV) uint8 { return uint8(t.u) })
	c10AddFac[uint16, c10TPlain[uint16]]("uint(16)", "uint(16)", func(t c10TV) uint16 { return uint16(t.u) })
	c10AddFac[uint32, c10TPlain[uint32]]("uint(32)", "uint(32)", func(t c10TV) uint32 { return uint32(t.u) })
	c10AddFac[uint64, c10TPlain[uint64]]("uint(64)", "uint(64)", func(t c10TV) uint64 { return t.u })
	c10AddFac[float32, c10TPlain[float32]]("float", "float", func(t c10TV) float32 { return float32(t.f) })
	c10AddFac[float64, c10TPlain[float64]]("double", "double", func(t c10TV) float64 { return t.f })
	c10AddFac[string, c10TPlain[string]]("string", "string", str)
	c10AddFac[[]byte, c10TBytes]("bytearray", "bytearray", func(t c10TV) []byte { return append([]byte(nil), t.b...) })
	c10AddFac[string, c10TEnum]("enum", "enum", str)
	c10AddFac[[5]byte, c10TPlain[[5]byte]]("flba(5)", "flba(5)", func(t c10TV) (a [5]byte) { copy(a[:], t.b); return })
	c10AddFac[[16]byte, c10TPlain[[16]byte]]("flba(16)", "flba(16)", arr16)
	c10AddFac[[16]byte, c10TUUID]("uuid", "uuid", arr16)
	c10AddFac[int32, c10TDate]("date", "date", i32)
	c10AddFac[int32, c10TTimeMs]("time(ms)", "time(ms)", i32)
	c10AddFac[int64, c10TTimeUs]("time(us)", "time(us)", i64)
	c10AddFac[int64, c10TTimeNs]("time(ns)", "time(ns)", i64)
	c10AddFac[int64, c10TTsMs]("timestamp(ms)", "timestamp(ms)", i64)
	c10AddFac[int64, c10TTsUs]("timestamp(us)", "timestamp(us)", i64)
	c10AddFac[int64, c10TTsNs]("timestamp(ns)", "timestamp(ns)", i64)
	c10AddFac[time.Time, c10TTsUsTime]("timestamp(us)/time.Time", "timestamp(us)", func(t c10TV) time.Time { return time.UnixMicro(t.i).UTC() })
	c10AddFac[int32, c10TDec32]("decimal(int32)", "decimal(int32)", i32)
	c10AddFac[int64, c10TDec64]("decimal(int64)", "decimal(int64)", i64)
	c10AddFac[[9]byte, c10TDecF9]("decimal(flba9)", "decimal(flba9)", func(t c10TV) (a [9]byte) { copy(a[:], t.b); return })
	c10AddFac[[16]byte, c10TDecF16]("decimal(flba16)", "decimal(flba16)", arr16)
	c10AddFac[deprecated.Int96, c10TPlain[deprecated.Int96]]("int96", "int96", c10Int96)
}

// c10TypedSelfTest: the schema the library derives of every struct is the Group schema of its columns
// (same leaves in the same order, same types and repetition).
func c10TypedSelfTest() string {
	for _, name := range c10FacNames {
		f := c10Facs[name]
		var got, want *parquet.Schema
		var msg string
		func() {
			defer func() {
				if r := recover(); r != nil {
					msg = fmt.Sprint(r)
				}
			}()
			got = f.schema()
			want = c10Schema(&c10Case{Cols: f.cols})
		}()
		if msg != "" {
			return fmt.Sprintf("struct %s: deriving the schema panicked: %s", name, msg)
		}
		gc, wc := got.Columns(), want.Columns()
		if len(gc) != len(wc) {
			return fmt.Sprintf("struct %s: %d columns, want %d", name, len(gc), len(wc))
		}
		for i := range gc {
			gl, _ := got.Lookup(gc[i]...)
			wl, _ := want.Lookup(wc[i]...)
			if fmt.Sprint(gc[i]) != fmt.Sprint(wc[i]) || gl.Node.Type().String() != wl.Node.Type().String() ||
				gl.Node.Optional() != wl.Node.Optional() || gl.Node.Required() != wl.Node.Required() || gl.MaxDefinitionLevel != wl.MaxDefinitionLevel {
				return fmt.Sprintf("struct %s: column %d is %v %s (max definition level %d), want %v %s (max definition level %d)",
					name, i, gc[i], gl.Node.Type(), gl.MaxDefinitionLevel, wc[i], wl.Node.Type(), wl.MaxDefinitionLevel)
			}
		}
	}
	return ""
}
