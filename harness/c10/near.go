// C10 — nearly sorted inputs to the SortingWriter.
//
// SortingWriter.Close merges its sort runs (one per SortRows rows written)
// with MergeRowGroups, whose planner (merge.go, merge_refine.go) does not merge
// everything row by row: a stretch of a run that no other run overlaps is
// streamed out ahead of the merged region when it is long enough (1024 rows),
// cut at a page boundary of the first sorting column.  Inputs drawn at random
// never get there: their runs overlap everywhere.  Inputs that are ALMOST in
// order do: a stream ordered by a coarse first key (many rows share a value:
// timestamps of low resolution, a tenant id) and unordered on the later keys,
// possibly with rows that come a few positions late.  Its runs only touch: a
// run ends in the middle of the rows of one first-key value and the next run
// starts with the rest of them, so that the two runs tie on the first sorting
// column while the later sorting columns interleave their rows; with small
// pages some page of the run ends exactly on that value.
//
// A case of this family is described by its parameters (c10Near) and expanded
// into the steps of a writer history when it is run, so that the replay stays
// small; the rows depend on the parameters only.
package main

import (
	"math/rand"

	"verif/harness/core"
)

// c10Near: a stream of Rows rows ordered by the first sorting column (column
// k of c10TypedCols) and random on the others.
type c10Near struct {
	Rows int `json:"rows"`
	// rows sharing a value of the first sorting column: half of the groups have
	// 1..3 rows, the others 1..Group
	Group int `json:"group"`
	// local disorder: every row is exchanged with a row up to Jitter positions ahead
	Jitter int `json:"jitter,omitempty"`
	// rows per Write / WriteRows call
	Batch int   `json:"batch"`
	Seed  int64 `json:"seed"`
}

// c10ExpandNear: the steps of the case (nil when the case is not of the family).
func c10ExpandNear(cs *c10Case) []c10Step {
	n := cs.Near
	if n == nil || n.Rows <= 0 || n.Batch <= 0 || len(cs.Cols) != 4 || len(cs.Sorting) == 0 {
		return nil
	}
	kd := c10KindOf(cs.Cols[1].Type)
	if kd == nil || kd.hi-kd.lo < 60000 {
		return nil
	}
	rng := rand.New(rand.NewSource(n.Seed))
	desc := cs.Sorting[0].Desc
	rows := make([][]c10Cell, 0, n.Rows)
	// ordinals from below zero to above it, within the domain of the kind
	v := int64(-n.Rows / 3)
	if v < kd.lo+2 {
		v = kd.lo + 2
	}
	for len(rows) < n.Rows {
		g := 1 + rng.Intn(3)
		if rng.Intn(2) == 0 && n.Group > 0 {
			g = 1 + rng.Intn(n.Group)
		}
		// the later keys of a group: a small domain (ties on every sorting column), nulls now and then
		dom := 1 + rng.Intn(60)
		for j := 0; j < g && len(rows) < n.Rows; j++ {
			a := v
			if desc {
				a = -v
			}
			o := c10Cell{D: 1, I: int64(rng.Intn(2*dom+1) - dom)}
			if rng.Intn(8) == 0 {
				o = c10Cell{}
			}
			rows = append(rows, []c10Cell{{I: int64(len(rows) + 1)}, {I: a}, o, {S: c10Strs[rng.Intn(len(c10Strs))]}})
		}
		if v < kd.hi-2 {
			v += 1 + int64(rng.Intn(2))
		}
	}
	if n.Jitter > 0 {
		for i := range rows {
			if j := i + rng.Intn(n.Jitter+1); j < len(rows) {
				rows[i], rows[j] = rows[j], rows[i]
			}
		}
	}
	var steps []c10Step
	for i, k := 0, 0; i < len(rows); i, k = i+n.Batch, k+1 {
		j := i + n.Batch
		if j > len(rows) {
			j = len(rows)
		}
		op := "write"
		if k%2 == 1 {
			op = "writerows"
		}
		steps = append(steps, c10Step{Op: op, Rows: rows[i:j]})
	}
	return steps
}

// c10Expanded: the case with its steps written out.
func c10Expanded(cs *c10Case) *c10Case {
	if cs.Near == nil || len(cs.Steps) > 0 {
		return cs
	}
	t := *cs
	t.Steps = c10ExpandNear(cs)
	return &t
}

// c10ShrinkNear: smaller parameters that still fail.
func c10ShrinkNear(c *core.Ctx, cs *c10Case) *c10Case {
	budget := 40
	fails := func(t *c10Case) bool {
		if budget <= 0 || c10Hangs >= 4 {
			return false
		}
		budget--
		return c.Probe(func() { c10Check(c, t) })
	}
	cur := *cs
	cur.Steps = nil
	near := *cs.Near
	cur.Near = &near
	try := func(f func(t *c10Case, n *c10Near) bool) bool {
		t := cur
		n := *cur.Near
		t.Near = &n
		t.Sorting = append([]c10Sort(nil), cur.Sorting...)
		if f(&t, &n) && fails(&t) {
			cur = t
			return true
		}
		return false
	}
	try(func(t *c10Case, n *c10Near) bool { r := n.Jitter > 0; n.Jitter = 0; return r })
	try(func(t *c10Case, n *c10Near) bool { r := t.Reuse; t.Reuse = false; return r })
	try(func(t *c10Case, n *c10Near) bool { r := t.Struct != ""; t.Struct = ""; return r })
	try(func(t *c10Case, n *c10Near) bool { r := t.Pool != ""; t.Pool = ""; return r })
	try(func(t *c10Case, n *c10Near) bool { r := t.MaxRowsRG != 0; t.MaxRowsRG = 0; return r })
	try(func(t *c10Case, n *c10Near) bool {
		r := len(t.Sorting) > 2
		if r {
			t.Sorting = t.Sorting[:2]
		}
		return r
	})
	try(func(t *c10Case, n *c10Near) bool { r := n.Batch != n.Rows; n.Batch = n.Rows; return r })
	for try(func(t *c10Case, n *c10Near) bool {
		// fewer sort runs
		r := n.Rows > 2*t.SortRows
		n.Rows -= t.SortRows
		return r
	}) {
	}
	for try(func(t *c10Case, n *c10Near) bool {
		r := n.Rows > t.SortRows+200
		n.Rows = t.SortRows + (n.Rows-t.SortRows)/2
		return r
	}) {
	}
	for try(func(t *c10Case, n *c10Near) bool {
		r := t.SortRows > 1200 && n.Rows > 1400
		t.SortRows -= 200
		n.Rows -= 200
		return r
	}) {
	}
	return &cur
}

var c10NearKinds = []string{"int(64)", "int32", "uint(64)", "timestamp(ms)", "string", "double", "int96", "decimal(flba9)"}

// c10GenNear draws a case of the family.
func c10GenNear(c *core.Ctx) *c10Case {
	kind := c10NearKinds[c.Rng.Intn(len(c10NearKinds))]
	cs := &c10Case{Kind: "writer", Cols: c10TypedCols(kind)}
	if _, ok := c10Facs[kind]; ok && c.Rng.Intn(2) == 0 {
		cs.Struct = kind
	}
	// the first sorting column is the required column of the kind; then the optional one, the string, or both
	cs.Sorting = []c10Sort{{Col: 1, Desc: c.Rng.Intn(3) == 0}}
	switch c.Rng.Intn(4) {
	case 0:
		cs.Sorting = append(cs.Sorting, c10Sort{Col: 3, Desc: c.Rng.Intn(2) == 0})
	case 1:
		cs.Sorting = append(cs.Sorting, c10Sort{Col: 2, Desc: c.Rng.Intn(2) == 0, NullsFirst: c.Rng.Intn(2) == 0}, c10Sort{Col: 3})
	default:
		cs.Sorting = append(cs.Sorting, c10Sort{Col: 2, Desc: c.Rng.Intn(2) == 0, NullsFirst: c.Rng.Intn(2) == 0})
	}
	// sort runs long enough for a stretch of 1024 rows beside a group of the first key
	cs.SortRows = 1100 + c.Rng.Intn(1900)
	cs.PageBuf = []int{256, 512, 1024, 2048}[c.Rng.Intn(4)]
	cs.Reuse = c.Rng.Intn(2) == 0
	if c.Rng.Intn(4) == 0 {
		cs.Pool = []string{"chunk", "mem"}[c.Rng.Intn(2)]
	}
	if c.Rng.Intn(4) == 0 {
		cs.MaxRowsRG = 500 + c.Rng.Intn(3000)
	}
	runs := 2 + c.Rng.Intn(3)
	n := &c10Near{
		Rows:  cs.SortRows*(runs-1) + 1 + c.Rng.Intn(cs.SortRows),
		Group: []int{1, 40, 300, 900}[c.Rng.Intn(4)],
		Batch: []int{97, 1000, 4096}[c.Rng.Intn(3)],
		Seed:  c.Rng.Int63(),
	}
	if c.Rng.Intn(3) == 0 {
		n.Jitter = 1 + c.Rng.Intn(30)
	}
	cs.Near = n
	return cs
}
