package main

import (
	"bytes"
	"fmt"

	"github.com/parquet-go/parquet-go"
)

func main() {
	g := parquet.Group{"k0": parquet.Int(64), "k1": parquet.Int(64), "p_in": parquet.Int(64), "p_seq": parquet.Int(64), "p_tag": parquet.String()}
	schema := parquet.NewSchema("c09", g)
	fmt.Println(schema.Columns())
	sorting := []parquet.SortingColumn{parquet.Ascending("k0"), parquet.Ascending("k1")}
	for _, pb := range []int{256, 384, 512, 1024, 4096} {
		var out bytes.Buffer
		w := parquet.NewWriter(&out, schema, parquet.SortingWriterConfig(parquet.SortingColumns(sorting...)), parquet.PageBufferSize(pb))
		n := 2000
		rows := make([]parquet.Row, n)
		for i := range rows {
			rows[i] = parquet.Row{parquet.Int64Value(int64(i / 3)).Level(0, 0, 0), parquet.Int64Value(int64(i % 7)).Level(0, 0, 1), parquet.Int64Value(0).Level(0, 0, 2), parquet.Int64Value(int64(i)).Level(0, 0, 3), parquet.ByteArrayValue([]byte(fmt.Sprint("0:", i))).Level(0, 0, 4)}
		}
		for i := 0; i < n; i += 50 {
			w.WriteRows(rows[i : i+50])
		}
		w.Close()
		f, err := parquet.OpenFile(bytes.NewReader(out.Bytes()), int64(out.Len()))
		if err != nil {
			panic(err)
		}
		rg := f.RowGroups()[0]
		fmt.Println("pagebuf", pb, "EqualNodes", parquet.EqualNodes(rg.Schema(), schema), "sorting", rg.SortingColumns())
		for j := 0; j < 5; j++ {
			oi, _ := rg.ColumnChunks()[j].OffsetIndex()
			ci, _ := rg.ColumnChunks()[j].ColumnIndex()
			var fr []int64
			for p := 0; p < oi.NumPages() && p < 8; p++ {
				fr = append(fr, oi.FirstRowIndex(p))
			}
			fmt.Println("  col", j, "pages", oi.NumPages(), ci.NumPages(), fr)
		}
		conv, _ := parquet.Convert(schema, rg.Schema())
		cr := parquet.ConvertRowGroup(rg, conv)
		fmt.Printf("  converted: %T same=%v\n", cr, cr == rg)
	}
	b := parquet.NewBuffer(schema, parquet.SortingRowGroupConfig(parquet.SortingColumns(sorting...)))
	ci, err := b.ColumnChunks()[0].ColumnIndex()
	oi, err2 := b.ColumnChunks()[0].OffsetIndex()
	fmt.Printf("buffer: %T %v %T %v pages %d %d\n", ci, err, oi, err2, ci.NumPages(), oi.NumPages())
}
