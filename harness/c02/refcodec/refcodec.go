// Package refcodec decompresses the compressed sections of Parquet pages with the
// reference implementations of the codecs (libzstd, zlib, libbrotlidec, liblz4: the C
// libraries parquet-cpp / arrow and, through JNI, parquet-java build on), not with the Go
// packages the library under test uses.  It is the external decompressor [ext] of the
// specification decoder coq/theories/File/SpecDecoder.v for the codecs the Gallina decoder
// does not implement.
//
// Decode answers ok only when the section is a complete, well-formed stream of the codec
// with nothing after it:
//
//	GZIP     one or more gzip members (RFC 1952), each ending with its CRC32/ISIZE trailer
//	BROTLI   one brotli stream (RFC 7932) up to and including its last meta-block
//	ZSTD     one or more zstd frames (RFC 8878 3.1: "one or more frames")
//	LZ4_RAW  one LZ4 block (a sequence of LZ4 sequences ending with a literals-only one)
//
// In particular a section of zero bytes is a stream of none of these codecs, whatever
// uncompressed size the page header declares: the empty string has an encoding of 20 bytes in
// gzip, 1 in brotli, 9 in zstd, 1 in LZ4, and a foreign reader hands the section to the codec
// library as it is.
package refcodec

/*
#cgo LDFLAGS: -lzstd -lbrotlidec -lbrotlicommon -llz4 -lz
#include <zstd.h>
#include <zstd_errors.h>
#include <lz4.h>
#include <zlib.h>
#include <brotli/decode.h>
#include <string.h>
#include <stdlib.h>

// every function: >= 0 number of bytes written to dst, -1 malformed / incomplete stream,
// -2 the content does not fit in cap bytes

static long long ref_zstd(const unsigned char* src, size_t n, unsigned char* dst, size_t cap) {
  size_t out = 0;
  int frames = 0;
  while (n > 0) {
    size_t fs = ZSTD_findFrameCompressedSize(src, n);
    if (ZSTD_isError(fs)) return -1;
    size_t r = ZSTD_decompress(dst + out, cap - out, src, fs);
    if (ZSTD_isError(r)) return ZSTD_getErrorCode(r) == ZSTD_error_dstSize_tooSmall ? -2 : -1;
    out += r; src += fs; n -= fs; frames++;
  }
  if (frames == 0) return -1;
  return (long long)out;
}

static long long ref_lz4(const char* src, int n, char* dst, int cap) {
  if (n <= 0) return -1;
  int r = LZ4_decompress_safe(src, dst, n, cap);
  if (r < 0) return -1;
  return r;
}

static long long ref_brotli(const unsigned char* src, size_t n, unsigned char* dst, size_t cap) {
  BrotliDecoderState* s = BrotliDecoderCreateInstance(NULL, NULL, NULL);
  if (!s) return -1;
  size_t avail_in = n, avail_out = cap;
  const unsigned char* in = src;
  unsigned char* out = dst;
  BrotliDecoderResult r = BrotliDecoderDecompressStream(s, &avail_in, &in, &avail_out, &out, NULL);
  long long res;
  if (r == BROTLI_DECODER_RESULT_SUCCESS && avail_in == 0) res = (long long)(cap - avail_out);
  else if (r == BROTLI_DECODER_RESULT_NEEDS_MORE_OUTPUT) res = -2;
  else res = -1;   // error, truncated stream (needs more input), or bytes after the last meta-block
  BrotliDecoderDestroyInstance(s);
  return res;
}

static long long ref_gzip(unsigned char* src, size_t n, unsigned char* dst, size_t cap) {
  z_stream s; memset(&s, 0, sizeof s);
  if (n == 0) return -1;
  if (inflateInit2(&s, 16 + 15) != Z_OK) return -1;   // gzip wrapper only
  s.next_in = src; s.avail_in = (uInt)n; s.next_out = dst; s.avail_out = (uInt)cap;
  for (;;) {
    int r = inflate(&s, Z_FINISH);
    if (r == Z_STREAM_END) {
      if (s.avail_in == 0) break;
      if (inflateReset(&s) != Z_OK) { inflateEnd(&s); return -1; }
      continue;
    }
    int full = (s.avail_out == 0);
    inflateEnd(&s);
    return (r == Z_BUF_ERROR || r == Z_OK) && full ? -2 : -1;
  }
  long long out = (long long)(cap - s.avail_out);
  inflateEnd(&s);
  return out;
}
*/
import "C"

import "unsafe"

// Codec numbers of parquet.thrift (CompressionCodec).
const (
	Gzip   = 2
	Brotli = 4
	Zstd   = 6
	Lz4Raw = 7
)

// Known says whether the package decodes the codec.
func Known(codec int) bool { return codec == Gzip || codec == Brotli || codec == Zstd || codec == Lz4Raw }

// maxContent bounds the memory of one call (the files of the harness are small).
const maxContent = 64 << 20

// Decode returns the content of the section, ok = false when the bytes are not a complete
// well-formed stream of the codec (or the content exceeds 64 MB).  hint is the size the page
// header declares; a content of a different size is returned as it is (the specification
// decoder compares the sizes).
func Decode(codec int, section []byte, hint int) (content []byte, ok bool) {
	if !Known(codec) {
		return nil, false
	}
	// C never sees a nil pointer: one spare byte on both sides
	src := make([]byte, len(section)+1)
	copy(src, section)
	capacity := hint + 64
	if capacity < 1024 {
		capacity = 1024
	}
	for {
		dst := make([]byte, capacity+1)
		sp, dp := (*C.uchar)(unsafe.Pointer(&src[0])), (*C.uchar)(unsafe.Pointer(&dst[0]))
		var r C.longlong
		switch codec {
		case Zstd:
			r = C.ref_zstd(sp, C.size_t(len(section)), dp, C.size_t(capacity))
		case Lz4Raw:
			r = C.ref_lz4((*C.char)(unsafe.Pointer(sp)), C.int(len(section)), (*C.char)(unsafe.Pointer(dp)), C.int(capacity))
			if r == -1 {
				r = -2 // LZ4_decompress_safe does not tell a short destination from a malformed block: retried up to the bound
			}
		case Brotli:
			r = C.ref_brotli(sp, C.size_t(len(section)), dp, C.size_t(capacity))
		case Gzip:
			r = C.ref_gzip(sp, C.size_t(len(section)), dp, C.size_t(capacity))
		}
		if r >= 0 {
			return dst[:int(r)], true
		}
		if r == -2 && capacity*8 <= maxContent {
			capacity *= 8
			continue
		}
		return nil, false
	}
}
