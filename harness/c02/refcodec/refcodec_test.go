package refcodec

import (
	"bytes"
	"testing"

	"github.com/parquet-go/parquet-go"
	"github.com/parquet-go/parquet-go/compress"
)

func TestRef(t *testing.T) {
	codecs := map[int]compress.Codec{Gzip: &parquet.Gzip, Brotli: &parquet.Brotli, Zstd: &parquet.Zstd, Lz4Raw: &parquet.Lz4Raw}
	for id, c := range codecs {
		for _, in := range [][]byte{{}, []byte("hello hello hello hello"), bytes.Repeat([]byte{0}, 1<<20)} {
			out, err := c.Encode(nil, in)
			if err != nil {
				t.Fatal(err)
			}
			got, ok := Decode(id, out, 3)
			if !ok || !bytes.Equal(got, in) {
				t.Errorf("codec %d: %d bytes: ok=%v got %d bytes", id, len(in), ok, len(got))
			}
			if len(out) > 1 {
				if _, ok := Decode(id, out[:len(out)-1], len(in)); ok {
					t.Errorf("codec %d: truncated stream accepted", id)
				}
			}
			if _, ok := Decode(id, append(append([]byte{}, out...), 0x55, 0x66, 0x77), len(in)); ok && id != Lz4Raw {
				t.Errorf("codec %d: trailing bytes accepted", id)
			}
		}
		if _, ok := Decode(id, nil, 0); ok {
			t.Errorf("codec %d: empty section accepted", id)
		}
	}
}
