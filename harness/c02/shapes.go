package main

// Dimensions of the files of C02 that the shared generator (verif/harness/gen) does not reach:
//
//   deep: a spine of nested optional / repeated / required groups down to a leaf, with side
//         leaves hanging off the spine, so that the maximum definition and repetition levels
//         of the columns sweep the level bit widths 1..8 (maximum levels 1..255) and the
//         levels vary inside every group of 8 (bit-packed runs rather than RLE runs);
//   long: rows holding hundreds to thousands of values in the columns below one repeated
//         field (longer than the value batches and page buffers of the writer, the reader
//         and the WriteRowGroup re-encode path), next to ordinary short rows.
//   bigdict: one dictionary-encoded column whose dictionary holds 2^(w-1)+1 .. 2^w distinct
//         values, w sweeping 9..18, each at least once and in a random order, so that the
//         RLE_DICTIONARY data pages hold bit-packed runs of indexes at every bit width up to 18
//         (the level widths stop at 8; the shared generator's dictionaries hold a few hundred
//         values at most).
//
// All produce a gen.Built (schema, value trees, rows shredded by gen.Shred, options, write
// history) so that the rest of the check is the same as for the shared generator.

import (
	"encoding/binary"
	"fmt"
	"math/rand"

	"github.com/parquet-go/parquet-go"
	"github.com/parquet-go/parquet-go/deprecated"

	"verif/harness/gen"
)

type shape struct {
	Kind string `json:"kind"` // "deep" | "long" | "bigdict" | "geo" (geo.go)
	// deep: number of optional+repeated nodes on the spine (= maximum definition level of the
	// deepest leaf), how many of them are repeated (= its maximum repetition level), and the
	// number of required nodes interspersed
	Def int `json:"def,omitempty"`
	Rep int `json:"rep,omitempty"`
	Pad int `json:"pad,omitempty"`
	// long: longest list of the long field
	MaxLen int `json:"max_len,omitempty"`
	// bigdict: number of distinct values of the dictionary column (the first Dict rows hold each
	// of them once, in a random order; later rows repeat some of them)
	Dict int `json:"dict,omitempty"`
}

var shapeKinds = []string{"bool", "int32", "int64", "int96", "float", "double", "bytes", "string", "flba", "uuid", "uint32", "uint64", "date", "ts"}

var shapeEncodings = map[string][]string{
	"bool": {"plain", "rle"}, "int32": {"plain", "delta", "dict", "split"}, "int64": {"plain", "delta", "dict", "split"},
	"uint32": {"plain", "delta", "dict"}, "uint64": {"plain", "delta", "dict"}, "date": {"plain", "delta", "dict"},
	"ts": {"plain", "delta", "dict"}, "int96": {"plain", "dict"}, "float": {"plain", "dict", "split"},
	"double": {"plain", "dict", "split"}, "bytes": {"plain", "dlba", "dba", "dict"}, "string": {"plain", "dlba", "dba", "dict"},
	"flba": {"plain", "dba", "dict", "split"}, "uuid": {"plain", "dict"},
}

func shapeLeaf(rng *rand.Rand, name string, rep int) *gen.Node {
	nd := &gen.Node{Name: name, Rep: rep, Leaf: shapeKinds[rng.Intn(len(shapeKinds))]}
	if nd.Leaf == "flba" {
		nd.Size = []int{1, 3, 8, 12, 16, 20}[rng.Intn(6)]
	}
	if rng.Intn(2) == 0 {
		encs := shapeEncodings[nd.Leaf]
		nd.Encoding = encs[rng.Intn(len(encs))]
	}
	return nd
}

// leafValue draws a value of the leaf with the shared generator's distribution (boundary values
// included); long byte strings are cut so that lists of thousands of values stay small.
func leafValue(rng *rand.Rand, leaf *gen.Node, maxBytes int) *gen.Val {
	l := *leaf
	l.Rep = gen.Req
	v := gen.Row(rng, &gen.Node{Name: "root", Fields: []*gen.Node{&l}}, 0).Group[0]
	if maxBytes > 0 && (leaf.Leaf == "bytes" || leaf.Leaf == "string") {
		if b := v.Leaf.ByteArray(); len(b) > maxBytes {
			x := parquet.ByteArrayValue(append([]byte(nil), b[:maxBytes]...))
			v = &gen.Val{Leaf: &x}
		}
	}
	return v
}

// ---- deep ----

func deepSchema(rng *rand.Rand, sh *shape) *gen.Node {
	reps := make([]int, 0, sh.Def+sh.Pad)
	for i := 0; i < sh.Def; i++ {
		if i < sh.Rep {
			reps = append(reps, gen.Rpt)
		} else {
			reps = append(reps, gen.Opt)
		}
	}
	for i := 0; i < sh.Pad; i++ {
		reps = append(reps, gen.Req)
	}
	rng.Shuffle(len(reps), func(i, j int) { reps[i], reps[j] = reps[j], reps[i] })
	if len(reps) == 0 {
		reps = []int{gen.Req}
	}
	// side leaves: about four per spine, at every depth with equal probability
	sideEvery := len(reps)/4 + 1
	root := &gen.Node{Name: "root"}
	at := root
	for i, rep := range reps {
		if i == len(reps)-1 {
			at.Fields = append(at.Fields, shapeLeaf(rng, "v", rep))
			break
		}
		g := &gen.Node{Name: "g", Rep: rep}
		if i > 0 && rng.Intn(sideEvery) == 0 {
			// "a" sorts before "g": the library orders the fields of a Group by name
			at.Fields = append(at.Fields, shapeLeaf(rng, "a", []int{gen.Req, gen.Opt, gen.Rpt}[rng.Intn(3)]))
		}
		at.Fields = append(at.Fields, g)
		at = g
	}
	if rng.Intn(2) == 0 {
		// a flat required column next to the spine ("z" sorts last)
		root.Fields = append(root.Fields, shapeLeaf(rng, "z", gen.Req))
	}
	return root
}

type deepValues struct {
	rng    *rand.Rand
	stop   float64 // probability that an optional node is null / a repeated node is empty
	more   float64 // probability that a repeated node holds more than one element
	budget int     // leaves left for the row: lists hold at most one element once it is used up
}

func (d *deepValues) value(n *gen.Node) *gen.Val {
	if n.Leaf != "" {
		d.budget--
		return leafValue(d.rng, n, 24)
	}
	g := &gen.Val{}
	for _, f := range n.Fields {
		g.Group = append(g.Group, d.field(f))
	}
	return g
}

func (d *deepValues) field(f *gen.Node) *gen.Val {
	switch f.Rep {
	case gen.Opt:
		if d.rng.Float64() < d.stop {
			return &gen.Val{IsOpt: true, Null: true}
		}
		return &gen.Val{IsOpt: true, Some: d.value(f)}
	case gen.Rpt:
		v := &gen.Val{IsRpt: true}
		n := 1
		if r := d.rng.Float64(); r < d.stop {
			n = 0
		} else if r < d.stop+d.more && d.budget > 0 {
			n = 2 + d.rng.Intn(2)
		}
		for i := 0; i < n; i++ {
			v.List = append(v.List, d.value(f))
		}
		return v
	}
	return d.value(f)
}

// ---- long ----

// longSchema: the fields of a shared-generator schema plus one repeated field "f98" (a repeated
// leaf, a repeated group of leaves, or a LIST) whose lists are long in some rows.
func longSchema(rng *rand.Rand, cfg gen.Config) *gen.Node {
	root := gen.Schema(rng, gen.Config{Codecs: cfg.Codecs, MaxDepth: cfg.MaxDepth, MaxFields: 2})
	if rng.Intn(3) == 0 {
		root.Fields = nil
	}
	var long *gen.Node
	switch rng.Intn(4) {
	case 0:
		long = &gen.Node{Name: "f98", Rep: gen.Rpt}
		for i, n := 0, 1+rng.Intn(2); i < n; i++ {
			long.Fields = append(long.Fields, shapeLeaf(rng, fmt.Sprintf("g%02d", i), []int{gen.Req, gen.Opt, gen.Rpt}[rng.Intn(3)]))
		}
	case 1:
		el := shapeLeaf(rng, "element", []int{gen.Req, gen.Opt}[rng.Intn(2)])
		long = &gen.Node{Name: "f98", Rep: []int{gen.Req, gen.Opt}[rng.Intn(2)], Logical: "list",
			Fields: []*gen.Node{{Name: "list", Rep: gen.Rpt, Fields: []*gen.Node{el}}}}
	default:
		long = shapeLeaf(rng, "f98", gen.Rpt)
	}
	root.Fields = append(root.Fields, long)
	return root
}

// the repeated node below (or at) the long field
func longList(f *gen.Node) *gen.Node {
	if f.Logical == "list" {
		return f.Fields[0]
	}
	return f
}

// longLength: lengths spread over the orders of magnitude up to max, with the neighbourhood of the
// powers of two (batch and buffer sizes) drawn more often.
func longLength(rng *rand.Rand, max int) int {
	if max < 2 {
		return max
	}
	n := 0
	if rng.Intn(2) == 0 {
		p := 64
		for p*2 <= max && rng.Intn(3) != 0 {
			p *= 2
		}
		n = p + rng.Intn(5) - 2
	} else {
		lo := max / 8
		n = lo + rng.Intn(max-lo+1)
	}
	if n > max {
		n = max
	}
	if n < 1 {
		n = 1
	}
	return n
}

func longRow(rng *rand.Rand, root *gen.Node, nullBias int, sh *shape, forceLong bool) *gen.Val {
	row := gen.Row(rng, root, nullBias)
	if !forceLong && rng.Intn(3) != 0 {
		return row
	}
	fi := len(root.Fields) - 1
	f := root.Fields[fi]
	list := longList(f)
	n := longLength(rng, sh.MaxLen)
	lv := &gen.Val{IsRpt: true}
	d := &deepValues{rng: rng, stop: float64(nullBias) / 20, more: 0.02, budget: 0}
	for i := 0; i < n; i++ {
		lv.List = append(lv.List, d.value(list))
	}
	if f.Logical == "list" {
		g := &gen.Val{Group: []*gen.Val{lv}}
		if f.Rep == gen.Opt {
			g = &gen.Val{IsOpt: true, Some: g}
		}
		row.Group[fi] = g
	} else {
		row.Group[fi] = lv
	}
	return row
}

// ---- bigdict ----

var bigdictKinds = []string{"int32", "int64", "int96", "float", "double", "bytes", "string", "flba", "uuid", "uint32", "uint64", "date", "ts"}

// Dictionaries of more than 4096 values hold fixed-width values: the PLAIN byte array decoder of the
// model (Enc/Plain.v dec_plain_byte_array) measures the remaining bytes at every value, quadratic
// in the length of the dictionary page (8 s for 8000 strings, minutes for 2^16).  Dictionaries of
// more than 8192 values hold values of 3 or 4 bytes (the extracted decoder spends about 5 s per
// megabyte of file; the index width does not depend on the type of the values).
var bigdictNarrowKinds = []string{"int32", "uint32", "date", "float", "flba"}

func bigdictSchema(rng *rand.Rand, sh *shape) *gen.Node {
	d := &gen.Node{Name: "d", Rep: []int{gen.Req, gen.Req, gen.Opt}[rng.Intn(3)], Leaf: bigdictKinds[rng.Intn(len(bigdictKinds))], Encoding: "dict"}
	for sh.Dict > 4096 && (d.Leaf == "bytes" || d.Leaf == "string") {
		d.Leaf = bigdictKinds[rng.Intn(len(bigdictKinds))]
	}
	if sh.Dict > 8192 {
		d.Leaf = bigdictNarrowKinds[rng.Intn(len(bigdictNarrowKinds))]
	}
	if d.Leaf == "flba" {
		d.Size = []int{3, 4, 8, 12}[rng.Intn(4)]
		if sh.Dict > 8192 {
			d.Size = 3 + rng.Intn(2)
		}
	}
	return &gen.Node{Name: "root", Fields: []*gen.Node{d}}
}

// bigdictValue: the i-th of up to 2^24 pairwise distinct values of the leaf (mul is odd).
func bigdictValue(leaf *gen.Node, i int, mul uint64) parquet.Value {
	x := uint64(i) * mul
	switch leaf.Leaf {
	case "int32", "uint32", "date":
		return parquet.Int32Value(int32(uint32(x)))
	case "int64", "uint64", "ts":
		return parquet.Int64Value(int64(x * 0x9E3779B97F4A7C15))
	case "int96":
		return parquet.Int96Value(deprecated.Int96{uint32(x), uint32(i >> 3), uint32(i % 3)})
	case "float":
		return parquet.FloatValue(float32(i-(1<<16)) / 4)
	case "double":
		return parquet.DoubleValue(float64(i-(1<<16)) / 8)
	case "string":
		// four letters: i in base 26 (i < 26^4)
		return parquet.ByteArrayValue([]byte{byte('a' + i%26), byte('a' + i/26%26), byte('a' + i/676%26), byte('a' + i/17576%26)})
	case "bytes":
		// the first 3 bytes identify i (i < 2^24); 3..6 bytes
		var b [8]byte
		binary.LittleEndian.PutUint64(b[:], x<<24|uint64(i)&0xFFFFFF)
		return parquet.ByteArrayValue(append([]byte(nil), b[:3+i%4]...))
	case "flba", "uuid":
		size := leaf.Size
		if leaf.Leaf == "uuid" {
			size = 16
		}
		b := make([]byte, size+8)
		binary.LittleEndian.PutUint64(b[size:], x)
		binary.LittleEndian.PutUint32(b, uint32(i)) // the low 3 bytes identify i (i < 2^24)
		for k := 4; k < size; k++ {
			b[k] = b[size+k%8]
		}
		if size == 3 {
			b[3] = 0
		}
		return parquet.FixedLenByteArrayValue(b[:size])
	}
	panic("bigdict leaf " + leaf.Leaf)
}

// ---- building a case ----

func build(cs c02Case) *gen.Built {
	if cs.Shape == nil {
		return cs.Gen.Build()
	}
	sh := cs.Shape
	g := cs.Gen
	rng := rand.New(rand.NewSource(g.Seed))
	cfg := gen.Config{Codecs: g.Codecs, MaxDepth: g.MaxDepth, MaxFields: g.MaxFields}
	b := &gen.Built{}
	switch sh.Kind {
	case "deep":
		b.Root = deepSchema(rng, sh)
	case "long":
		b.Root = longSchema(rng, cfg)
	case "bigdict":
		b.Root = bigdictSchema(rng, sh)
	case "geo":
		b.Root = geoSchema(rng, cfg)
	default:
		panic("shape " + sh.Kind)
	}
	var regions []geoRegion
	if sh.Kind == "geo" {
		b.Schema = geoParquetSchema(b.Root)
		for range b.Root.Fields {
			regions = append(regions, newGeoRegion(rng))
		}
	} else {
		b.Schema = b.Root.ParquetSchema()
	}
	b.Opts = gen.GenOptions(rng, cfg)
	// rows come from their own stream: a prefix of the rows is reproduced when NRows shrinks
	rrng := rand.New(rand.NewSource(g.Seed ^ 0x5DEECE66D))
	var perm []int
	var mul uint64
	if sh.Kind == "bigdict" {
		b.Opts = bigdictOptions(b.Opts, rng)
		perm = rrng.Perm(sh.Dict)
		mul = rrng.Uint64() | 1
	}
	for i := 0; i < g.NRows; i++ {
		var v *gen.Val
		switch sh.Kind {
		case "bigdict":
			leaf := b.Root.Fields[0]
			k := 0
			if i < len(perm) {
				k = perm[i]
			} else if sh.Dict > 0 {
				k = rrng.Intn(sh.Dict)
			}
			x := bigdictValue(leaf, k, mul)
			v = &gen.Val{Leaf: &x}
			if leaf.Rep == gen.Opt {
				if i >= len(perm) && rrng.Intn(10) < g.NullBias {
					v = &gen.Val{IsOpt: true, Null: true}
				} else {
					v = &gen.Val{IsOpt: true, Some: v}
				}
			}
			v = &gen.Val{Group: []*gen.Val{v}}
		case "deep":
			levels := float64(sh.Def)
			c := float64(1 + g.NullBias%4)
			d := &deepValues{rng: rrng, stop: c / (levels + 2*c), more: 1.5 / (float64(sh.Rep) + 1.5), budget: 64}
			v = d.value(b.Root)
		case "long":
			v = longRow(rrng, b.Root, g.NullBias, sh, i == 0)
		case "geo":
			v = geoRow(rrng, b.Root, regions, g.NullBias, i)
		}
		b.Vals = append(b.Vals, v)
		b.Rows = append(b.Rows, gen.Shred(b.Root, v))
	}
	b.History = gen.GenHistory(rng, g.NRows)
	if sh.Kind == "bigdict" {
		// one row group (a dictionary is a row group's): batches of up to 5000 rows, no Flush
		b.History = nil
		for left := g.NRows; left > 0; {
			k := 1 + rng.Intn(5000)
			if k > left {
				k = left
			}
			b.History = append(b.History, k)
			left -= k
		}
	}
	return b
}

// bigdictOptions: one row group, no dictionary size limit, pages of at least 16 kB (a chunk of 2^18
// values in pages of 64 bytes is thousands of pages: the Gallina thrift reader is quadratic in the
// offset index), no bloom filter (ten bits per value)
func bigdictOptions(o gen.Options, rng *rand.Rand) gen.Options {
	o.MaxRows = 0
	o.DictMaxBytes = 0
	o.Bloom = false
	if o.PageBuffer < 16384 {
		o.PageBuffer = []int{16384, 65536, 1 << 18}[rng.Intn(3)]
	}
	return o
}

// copyOptions: the options of the second writer of a WriteRowGroup case.
func copyOptions(b *gen.Built, cs c02Case) gen.Options {
	opts := b.Opts
	switch cs.Copy {
	case 2:
		opts.PageVersion = 3 - opts.PageVersion
		opts.PageBuffer = 300
		if opts.Codec == "snappy" {
			opts.Codec = "none"
		} else {
			opts.Codec = "snappy"
		}
	case 5:
		// second stage of copy 5: the options of the generated case
	case 3, 4:
		// options drawn independently of the source's: same or other page version, codec,
		// page buffer, dictionary limit, default encoding, statistics, bloom filters
		rng := rand.New(rand.NewSource(cs.Gen.Seed*7 + 3))
		opts = gen.GenOptions(rng, gen.Config{Codecs: cs.Gen.Codecs})
	}
	if cs.Shape != nil && cs.Shape.Kind == "bigdict" {
		opts = bigdictOptions(opts, rand.New(rand.NewSource(cs.Gen.Seed*11+5)))
	}
	opts.MaxRows = 0
	return opts
}
