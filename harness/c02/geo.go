package main

// C02, GEOMETRY / GEOGRAPHY columns: the geospatial statistics of the footer
// (ColumnMetaData.geospatial_statistics) describe the values present in the chunk.
//
//   shape "geo": one to three BYTE_ARRAY columns annotated GEOMETRY or GEOGRAPHY (required /
//   optional / repeated, every byte array encoding) next to an ordinary column, holding WKB
//   points, line strings, polygons and multi-points in the XY, XYZ, XYM and XYZM layouts, in
//   either byte order, some of them empty; the coordinates of a column lie in a region drawn
//   per column (x above y, y above x, negative, around zero, across the antimeridian) and
//   drift with the row number upwards, downwards or not at all, independently per axis, so
//   that the running bounds are raised and lowered in every order.
//
//   predicate (on the values the specification decoder recovers from the pages, parsed by the
//   WKB reader below, which shares nothing with the library's): when the chunk declares a
//   bounding box, every coordinate that is not NaN lies inside it (x of a GEOGRAPHY box with
//   xmin > xmax: outside the gap, the box wraps around the antimeridian), z and m inside
//   [zmin,zmax] / [mmin,mmax] when these are given; when it declares geospatial types, the
//   type code of every value is among them.  Absent statistics claim nothing.  (The library's
//   thrift layer reads an absent box as four zeros: a box of four zeros is taken as absent.)
//   What the accumulator computes exactly is C17's (model Reset/Geo.v).

import (
	"encoding/binary"
	"encoding/hex"
	"fmt"
	"math"
	"math/rand"
	"strings"

	"github.com/parquet-go/parquet-go"
	"github.com/parquet-go/parquet-go/encoding/thrift"
	"github.com/parquet-go/parquet-go/format"

	"verif/harness/gen"
)

func isGeo(leaf string) bool { return leaf == "geometry" || leaf == "geography" }

// ---- schema ----

func geoSchema(rng *rand.Rand, cfg gen.Config) *gen.Node {
	root := &gen.Node{Name: "root"}
	if rng.Intn(2) == 0 {
		root.Fields = append(root.Fields, shapeLeaf(rng, "a", []int{gen.Req, gen.Opt}[rng.Intn(2)]))
	}
	for i, n := 0, 1+rng.Intn(3); i < n; i++ {
		nd := &gen.Node{Name: fmt.Sprintf("g%d", i), Rep: []int{gen.Req, gen.Opt, gen.Opt, gen.Rpt}[rng.Intn(4)], Leaf: []string{"geometry", "geography"}[rng.Intn(2)]}
		if rng.Intn(2) == 0 {
			nd.Encoding = shapeEncodings["bytes"][rng.Intn(len(shapeEncodings["bytes"]))]
		}
		if rng.Intn(5) == 0 && len(cfg.Codecs) > 0 {
			nd.Codec = cfg.Codecs[rng.Intn(len(cfg.Codecs))]
		}
		root.Fields = append(root.Fields, nd)
	}
	return root
}

// geoParquetSchema: the library's schema of a flat root whose leaves may be GEOMETRY / GEOGRAPHY columns.
func geoParquetSchema(root *gen.Node) *parquet.Schema {
	g := parquet.Group{}
	for _, f := range root.Fields {
		var p parquet.Node
		switch f.Leaf {
		case "geometry":
			p = parquet.Geometry("OGC:CRS84")
		case "geography":
			p = parquet.Geography("OGC:CRS84", format.Spherical)
		default:
			p = f.ParquetNode()
		}
		if isGeo(f.Leaf) {
			switch f.Encoding {
			case "plain":
				p = parquet.Encoded(p, &parquet.Plain)
			case "dlba":
				p = parquet.Encoded(p, &parquet.DeltaLengthByteArray)
			case "dba":
				p = parquet.Encoded(p, &parquet.DeltaByteArray)
			case "dict":
				p = parquet.Encoded(p, &parquet.RLEDictionary)
			}
			if f.Codec != "" {
				p = parquet.Compressed(p, gen.Codecs[f.Codec])
			}
		}
		switch f.Rep {
		case gen.Opt:
			p = parquet.Optional(p)
		case gen.Rpt:
			p = parquet.Repeated(p)
		default:
			p = parquet.Required(p)
		}
		g[f.Name] = p
	}
	return parquet.NewSchema("root", g)
}

// ---- values ----

// geoRegion: where the coordinates of a column lie and how they drift with the row number.
type geoRegion struct {
	lo, hi [4]float64 // x, y, z, m
	drift  [4]int     // 0 none, 1 upwards, 2 downwards
}

var geoBoxes = [][4]float64{ // xlo, xhi, ylo, yhi
	{100, 140, -10, 40}, {-10, 40, 100, 140}, {-125, -60, -40, 50}, {-40, 50, -125, -60}, {-1, 1, -1, 1}, {0, 1, 0, 1},
	{170, 180, -20, 20}, {-180, 180, -90, 90}, {-90, -80, -90, -80}, {1e6, 2e6, 5e6, 6e6},
}

func newGeoRegion(rng *rand.Rand) geoRegion {
	b := geoBoxes[rng.Intn(len(geoBoxes))]
	r := geoRegion{lo: [4]float64{b[0], b[2], -100, 0}, hi: [4]float64{b[1], b[3], 9000, 1000}}
	for k := range r.drift {
		r.drift[k] = rng.Intn(3)
	}
	return r
}

func (r geoRegion) coord(rng *rand.Rand, axis, row int) float64 {
	t := rng.Float64()
	switch r.drift[axis] {
	case 1:
		t = 0.85*float64(row%61)/61 + 0.15*t
	case 2:
		t = 0.85*(1-float64(row%61)/61) + 0.15*t
	}
	// multiples of 1/8: exactly representable, so that text and binary agree
	return math.Round((r.lo[axis]+(r.hi[axis]-r.lo[axis])*t)*8) / 8
}

// geoWKB: one WKB value (ISO type codes: Z +1000, M +2000, ZM +3000).
func geoWKB(rng *rand.Rand, r geoRegion, row int) []byte {
	layout := []int{0, 0, 0, 1, 2, 3}[rng.Intn(6)] // XY, XYZ, XYM, XYZM
	axes := [][]int{{0, 1}, {0, 1, 2}, {0, 1, 3}, {0, 1, 2, 3}}[layout]
	var order binary.AppendByteOrder = binary.LittleEndian
	orderByte := byte(1)
	if rng.Intn(8) == 0 {
		order, orderByte = binary.BigEndian, 0
	}
	var out []byte
	u32 := func(x uint32) { out = order.AppendUint32(out, x) }
	point := func(nan bool) {
		for _, a := range axes {
			v := r.coord(rng, a, row)
			if nan {
				v = math.NaN()
			}
			out = order.AppendUint64(out, math.Float64bits(v))
		}
	}
	header := func(base int) { out = append(out, orderByte); u32(uint32(base + 1000*layout)) }
	switch k := rng.Intn(20); {
	case k < 9:
		header(1)
		point(k == 0 && rng.Intn(3) == 0) // POINT EMPTY now and then
	case k < 14:
		header(2)
		n := rng.Intn(5)
		u32(uint32(n))
		for i := 0; i < n; i++ {
			point(false)
		}
	case k < 17:
		header(3)
		rings := rng.Intn(3)
		u32(uint32(rings))
		for i := 0; i < rings; i++ {
			n := 3 + rng.Intn(3)
			u32(uint32(n + 1))
			at := len(out)
			for j := 0; j < n; j++ {
				point(false)
			}
			out = append(out, out[at:at+8*len(axes)]...) // closed ring
		}
	default:
		header(4)
		n := rng.Intn(4)
		u32(uint32(n))
		for i := 0; i < n; i++ {
			header(1)
			point(false)
		}
	}
	return out
}

func geoRow(rng *rand.Rand, root *gen.Node, regions []geoRegion, nullBias, row int) *gen.Val {
	v := gen.Row(rng, &gen.Node{Name: "root", Fields: nonGeoFields(root)}, nullBias)
	out := &gen.Val{}
	k, gi := 0, 0
	for _, f := range root.Fields {
		if !isGeo(f.Leaf) {
			out.Group = append(out.Group, v.Group[k])
			k++
			continue
		}
		one := func() *gen.Val {
			x := parquet.ByteArrayValue(geoWKB(rng, regions[gi], row))
			return &gen.Val{Leaf: &x}
		}
		switch f.Rep {
		case gen.Opt:
			if rng.Intn(10) < nullBias {
				out.Group = append(out.Group, &gen.Val{IsOpt: true, Null: true})
			} else {
				out.Group = append(out.Group, &gen.Val{IsOpt: true, Some: one()})
			}
		case gen.Rpt:
			l := &gen.Val{IsRpt: true}
			for i, n := 0, rng.Intn(4); i < n; i++ {
				l.List = append(l.List, one())
			}
			out.Group = append(out.Group, l)
		default:
			out.Group = append(out.Group, one())
		}
		gi++
	}
	return out
}

func nonGeoFields(root *gen.Node) []*gen.Node {
	var out []*gen.Node
	for _, f := range root.Fields {
		if !isGeo(f.Leaf) {
			out = append(out, f)
		}
	}
	return out
}

// ---- an independent WKB reader ----

type wkbInfo struct {
	code   int
	coords [][4]float64 // x, y, z, m; NaN where the layout has no such axis
}

func parseWKB(b []byte, top bool, info *wkbInfo) ([]byte, bool) {
	if len(b) < 5 {
		return nil, false
	}
	var order binary.ByteOrder = binary.LittleEndian
	if b[0] == 0 {
		order = binary.BigEndian
	} else if b[0] != 1 {
		return nil, false
	}
	code := int(order.Uint32(b[1:5]))
	b = b[5:]
	base, layout := code%1000, code/1000
	if layout > 3 || base < 1 || base > 7 {
		return nil, false
	}
	if top {
		info.code = code
	}
	dims := []int{2, 3, 3, 4}[layout]
	count := func() (int, bool) {
		if len(b) < 4 {
			return 0, false
		}
		n := int(order.Uint32(b))
		b = b[4:]
		return n, n >= 0 && n <= 1<<20
	}
	points := func(n int) bool {
		if len(b) < 8*dims*n {
			return false
		}
		for i := 0; i < n; i++ {
			c := [4]float64{math.NaN(), math.NaN(), math.NaN(), math.NaN()}
			for d := 0; d < dims; d++ {
				v := math.Float64frombits(order.Uint64(b[8*d:]))
				switch {
				case d < 2:
					c[d] = v
				case layout == 2:
					c[3] = v
				default:
					c[d] = v
				}
			}
			b = b[8*dims:]
			info.coords = append(info.coords, c)
		}
		return true
	}
	switch base {
	case 1:
		return b, points(1)
	case 2:
		n, ok := count()
		if !ok || !points(n) {
			return nil, false
		}
	case 3:
		rings, ok := count()
		if !ok {
			return nil, false
		}
		for i := 0; i < rings; i++ {
			n, ok := count()
			if !ok || !points(n) {
				return nil, false
			}
		}
	default:
		n, ok := count()
		if !ok {
			return nil, false
		}
		for i := 0; i < n; i++ {
			rest, ok := parseWKB(b, false, info)
			if !ok {
				return nil, false
			}
			b = rest
		}
	}
	return b, true
}

// ---- the predicate ----

var geoDims struct{ chunks, boxes, values, typed int }

// geoChunkCheck: values = the V field of the specification decoder's answer for the chunk.
// Returns a description of what the statistics fail to describe, or "".
func geoChunkCheck(st format.GeospatialStatistics, geography bool, values string) string {
	geoDims.chunks++
	bb := st.BBox
	hasBox := bb != (format.BoundingBox{})
	types := map[int]bool{}
	for _, t := range st.GeoSpatialTypes {
		types[int(t)] = true
	}
	if hasBox {
		geoDims.boxes++
	}
	if values == "_" || values == "" {
		return ""
	}
	for _, tok := range strings.Split(values, ",") {
		raw, err := hex.DecodeString(strings.TrimPrefix(tok, "x"))
		if err != nil {
			continue
		}
		var info wkbInfo
		if rest, ok := parseWKB(raw, true, &info); !ok || len(rest) != 0 {
			continue // not WKB as this reader understands it: nothing is demanded
		}
		geoDims.values++
		if len(types) > 0 {
			geoDims.typed++
			if !types[info.code] {
				return fmt.Sprintf("a stored value has WKB type %d, geospatial_types lists %v", info.code, []int32(st.GeoSpatialTypes))
			}
		}
		if !hasBox {
			continue
		}
		for _, c := range info.coords {
			x, y := c[0], c[1]
			inX := x >= bb.XMin && x <= bb.XMax
			if geography && bb.XMin > bb.XMax {
				inX = x >= bb.XMin || x <= bb.XMax
			}
			if !math.IsNaN(x) && !inX {
				return fmt.Sprintf("a stored geometry has a point with x = %v, outside of the box x=[%v,%v] y=[%v,%v] of the footer", x, bb.XMin, bb.XMax, bb.YMin, bb.YMax)
			}
			if !math.IsNaN(y) && !(y >= bb.YMin && y <= bb.YMax) {
				return fmt.Sprintf("a stored geometry has a point with y = %v, outside of the box x=[%v,%v] y=[%v,%v] of the footer", y, bb.XMin, bb.XMax, bb.YMin, bb.YMax)
			}
			if z := c[2]; !math.IsNaN(z) && bb.ZMin.Valid && bb.ZMax.Valid && !(z >= bb.ZMin.V && z <= bb.ZMax.V) {
				return fmt.Sprintf("a stored geometry has a point with z = %v, outside of z=[%v,%v] of the footer", z, bb.ZMin.V, bb.ZMax.V)
			}
			if m := c[3]; !math.IsNaN(m) && bb.MMin.Valid && bb.MMax.Valid && !(m >= bb.MMin.V && m <= bb.MMax.V) {
				return fmt.Sprintf("a stored geometry has a point with m = %v, outside of m=[%v,%v] of the footer", m, bb.MMin.V, bb.MMax.V)
			}
		}
	}
	return ""
}

// footerOf decodes the footer with the library's thrift layer (nil when it cannot).
func footerOf(data []byte) *format.FileMetaData {
	if len(data) < 12 {
		return nil
	}
	flen := int64(binary.LittleEndian.Uint32(data[len(data)-8:]))
	footer, ok := sliceOf(data, int64(len(data))-8-flen, flen)
	if !ok {
		return nil
	}
	md := new(format.FileMetaData)
	if err := thrift.Unmarshal(new(thrift.CompactProtocol), footer, md); err != nil {
		return nil
	}
	return md
}
