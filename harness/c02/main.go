package main

// C02: every written file is well-formed Parquet that an independent decoder
// agrees on.  The decoder is coq/theories/File/SpecDecoder.v (written from the
// format specification, extracted to OCaml): it parses magic, footer, schema,
// page headers, checksums, levels and values from the raw bytes, recomputes
// what the footer and the page headers claim, and returns the column streams,
// which are compared with the streams that were written.

import (
	"bytes"
	"encoding/hex"
	"encoding/json"
	"fmt"
	"io"
	"sort"
	"strconv"
	"strings"
	"syscall"

	"github.com/parquet-go/parquet-go"
	"github.com/parquet-go/parquet-go/encoding/thrift"
	"github.com/parquet-go/parquet-go/format"

	"verif/harness/c02/refcodec"
	"verif/harness/core"
	"verif/harness/gen"
)

func main() {
	// The extracted decoder recurses to a depth proportional to the longest page / list of byte strings (native
	// stack): a dictionary page of 2^17 values needs more than the usual 8 MB.  The oracle process inherits the
	// limit of this one: the soft stack limit is raised to 4 GB (or the hard limit).
	var lim syscall.Rlimit
	if err := syscall.Getrlimit(syscall.RLIMIT_STACK, &lim); err == nil {
		want := uint64(4 << 30)
		if lim.Max < want {
			want = lim.Max
		}
		if lim.Cur < want {
			lim.Cur = want
			syscall.Setrlimit(syscall.RLIMIT_STACK, &lim)
		}
	}
	core.Main("C02", run, replay)
}

type c02Case struct {
	Gen    gen.Case `json:"gen"`
	// 0: written directly; re-written through Writer.WriteRowGroup from the row groups of the file 1: with the same
	// options, 2: with the other page version / codec and a 300 byte page buffer, 3: with independently drawn options;
	// 4: never written as a file: the rows go to parquet.Buffer row groups (one per Flush segment of the history),
	// which are written through WriteRowGroup with independently drawn options
	// 5: as 4, and the file so written is re-opened and its row groups are written once more through WriteRowGroup
	// with the options of the generated case (the row groups of a file carry the sorting columns of its footer)
	Copy   int    `json:"copy"`
	Layout bool   `json:"layout,omitempty"` // also compare the file with the model writer of File/Layout.v
	Shape  *shape `json:"shape,omitempty"`  // schema / value dimensions beyond the shared generator (shapes.go)
	// copy 4 and 5: the parquet.Buffer row groups are configured with these sorting columns and sorted before they are
	// handed to WriteRowGroup; the rows "written" are then the rows in the order the sorted buffers present them
	Sort []sortKey `json:"sort,omitempty"`
	// the writers are configured with the same sorting columns (SortingWriterConfig) instead of taking them from the row groups
	WriterSorts bool `json:"writer_sorts,omitempty"`
}

// sortKey is one sorting column: the index of a leaf that has no repeated ancestor.
type sortKey struct {
	Col        int  `json:"col"`
	Desc       bool `json:"desc,omitempty"`
	NullsFirst bool `json:"nulls_first,omitempty"`
}

// flatLeaves returns the paths of the leaves that hold one value per row (no repeated node on the path), by column index.
func flatLeaves(root *gen.Node) map[int][]string {
	out := map[int][]string{}
	col := 0
	var walk func(n *gen.Node, path []string, flat bool)
	walk = func(n *gen.Node, path []string, flat bool) {
		if n.Name != "root" || len(path) > 0 {
			path = append(append([]string(nil), path...), n.Name)
		}
		flat = flat && n.Rep != gen.Rpt && n.Logical == ""
		if n.Leaf != "" {
			if flat {
				out[col] = path
			}
			col++
			return
		}
		for _, f := range n.Fields {
			walk(f, path, flat)
		}
	}
	for _, f := range root.Fields {
		walk(f, nil, true)
	}
	return out
}

func sortingColumns(b *gen.Built, keys []sortKey) []parquet.SortingColumn {
	flat := flatLeaves(b.Root)
	var cols []parquet.SortingColumn
	for _, k := range keys {
		path, ok := flat[k.Col]
		if !ok {
			continue
		}
		sc := parquet.Ascending(path...)
		if k.Desc {
			sc = parquet.Descending(path...)
		}
		if k.NullsFirst {
			sc = parquet.NullsFirst(sc)
		}
		cols = append(cols, sc)
	}
	return cols
}

func expected(b *gen.Built, rows []parquet.Row, from, to int) (reps, defs, vals [][]string) {
	n := len(b.Root.Leaves())
	reps, defs, vals = make([][]string, n), make([][]string, n), make([][]string, n)
	for _, row := range rows[from:to] {
		for _, v := range row {
			c := v.Column()
			reps[c] = append(reps[c], fmt.Sprintf("%x", v.RepetitionLevel()))
			defs[c] = append(defs[c], fmt.Sprintf("%x", v.DefinitionLevel()))
			if !v.IsNull() {
				vals[c] = append(vals[c], "x"+hex.EncodeToString(v.Bytes()))
			}
		}
	}
	return
}

func joinOr(l []string) string {
	if len(l) == 0 {
		return "_"
	}
	return strings.Join(l, ",")
}

// writeFile returns the bytes of the file and the rows it was given, in the order it was given them.
func writeFile(b *gen.Built, cs c02Case) ([]byte, []parquet.Row, error) {
	var buf bytes.Buffer
	var groups []parquet.RowGroup
	written := b.Rows
	sorting := sortingColumns(b, cs.Sort)
	writerOptions := func(o gen.Options) []parquet.WriterOption {
		opts := append([]parquet.WriterOption{b.Schema}, o.WriterOptions(b.Root)...)
		if cs.WriterSorts && len(sorting) > 0 {
			opts = append(opts, parquet.SortingWriterConfig(parquet.SortingColumns(sorting...)))
		}
		return opts
	}
	if cs.Copy >= 4 {
		newBuffer := func() *parquet.Buffer {
			if len(sorting) > 0 {
				return parquet.NewBuffer(b.Schema, parquet.SortingRowGroupConfig(parquet.SortingColumns(sorting...)))
			}
			return parquet.NewBuffer(b.Schema)
		}
		var buffers []*parquet.Buffer
		i := 0
		cur := newBuffer()
		for _, h := range b.History {
			if h < 0 {
				if cur.NumRows() > 0 {
					buffers = append(buffers, cur)
					cur = newBuffer()
				}
				continue
			}
			rows := make([]parquet.Row, h)
			for j := range rows {
				rows[j] = b.Rows[i+j].Clone()
			}
			if _, err := cur.WriteRows(rows); err != nil {
				return nil, nil, fmt.Errorf("buffer write rows: %w", err)
			}
			i += h
		}
		if cur.NumRows() > 0 || len(buffers) == 0 {
			buffers = append(buffers, cur)
		}
		if len(sorting) > 0 {
			// what is written is what the sorted buffers present, in their order
			written = nil
			for _, bf := range buffers {
				sort.Stable(bf)
				rows := make([]parquet.Row, bf.NumRows())
				rr := bf.Rows()
				n := 0
				for n < len(rows) {
					k, err := rr.ReadRows(rows[n:])
					n += k
					if err != nil {
						if err == io.EOF {
							break
						}
						rr.Close()
						return nil, nil, fmt.Errorf("reading the sorted buffer: %w", err)
					}
				}
				rr.Close()
				if n != len(rows) {
					return nil, nil, fmt.Errorf("sorted buffer presents %d of its %d rows", n, len(rows))
				}
				for _, r := range rows {
					written = append(written, r.Clone())
				}
			}
		}
		for _, bf := range buffers {
			groups = append(groups, bf)
		}
	} else {
		if err := b.Write(&buf); err != nil {
			return nil, nil, err
		}
		if cs.Copy == 0 {
			return buf.Bytes(), written, nil
		}
		f, err := parquet.OpenFile(bytes.NewReader(buf.Bytes()), int64(buf.Len()))
		if err != nil {
			return nil, nil, fmt.Errorf("reopen: %w", err)
		}
		groups = f.RowGroups()
	}
	stages := []gen.Options{copyOptions(b, cs)}
	if cs.Copy == 5 {
		first := cs
		first.Copy = 4
		stages = []gen.Options{copyOptions(b, first), copyOptions(b, cs)}
	}
	var out bytes.Buffer
	for si, opts := range stages {
		out = bytes.Buffer{}
		w := parquet.NewGenericWriter[any](&out, writerOptions(opts)...)
		for _, rg := range groups {
			if _, err := w.WriteRowGroup(rg); err != nil {
				return nil, nil, fmt.Errorf("WriteRowGroup: %w", err)
			}
		}
		if err := w.Close(); err != nil {
			return nil, nil, fmt.Errorf("close copy: %w", err)
		}
		if si+1 < len(stages) {
			f, err := parquet.OpenFile(bytes.NewReader(out.Bytes()), int64(out.Len()))
			if err != nil {
				return nil, nil, fmt.Errorf("reopen: %w", err)
			}
			groups = f.RowGroups()
		}
	}
	return out.Bytes(), written, nil
}

// ---- compressed sections: the graph of the external decompressor on this file ----
//
// The Gallina decoder decodes UNCOMPRESSED and SNAPPY itself; for the other codecs it is given,
// for every compressed section of the file, what the reference implementation of the codec
// (refcodec: libzstd, zlib, libbrotlidec, liblz4) makes of those bytes.  The sections are
// found by walking the chunks with the library's thrift decoder; a section the walk misses
// is one the decoder cannot decode, which is reported.
func sectionsOf(data []byte) string {
	if len(data) < 12 {
		return "_"
	}
	flen := int64(uint32(data[len(data)-8]) | uint32(data[len(data)-7])<<8 | uint32(data[len(data)-6])<<16 | uint32(data[len(data)-5])<<24)
	footer, ok := sliceOf(data, int64(len(data))-8-flen, flen)
	if !ok {
		return "_"
	}
	md := new(format.FileMetaData)
	if err := thrift.Unmarshal(new(thrift.CompactProtocol), footer, md); err != nil {
		return "_"
	}
	seen := map[string]bool{}
	var toks []string
	for _, g := range md.RowGroups {
		for _, cc := range g.Columns {
			m := cc.MetaData
			codec := int(m.Codec)
			if !refcodec.Known(codec) {
				continue
			}
			start := m.DataPageOffset
			if m.DictionaryPageOffset > 0 && m.DictionaryPageOffset < start {
				start = m.DictionaryPageOffset
			}
			end := start + m.TotalCompressedSize
			for pos := start; pos < end; {
				win, ok := sliceOf(data, pos, end-pos)
				if !ok {
					break
				}
				h, hlen, err := decodeHeader(win)
				if err != nil || h.CompressedPageSize < 0 || int64(hlen)+int64(h.CompressedPageSize) > end-pos {
					break
				}
				section := win[hlen : hlen+int(h.CompressedPageSize)]
				hint := int(h.UncompressedPageSize)
				compressed := true
				if h.Type == format.DataPageV2 && h.DataPageHeaderV2.Valid {
					v2 := h.DataPageHeaderV2.V
					levels := int(v2.RepetitionLevelsByteLength) + int(v2.DefinitionLevelsByteLength)
					if levels < 0 || levels > len(section) {
						levels = len(section)
					}
					section = section[levels:]
					hint -= levels
					if v2.IsCompressed.Valid && !v2.IsCompressed.V {
						compressed = false
					}
				}
				pos += int64(hlen) + int64(h.CompressedPageSize)
				if !compressed {
					continue
				}
				key := fmt.Sprintf("%x:x%s", codec, hex.EncodeToString(section))
				if seen[key] {
					continue
				}
				seen[key] = true
				if hint < 0 {
					hint = 0
				}
				if content, ok := refcodec.Decode(codec, section, hint); ok {
					dims.sections[codec]++
					if len(content) == 0 {
						dims.emptySections[codec]++
					}
					toks = append(toks, key+":x"+hex.EncodeToString(content))
				} else {
					toks = append(toks, key+":!")
				}
			}
		}
	}
	return joinSep(toks, ",")
}

func check(c *core.Ctx, cs c02Case) (nontrivial bool, bucket string) {
	b := build(cs)
	wopts := b.Opts // the options of the writer that produced the file
	if cs.Copy != 0 {
		wopts = copyOptions(b, cs)
	}
	bucket = fmt.Sprintf("copy%d/v%d/%s", cs.Copy, wopts.PageVersion, wopts.Codec)
	if cs.Shape != nil {
		bucket = cs.Shape.Kind + "/" + bucket
	}
	if len(cs.Sort) > 0 {
		bucket = "sorted/" + bucket
		if cs.WriterSorts {
			bucket += "/writer-sorting-config"
		}
	}
	var data []byte
	var rows []parquet.Row // the rows the file was given, in the order it was given them
	var werr error
	p := func() (p string) {
		defer func() {
			if r := recover(); r != nil {
				p = fmt.Sprint(r)
			}
		}()
		data, rows, werr = writeFile(b, cs)
		return ""
	}()
	if p != "" {
		c.Violation("write-panic", "writer panicked: "+core.Trunc(p, 300)+" schema "+b.Root.Text(), cs)
		return false, bucket
	}
	if werr != nil {
		return false, "rejected:" + core.Trunc(werr.Error(), 50)
	}
	if len(cs.Sort) > 0 {
		// the sorted buffers present the rows they were given, each once
		count := map[string]int{}
		for _, r := range b.Rows {
			count[gen.CanonRow(r)]++
		}
		for _, r := range rows {
			count[gen.CanonRow(r)]--
		}
		for k, n := range count {
			if n != 0 {
				c.Violation("sorted-buffer-rows-differ", fmt.Sprintf("the sorted parquet.Buffer row groups do not present the rows they were given (row %s: %+d); schema %s", core.Trunc(k, 120), -n, b.Root.Text()), cs)
				return true, bucket
			}
		}
	}
	if !c.HasOracle() {
		return len(b.Rows) >= 2, bucket
	}
	// limit of the extracted decoder, not of the format: it holds the footer as a Coq list (firstn / thrift reader
	// recursion depth proportional to the footer length, native stack of 8 MB; time quadratic in the length).
	// Files with hundreds of row groups times several columns are counted apart and not decoded.
	if len(data) >= 12 {
		if flen := int(uint32(data[len(data)-8]) | uint32(data[len(data)-7])<<8 | uint32(data[len(data)-6])<<16 | uint32(data[len(data)-5])<<24); flen > 128<<10 {
			return false, "not-decoded:footer-above-128kB"
		}
	}
	ans := c.Ask("c02.verify x" + hex.EncodeToString(data) + " " + sectionsOf(data))
	if strings.HasPrefix(ans, "UNPARSEABLE:") {
		c.Violation("undecodable-compressed-section", fmt.Sprintf("a page cannot be decompressed by a reader built on the reference implementation of the codec: %s; schema %s options %+v", strings.ReplaceAll(ans[len("UNPARSEABLE:"):], "_", " "), b.Root.Text(), wopts), cs)
		return true, bucket
	}
	if ans == "ERR stack_overflow" {
		// limit of the extracted decoder, not of the format or of the file: its recursion depth grows with the longest
		// page / byte string list (native stack); reached by rows of 20000 byte strings in the thorough tier.  The file
		// is counted apart and not decoded, as the files with very long footers are.
		dims.stackOverflows++
		return false, "not-decoded:decoder-stack-overflow"
	}
	if ans == "UNPARSEABLE" || strings.HasPrefix(ans, "ERR") {
		c.Violation("spec-decoder-rejects", fmt.Sprintf("the specification decoder cannot parse the file (%s); schema %s options %+v", ans, b.Root.Text(), wopts), cs)
		return true, bucket
	}
	parts := strings.SplitN(ans, " ", 2)
	if parts[0] != "_" {
		c.Violation("inconsistent:"+parts[0], fmt.Sprintf("what the footer / page headers claim does not match the bytes: %s; schema %s options %+v", parts[0], b.Root.Text(), wopts), cs)
		return true, bucket
	}
	from := 0
	var footer *format.FileMetaData
	groups := []string{}
	if len(parts) > 1 && parts[1] != "_" {
		groups = strings.Split(parts[1], "|")
	}
	for gi, g := range groups {
		hdr := strings.SplitN(g, "#", 2)
		var nrows int
		fmt.Sscanf(hdr[0], "%d", &nrows)
		to := from + nrows
		if to > len(rows) {
			c.Violation("row-count", fmt.Sprintf("row group %d: rows %d..%d exceed the %d rows written", gi, from, to, len(rows)), cs)
			return true, bucket
		}
		reps, defs, vals := expected(b, rows, from, to)
		if len(cs.Sort) > 0 && cs.Sort[0].Col < len(defs) {
			dims.sortedGroups++
			d := defs[cs.Sort[0].Col]
			for _, x := range d {
				if x != d[0] {
					dims.sortedMixed++
					break
				}
			}
		}
		chunks := strings.Split(hdr[1], ";")
		if len(chunks) != len(reps) {
			c.Violation("column-count", fmt.Sprintf("row group %d has %d column chunks, schema has %d leaves", gi, len(chunks), len(reps)), cs)
			return true, bucket
		}
		for ci, ch := range chunks {
			f := map[string]string{}
			for _, kv := range strings.Split(ch, "/") {
				if i := strings.IndexByte(kv, '='); i > 0 {
					f[kv[:i]] = kv[i+1:]
				}
			}
			leaf := b.Root.Leaves()[ci]
			if f["R"] != joinOr(reps[ci]) {
				c.Violation("decoded-repetition-levels-differ", fmt.Sprintf("row group %d column %d (%s): the specification decoder recovers repetition levels %s, written %s", gi, ci, leaf.Text(), core.Trunc(f["R"], 200), core.Trunc(joinOr(reps[ci]), 200)), cs)
				return true, bucket
			}
			if f["D"] != joinOr(defs[ci]) {
				c.Violation("decoded-definition-levels-differ", fmt.Sprintf("row group %d column %d (%s): definition levels %s, written %s", gi, ci, leaf.Text(), core.Trunc(f["D"], 200), core.Trunc(joinOr(defs[ci]), 200)), cs)
				return true, bucket
			}
			dims.chunk(f, reps[ci], defs[ci])
			if f["V"] != joinOr(vals[ci]) {
				c.Violation("decoded-values-differ", fmt.Sprintf("row group %d column %d (%s, page encodings %s): values recovered by the specification decoder differ from the values written", gi, ci, leaf.Text(), f["E"]), cs)
				return true, bucket
			}
			if isGeo(leaf.Leaf) {
				// the geospatial statistics of the chunk describe the values the decoder found in its pages
				if footer == nil {
					footer = footerOf(data)
				}
				if footer != nil && gi < len(footer.RowGroups) && ci < len(footer.RowGroups[gi].Columns) {
					if msg := geoChunkCheck(footer.RowGroups[gi].Columns[ci].MetaData.GeospatialStatistics, leaf.Leaf == "geography", f["V"]); msg != "" {
						c.Violation("geospatial-statistics-do-not-cover", fmt.Sprintf("row group %d column %d (%s): %s; schema %s", gi, ci, leaf.Text(), msg, b.Root.Text()), cs)
						return true, bucket
					}
				}
			}
		}
		from = to
	}
	if from != len(rows) {
		c.Violation("row-count", fmt.Sprintf("the file holds %d rows, %d were written", from, len(rows)), cs)
		return true, bucket
	}
	if cs.Layout {
		// the thrift reader of the specification decoder is quadratic in the footer length: very large footers are left out
		if flen := int(uint32(data[len(data)-8]) | uint32(data[len(data)-7])<<8 | uint32(data[len(data)-6])<<16 | uint32(data[len(data)-5])<<24); flen > c.N(24000, 60000) {
			bucket += "/layout-skipped-large-footer"
		} else {
			bucket += "/" + layoutCheck(c, cs, b, data, groups)
		}
	}
	return len(b.Rows) >= 2, bucket
}

// ---- layout: the model writer of coq/theories/File/Layout.v against the bytes of the file ----
//
// The page structure of the file (raw page headers, bodies, rows per data page as the
// specification decoder counted them, bloom filter and column index sections) and the footer
// (for the fields that are not offsets / sizes / counts) are handed to the model writer
// `layout`, whose offset accounting mirrors writer.go and is proved to produce files whose
// recorded offsets and sizes describe the bytes (C02_layout_sound_*).  The model's file must
// be the library's file, byte for byte.

type region struct {
	name     string
	from, to int64
}

func decodeHeader(b []byte) (*format.PageHeader, int, error) {
	h := new(format.PageHeader)
	pr := new(thrift.CompactProtocol).NewReaderFromBytes(b)
	if err := thrift.NewDecoder(pr).Decode(h); err != nil {
		return nil, 0, err
	}
	return h, pr.BytesRead(), nil
}

func sliceOf(data []byte, off, n int64) ([]byte, bool) {
	if off < 0 || n < 0 || off+n > int64(len(data)) {
		return nil, false
	}
	return data[off : off+n], true
}

// accounted lists every offset / size / count of the metadata that the writer derives from the pages.
func accounted(f *parquet.File) []string {
	md := f.Metadata()
	out := []string{fmt.Sprintf("FileMetaData.NumRows=%d", md.NumRows)}
	for gi, g := range md.RowGroups {
		p := fmt.Sprintf("RowGroup[%d].", gi)
		out = append(out, fmt.Sprintf("%sFileOffset=%d", p, g.FileOffset), fmt.Sprintf("%sTotalByteSize=%d", p, g.TotalByteSize),
			fmt.Sprintf("%sTotalCompressedSize=%d", p, g.TotalCompressedSize), fmt.Sprintf("%sNumRows=%d", p, g.NumRows), fmt.Sprintf("%sOrdinal=%d", p, g.Ordinal))
		for ci, cc := range g.Columns {
			q := fmt.Sprintf("%sColumn[%d].", p, ci)
			m := cc.MetaData
			out = append(out, fmt.Sprintf("%sFileOffset=%d", q, cc.FileOffset), fmt.Sprintf("%sNumValues=%d", q, m.NumValues),
				fmt.Sprintf("%sTotalUncompressedSize=%d", q, m.TotalUncompressedSize), fmt.Sprintf("%sTotalCompressedSize=%d", q, m.TotalCompressedSize),
				fmt.Sprintf("%sDataPageOffset=%d", q, m.DataPageOffset), fmt.Sprintf("%sDictionaryPageOffset=%d", q, m.DictionaryPageOffset),
				fmt.Sprintf("%sBloomFilterOffset=%d", q, m.BloomFilterOffset), fmt.Sprintf("%sBloomFilterLength=%d", q, m.BloomFilterLength),
				fmt.Sprintf("%sOffsetIndexOffset=%d", q, cc.OffsetIndexOffset), fmt.Sprintf("%sOffsetIndexLength=%d", q, cc.OffsetIndexLength),
				fmt.Sprintf("%sColumnIndexOffset=%d", q, cc.ColumnIndexOffset), fmt.Sprintf("%sColumnIndexLength=%d", q, cc.ColumnIndexLength))
		}
	}
	ncols := 0
	if len(md.RowGroups) > 0 {
		ncols = len(md.RowGroups[0].Columns)
	}
	for i, oi := range f.OffsetIndexes() {
		for j, l := range oi.PageLocations {
			q := "?"
			if ncols > 0 {
				q = fmt.Sprintf("RowGroup[%d].Column[%d].", i/ncols, i%ncols)
			}
			out = append(out, fmt.Sprintf("%sPageLocation[%d].Offset=%d", q, j, l.Offset), fmt.Sprintf("%sPageLocation[%d].CompressedPageSize=%d", q, j, l.CompressedPageSize),
				fmt.Sprintf("%sPageLocation[%d].FirstRowIndex=%d", q, j, l.FirstRowIndex))
		}
	}
	return out
}

func layoutCheck(c *core.Ctx, cs c02Case, b *gen.Built, data []byte, groups []string) string {
	f, err := parquet.OpenFile(bytes.NewReader(data), int64(len(data)))
	if err != nil {
		c.Violation("library-cannot-reopen", "the library cannot open the file it wrote: "+core.Trunc(err.Error(), 200), cs)
		return "layout:unopened"
	}
	md := f.Metadata()
	flen := int64(uint32(data[len(data)-8]) | uint32(data[len(data)-7])<<8 | uint32(data[len(data)-6])<<16 | uint32(data[len(data)-5])<<24)
	footerStart := int64(len(data)) - 8 - flen
	regions := []region{{"magic", 0, 4}, {"footer (FileMetaData)", footerStart, footerStart + flen}, {"footer length", footerStart + flen, footerStart + flen + 4}, {"trailing magic", int64(len(data)) - 4, int64(len(data))}}
	if len(groups) != len(md.RowGroups) {
		c.Mismatch("corr:C02.layout_walk", b.Root.Text(), fmt.Sprintf("%d row groups", len(md.RowGroups)), fmt.Sprintf("%d row groups decoded", len(groups)), cs)
		return "layout:walk"
	}
	var gtoks []string
	for gi, g := range md.RowGroups {
		hdr := strings.SplitN(groups[gi], "#", 2)
		chunks := strings.Split(hdr[1], ";")
		var ctoks []string
		for ci, cc := range g.Columns {
			m := cc.MetaData
			fields := map[string]string{}
			for _, kv := range strings.Split(chunks[ci], "/") {
				if i := strings.IndexByte(kv, '='); i > 0 {
					fields[kv[:i]] = kv[i+1:]
				}
			}
			var reps, nvals []string
			if fields["R"] != "_" {
				reps = strings.Split(fields["R"], ",")
			}
			if fields["N"] != "" {
				nvals = strings.Split(fields["N"], ",")
			}
			start := m.DataPageOffset
			if m.DictionaryPageOffset > 0 && m.DictionaryPageOffset < start {
				start = m.DictionaryPageOffset
			}
			end := start + m.TotalCompressedSize
			pos, dataPage, repAt := start, 0, 0
			var ptoks []string
			for pos < end {
				win, ok := sliceOf(data, pos, end-pos)
				if !ok {
					c.Mismatch("corr:C02.layout_walk", b.Root.Text(), fmt.Sprintf("chunk %d/%d spans %d..%d of %d bytes", gi, ci, start, end, len(data)), "", cs)
					return "layout:walk"
				}
				h, hlen, err := decodeHeader(win)
				if err != nil || int64(hlen)+int64(h.CompressedPageSize) > end-pos || h.CompressedPageSize < 0 {
					c.Mismatch("corr:C02.layout_walk", b.Root.Text(), fmt.Sprintf("chunk %d/%d: page header at %d unreadable by the library's thrift decoder (%v)", gi, ci, pos, err), "", cs)
					return "layout:walk"
				}
				body := win[hlen : hlen+int(h.CompressedPageSize)]
				rows := 0
				if h.Type != format.DictionaryPage {
					if dataPage >= len(nvals) {
						c.Mismatch("corr:C02.layout_walk", b.Root.Text(), fmt.Sprintf("chunk %d/%d: more data pages than the specification decoder found", gi, ci), "", cs)
						return "layout:walk"
					}
					n, _ := strconv.Atoi(nvals[dataPage])
					for k := repAt; k < repAt+n && k < len(reps); k++ {
						if reps[k] == "0" {
							rows++
						}
					}
					repAt += n
					dataPage++
				}
				regions = append(regions, region{fmt.Sprintf("row group %d column %d page at %d: header", gi, ci, pos), pos, pos + int64(hlen)},
					region{fmt.Sprintf("row group %d column %d page at %d: body", gi, ci, pos), pos + int64(hlen), pos + int64(hlen) + int64(h.CompressedPageSize)})
				ptoks = append(ptoks, fmt.Sprintf("x%s:x%s:%x", hex.EncodeToString(win[:hlen]), hex.EncodeToString(body), rows))
				pos += int64(hlen) + int64(h.CompressedPageSize)
			}
			var bloom, cindex []byte
			if m.BloomFilterOffset > 0 {
				bloom, _ = sliceOf(data, m.BloomFilterOffset, int64(m.BloomFilterLength))
				regions = append(regions, region{fmt.Sprintf("row group %d column %d bloom filter", gi, ci), m.BloomFilterOffset, m.BloomFilterOffset + int64(m.BloomFilterLength)})
			}
			if cc.ColumnIndexOffset > 0 {
				cindex, _ = sliceOf(data, cc.ColumnIndexOffset, int64(cc.ColumnIndexLength))
				regions = append(regions, region{fmt.Sprintf("row group %d column %d column index", gi, ci), cc.ColumnIndexOffset, cc.ColumnIndexOffset + int64(cc.ColumnIndexLength)})
			}
			regions = append(regions, region{fmt.Sprintf("row group %d column %d offset index", gi, ci), cc.OffsetIndexOffset, cc.OffsetIndexOffset + int64(cc.OffsetIndexLength)})
			ctoks = append(ctoks, fmt.Sprintf("x%s/x%s/%s", hex.EncodeToString(bloom), hex.EncodeToString(cindex), joinSep(ptoks, "+")))
		}
		gtoks = append(gtoks, strings.Join(ctoks, ";"))
	}
	ans := c.Ask("c02.layout x" + hex.EncodeToString(data[footerStart:footerStart+flen]) + " " + joinSep(gtoks, "|"))
	parts := strings.Split(ans, " ")
	if len(parts) != 2 || !strings.HasPrefix(parts[0], "x") {
		c.Mismatch("corr:C02.layout_model", b.Root.Text(), "", core.Trunc(ans, 200), cs)
		return "layout:model-error"
	}
	model, _ := hex.DecodeString(parts[0][1:])
	verdict := "layout-theorems-apply"
	if parts[1] != "1" {
		verdict = "layout-side-conditions-not-met"
	}
	if bytes.Equal(model, data) {
		return verdict
	}
	// not byte-identical: name what differs
	if mf, err := parquet.OpenFile(bytes.NewReader(model), int64(len(model))); err == nil {
		am, al := accounted(mf), accounted(f)
		for i := 0; i < len(am) && i < len(al); i++ {
			if am[i] != al[i] {
				name := al[i][:strings.IndexByte(al[i], '=')]
				short := name[strings.LastIndexByte(name, '.')+1:]
				c.Violation("layout:"+short, fmt.Sprintf("the file records %s but the offset accounting of the writer (model File/Layout.v, whose recorded offsets and sizes are proved to describe the bytes) gives %s for the same pages; schema %s options %+v", al[i], am[i], b.Root.Text(), b.Opts), cs)
				return "layout:differs"
			}
		}
		if len(am) != len(al) {
			c.Violation("layout:structure", fmt.Sprintf("the file records %d offsets/sizes/counts, the model %d; schema %s", len(al), len(am), b.Root.Text()), cs)
			return "layout:differs"
		}
	}
	at := 0
	for at < len(model) && at < len(data) && model[at] == data[at] {
		at++
	}
	where := "between the sections the metadata describes (gap or overlap)"
	for _, r := range regions {
		if int64(at) >= r.from && int64(at) < r.to {
			where = r.name
			break
		}
	}
	lo, hi := at-8, at+24
	if lo < 0 {
		lo = 0
	}
	clip := func(x []byte) string {
		h := hi
		if h > len(x) {
			h = len(x)
		}
		if lo > h {
			return ""
		}
		return hex.EncodeToString(x[lo:h])
	}
	c.Mismatch("corr:C02.layout_bytes", fmt.Sprintf("%s; first difference at byte %d in: %s (file %d bytes, model %d bytes)", b.Root.Text(), at, where, len(data), len(model)), clip(data), clip(model), cs)
	return "layout:differs"
}

// dimensions reached by the files that were decoded and compared (reported as a note)
type dimensions struct {
	defWidth, repWidth [9]int // column chunks by bit width of the levels, levels not all equal
	longestRow         int    // most values of one column in one row
	longRows           int    // rows of a column chunk holding more than 1024 values
	mixedEncodings     int    // column chunks whose data pages use more than one encoding (dictionary fallback)
	chunks             int
	sections           map[int]int // distinct compressed sections handed to the reference decoders, by codec
	emptySections      map[int]int // of which: sections whose content is empty (all-null dictionaries and v2 data sections)
	sortedGroups       int         // row groups written from a sorted source
	sortedMixed        int         // of which: the first sorting column holds nulls and non-null values
	stackOverflows     int         // files the extracted decoder could not decode within its native stack
}

var dims = dimensions{sections: map[int]int{}, emptySections: map[int]int{}}

func bitWidth(max int) int {
	w := 0
	for max > 0 {
		w++
		max >>= 1
	}
	return w
}

func (d *dimensions) chunk(f map[string]string, reps, defs []string) {
	d.chunks++
	widthOf := func(levels []string) int {
		max, varied := 0, false
		for _, l := range levels {
			v, _ := strconv.ParseInt(l, 16, 32)
			if int(v) > max {
				max = int(v)
			}
			if l != levels[0] {
				varied = true
			}
		}
		if !varied {
			return 0
		}
		return bitWidth(max)
	}
	if w := widthOf(defs); w > 0 && w <= 8 {
		d.defWidth[w]++
	}
	if w := widthOf(reps); w > 0 && w <= 8 {
		d.repWidth[w]++
	}
	run := 0
	for _, r := range reps {
		if r == "0" {
			run = 0
		}
		run++
		if run > d.longestRow {
			d.longestRow = run
		}
		if run == 1025 {
			d.longRows++
		}
	}
	if e := strings.Split(f["E"], ","); len(e) > 1 {
		for _, x := range e[1:] {
			if x != e[0] {
				d.mixedEncodings++
				break
			}
		}
	}
}

func joinSep(l []string, sep string) string {
	if len(l) == 0 {
		return "_"
	}
	return strings.Join(l, sep)
}

func runCase(c *core.Ctx, cs c02Case, sample bool) {
	// the silent first run decides whether shrinking is needed; when nothing fails its result is the result
	var nontrivial bool
	var bucket string
	if c.Probe(func() { nontrivial, bucket = check(c, cs) }) {
		for cs.Gen.NRows > 1 {
			t := cs
			t.Gen.NRows = cs.Gen.NRows / 2
			if c.Probe(func() { check(c, t) }) {
				cs = t
			} else {
				break
			}
		}
		if cs.Gen.NRows > 2048 {
			// tens of thousands of rows (dictionaries of up to 2^18 values): the smallest failing number of rows is
			// searched by bisection between the half that passed and the number that failed
			lo, hi := cs.Gen.NRows/2, cs.Gen.NRows
			for hi-lo > 1 {
				t := cs
				t.Gen.NRows = (lo + hi) / 2
				if c.Probe(func() { check(c, t) }) {
					hi = t.Gen.NRows
				} else {
					lo = t.Gen.NRows
				}
			}
			cs.Gen.NRows = hi
		}
		for cs.Gen.NRows > 1 && cs.Gen.NRows <= 2048 {
			t := cs
			t.Gen.NRows--
			if c.Probe(func() { check(c, t) }) {
				cs = t
			} else {
				break
			}
		}
		if cs.Shape != nil {
			// the shape: shorter lists, a shallower spine
			try := func(f func(sh *shape) bool) {
				for {
					t := cs
					sh := *cs.Shape
					t.Shape = &sh
					if !f(&sh) || !c.Probe(func() { check(c, t) }) {
						return
					}
					cs = t
				}
			}
			try(func(sh *shape) bool { sh.MaxLen /= 2; return sh.Kind == "long" && sh.MaxLen >= 1 })
			try(func(sh *shape) bool { sh.MaxLen -= 1 + sh.MaxLen/16; return sh.Kind == "long" && sh.MaxLen >= 1 })
			try(func(sh *shape) bool { ok := sh.Pad > 0; sh.Pad = 0; return sh.Kind == "deep" && ok })
			try(func(sh *shape) bool {
				sh.Def--
				if sh.Rep > sh.Def {
					sh.Rep = sh.Def
				}
				return sh.Kind == "deep" && sh.Def >= 1
			})
			try(func(sh *shape) bool { sh.Rep--; return sh.Kind == "deep" && sh.Rep >= 0 })
		}
		nontrivial, bucket = check(c, cs)
	}
	key, _ := json.Marshal(cs)
	c.Case(bucket, string(key), nontrivial)
	if sample {
		b := build(cs)
		c.Sample(map[string]any{"case": cs, "schema": b.Root.Text(), "options": b.Opts})
	}
}

func run(c *core.Ctx) {
	c.Res.Rule = "files written from generated schemas / value trees / options / Write-Flush histories (see C01), directly (copy0), re-written through Writer.WriteRowGroup from the row groups of the written file with equal (copy1), opposite (copy2: other page version and codec, 300 byte page buffer) or independently drawn options (copy3), or never written directly: rows put in parquet.Buffer row groups handed to WriteRowGroup (copy4) (verbatim copy, column-wise re-encode and row paths); codecs: half of the files draw the file codec and the per-column codecs from UNCOMPRESSED and SNAPPY (decoded in Gallina), the other half from all six (GZIP, BROTLI, ZSTD, LZ4_RAW sections are decoded by the reference C implementations of the codecs, harness/c02/refcodec, which instantiate the decompressor parameter of the Gallina decoder and accept only a complete well-formed stream: a compressed section of zero bytes is not one, class undecodable-compressed-section); null bias 0..7 tenths, and every optional field null in a tenth of the files (all-null chunks: empty dictionary pages and empty v2 data sections). Sorted sources: parquet.Buffer row groups configured with one or two sorting columns (leaves holding one value per row; ascending/descending x nulls first/last), sorted, and written through WriteRowGroup by a writer without a sorting configuration (three quarters) or with the same one, directly (copy4) or once more from the file so written (copy5); the rows written are then the rows as the sorted buffers present them (checked to be the rows they were given), and the decoder checks the sorting_columns each row group declares: column indexes, and nulls of the first sorting column before / after its non-null values as nulls_first says (discrepancy codes sorting_column_idx, sorting_nulls_placement; value order is C05's). Besides the shared generator (nesting depth <= 3, lists <= 24 elements; DictionaryMaxBytes 16..415 in a quarter of the files, so dictionary -> PLAIN fallback inside a chunk occurs) two families of shapes (harness/c02/shapes.go): deep = a spine of nested optional/repeated/required groups with side leaves, the maximum definition level of the deepest column sweeping the level bit widths 1..8 in turn (maximum level in [2^(w-1), 2^w-1], up to 255), repetition levels none / few / any width up to w / width w, null and list-length probabilities scaled to the depth so that levels vary inside groups of 8; long = one repeated field (repeated leaf, repeated group, LIST) whose lists hold up to 300..6000 values (20000 in the thorough tier; lengths spread over the orders of magnitude and around the powers of two) in a third of the rows, next to short rows, with page buffers from 64 bytes. The note of the run lists the bit widths, row lengths and mixed-encoding chunks actually reached. Each file's raw bytes go to the extracted specification decoder, which must (1) parse them, (2) find every claimed offset, size, count, checksum, encoding list, encoding_stats entry ((page type, encoding) counts against the page headers present) and row boundary (v2 pages, and every data page of a chunk that has an offset index, start with repetition level 0) consistent with the bytes (discrepancy codes), (3) return, per row group and column, exactly the repetition levels, definition levels and values that were written. (4) Layout: the page structure observed in the file (raw page headers and bodies found by walking each chunk with the library's thrift decoder, rows per data page as counted by the specification decoder, bloom filter / column index sections, and the footer for the fields that are not offsets, sizes or counts) is given to the model writer File/Layout.v (offset accounting of writer.go; C02_layout_sound_*: its recorded offsets and sizes provably describe its bytes), which must reproduce the library's file byte for byte; a differing offset / size / count of the metadata is the property failing (layout:<field>), any other byte difference a model mismatch; the bucket suffix says whether the decidable hypothesis file_ok of the layout theorems held for the file (footers above 24 kB are left out in the quick tier: the Gallina thrift reader is quadratic; files whose footer exceeds 128 kB are not decoded at all, bucket not-decoded:*, the extracted decoder's recursion depth grows with the footer length). Big dictionaries (shape bigdict, shapes.go): one dictionary-encoded column (every dictionary-capable type up to 4096 values, fixed-width types up to 8192, values of 3 or 4 bytes above) whose dictionary holds 2^(w-1)+1 .. 2^w distinct values, w = 9..17 in turn (9..18 in the thorough tier), each written at least once in a random order, then some repeated: bit-packed runs of indexes at every width up to 18, one row group, written directly and through the WriteRowGroup paths; a failing case is shrunk by bisection on the number of rows. GEOMETRY / GEOGRAPHY columns (shape geo, geo.go): WKB points, line strings, polygons and multi-points (XY, XYZ, XYM, XYZM; both byte orders; some empty) whose coordinates lie in a region drawn per column and drift with the row number per axis; (5) the geospatial statistics of a chunk cover the values the decoder recovers from its pages: every coordinate inside a declared bounding box, every type code in a declared type list (class geospatial-statistics-do-not-cover). Non-trivial = at least 2 rows; distinct by the JSON of the case."
	// codecs: half of the files draw the file codec and the column codecs from the two codecs the Gallina decoder
	// implements, the other half from all six (GZIP, BROTLI, ZSTD, LZ4_RAW through the reference decoders);
	// null bias 10 = every optional field null (column chunks, dictionaries and v2 data sections holding no value)
	codecs := func() []string {
		if c.Rng.Intn(2) == 0 {
			return []string{"none", "snappy"}
		}
		return []string{"none", "snappy", "gzip", "brotli", "zstd", "lz4"}
	}
	nullBias := func() int { return []int{0, 1, 2, 3, 4, 5, 6, 7, 7, 10}[c.Rng.Intn(10)] }
	n := c.N(250, 4000)
	for i := 0; i < n; i++ {
		cs := c02Case{Gen: gen.Case{Seed: c.Seed*999983 + int64(i), NRows: []int{0, 1, 5, 40, 130, 300}[c.Rng.Intn(6)], MaxDepth: 1 + c.Rng.Intn(3), MaxFields: 1 + c.Rng.Intn(5), Codecs: codecs(), NullBias: nullBias()}}
		switch c.Rng.Intn(8) {
		case 0:
			cs.Copy = 1
		case 1, 2:
			cs.Copy = 2
		case 3:
			cs.Copy = 3
		case 4:
			cs.Copy = 4
		}
		cs.Layout = true
		runCase(c, cs, i < 3)
	}
	// deep schemas: the level bit widths 1..8 in turn (maximum level of the deepest column in
	// [2^(w-1), 2^w-1]); repetition levels none / few / as wide as the definition levels
	copyOf := func(weights [5]int) int {
		t := 0
		for _, x := range weights {
			t += x
		}
		r := c.Rng.Intn(t)
		for i, x := range weights {
			if r < x {
				return i
			}
			r -= x
		}
		return 0
	}
	for i, n := 0, c.N(48, 320); i < n; i++ {
		w := 1 + i%8
		sh := &shape{Kind: "deep", Def: 1<<(w-1) + c.Rng.Intn(1<<(w-1))}
		switch (i / 8) % 3 {
		case 0:
			sh.Rep = c.Rng.Intn(3)
		case 1:
			wr := 1 + c.Rng.Intn(w)
			sh.Rep = 1<<(wr-1) + c.Rng.Intn(1<<(wr-1))
		case 2:
			sh.Rep = 1<<(w-1) + c.Rng.Intn(1<<(w-1))
		}
		if sh.Rep > sh.Def {
			sh.Rep = sh.Def
		}
		if sh.Pad = c.Rng.Intn(4); sh.Def+sh.Pad > parquet.MaxColumnDepth {
			sh.Pad = parquet.MaxColumnDepth - sh.Def
		}
		nrows := []int{1, 5, 40, 130}
		if w >= 7 {
			nrows = []int{1, 5, 40}
		}
		cs := c02Case{Gen: gen.Case{Seed: c.Seed*1000003 + int64(i), NRows: nrows[c.Rng.Intn(len(nrows))], Codecs: codecs(), NullBias: c.Rng.Intn(8)},
			Shape: sh, Copy: copyOf([5]int{4, 1, 1, 1, 1}), Layout: true}
		runCase(c, cs, i < 1)
	}
	// long rows: lists of hundreds to thousands of values below one repeated field, written directly
	// and through every WriteRowGroup path
	for i, n := 0, c.N(32, 200); i < n; i++ {
		sh := &shape{Kind: "long", MaxLen: []int{300, 1100, 2100, 2100, 4200, c.N(6000, 20000)}[c.Rng.Intn(6)]}
		cs := c02Case{Gen: gen.Case{Seed: c.Seed*1000033 + int64(i), NRows: []int{1, 3, 8, 20}[c.Rng.Intn(4)], MaxDepth: 1, MaxFields: 2, Codecs: codecs(), NullBias: c.Rng.Intn(6)},
			Shape: sh, Copy: copyOf([5]int{2, 1, 2, 2, 1}), Layout: true}
		runCase(c, cs, i < 1)
	}
	// big dictionaries: the index bit widths 9..18 in turn (dictionary of 2^(w-1)+1 .. 2^w distinct values, every one of
	// them written at least once, in a random order: bit-packed runs of indexes of w bits), every dictionary-capable type,
	// written directly and through the WriteRowGroup paths
	// (width 18, files of a megabyte, in the thorough tier only)
	for i, n := 0, c.N(9, 60); i < n; i++ {
		w := 9 + i%c.N(9, 10)
		sh := &shape{Kind: "bigdict", Dict: 1<<(w-1) + 1 + c.Rng.Intn(1<<(w-1))}
		cs := c02Case{Gen: gen.Case{Seed: c.Seed*1000039 + int64(i), NRows: sh.Dict + c.Rng.Intn(sh.Dict/8+1), Codecs: codecs(), NullBias: c.Rng.Intn(4)},
			Shape: sh, Copy: copyOf([5]int{4, 1, 1, 1, 1}), Layout: w <= 16}
		runCase(c, cs, false)
	}
	// GEOMETRY / GEOGRAPHY columns (geo.go): WKB values whose coordinates drift with the row number; the geospatial
	// statistics of every chunk must cover the values the decoder finds in its pages
	for i, n := 0, c.N(24, 240); i < n; i++ {
		cs := c02Case{Gen: gen.Case{Seed: c.Seed*1000081 + int64(i), NRows: []int{1, 2, 5, 12, 40, 130}[c.Rng.Intn(6)], Codecs: codecs(), NullBias: c.Rng.Intn(6)},
			Shape: &shape{Kind: "geo"}, Copy: copyOf([5]int{4, 1, 1, 1, 1}), Layout: true}
		runCase(c, cs, i < 1)
	}
	// sorted sources: parquet.Buffer row groups configured with one or two sorting columns (leaves holding one value
	// per row; ascending / descending x nulls first / last), sorted, and handed to WriteRowGroup of a writer that has
	// no sorting configuration of its own (it takes the declaration from the row group) or the same one; directly
	// (copy 4) or once more from the file so written (copy 5: file row groups carrying the footer's sorting columns)
	for i, n := 0, c.N(40, 400); i < n; i++ {
		cs := c02Case{Gen: gen.Case{Seed: c.Seed*1000037 + int64(i), NRows: []int{1, 5, 40, 130}[c.Rng.Intn(4)], MaxDepth: 1 + c.Rng.Intn(2), MaxFields: 2 + c.Rng.Intn(4), Codecs: codecs(), NullBias: nullBias()},
			Copy: 4 + c.Rng.Intn(2), Layout: true, WriterSorts: c.Rng.Intn(4) == 0}
		root := build(cs).Root
		flat := flatLeaves(root)
		var cols, optional []int
		for col := range root.Leaves() {
			if path, ok := flat[col]; ok {
				cols = append(cols, col)
				// a leaf that can be null: optional itself or below an optional group
				at, opt := root, false
				for _, name := range path {
					for _, f := range at.Fields {
						if f.Name == name {
							at = f
							break
						}
					}
					opt = opt || at.Rep == gen.Opt
				}
				if opt {
					optional = append(optional, col)
				}
			}
		}
		if len(cols) == 0 {
			c.Case("sorted/no-leaf-with-one-value-per-row", fmt.Sprint(cs.Gen.Seed), false)
			continue
		}
		first := cols[c.Rng.Intn(len(cols))]
		if len(optional) > 0 && c.Rng.Intn(4) != 0 {
			first = optional[c.Rng.Intn(len(optional))]
		}
		cs.Sort = []sortKey{{Col: first, Desc: c.Rng.Intn(2) == 0, NullsFirst: c.Rng.Intn(2) == 0}}
		if second := cols[c.Rng.Intn(len(cols))]; second != first && c.Rng.Intn(2) == 0 {
			cs.Sort = append(cs.Sort, sortKey{Col: second, Desc: c.Rng.Intn(2) == 0, NullsFirst: c.Rng.Intn(2) == 0})
		}
		runCase(c, cs, i < 1)
	}
	c.Note("dimensions reached by the %d column chunks decoded and compared: definition levels varying within a chunk by bit width 1..8: %v; repetition levels: %v; longest row of one column: %d values, %d rows above 1024 values; %d chunks whose data pages use more than one encoding (dictionary fallback)",
		dims.chunks, dims.defWidth[1:], dims.repWidth[1:], dims.longestRow, dims.longRows, dims.mixedEncodings)
	c.Note("compressed sections decoded by the reference implementations (distinct sections; codec numbers of parquet.thrift: 2 GZIP, 4 BROTLI, 6 ZSTD, 7 LZ4_RAW): %v, of which with empty content: %v; row groups written from sorted sources: %d, of which %d whose first sorting column holds nulls and non-null values",
		dims.sections, dims.emptySections, dims.sortedGroups, dims.sortedMixed)
	c.Note("geospatial statistics: %d chunks of GEOMETRY / GEOGRAPHY columns, %d with a bounding box; %d WKB values checked against them, %d against a list of geospatial types",
		geoDims.chunks, geoDims.boxes, geoDims.values, geoDims.typed)
	if dims.stackOverflows > 0 {
		c.Note("%d evaluations (shrinking probes included) were not decoded: the extracted decoder exhausted its native stack (bucket not-decoded:decoder-stack-overflow)", dims.stackOverflows)
	}
	// thrift: decode(encode) on the footers is exercised by every file; additionally the
	// re-encoding of every decoded footer must reproduce the bytes Go wrote
	for i := 0; i < c.N(40, 400); i++ {
		cs := gen.Case{Seed: c.Seed*31337 + int64(i), NRows: 20, MaxDepth: 2, MaxFields: 4, Codecs: []string{"none"}, NullBias: 3}
		b := cs.Build()
		var buf bytes.Buffer
		if err := b.Write(&buf); err != nil {
			continue
		}
		data := buf.Bytes()
		flen := int(uint32(data[len(data)-8]) | uint32(data[len(data)-7])<<8 | uint32(data[len(data)-6])<<16 | uint32(data[len(data)-5])<<24)
		footer := data[len(data)-8-flen : len(data)-8]
		if c.HasOracle() {
			ans := c.Ask("c02.thrift_roundtrip x" + hex.EncodeToString(footer))
			if ans != "x"+hex.EncodeToString(footer)+" x" {
				c.Mismatch("corr:C02.thrift_footer_reencode", b.Root.Text(), "x"+hex.EncodeToString(footer), ans, cs)
			}
		}
		c.Case("thrift-footer", fmt.Sprint(cs.Seed), true)
	}
}

func replay(c *core.Ctx, raw json.RawMessage) {
	var cs c02Case
	if err := json.Unmarshal(raw, &cs); err != nil {
		c.Note("replay does not hold a C02 case")
		return
	}
	runCase(c, cs, true)
}
