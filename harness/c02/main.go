package main

// C02: every written file is well-formed Parquet that an independent decoder
// agrees on.  The decoder is coq/theories/File/SpecDecoder.v (written from the
// format specification, extracted to OCaml): it parses magic, footer, schema,
// page headers, checksums, levels and values from the raw bytes, recomputes
// what the footer and the page headers claim, and returns the column streams,
// which are compared with the streams that were written.

import (
	"bytes"
	"encoding/hex"
	"encoding/json"
	"fmt"
	"strings"

	"github.com/parquet-go/parquet-go"

	"verif/harness/core"
	"verif/harness/gen"
)

func main() { core.Main("C02", run, replay) }

type c02Case struct {
	Gen  gen.Case `json:"gen"`
	Copy int      `json:"copy"` // 0: written directly; 1: re-written through WriteRowGroup with the same options; 2: with different options
}

func expected(b *gen.Built, from, to int) (reps, defs, vals [][]string) {
	n := len(b.Root.Leaves())
	reps, defs, vals = make([][]string, n), make([][]string, n), make([][]string, n)
	for _, row := range b.Rows[from:to] {
		for _, v := range row {
			c := v.Column()
			reps[c] = append(reps[c], fmt.Sprintf("%x", v.RepetitionLevel()))
			defs[c] = append(defs[c], fmt.Sprintf("%x", v.DefinitionLevel()))
			if !v.IsNull() {
				vals[c] = append(vals[c], "x"+hex.EncodeToString(v.Bytes()))
			}
		}
	}
	return
}

func joinOr(l []string) string {
	if len(l) == 0 {
		return "_"
	}
	return strings.Join(l, ",")
}

func writeFile(b *gen.Built, cs c02Case) ([]byte, error) {
	var buf bytes.Buffer
	if err := b.Write(&buf); err != nil {
		return nil, err
	}
	if cs.Copy == 0 {
		return buf.Bytes(), nil
	}
	f, err := parquet.OpenFile(bytes.NewReader(buf.Bytes()), int64(buf.Len()))
	if err != nil {
		return nil, fmt.Errorf("reopen: %w", err)
	}
	opts := b.Opts
	if cs.Copy == 2 {
		opts.PageVersion = 3 - opts.PageVersion
		opts.PageBuffer = 300
		if opts.Codec == "snappy" {
			opts.Codec = "none"
		} else {
			opts.Codec = "snappy"
		}
	}
	opts.MaxRows = 0
	var out bytes.Buffer
	w := parquet.NewGenericWriter[any](&out, append([]parquet.WriterOption{b.Schema}, opts.WriterOptions(b.Root)...)...)
	for _, rg := range f.RowGroups() {
		if _, err := w.WriteRowGroup(rg); err != nil {
			return nil, fmt.Errorf("WriteRowGroup: %w", err)
		}
	}
	if err := w.Close(); err != nil {
		return nil, fmt.Errorf("close copy: %w", err)
	}
	return out.Bytes(), nil
}

func check(c *core.Ctx, cs c02Case) (nontrivial bool, bucket string) {
	b := cs.Gen.Build()
	bucket = fmt.Sprintf("copy%d/v%d/%s", cs.Copy, b.Opts.PageVersion, b.Opts.Codec)
	var data []byte
	var werr error
	p := func() (p string) {
		defer func() {
			if r := recover(); r != nil {
				p = fmt.Sprint(r)
			}
		}()
		data, werr = writeFile(b, cs)
		return ""
	}()
	if p != "" {
		c.Violation("write-panic", "writer panicked: "+core.Trunc(p, 300)+" schema "+b.Root.Text(), cs)
		return false, bucket
	}
	if werr != nil {
		return false, "rejected:" + core.Trunc(werr.Error(), 50)
	}
	if !c.HasOracle() {
		return len(b.Rows) >= 2, bucket
	}
	ans := c.Ask("c02.verify x" + hex.EncodeToString(data))
	if ans == "UNPARSEABLE" || strings.HasPrefix(ans, "ERR") {
		c.Violation("spec-decoder-rejects", fmt.Sprintf("the specification decoder cannot parse the file (%s); schema %s options %+v", ans, b.Root.Text(), b.Opts), cs)
		return true, bucket
	}
	parts := strings.SplitN(ans, " ", 2)
	if parts[0] != "_" {
		c.Violation("inconsistent:"+parts[0], fmt.Sprintf("what the footer / page headers claim does not match the bytes: %s; schema %s options %+v", parts[0], b.Root.Text(), b.Opts), cs)
		return true, bucket
	}
	from := 0
	groups := []string{}
	if len(parts) > 1 && parts[1] != "_" {
		groups = strings.Split(parts[1], "|")
	}
	for gi, g := range groups {
		hdr := strings.SplitN(g, "#", 2)
		var nrows int
		fmt.Sscanf(hdr[0], "%d", &nrows)
		to := from + nrows
		if to > len(b.Rows) {
			c.Violation("row-count", fmt.Sprintf("row group %d: rows %d..%d exceed the %d rows written", gi, from, to, len(b.Rows)), cs)
			return true, bucket
		}
		reps, defs, vals := expected(b, from, to)
		chunks := strings.Split(hdr[1], ";")
		if len(chunks) != len(reps) {
			c.Violation("column-count", fmt.Sprintf("row group %d has %d column chunks, schema has %d leaves", gi, len(chunks), len(reps)), cs)
			return true, bucket
		}
		for ci, ch := range chunks {
			f := map[string]string{}
			for _, kv := range strings.Split(ch, "/") {
				if i := strings.IndexByte(kv, '='); i > 0 {
					f[kv[:i]] = kv[i+1:]
				}
			}
			leaf := b.Root.Leaves()[ci]
			if f["R"] != joinOr(reps[ci]) {
				c.Violation("decoded-repetition-levels-differ", fmt.Sprintf("row group %d column %d (%s): the specification decoder recovers repetition levels %s, written %s", gi, ci, leaf.Text(), core.Trunc(f["R"], 200), core.Trunc(joinOr(reps[ci]), 200)), cs)
				return true, bucket
			}
			if f["D"] != joinOr(defs[ci]) {
				c.Violation("decoded-definition-levels-differ", fmt.Sprintf("row group %d column %d (%s): definition levels %s, written %s", gi, ci, leaf.Text(), core.Trunc(f["D"], 200), core.Trunc(joinOr(defs[ci]), 200)), cs)
				return true, bucket
			}
			if f["V"] != joinOr(vals[ci]) {
				c.Violation("decoded-values-differ", fmt.Sprintf("row group %d column %d (%s, page encodings %s): values recovered by the specification decoder differ from the values written", gi, ci, leaf.Text(), f["E"]), cs)
				return true, bucket
			}
		}
		from = to
	}
	if from != len(b.Rows) {
		c.Violation("row-count", fmt.Sprintf("the file holds %d rows, %d were written", from, len(b.Rows)), cs)
	}
	return len(b.Rows) >= 2, bucket
}

func runCase(c *core.Ctx, cs c02Case, sample bool) {
	if c.Probe(func() { check(c, cs) }) {
		for cs.Gen.NRows > 1 {
			t := cs
			t.Gen.NRows = cs.Gen.NRows / 2
			if c.Probe(func() { check(c, t) }) {
				cs = t
			} else {
				break
			}
		}
		for cs.Gen.NRows > 1 {
			t := cs
			t.Gen.NRows--
			if c.Probe(func() { check(c, t) }) {
				cs = t
			} else {
				break
			}
		}
	}
	nontrivial, bucket := check(c, cs)
	key, _ := json.Marshal(cs)
	c.Case(bucket, string(key), nontrivial)
	if sample {
		b := cs.Gen.Build()
		c.Sample(map[string]any{"case": cs, "schema": b.Root.Text(), "options": b.Opts})
	}
}

func run(c *core.Ctx) {
	c.Res.Rule = "files written from generated schemas / value trees / options / Write-Flush histories (see C01), directly or re-written through Writer.WriteRowGroup with equal or different options (copy, re-encode paths); codecs UNCOMPRESSED and SNAPPY (the codecs the Gallina decoder implements). Each file's raw bytes go to the extracted specification decoder, which must (1) parse them, (2) find every claimed offset, size, count, checksum, encoding list and row boundary consistent with the bytes (discrepancy codes), (3) return, per row group and column, exactly the repetition levels, definition levels and values that were written. Non-trivial = at least 2 rows; distinct by the JSON of the case."
	n := c.N(250, 4000)
	for i := 0; i < n; i++ {
		cs := c02Case{Gen: gen.Case{Seed: c.Seed*999983 + int64(i), NRows: []int{0, 1, 5, 40, 130, 300}[c.Rng.Intn(6)], MaxDepth: 1 + c.Rng.Intn(3), MaxFields: 1 + c.Rng.Intn(5), Codecs: []string{"none", "snappy"}, NullBias: c.Rng.Intn(8)}}
		switch c.Rng.Intn(5) {
		case 0:
			cs.Copy = 1
		case 1:
			cs.Copy = 2
		}
		runCase(c, cs, i < 3)
	}
	// thrift: decode(encode) on the footers is exercised by every file; additionally the
	// re-encoding of every decoded footer must reproduce the bytes Go wrote
	for i := 0; i < c.N(40, 400); i++ {
		cs := gen.Case{Seed: c.Seed*31337 + int64(i), NRows: 20, MaxDepth: 2, MaxFields: 4, Codecs: []string{"none"}, NullBias: 3}
		b := cs.Build()
		var buf bytes.Buffer
		if err := b.Write(&buf); err != nil {
			continue
		}
		data := buf.Bytes()
		flen := int(uint32(data[len(data)-8]) | uint32(data[len(data)-7])<<8 | uint32(data[len(data)-6])<<16 | uint32(data[len(data)-5])<<24)
		footer := data[len(data)-8-flen : len(data)-8]
		if c.HasOracle() {
			ans := c.Ask("c02.thrift_roundtrip x" + hex.EncodeToString(footer))
			if ans != "x"+hex.EncodeToString(footer)+" x" {
				c.Mismatch("corr:C02.thrift_footer_reencode", b.Root.Text(), "x"+hex.EncodeToString(footer), ans, cs)
			}
		}
		c.Case("thrift-footer", fmt.Sprint(cs.Seed), true)
	}
}

func replay(c *core.Ctx, raw json.RawMessage) {
	var cs c02Case
	if err := json.Unmarshal(raw, &cs); err != nil {
		c.Note("replay does not hold a C02 case")
		return
	}
	runCase(c, cs, true)
}
