package main

// C02: every written file is well-formed Parquet that an independent decoder
// agrees on.  The decoder is coq/theories/File/SpecDecoder.v (written from the
// format specification, extracted to OCaml): it parses magic, footer, schema,
// page headers, checksums, levels and values from the raw bytes, recomputes
// what the footer and the page headers claim, and returns the column streams,
// which are compared with the streams that were written.

import (
	"bytes"
	"encoding/hex"
	"encoding/json"
	"fmt"
	"strconv"
	"strings"

	"github.com/parquet-go/parquet-go"
	"github.com/parquet-go/parquet-go/encoding/thrift"
	"github.com/parquet-go/parquet-go/format"

	"verif/harness/core"
	"verif/harness/gen"
)

func main() { core.Main("C02", run, replay) }

type c02Case struct {
	Gen    gen.Case `json:"gen"`
	Copy   int      `json:"copy"`             // 0: written directly; 1: re-written through WriteRowGroup with the same options; 2: with different options
	Layout bool     `json:"layout,omitempty"` // also compare the file with the model writer of File/Layout.v
}

func expected(b *gen.Built, from, to int) (reps, defs, vals [][]string) {
	n := len(b.Root.Leaves())
	reps, defs, vals = make([][]string, n), make([][]string, n), make([][]string, n)
	for _, row := range b.Rows[from:to] {
		for _, v := range row {
			c := v.Column()
			reps[c] = append(reps[c], fmt.Sprintf("%x", v.RepetitionLevel()))
			defs[c] = append(defs[c], fmt.Sprintf("%x", v.DefinitionLevel()))
			if !v.IsNull() {
				vals[c] = append(vals[c], "x"+hex.EncodeToString(v.Bytes()))
			}
		}
	}
	return
}

func joinOr(l []string) string {
	if len(l) == 0 {
		return "_"
	}
	return strings.Join(l, ",")
}

func writeFile(b *gen.Built, cs c02Case) ([]byte, error) {
	var buf bytes.Buffer
	if err := b.Write(&buf); err != nil {
		return nil, err
	}
	if cs.Copy == 0 {
		return buf.Bytes(), nil
	}
	f, err := parquet.OpenFile(bytes.NewReader(buf.Bytes()), int64(buf.Len()))
	if err != nil {
		return nil, fmt.Errorf("reopen: %w", err)
	}
	opts := b.Opts
	if cs.Copy == 2 {
		opts.PageVersion = 3 - opts.PageVersion
		opts.PageBuffer = 300
		if opts.Codec == "snappy" {
			opts.Codec = "none"
		} else {
			opts.Codec = "snappy"
		}
	}
	opts.MaxRows = 0
	var out bytes.Buffer
	w := parquet.NewGenericWriter[any](&out, append([]parquet.WriterOption{b.Schema}, opts.WriterOptions(b.Root)...)...)
	for _, rg := range f.RowGroups() {
		if _, err := w.WriteRowGroup(rg); err != nil {
			return nil, fmt.Errorf("WriteRowGroup: %w", err)
		}
	}
	if err := w.Close(); err != nil {
		return nil, fmt.Errorf("close copy: %w", err)
	}
	return out.Bytes(), nil
}

func check(c *core.Ctx, cs c02Case) (nontrivial bool, bucket string) {
	b := cs.Gen.Build()
	bucket = fmt.Sprintf("copy%d/v%d/%s", cs.Copy, b.Opts.PageVersion, b.Opts.Codec)
	var data []byte
	var werr error
	p := func() (p string) {
		defer func() {
			if r := recover(); r != nil {
				p = fmt.Sprint(r)
			}
		}()
		data, werr = writeFile(b, cs)
		return ""
	}()
	if p != "" {
		c.Violation("write-panic", "writer panicked: "+core.Trunc(p, 300)+" schema "+b.Root.Text(), cs)
		return false, bucket
	}
	if werr != nil {
		return false, "rejected:" + core.Trunc(werr.Error(), 50)
	}
	if !c.HasOracle() {
		return len(b.Rows) >= 2, bucket
	}
	ans := c.Ask("c02.verify x" + hex.EncodeToString(data))
	if ans == "UNPARSEABLE" || strings.HasPrefix(ans, "ERR") {
		c.Violation("spec-decoder-rejects", fmt.Sprintf("the specification decoder cannot parse the file (%s); schema %s options %+v", ans, b.Root.Text(), b.Opts), cs)
		return true, bucket
	}
	parts := strings.SplitN(ans, " ", 2)
	if parts[0] != "_" {
		c.Violation("inconsistent:"+parts[0], fmt.Sprintf("what the footer / page headers claim does not match the bytes: %s; schema %s options %+v", parts[0], b.Root.Text(), b.Opts), cs)
		return true, bucket
	}
	from := 0
	groups := []string{}
	if len(parts) > 1 && parts[1] != "_" {
		groups = strings.Split(parts[1], "|")
	}
	for gi, g := range groups {
		hdr := strings.SplitN(g, "#", 2)
		var nrows int
		fmt.Sscanf(hdr[0], "%d", &nrows)
		to := from + nrows
		if to > len(b.Rows) {
			c.Violation("row-count", fmt.Sprintf("row group %d: rows %d..%d exceed the %d rows written", gi, from, to, len(b.Rows)), cs)
			return true, bucket
		}
		reps, defs, vals := expected(b, from, to)
		chunks := strings.Split(hdr[1], ";")
		if len(chunks) != len(reps) {
			c.Violation("column-count", fmt.Sprintf("row group %d has %d column chunks, schema has %d leaves", gi, len(chunks), len(reps)), cs)
			return true, bucket
		}
		for ci, ch := range chunks {
			f := map[string]string{}
			for _, kv := range strings.Split(ch, "/") {
				if i := strings.IndexByte(kv, '='); i > 0 {
					f[kv[:i]] = kv[i+1:]
				}
			}
			leaf := b.Root.Leaves()[ci]
			if f["R"] != joinOr(reps[ci]) {
				c.Violation("decoded-repetition-levels-differ", fmt.Sprintf("row group %d column %d (%s): the specification decoder recovers repetition levels %s, written %s", gi, ci, leaf.Text(), core.Trunc(f["R"], 200), core.Trunc(joinOr(reps[ci]), 200)), cs)
				return true, bucket
			}
			if f["D"] != joinOr(defs[ci]) {
				c.Violation("decoded-definition-levels-differ", fmt.Sprintf("row group %d column %d (%s): definition levels %s, written %s", gi, ci, leaf.Text(), core.Trunc(f["D"], 200), core.Trunc(joinOr(defs[ci]), 200)), cs)
				return true, bucket
			}
			if f["V"] != joinOr(vals[ci]) {
				c.Violation("decoded-values-differ", fmt.Sprintf("row group %d column %d (%s, page encodings %s): values recovered by the specification decoder differ from the values written", gi, ci, leaf.Text(), f["E"]), cs)
				return true, bucket
			}
		}
		from = to
	}
	if from != len(b.Rows) {
		c.Violation("row-count", fmt.Sprintf("the file holds %d rows, %d were written", from, len(b.Rows)), cs)
		return true, bucket
	}
	if cs.Layout {
		// the thrift reader of the specification decoder is quadratic in the footer length: very large footers are left out
		if flen := int(uint32(data[len(data)-8]) | uint32(data[len(data)-7])<<8 | uint32(data[len(data)-6])<<16 | uint32(data[len(data)-5])<<24); flen > c.N(24000, 60000) {
			bucket += "/layout-skipped-large-footer"
		} else {
			bucket += "/" + layoutCheck(c, cs, b, data, groups)
		}
	}
	return len(b.Rows) >= 2, bucket
}

// ---- layout: the model writer of coq/theories/File/Layout.v against the bytes of the file ----
//
// The page structure of the file (raw page headers, bodies, rows per data page as the
// specification decoder counted them, bloom filter and column index sections) and the footer
// (for the fields that are not offsets / sizes / counts) are handed to the model writer
// `layout`, whose offset accounting mirrors writer.go and is proved to produce files whose
// recorded offsets and sizes describe the bytes (C02_layout_sound_*).  The model's file must
// be the library's file, byte for byte.

type region struct {
	name     string
	from, to int64
}

func decodeHeader(b []byte) (*format.PageHeader, int, error) {
	h := new(format.PageHeader)
	pr := new(thrift.CompactProtocol).NewReaderFromBytes(b)
	if err := thrift.NewDecoder(pr).Decode(h); err != nil {
		return nil, 0, err
	}
	return h, pr.BytesRead(), nil
}

func sliceOf(data []byte, off, n int64) ([]byte, bool) {
	if off < 0 || n < 0 || off+n > int64(len(data)) {
		return nil, false
	}
	return data[off : off+n], true
}

// accounted lists every offset / size / count of the metadata that the writer derives from the pages.
func accounted(f *parquet.File) []string {
	md := f.Metadata()
	out := []string{fmt.Sprintf("FileMetaData.NumRows=%d", md.NumRows)}
	for gi, g := range md.RowGroups {
		p := fmt.Sprintf("RowGroup[%d].", gi)
		out = append(out, fmt.Sprintf("%sFileOffset=%d", p, g.FileOffset), fmt.Sprintf("%sTotalByteSize=%d", p, g.TotalByteSize),
			fmt.Sprintf("%sTotalCompressedSize=%d", p, g.TotalCompressedSize), fmt.Sprintf("%sNumRows=%d", p, g.NumRows), fmt.Sprintf("%sOrdinal=%d", p, g.Ordinal))
		for ci, cc := range g.Columns {
			q := fmt.Sprintf("%sColumn[%d].", p, ci)
			m := cc.MetaData
			out = append(out, fmt.Sprintf("%sFileOffset=%d", q, cc.FileOffset), fmt.Sprintf("%sNumValues=%d", q, m.NumValues),
				fmt.Sprintf("%sTotalUncompressedSize=%d", q, m.TotalUncompressedSize), fmt.Sprintf("%sTotalCompressedSize=%d", q, m.TotalCompressedSize),
				fmt.Sprintf("%sDataPageOffset=%d", q, m.DataPageOffset), fmt.Sprintf("%sDictionaryPageOffset=%d", q, m.DictionaryPageOffset),
				fmt.Sprintf("%sBloomFilterOffset=%d", q, m.BloomFilterOffset), fmt.Sprintf("%sBloomFilterLength=%d", q, m.BloomFilterLength),
				fmt.Sprintf("%sOffsetIndexOffset=%d", q, cc.OffsetIndexOffset), fmt.Sprintf("%sOffsetIndexLength=%d", q, cc.OffsetIndexLength),
				fmt.Sprintf("%sColumnIndexOffset=%d", q, cc.ColumnIndexOffset), fmt.Sprintf("%sColumnIndexLength=%d", q, cc.ColumnIndexLength))
		}
	}
	ncols := 0
	if len(md.RowGroups) > 0 {
		ncols = len(md.RowGroups[0].Columns)
	}
	for i, oi := range f.OffsetIndexes() {
		for j, l := range oi.PageLocations {
			q := "?"
			if ncols > 0 {
				q = fmt.Sprintf("RowGroup[%d].Column[%d].", i/ncols, i%ncols)
			}
			out = append(out, fmt.Sprintf("%sPageLocation[%d].Offset=%d", q, j, l.Offset), fmt.Sprintf("%sPageLocation[%d].CompressedPageSize=%d", q, j, l.CompressedPageSize),
				fmt.Sprintf("%sPageLocation[%d].FirstRowIndex=%d", q, j, l.FirstRowIndex))
		}
	}
	return out
}

func layoutCheck(c *core.Ctx, cs c02Case, b *gen.Built, data []byte, groups []string) string {
	f, err := parquet.OpenFile(bytes.NewReader(data), int64(len(data)))
	if err != nil {
		c.Violation("library-cannot-reopen", "the library cannot open the file it wrote: "+core.Trunc(err.Error(), 200), cs)
		return "layout:unopened"
	}
	md := f.Metadata()
	flen := int64(uint32(data[len(data)-8]) | uint32(data[len(data)-7])<<8 | uint32(data[len(data)-6])<<16 | uint32(data[len(data)-5])<<24)
	footerStart := int64(len(data)) - 8 - flen
	regions := []region{{"magic", 0, 4}, {"footer (FileMetaData)", footerStart, footerStart + flen}, {"footer length", footerStart + flen, footerStart + flen + 4}, {"trailing magic", int64(len(data)) - 4, int64(len(data))}}
	if len(groups) != len(md.RowGroups) {
		c.Mismatch("corr:C02.layout_walk", b.Root.Text(), fmt.Sprintf("%d row groups", len(md.RowGroups)), fmt.Sprintf("%d row groups decoded", len(groups)), cs)
		return "layout:walk"
	}
	var gtoks []string
	for gi, g := range md.RowGroups {
		hdr := strings.SplitN(groups[gi], "#", 2)
		chunks := strings.Split(hdr[1], ";")
		var ctoks []string
		for ci, cc := range g.Columns {
			m := cc.MetaData
			fields := map[string]string{}
			for _, kv := range strings.Split(chunks[ci], "/") {
				if i := strings.IndexByte(kv, '='); i > 0 {
					fields[kv[:i]] = kv[i+1:]
				}
			}
			var reps, nvals []string
			if fields["R"] != "_" {
				reps = strings.Split(fields["R"], ",")
			}
			if fields["N"] != "" {
				nvals = strings.Split(fields["N"], ",")
			}
			start := m.DataPageOffset
			if m.DictionaryPageOffset > 0 && m.DictionaryPageOffset < start {
				start = m.DictionaryPageOffset
			}
			end := start + m.TotalCompressedSize
			pos, dataPage, repAt := start, 0, 0
			var ptoks []string
			for pos < end {
				win, ok := sliceOf(data, pos, end-pos)
				if !ok {
					c.Mismatch("corr:C02.layout_walk", b.Root.Text(), fmt.Sprintf("chunk %d/%d spans %d..%d of %d bytes", gi, ci, start, end, len(data)), "", cs)
					return "layout:walk"
				}
				h, hlen, err := decodeHeader(win)
				if err != nil || int64(hlen)+int64(h.CompressedPageSize) > end-pos || h.CompressedPageSize < 0 {
					c.Mismatch("corr:C02.layout_walk", b.Root.Text(), fmt.Sprintf("chunk %d/%d: page header at %d unreadable by the library's thrift decoder (%v)", gi, ci, pos, err), "", cs)
					return "layout:walk"
				}
				body := win[hlen : hlen+int(h.CompressedPageSize)]
				rows := 0
				if h.Type != format.DictionaryPage {
					if dataPage >= len(nvals) {
						c.Mismatch("corr:C02.layout_walk", b.Root.Text(), fmt.Sprintf("chunk %d/%d: more data pages than the specification decoder found", gi, ci), "", cs)
						return "layout:walk"
					}
					n, _ := strconv.Atoi(nvals[dataPage])
					for k := repAt; k < repAt+n && k < len(reps); k++ {
						if reps[k] == "0" {
							rows++
						}
					}
					repAt += n
					dataPage++
				}
				regions = append(regions, region{fmt.Sprintf("row group %d column %d page at %d: header", gi, ci, pos), pos, pos + int64(hlen)},
					region{fmt.Sprintf("row group %d column %d page at %d: body", gi, ci, pos), pos + int64(hlen), pos + int64(hlen) + int64(h.CompressedPageSize)})
				ptoks = append(ptoks, fmt.Sprintf("x%s:x%s:%x", hex.EncodeToString(win[:hlen]), hex.EncodeToString(body), rows))
				pos += int64(hlen) + int64(h.CompressedPageSize)
			}
			var bloom, cindex []byte
			if m.BloomFilterOffset > 0 {
				bloom, _ = sliceOf(data, m.BloomFilterOffset, int64(m.BloomFilterLength))
				regions = append(regions, region{fmt.Sprintf("row group %d column %d bloom filter", gi, ci), m.BloomFilterOffset, m.BloomFilterOffset + int64(m.BloomFilterLength)})
			}
			if cc.ColumnIndexOffset > 0 {
				cindex, _ = sliceOf(data, cc.ColumnIndexOffset, int64(cc.ColumnIndexLength))
				regions = append(regions, region{fmt.Sprintf("row group %d column %d column index", gi, ci), cc.ColumnIndexOffset, cc.ColumnIndexOffset + int64(cc.ColumnIndexLength)})
			}
			regions = append(regions, region{fmt.Sprintf("row group %d column %d offset index", gi, ci), cc.OffsetIndexOffset, cc.OffsetIndexOffset + int64(cc.OffsetIndexLength)})
			ctoks = append(ctoks, fmt.Sprintf("x%s/x%s/%s", hex.EncodeToString(bloom), hex.EncodeToString(cindex), joinSep(ptoks, "+")))
		}
		gtoks = append(gtoks, strings.Join(ctoks, ";"))
	}
	ans := c.Ask("c02.layout x" + hex.EncodeToString(data[footerStart:footerStart+flen]) + " " + joinSep(gtoks, "|"))
	parts := strings.Split(ans, " ")
	if len(parts) != 2 || !strings.HasPrefix(parts[0], "x") {
		c.Mismatch("corr:C02.layout_model", b.Root.Text(), "", core.Trunc(ans, 200), cs)
		return "layout:model-error"
	}
	model, _ := hex.DecodeString(parts[0][1:])
	verdict := "layout-theorems-apply"
	if parts[1] != "1" {
		verdict = "layout-side-conditions-not-met"
	}
	if bytes.Equal(model, data) {
		return verdict
	}
	// not byte-identical: name what differs
	if mf, err := parquet.OpenFile(bytes.NewReader(model), int64(len(model))); err == nil {
		am, al := accounted(mf), accounted(f)
		for i := 0; i < len(am) && i < len(al); i++ {
			if am[i] != al[i] {
				name := al[i][:strings.IndexByte(al[i], '=')]
				short := name[strings.LastIndexByte(name, '.')+1:]
				c.Violation("layout:"+short, fmt.Sprintf("the file records %s but the offset accounting of the writer (model File/Layout.v, whose recorded offsets and sizes are proved to describe the bytes) gives %s for the same pages; schema %s options %+v", al[i], am[i], b.Root.Text(), b.Opts), cs)
				return "layout:differs"
			}
		}
		if len(am) != len(al) {
			c.Violation("layout:structure", fmt.Sprintf("the file records %d offsets/sizes/counts, the model %d; schema %s", len(al), len(am), b.Root.Text()), cs)
			return "layout:differs"
		}
	}
	at := 0
	for at < len(model) && at < len(data) && model[at] == data[at] {
		at++
	}
	where := "between the sections the metadata describes (gap or overlap)"
	for _, r := range regions {
		if int64(at) >= r.from && int64(at) < r.to {
			where = r.name
			break
		}
	}
	lo, hi := at-8, at+24
	if lo < 0 {
		lo = 0
	}
	clip := func(x []byte) string {
		h := hi
		if h > len(x) {
			h = len(x)
		}
		if lo > h {
			return ""
		}
		return hex.EncodeToString(x[lo:h])
	}
	c.Mismatch("corr:C02.layout_bytes", fmt.Sprintf("%s; first difference at byte %d in: %s (file %d bytes, model %d bytes)", b.Root.Text(), at, where, len(data), len(model)), clip(data), clip(model), cs)
	return "layout:differs"
}

func joinSep(l []string, sep string) string {
	if len(l) == 0 {
		return "_"
	}
	return strings.Join(l, sep)
}

func runCase(c *core.Ctx, cs c02Case, sample bool) {
	// the silent first run decides whether shrinking is needed; when nothing fails its result is the result
	var nontrivial bool
	var bucket string
	if c.Probe(func() { nontrivial, bucket = check(c, cs) }) {
		for cs.Gen.NRows > 1 {
			t := cs
			t.Gen.NRows = cs.Gen.NRows / 2
			if c.Probe(func() { check(c, t) }) {
				cs = t
			} else {
				break
			}
		}
		for cs.Gen.NRows > 1 {
			t := cs
			t.Gen.NRows--
			if c.Probe(func() { check(c, t) }) {
				cs = t
			} else {
				break
			}
		}
		nontrivial, bucket = check(c, cs)
	}
	key, _ := json.Marshal(cs)
	c.Case(bucket, string(key), nontrivial)
	if sample {
		b := cs.Gen.Build()
		c.Sample(map[string]any{"case": cs, "schema": b.Root.Text(), "options": b.Opts})
	}
}

func run(c *core.Ctx) {
	c.Res.Rule = "files written from generated schemas / value trees / options / Write-Flush histories (see C01), directly or re-written through Writer.WriteRowGroup with equal or different options (copy, re-encode paths); codecs UNCOMPRESSED and SNAPPY (the codecs the Gallina decoder implements). Each file's raw bytes go to the extracted specification decoder, which must (1) parse them, (2) find every claimed offset, size, count, checksum, encoding list and row boundary consistent with the bytes (discrepancy codes), (3) return, per row group and column, exactly the repetition levels, definition levels and values that were written. (4) Layout: the page structure observed in the file (raw page headers and bodies found by walking each chunk with the library's thrift decoder, rows per data page as counted by the specification decoder, bloom filter / column index sections, and the footer for the fields that are not offsets, sizes or counts) is given to the model writer File/Layout.v (offset accounting of writer.go; C02_layout_sound_*: its recorded offsets and sizes provably describe its bytes), which must reproduce the library's file byte for byte; a differing offset / size / count of the metadata is the property failing (layout:<field>), any other byte difference a model mismatch; the bucket suffix says whether the decidable hypothesis file_ok of the layout theorems held for the file (footers above 24 kB are left out in the quick tier: the Gallina thrift reader is quadratic). Non-trivial = at least 2 rows; distinct by the JSON of the case."
	n := c.N(250, 4000)
	for i := 0; i < n; i++ {
		cs := c02Case{Gen: gen.Case{Seed: c.Seed*999983 + int64(i), NRows: []int{0, 1, 5, 40, 130, 300}[c.Rng.Intn(6)], MaxDepth: 1 + c.Rng.Intn(3), MaxFields: 1 + c.Rng.Intn(5), Codecs: []string{"none", "snappy"}, NullBias: c.Rng.Intn(8)}}
		switch c.Rng.Intn(5) {
		case 0:
			cs.Copy = 1
		case 1:
			cs.Copy = 2
		}
		cs.Layout = true
		runCase(c, cs, i < 3)
	}
	// thrift: decode(encode) on the footers is exercised by every file; additionally the
	// re-encoding of every decoded footer must reproduce the bytes Go wrote
	for i := 0; i < c.N(40, 400); i++ {
		cs := gen.Case{Seed: c.Seed*31337 + int64(i), NRows: 20, MaxDepth: 2, MaxFields: 4, Codecs: []string{"none"}, NullBias: 3}
		b := cs.Build()
		var buf bytes.Buffer
		if err := b.Write(&buf); err != nil {
			continue
		}
		data := buf.Bytes()
		flen := int(uint32(data[len(data)-8]) | uint32(data[len(data)-7])<<8 | uint32(data[len(data)-6])<<16 | uint32(data[len(data)-5])<<24)
		footer := data[len(data)-8-flen : len(data)-8]
		if c.HasOracle() {
			ans := c.Ask("c02.thrift_roundtrip x" + hex.EncodeToString(footer))
			if ans != "x"+hex.EncodeToString(footer)+" x" {
				c.Mismatch("corr:C02.thrift_footer_reencode", b.Root.Text(), "x"+hex.EncodeToString(footer), ans, cs)
			}
		}
		c.Case("thrift-footer", fmt.Sprint(cs.Seed), true)
	}
}

func replay(c *core.Ctx, raw json.RawMessage) {
	var cs c02Case
	if err := json.Unmarshal(raw, &cs); err != nil {
		c.Note("replay does not hold a C02 case")
		return
	}
	runCase(c, cs, true)
}
