module verif/harness

go 1.24.9

require (
	github.com/google/uuid v1.6.0
	github.com/parquet-go/parquet-go v0.0.0
	github.com/twpayne/go-geom v1.6.1
)

require (
	github.com/andybalholm/brotli v1.1.1 // indirect
	github.com/klauspost/compress v1.17.9 // indirect
	github.com/parquet-go/bitpack v1.0.3 // indirect
	github.com/parquet-go/jsonlite v1.5.5 // indirect
	github.com/pierrec/lz4/v4 v4.1.21 // indirect
	golang.org/x/sys v0.38.0 // indirect
	google.golang.org/protobuf v1.34.2 // indirect
)

replace github.com/parquet-go/parquet-go => /repo
