package main

// REFERENCE-TYPE destinations of logical-type columns ("ref" files).
//
// What a typed read hands out for a column is a Go value of the type of the
// destination field.  For the columns of c16Rec / c16DynS that value is a
// string, a []byte, a pointer or a slice / map of strings the library itself
// allocates.  This family adds the columns whose Go value is built by a
// decoder of its own, into a destination of reference type:
//
//   - JSON columns (`json` tag) read into a map, a slice, a struct, a pointer,
//     an interface, a slice of maps, json.RawMessage, an optional map
//     (encoding/json fills what it finds at the destination: were the library
//     to hand it the caller's field, maps and backing arrays of an earlier call
//     would be written to);
//   - a VARIANT column (`variant` tag) read into an interface (maps, lists,
//     strings and byte slices built from the metadata / value bytes of the page),
//     and one read into a raw variant struct {Metadata, Value []byte} (the
//     stored bytes as they are);
//   - lists of byte slices, nested lists, lists of pointers, a repeated byte
//     slice, maps whose values are byte slices / lists / groups, an optional
//     group with slices, a list of groups.
//
// The number of elements of every list, map and document goes up AND down from
// one row to the next (c16RefN), and map keys overlap between neighbouring rows,
// so that a destination filled by an earlier call has both too little and
// enough room for the row of a later call, and a map that is kept shows keys of
// the earlier row.  The files are read into c16RefRec through every typed
// reader kind, into new destinations and into the destination of the previous
// call (the usual read loop), see c16RefCorpus.

import (
	"encoding/json"
	"fmt"
	"math/rand"

	"github.com/parquet-go/parquet-go"
	"github.com/parquet-go/parquet-go/variant"

	"verif/harness/core"
)

type c16RefDoc struct {
	A string            `json:"a"`
	N []string          `json:"n,omitempty"`
	P *c16RefDoc        `json:"p,omitempty"`
	M map[string]string `json:"m,omitempty"`
}

type c16RefItem struct {
	Name string   `parquet:"name"`
	Blob []byte   `parquet:"blob"`
	Tags []string `parquet:"tags,list"`
}

type c16RefRec struct {
	ID int64                 `parquet:"id"`
	JM map[string]int        `parquet:"jm,json"`
	JS []int                 `parquet:"js,json"`
	JD c16RefDoc             `parquet:"jd,json"`
	JP *c16RefDoc            `parquet:"jp,json"`
	JA any                   `parquet:"ja,json"`
	JL []map[string]string   `parquet:"jl,json"`
	JR json.RawMessage       `parquet:"jr,json"`
	JO map[string][]string   `parquet:"jo,json,optional"`
	LB [][]byte              `parquet:"lb,list"`
	LL [][]string            `parquet:"ll,list"`
	LP []*string             `parquet:"lp,list"`
	RB [][]byte              `parquet:"rb"`
	MB map[string][]byte     `parquet:"mb"`
	ML map[string][]string   `parquet:"ml"`
	MI map[string]c16RefItem `parquet:"mi"`
	PI *c16RefItem           `parquet:"pi,optional"`
	LI []c16RefItem          `parquet:"li,list"`
	VA any                   `parquet:"va,variant"`
	VR c16RefRaw             `parquet:"vr,variant"`
}

// c16RefRaw: a raw variant struct, the destination that receives the encoded
// metadata and value of a VARIANT group as they are stored.
type c16RefRaw struct {
	Metadata []byte
	Value    []byte
}

var c16RefSchema = parquet.SchemaOf(c16RefRec{})

var c16RefLens = [...]int{3, 1, 0, 2, 4, 1, 0, 3, 2}

// c16RefN: the number of elements of collection j of row i.  i advances by 5
// (mod 9) through c16RefLens: 3 1 0 2 4 1 0 3 2 read with step 5 is
// 3 1 2 0 2 1 3 4 0 - up and down, with repeats.
func c16RefN(salt, i, j int) int {
	return c16RefLens[(i*5+j*3+salt)%len(c16RefLens)]
}

func c16RefKey(i, j int) string { return fmt.Sprintf("k%d", (i+j)%4) }

func c16RefMake(salt, i int) c16RefRec {
	txt := func(j int) string { return c16DynText(salt, i, j) }
	strs := func(j, n int) []string {
		var out []string
		for x := 0; x < n; x++ {
			out = append(out, txt(j+x))
		}
		return out
	}
	r := c16RefRec{ID: int64(i)}

	r.JM = map[string]int{"row": i}
	for x := 0; x < c16RefN(salt, i, 0); x++ {
		r.JM[c16RefKey(i, x)] = i*10 + x
	}
	r.JS = []int{}
	for x := 0; x < c16RefN(salt, i, 1); x++ {
		r.JS = append(r.JS, i*100+x)
	}
	r.JD = c16RefDoc{A: txt(0), N: strs(60, c16RefN(salt, i, 2))}
	if n := c16RefN(salt, i, 3); n > 0 {
		r.JD.M = map[string]string{}
		for x := 0; x < n; x++ {
			r.JD.M[c16RefKey(i, x)] = txt(64 + x)
		}
	}
	if i%3 != 1 {
		r.JD.P = &c16RefDoc{A: txt(1)}
	}
	if i%4 != 2 {
		r.JP = &c16RefDoc{A: txt(2), N: strs(68, c16RefN(salt, i, 4))}
		if i%2 == 0 {
			r.JP.P = &c16RefDoc{A: txt(3), M: map[string]string{c16RefKey(i, 0): txt(4)}}
		}
	}
	switch i % 4 {
	case 0:
		m := map[string]any{"t": true}
		for x := 0; x < c16RefN(salt, i, 5); x++ {
			m[c16RefKey(i, x)] = txt(72 + x)
		}
		r.JA = m
	case 1:
		l := []any{}
		for x := 0; x < c16RefN(salt, i, 5); x++ {
			l = append(l, txt(72+x))
		}
		r.JA = append(l, map[string]any{"in": txt(5)}, nil)
	case 2:
		r.JA = []any{txt(5)}
	default:
		// (a nil interface in this REQUIRED column is deconstructed to a null value the
		// file cannot hold, and a Go string is taken for JSON text: not this property)
		r.JA = true
	}
	r.JL = []map[string]string{}
	for x := 0; x < c16RefN(salt, i, 6); x++ {
		r.JL = append(r.JL, map[string]string{c16RefKey(i, x): txt(76 + x), "x": txt(80 + x)})
	}
	raw, _ := json.Marshal(map[string]any{"raw": txt(6), "l": strs(84, c16RefN(salt, i, 7))})
	r.JR = raw
	if n := c16RefN(salt, i, 8); n > 0 {
		r.JO = map[string][]string{}
		for x := 0; x < n; x++ {
			r.JO[c16RefKey(i, x)] = strs(88+x, 1+x%2)
		}
	}

	for x := 0; x < c16RefN(salt, i, 9); x++ {
		r.LB = append(r.LB, []byte(txt(92+x)))
	}
	for x := 0; x < c16RefN(salt, i, 10); x++ {
		r.LL = append(r.LL, strs(96+2*x, 1+(i+x)%2))
	}
	for x := 0; x < c16RefN(salt, i, 11); x++ {
		if (i+x)%3 == 0 {
			r.LP = append(r.LP, nil)
			continue
		}
		s := txt(104 + x)
		r.LP = append(r.LP, &s)
	}
	for x := 0; x < c16RefN(salt, i, 12); x++ {
		r.RB = append(r.RB, []byte(txt(108+x)))
	}
	if n := c16RefN(salt, i, 13); n > 0 {
		r.MB = map[string][]byte{}
		for x := 0; x < n; x++ {
			r.MB[c16RefKey(i, x)] = []byte(txt(112 + x))
		}
	}
	if n := c16RefN(salt, i, 14); n > 0 {
		r.ML = map[string][]string{}
		for x := 0; x < n; x++ {
			r.ML[c16RefKey(i, x)] = strs(116+2*x, 1+(i+x)%2)
		}
	}
	item := func(j, n int) c16RefItem {
		return c16RefItem{Name: txt(j), Blob: []byte(txt(j + 1)), Tags: strs(j+2, n)}
	}
	if n := c16RefN(salt, i, 15); n > 0 {
		r.MI = map[string]c16RefItem{}
		for x := 0; x < n; x++ {
			r.MI[c16RefKey(i, x)] = item(124+4*x, (i+x)%3)
		}
	}
	if i%3 != 2 {
		it := item(140, c16RefN(salt, i, 16))
		r.PI = &it
	}
	for x := 0; x < c16RefN(salt, i, 17); x++ {
		r.LI = append(r.LI, item(144+4*x, (i+x)%3))
	}

	switch i % 5 {
	case 0, 1:
		m := map[string]any{"s": txt(7), "b": []byte(txt(8)), "t": i%2 == 0, "n": int64(i)}
		l := []any{}
		for x := 0; x < c16RefN(salt, i, 18); x++ {
			l = append(l, txt(160+x))
		}
		m["l"] = l
		r.VA = m
	case 2:
		l := []any{}
		for x := 0; x < c16RefN(salt, i, 18); x++ {
			l = append(l, map[string]any{c16RefKey(i, x): txt(160 + x)})
		}
		r.VA = append(l, []byte(txt(9)))
	case 3:
		r.VA = txt(7)
	}
	var rv any = txt(10)
	// (objects of one key: the dictionary of a variant object of several keys is
	// built in the order Go iterates the map, the encoding would differ from call to call)
	switch i % 3 {
	case 0:
		rv = map[string]any{c16RefKey(i, 0): []any{txt(10), int64(i), i%2 == 0}}
	case 2:
		rv = []any{txt(10), map[string]any{c16RefKey(i, 1): txt(11)}, int64(i)}
	}
	if m, v, err := variant.Marshal(rv); err == nil {
		r.VR = c16RefRaw{Metadata: m, Value: v}
	} else {
		panic("variant.Marshal: " + err.Error())
	}
	return r
}

// c16RefSpec: a ref file with the writer options of the typed files.
func c16RefSpec(rng *rand.Rand, rows int) c16FileSpec {
	s := c16TypedSpec(rng, rows)
	s.Typed, s.Ref = false, true
	return s
}

// c16RefCorpus: the usual read loop (the same destination passed to every call,
// what the earlier calls filled kept by the caller) over ref files, for every
// typed reader kind, with batch sizes that put rows with more and with fewer
// elements into every destination slot; then the same file through the row
// readers.
func c16RefCorpus(c *core.Ctx, refs []c16FileSpec) {
	if len(refs) == 0 {
		return
	}
	n := 0
	for _, kind := range []string{"generic", "reader", "whole"} {
		for rep := 0; rep < 2; rep++ {
			spec := refs[n%len(refs)]
			n++
			cs := &c16HistCase{Part: "hist", ChurnSeed: int64(11000 + n), Workers: 2 * (n % 2),
				Readers: []c16ReaderSpec{{File: spec, Kind: kind, Async: kind != "whole" && rep == 1}, {File: spec, Kind: "rows"}},
				Ops: []c16Op{{Tok: "t0", N: 5}, {Tok: "t0", N: 5, Reuse: true}, {Tok: "x"}, {Tok: "t0", N: 3, Reuse: true}, {Tok: "t0", N: 5, Reuse: true},
					{Tok: "g"}, {Tok: "r1", N: 17}, {Tok: "r0", N: 2}, {Tok: "k0"}, {Tok: "t0", N: 2, Reuse: true}, {Tok: "t0", N: 5, Reuse: true}, {Tok: "x"},
					{Tok: "s0", K: 1}, {Tok: "t0", N: 5, Reuse: true}, {Tok: "k1"}, {Tok: "r1", N: 64}, {Tok: "x"},
					{Tok: "z0"}, {Tok: "t0", N: 17}, {Tok: "t0", N: 17, Reuse: true}, {Tok: "t0", N: 17, Reuse: true}, {Tok: "c0"}, {Tok: "x"}}}
			if kind == "whole" {
				cs.Ops = []c16Op{{Tok: "t0", N: 0}, {Tok: "x"}, {Tok: "r1", N: 64}, {Tok: "t0", N: 1}, {Tok: "g"}, {Tok: "k1"}, {Tok: "t0", N: 0}, {Tok: "x"}}
			}
			c16RunHist(c, cs, "held/reference-destinations")
			if n == 1 {
				c.Sample(cs)
			}
		}
	}
}
