package main

// Destination TYPES of typed reads.
//
// What a typed read hands out depends on the Go type the caller reads into:
// Schema.Reconstruct fills structs field by field, allocates pointers, slices
// and maps, and for maps / interfaces standing for parquet groups decides
// whether the destination's present map is filled, replaced or re-used.  The
// files of c16Rec rows are read into c16Rec only; this file adds
//
//   - a second record family ("dyn" files) written with an EXPLICIT schema made
//     of parquet.Group nodes (fields looked up by name), holding nested groups,
//     an optional group, a repeated group, a LIST, a MAP, a repeated leaf and a
//     dictionary column, and
//   - the destination types such a file can be read into: the struct the rows
//     came from (c16DynS), a struct whose groups are Go maps (c16DynM:
//     map[string]any, map[string]string, []map[string]string, []any), a struct
//     of `any` fields (c16DynI), rows of type map[string]any (maps pre-made by
//     the caller, or nil) and rows of type any; files of c16Rec rows are also
//     read into map[string]any / any with the schema of the file,
//
// through GenericReader[T].Read, Reader.Read(&v) and parquet.Read[T], into new
// destinations or into the destination of the previous call whose elements the
// caller kept (the usual `n, _ := r.Read(batch); all = append(all, batch[:n]...)`).
//
// What the file holds is known as Go structs; values of every destination type
// are compared with it through a normal form (c16Norm) that only looks at
// names and content.

import (
	"bytes"
	"fmt"
	"reflect"
	"sort"
	"strconv"
	"strings"

	"github.com/parquet-go/parquet-go"

	"verif/harness/core"
)

type c16DynGeo struct {
	Lat string `parquet:"lat"`
	Lon []byte `parquet:"lon"`
}

type c16DynA struct {
	City string    `parquet:"city"`
	Geo  c16DynGeo `parquet:"geo"`
	Zip  *string   `parquet:"zip"`
}

type c16DynG struct {
	X string  `parquet:"x"`
	Y *string `parquet:"y"`
}

type c16DynR struct {
	K string  `parquet:"k"`
	V *string `parquet:"v"`
}

// c16DynS: the rows of a dyn file as Go structs (fields in the order of the
// schema: parquet.Group sorts by name).
type c16DynS struct {
	A    c16DynA           `parquet:"a"`
	G    *c16DynG          `parquet:"g"`
	ID   int64             `parquet:"id"`
	L    []string          `parquet:"l"`
	M    map[string]string `parquet:"m"`
	Name string            `parquet:"name"`
	R    []c16DynR         `parquet:"r"`
	T    []string          `parquet:"t"`
	U    string            `parquet:"u"`
}

// c16DynM: the groups are Go maps.
type c16DynM struct {
	A    map[string]any      `parquet:"a"`
	G    map[string]string   `parquet:"g"`
	ID   int64               `parquet:"id"`
	L    []any               `parquet:"l"`
	M    map[string]any      `parquet:"m"`
	Name string              `parquet:"name"`
	R    []map[string]string `parquet:"r"`
	T    []any               `parquet:"t"`
	U    any                 `parquet:"u"`
}

// c16DynI: every field is an interface.
type c16DynI struct {
	A    any `parquet:"a"`
	G    any `parquet:"g"`
	ID   any `parquet:"id"`
	L    any `parquet:"l"`
	M    any `parquet:"m"`
	Name any `parquet:"name"`
	R    any `parquet:"r"`
	T    any `parquet:"t"`
	U    any `parquet:"u"`
}

var c16DynSchema = parquet.NewSchema("c16Dyn", parquet.Group{
	"a": parquet.Group{
		"city": parquet.String(),
		"geo":  parquet.Group{"lat": parquet.String(), "lon": parquet.Leaf(parquet.ByteArrayType)},
		"zip":  parquet.Optional(parquet.String()),
	},
	"g":    parquet.Optional(parquet.Group{"x": parquet.String(), "y": parquet.Optional(parquet.String())}),
	"id":   parquet.Int(64),
	"l":    parquet.List(parquet.String()),
	"m":    parquet.Map(parquet.String(), parquet.String()),
	"name": parquet.String(),
	"r":    parquet.Repeated(parquet.Group{"k": parquet.String(), "v": parquet.Optional(parquet.String())}),
	"t":    parquet.Repeated(parquet.String()),
	"u":    parquet.Encoded(parquet.String(), &parquet.RLEDictionary),
})

// c16DynText: text cell j of row i, never empty (so that a null and an empty
// string cannot be taken for each other in any destination type).
func c16DynText(salt, i, j int) string {
	b := c16Text(salt, i, j)
	if len(b) == 0 {
		return fmt.Sprintf("%d.%d.%d!", salt, i, j)
	}
	return string(b)
}

func c16DynMake(salt, i int) c16DynS {
	r := c16DynS{ID: int64(i)}
	r.A.City = c16DynText(salt, i, 0)
	r.A.Geo.Lat = c16DynText(salt, i, 1)
	r.A.Geo.Lon = []byte(c16DynText(salt, i, 2))
	if i%3 != 1 {
		s := c16DynText(salt, i, 3)
		r.A.Zip = &s
	}
	if i%4 != 2 {
		r.G = &c16DynG{X: c16DynText(salt, i, 4)}
		if i%2 == 0 {
			s := c16DynText(salt, i, 5)
			r.G.Y = &s
		}
	}
	for j := 0; j < i%4; j++ {
		r.L = append(r.L, c16DynText(salt, i, 10+j))
	}
	if nm := i % 3; nm > 0 {
		r.M = make(map[string]string, nm)
		for j := 0; j < nm; j++ {
			r.M[fmt.Sprintf("k%d", (j+i)%3)] = c16DynText(salt, i, 20+j)
		}
	}
	r.Name = c16DynText(salt, i, 6)
	for j := 0; j < (i+1)%3; j++ {
		e := c16DynR{K: c16DynText(salt, i, 30+j)}
		if (i+j)%2 == 0 {
			s := c16DynText(salt, i, 40+j)
			e.V = &s
		}
		r.R = append(r.R, e)
	}
	for j := 0; j < (i+2)%3; j++ {
		r.T = append(r.T, c16DynText(salt, i, 50+j))
	}
	// mostly a handful of distinct values, now and then one of its own: the
	// dictionary of the column grows slowly
	if i%7 == 3 {
		r.U = c16DynText(salt, i, 7)
	} else {
		r.U = fmt.Sprintf("dyn-%d-%d-%s", salt, i%5, strings.Repeat("u", (i%5)*9))
	}
	return r
}

// ---------------------------------------------------------------------------
// normal form: names and content only
// ---------------------------------------------------------------------------

func c16FieldName(f reflect.StructField) string {
	if tag := f.Tag.Get("parquet"); tag != "" {
		if name, _, _ := strings.Cut(tag, ","); name != "" {
			return name
		}
	}
	return f.Name
}

// c16Norm renders a Go value of any destination type: structs and maps as
// {name:value,...} sorted by name, strings / byte slices / byte arrays as quoted
// text, lists as [...]; nil pointers, nil interfaces, empty strings, empty
// lists and empty maps all as "~" (a null group, a null leaf, an empty list).
func c16Norm(w *bytes.Buffer, v reflect.Value) {
	if !v.IsValid() {
		w.WriteByte('~')
		return
	}
	switch v.Kind() {
	case reflect.Interface, reflect.Ptr:
		if v.IsNil() {
			w.WriteByte('~')
			return
		}
		c16Norm(w, v.Elem())
	case reflect.Struct:
		type nf struct {
			name string
			v    reflect.Value
		}
		fields := make([]nf, 0, v.NumField())
		for i := 0; i < v.NumField(); i++ {
			fields = append(fields, nf{c16FieldName(v.Type().Field(i)), v.Field(i)})
		}
		sort.Slice(fields, func(i, j int) bool { return fields[i].name < fields[j].name })
		w.WriteByte('{')
		for _, f := range fields {
			w.WriteString(f.name)
			w.WriteByte(':')
			c16Norm(w, f.v)
			w.WriteByte(',')
		}
		w.WriteByte('}')
	case reflect.Map:
		if v.Len() == 0 {
			w.WriteByte('~')
			return
		}
		keys := v.MapKeys()
		sort.Slice(keys, func(i, j int) bool { return fmt.Sprint(keys[i]) < fmt.Sprint(keys[j]) })
		w.WriteByte('{')
		for _, k := range keys {
			fmt.Fprint(w, k)
			w.WriteByte(':')
			c16Norm(w, v.MapIndex(k))
			w.WriteByte(',')
		}
		w.WriteByte('}')
	case reflect.String:
		if v.Len() == 0 {
			w.WriteByte('~')
			return
		}
		w.WriteString(strconv.Quote(v.String()))
	case reflect.Slice, reflect.Array:
		if v.Len() == 0 {
			w.WriteByte('~')
			return
		}
		if v.Type().Elem().Kind() == reflect.Uint8 {
			b := make([]byte, v.Len())
			reflect.Copy(reflect.ValueOf(b), v)
			w.WriteString(strconv.Quote(string(b)))
			return
		}
		w.WriteByte('[')
		for i := 0; i < v.Len(); i++ {
			c16Norm(w, v.Index(i))
			w.WriteByte(',')
		}
		w.WriteByte(']')
	case reflect.Bool:
		fmt.Fprint(w, v.Bool())
	case reflect.Int, reflect.Int8, reflect.Int16, reflect.Int32, reflect.Int64:
		fmt.Fprint(w, v.Int())
	case reflect.Uint, reflect.Uint8, reflect.Uint16, reflect.Uint32, reflect.Uint64:
		fmt.Fprint(w, v.Uint())
	case reflect.Float32, reflect.Float64:
		fmt.Fprintf(w, "%x", v.Float())
	default:
		fmt.Fprintf(w, "?%s", v.Kind())
	}
}

func c16NormOf(x any) string {
	var w bytes.Buffer
	v := reflect.ValueOf(x)
	if v.Kind() == reflect.Ptr && !v.IsNil() {
		v = v.Elem()
	}
	c16Norm(&w, v)
	return w.String()
}

// c16DiffText shows where two normal forms differ.
func c16DiffText(want, got string) string {
	i := 0
	for i < len(want) && i < len(got) && want[i] == got[i] {
		i++
	}
	lo := i - 40
	if lo < 0 {
		lo = 0
	}
	cut := func(s string) string {
		hi := i + 60
		if hi > len(s) {
			hi = len(s)
		}
		if lo > len(s) {
			return ""
		}
		return s[lo:hi]
	}
	return fmt.Sprintf("normal forms differ at byte %d: the file holds ...%s, read ...%s", i, cut(want), cut(got))
}

// ---------------------------------------------------------------------------
// typed access with destination type T
// ---------------------------------------------------------------------------

// c16TypedAccess is what a history needs from the typed side of a reader; the
// batches it returns are slices []T of shallow copies of what the calls filled
// (what the caller keeps when it appends batch[:n] to its result).
type c16TypedAccess interface {
	openGeneric(f *parquet.File) parquet.Rows                    // NewGenericReader[T]
	reset()                                                      // GenericReader[T].Reset
	readGeneric(n int, reuse bool) (any, error)                  // GenericReader[T].Read
	readEach(rd *parquet.Reader, n int, reuse bool) (any, error) // Reader.Read(&v), n times
	readWhole(b *c16Built, fromDisk bool) (any, error)           // parquet.Read[T] / ReadFile[T]
	readerOptions() []parquet.ReaderOption
}

type c16Dst[T any] struct {
	mk     func() T // how the caller prepares a destination element (nil: the zero value)
	schema *parquet.Schema
	gr     *parquet.GenericReader[T]
	last   []T
	one    *T
}

func (d *c16Dst[T]) readerOptions() []parquet.ReaderOption {
	if d.schema != nil {
		return []parquet.ReaderOption{d.schema}
	}
	return nil
}

func (d *c16Dst[T]) openGeneric(f *parquet.File) parquet.Rows {
	d.gr = parquet.NewGenericReader[T](f, d.readerOptions()...)
	return d.gr
}

func (d *c16Dst[T]) reset() { d.gr.Reset() }

func (d *c16Dst[T]) fresh(n int) []T {
	dst := make([]T, n)
	if d.mk != nil {
		for i := range dst {
			dst[i] = d.mk()
		}
	}
	return dst
}

func (d *c16Dst[T]) readGeneric(n int, reuse bool) (any, error) {
	var dst []T
	if reuse && len(d.last) > 0 {
		// the destination of the previous call as it is: the caller kept
		// shallow copies of its elements
		dst = d.last
		if len(dst) > n {
			dst = dst[:n]
		}
	} else {
		dst = d.fresh(n)
	}
	cnt, err := d.gr.Read(dst)
	if cnt < 0 || cnt > len(dst) {
		return []T(nil), fmt.Errorf("Read returned %d for %d rows", cnt, len(dst))
	}
	d.last = dst
	return append([]T(nil), dst[:cnt]...), err
}

func (d *c16Dst[T]) readEach(rd *parquet.Reader, n int, reuse bool) (any, error) {
	var held []T
	for j := 0; j < n; j++ {
		var p *T
		if reuse {
			if d.one == nil {
				d.one = &d.fresh(1)[0]
			}
			p = d.one
		} else {
			p = &d.fresh(1)[0]
		}
		if err := rd.Read(p); err != nil {
			return held, err
		}
		held = append(held, *p)
	}
	return held, nil
}

func (d *c16Dst[T]) readWhole(b *c16Built, fromDisk bool) (any, error) {
	if fromDisk {
		p, err := b.filePath()
		if err != nil {
			return []T(nil), err
		}
		return parquet.ReadFile[T](p, d.readerOptions()...)
	}
	return parquet.Read[T](bytes.NewReader(b.data), int64(len(b.data)), d.readerOptions()...)
}

// c16Dsts: the destination types by file family.  "" is the struct type the
// rows of the file came from, read with SchemaOf(T) (no explicit schema).
var c16DstsTyped = []string{"", "map", "nilmap", "any"}
var c16DstsDyn = []string{"struct", "mapfields", "anyfields", "map", "nilmap", "any"}

// c16DstsOf lists the destination types a reader kind can read a file into
// (Reader.Read derives the schema from struct types itself: only the structs
// SchemaOf understands; the others go with the explicit schema).
func c16DstsOf(spec c16FileSpec, kind string) []string {
	switch {
	case spec.Typed:
		return c16DstsTyped
	case spec.Ref:
		return []string{""}
	case spec.Kinds:
		return []string{"map", "nilmap", "any"}
	case spec.Dyn && kind == "reader":
		return []string{"map", "nilmap", "any"}
	case spec.Dyn:
		return c16DstsDyn
	}
	return nil
}

func c16NewDst(b *c16Built, f *parquet.File, dst string) (c16TypedAccess, error) {
	premade := func() map[string]any { return map[string]any{} }
	// the explicit schema: the one the file was written with, or for files
	// written from c16Rec the schema found in the file
	explicit := c16DynSchema
	if b.spec.Kinds {
		explicit = c16KindsSchema
	}
	if b.spec.Typed {
		if f == nil {
			var err error
			if f, err = b.open(false); err != nil {
				return nil, err
			}
		}
		explicit = f.Schema()
	}
	switch {
	case b.spec.Typed && dst == "":
		return &c16Dst[c16Rec]{}, nil
	case b.spec.Ref && dst == "":
		return &c16Dst[c16RefRec]{}, nil
	case b.spec.Dyn && dst == "struct":
		return &c16Dst[c16DynS]{schema: explicit}, nil
	case b.spec.Dyn && dst == "mapfields":
		return &c16Dst[c16DynM]{schema: explicit}, nil
	case b.spec.Dyn && dst == "anyfields":
		return &c16Dst[c16DynI]{schema: explicit}, nil
	case (b.spec.Typed || b.spec.Dyn || b.spec.Kinds) && dst == "map":
		return &c16Dst[map[string]any]{schema: explicit, mk: premade}, nil
	case (b.spec.Typed || b.spec.Dyn || b.spec.Kinds) && dst == "nilmap":
		return &c16Dst[map[string]any]{schema: explicit}, nil
	case (b.spec.Typed || b.spec.Dyn || b.spec.Kinds) && dst == "any":
		return &c16Dst[any]{schema: explicit}, nil
	}
	return nil, fmt.Errorf("a file of this family cannot be read into destination type %q", dst)
}

// expectNorm: the normal form of row i of the file.
func (b *c16Built) expectNorm(i int) string {
	switch {
	case b.spec.Dyn:
		r := c16DynMake(b.spec.Salt, i)
		return c16NormOf(&r)
	case b.spec.Ref:
		r := c16RefMake(b.spec.Salt, i)
		return c16NormOf(&r)
	case b.spec.Kinds:
		return c16NormOf(c16KindsGo(b.spec.Salt, i))
	}
	r := c16MakeRec(b.spec.Salt, i, false, 2)
	return c16NormOf(&r)
}

// c16HoldGo holds a batch []T of Go values: full canonical form (content,
// addresses, map identities, spare capacity) of every element.
func c16HoldGo(id int, reader int, batch any) *c16Held {
	v := reflect.ValueOf(batch)
	h := &c16Held{id: id, kind: 't', reader: reader, diff: c16DiffBytes}
	h.canon = func() [][]byte {
		out := make([][]byte, v.Len())
		for i := range out {
			out[i] = c16CanonGo(v.Index(i).Addr().Interface(), true)
		}
		return out
	}
	h.snap = h.canon()
	h.ba = v.Len() * 6
	// what the values said when they were handed out, for the report
	norms := make([]string, v.Len())
	for i := range norms {
		norms[i] = c16NormOf(v.Index(i).Addr().Interface())
	}
	h.diffAt = func(i int, before, after []byte) string {
		if now := c16NormOf(v.Index(i).Addr().Interface()); now != norms[i] {
			was := norms[i]
			x := 0
			for x < len(was) && x < len(now) && was[x] == now[x] {
				x++
			}
			if x > 60 {
				// the first difference, with what leads to it
				was, now = "..."+was[x-60:], "..."+now[x-60:]
			}
			return fmt.Sprintf("a %s whose content was %s when handed out now reads %s", v.Type().Elem(), core.Trunc(was, 160), core.Trunc(now, 160))
		}
		return "same content, other memory: " + c16DiffBytes(before, after)
	}
	return h
}
