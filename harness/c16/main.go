// C16: values handed to the caller are not changed by later library activity.
//
// Part 1 (held values): files with known content are read through several
// readers at once by a random history of operations (ReadRows, typed reads,
// Row.Clone, SeekToRow, Close, pool churn by unrelated readers/writers in this
// and other goroutines, GC).  Every batch handed to the caller is compared with
// the known file content right away, deep-snapshotted, and compared with the
// snapshot after every later operation for as long as the property entitles
// the caller to it.  The pools poison what is returned to them
// (parquet.VerifSetPoison), so a dangling alias shows deterministically.
// Pages (Values / Dictionary until Release) and Buffers (re-read after more
// writes, after sort) are covered by their own case kinds.
//
// Part 2 (caller slices): the rows and slices passed to every write entry point
// are checksummed (contents, order, addresses, spare capacity filled with a
// sentinel) before the call and after the call, sort, Flush, Close and churn.
package main

import (
	"bytes"
	"encoding/binary"
	"encoding/hex"
	"encoding/json"
	"fmt"
	"io"
	"math/rand"
	"os"
	"path/filepath"
	"reflect"
	"runtime"
	"runtime/debug"
	"sort"
	"strings"
	"sync"
	"time"
	"unsafe"

	"github.com/parquet-go/parquet-go"
	"github.com/parquet-go/parquet-go/encoding"

	"verif/harness/core"
	"verif/harness/gen"
)

func main() { core.Main("C16", runC16, replayC16) }

const c16Sentinel = 0x5A

// ---------------------------------------------------------------------------
// known content: typed records
// ---------------------------------------------------------------------------

type c16Inner struct {
	Name string  `parquet:"name"`
	Tag  *string `parquet:"tag,optional"`
	Blob []byte  `parquet:"blob"`
}

type c16Rec struct {
	ID int64             `parquet:"id"`
	S  string            `parquet:"s"`
	D  string            `parquet:"d,dict"`
	B  []byte            `parquet:"b"`
	F  [16]byte          `parquet:"f"`
	G  [5]byte           `parquet:"g"`
	U  [16]byte          `parquet:"u,uuid"`
	O  *string           `parquet:"o,optional"`
	L  []string          `parquet:"l,list"`
	In c16Inner          `parquet:"in"`
	M  map[string]string `parquet:"m"`
}

var c16Schema = parquet.SchemaOf(c16Rec{})

var c16Lens = [...]int{0, 1, 3, 7, 12, 40, 300, 5, 9, 0, 64}

// c16Text is the content of text cell j of row i of the file with the given
// salt: lower-case letters with an identifying prefix, lengths 0..300.
func c16Text(salt, i, j int) []byte {
	n := c16Lens[(i*7+j*3+salt)%len(c16Lens)]
	b := make([]byte, n)
	x := uint32(salt*1000003 + i*8191 + j*131 + 7)
	for k := range b {
		x = x*1664525 + 1013904223
		b[k] = 'a' + byte((x>>24)%26)
	}
	copy(b, fmt.Sprintf("%d.%d.%d|", salt, i, j))
	return b
}

// c16Spare returns b with spare capacity filled with the sentinel.
func c16Spare(b []byte, extra int) []byte {
	out := make([]byte, len(b), len(b)+extra)
	copy(out, b)
	tail := out[len(b):cap(out)]
	for i := range tail {
		tail[i] = c16Sentinel
	}
	return out
}

// c16MakeRec builds row i of salt.  With spare, every slice has spare capacity
// holding sentinels.  maxMap bounds the number of map entries.
func c16MakeRec(salt, i int, spare bool, maxMap int) c16Rec {
	r := c16Rec{ID: int64(i)}
	r.S = string(c16Text(salt, i, 0))
	r.D = fmt.Sprintf("dict-%d-%d-%s", salt, i%5, strings.Repeat("d", (i%5)*9))
	r.B = c16Text(salt, i, 1)
	copy(r.F[:], c16Text(salt+1, i*3+6, 2)) // length 300 cell: always fills
	for k := range r.F {
		if r.F[k] == 0 {
			r.F[k] = byte('A' + k)
		}
	}
	copy(r.G[:], fmt.Sprintf("%05d", i%100000))
	copy(r.U[:], fmt.Sprintf("u%07d%08d", salt%10000000, i))
	if i%3 != 1 {
		s := string(c16Text(salt, i, 3))
		r.O = &s
	}
	nl := i % 4
	if nl > 0 || spare {
		ex := 0
		if spare {
			ex = 3
		}
		r.L = make([]string, nl, nl+ex)
		for j := 0; j < nl; j++ {
			r.L[j] = string(c16Text(salt, i, 10+j))
		}
		tail := r.L[nl:cap(r.L)]
		for j := range tail {
			tail[j] = "SENTINEL-" + strings.Repeat("Z", j+1)
		}
	}
	r.In.Name = string(c16Text(salt, i, 4))
	if i%4 != 2 {
		s := string(c16Text(salt, i, 5))
		r.In.Tag = &s
	}
	r.In.Blob = c16Text(salt, i, 6)
	nm := i % 3
	if nm > maxMap {
		nm = maxMap
	}
	if nm > 0 {
		r.M = make(map[string]string, nm)
		for j := nm - 1; j >= 0; j-- {
			r.M[fmt.Sprintf("k%d", (j+i)%3)] = string(c16Text(salt, i, 20+j))
		}
	}
	if spare {
		r.B = c16Spare(r.B, 8)
		r.In.Blob = c16Spare(r.In.Blob, 5)
	}
	return r
}

// ---------------------------------------------------------------------------
// canonical forms
// ---------------------------------------------------------------------------

func c16U32(dst []byte, n int) []byte { return binary.LittleEndian.AppendUint32(dst, uint32(n)) }
func c16U64(dst []byte, n uint64) []byte { return binary.LittleEndian.AppendUint64(dst, n) }

const c16ValHeader = 9

// c16AppendValue appends kind, levels, column, length and payload of v.
func c16AppendValue(dst []byte, v parquet.Value) []byte {
	dst = append(dst, byte(int8(v.Kind())), byte(v.RepetitionLevel()), byte(v.DefinitionLevel()))
	dst = binary.LittleEndian.AppendUint16(dst, uint16(int16(v.Column())))
	var p []byte
	switch {
	case v.IsNull():
	case v.Kind() == parquet.ByteArray || v.Kind() == parquet.FixedLenByteArray:
		p = v.ByteArray()
	default:
		p = v.Bytes()
	}
	dst = c16U32(dst, len(p))
	return append(dst, p...)
}

func c16CanonRow(row parquet.Row) []byte {
	n := 0
	for _, v := range row {
		n += c16ValHeader + 8
		if k := v.Kind(); k == parquet.ByteArray || k == parquet.FixedLenByteArray {
			n += len(v.ByteArray())
		}
	}
	dst := make([]byte, 0, n)
	for _, v := range row {
		dst = c16AppendValue(dst, v)
	}
	return dst
}

// c16SplitCanon cuts the canonical form of a row into its values.
func c16SplitCanon(b []byte) [][]byte {
	var out [][]byte
	for len(b) >= c16ValHeader {
		n := c16ValHeader + int(binary.LittleEndian.Uint32(b[5:9]))
		if n > len(b) {
			n = len(b)
		}
		out = append(out, b[:n])
		b = b[n:]
	}
	return out
}

func c16DescribeValue(b []byte) string {
	if len(b) < c16ValHeader {
		return "x" + hex.EncodeToString(b)
	}
	return fmt.Sprintf("kind=%d rep=%d def=%d col=%d len=%d bytes=x%s", int8(b[0]), b[1], b[2],
		int16(binary.LittleEndian.Uint16(b[3:5])), binary.LittleEndian.Uint32(b[5:9]), core.Trunc(hex.EncodeToString(b[c16ValHeader:]), 160))
}

// c16DiffRow describes the first differing value of two canonical rows.
func c16DiffRow(before, after []byte) string {
	x, y := c16SplitCanon(before), c16SplitCanon(after)
	for i := 0; i < len(x) || i < len(y); i++ {
		switch {
		case i >= len(x):
			return fmt.Sprintf("value %d: absent before, now {%s}", i, c16DescribeValue(y[i]))
		case i >= len(y):
			return fmt.Sprintf("value %d: was {%s}, absent now", i, c16DescribeValue(x[i]))
		case !bytes.Equal(x[i], y[i]):
			return fmt.Sprintf("value %d: was {%s}, now {%s}", i, c16DescribeValue(x[i]), c16DescribeValue(y[i]))
		}
	}
	return "no difference"
}

func c16CountByteArrays(row parquet.Row) int {
	n := 0
	for _, v := range row {
		if k := v.Kind(); (k == parquet.ByteArray || k == parquet.FixedLenByteArray) && len(v.ByteArray()) > 0 {
			n++
		}
	}
	return n
}

// c16Canon renders Go values.  In full mode addresses, nil-ness and the spare
// capacity of slices are part of the form (the caller's memory must stay
// exactly as it is); in content mode nil and empty are the same.
type c16Canon struct {
	buf  []byte
	full bool
}

func (w *c16Canon) val(v reflect.Value) {
	switch v.Kind() {
	case reflect.Struct:
		for i := 0; i < v.NumField(); i++ {
			w.val(v.Field(i))
		}
	case reflect.String:
		s := v.String()
		w.buf = c16U32(w.buf, len(s))
		if w.full && len(s) > 0 {
			w.buf = c16U64(w.buf, uint64(uintptr(unsafe.Pointer(unsafe.StringData(s)))))
		}
		w.buf = append(w.buf, s...)
	case reflect.Slice:
		n := v.Len()
		w.buf = c16U32(w.buf, n)
		if w.full {
			if v.IsNil() {
				w.buf = append(w.buf, 0)
			} else {
				w.buf = append(w.buf, 1)
			}
			w.buf = c16U32(w.buf, v.Cap())
			w.buf = c16U64(w.buf, uint64(v.Pointer()))
			n = v.Cap()
			v = v.Slice(0, n)
		}
		if v.Type().Elem().Kind() == reflect.Uint8 {
			w.buf = append(w.buf, v.Bytes()...)
			return
		}
		for i := 0; i < n; i++ {
			w.val(v.Index(i))
		}
	case reflect.Array:
		for i := 0; i < v.Len(); i++ {
			w.val(v.Index(i))
		}
	case reflect.Ptr:
		if v.IsNil() {
			w.buf = append(w.buf, 0)
			return
		}
		w.buf = append(w.buf, 1)
		if w.full {
			w.buf = c16U64(w.buf, uint64(v.Pointer()))
		}
		w.val(v.Elem())
	case reflect.Map:
		w.buf = c16U32(w.buf, v.Len())
		if w.full {
			w.buf = c16U64(w.buf, uint64(v.Pointer()))
		}
		type kv struct{ k, v []byte }
		var pairs []kv
		it := v.MapRange()
		for it.Next() {
			kw := c16Canon{full: w.full}
			kw.val(it.Key())
			vw := c16Canon{full: w.full}
			vw.val(it.Value())
			pairs = append(pairs, kv{kw.buf, vw.buf})
		}
		sort.Slice(pairs, func(i, j int) bool { return bytes.Compare(pairs[i].k, pairs[j].k) < 0 })
		for _, p := range pairs {
			w.buf = append(append(w.buf, p.k...), p.v...)
		}
	case reflect.Interface:
		if v.IsNil() {
			w.buf = append(w.buf, 0)
			return
		}
		w.buf = append(append(w.buf, 1), v.Elem().Type().String()...)
		w.val(v.Elem())
	case reflect.Bool:
		if v.Bool() {
			w.buf = append(w.buf, 1)
		} else {
			w.buf = append(w.buf, 0)
		}
	case reflect.Int, reflect.Int8, reflect.Int16, reflect.Int32, reflect.Int64:
		w.buf = c16U64(w.buf, uint64(v.Int()))
	case reflect.Uint, reflect.Uint8, reflect.Uint16, reflect.Uint32, reflect.Uint64, reflect.Uintptr:
		w.buf = c16U64(w.buf, v.Uint())
	case reflect.Float32, reflect.Float64:
		w.buf = append(w.buf, fmt.Sprintf("%x", v.Float())...)
	default:
		w.buf = append(w.buf, '?')
	}
}

func c16CanonGo(x any, full bool) []byte {
	w := c16Canon{full: full}
	v := reflect.ValueOf(x)
	if v.Kind() == reflect.Ptr {
		v = v.Elem()
	}
	w.val(v)
	return w.buf
}

// c16DiffBytes shows where two canonical forms differ.
func c16DiffBytes(before, after []byte) string {
	i := 0
	for i < len(before) && i < len(after) && before[i] == after[i] {
		i++
	}
	lo := i - 12
	if lo < 0 {
		lo = 0
	}
	cut := func(b []byte) string {
		hi := i + 36
		if hi > len(b) {
			hi = len(b)
		}
		if lo > len(b) {
			return ""
		}
		return hex.EncodeToString(b[lo:hi])
	}
	return fmt.Sprintf("canonical forms (%d and %d bytes) differ at byte %d: was ...x%s, now ...x%s", len(before), len(after), i, cut(before), cut(after))
}

// c16CanonRowsFull renders rows the caller passes to a writer: the whole
// capacity of the outer slice and of every row, and the address of every
// byte array.
func c16CanonRowsFull(rows []parquet.Row) []byte {
	var dst []byte
	dst = c16U32(dst, len(rows))
	dst = c16U32(dst, cap(rows))
	dst = c16U64(dst, uint64(uintptr(unsafe.Pointer(unsafe.SliceData(rows)))))
	for _, row := range rows[:cap(rows)] {
		dst = c16U32(dst, len(row))
		dst = c16U32(dst, cap(row))
		dst = c16U64(dst, uint64(uintptr(unsafe.Pointer(unsafe.SliceData(row)))))
		for _, v := range row[:cap(row)] {
			dst = c16AppendValue(dst, v)
			if k := v.Kind(); k == parquet.ByteArray || k == parquet.FixedLenByteArray {
				dst = c16U64(dst, uint64(uintptr(unsafe.Pointer(unsafe.SliceData(v.ByteArray())))))
			}
		}
	}
	return dst
}

var (
	_ = io.EOF
	_ = rand.Int
	_ = os.TempDir
	_ = filepath.Join
	_ = runtime.GC
	_ = debug.FreeOSMemory
	_ sync.Mutex
	_ = time.Now
	_ = json.Marshal
	_ encoding.Encoding
	_ = gen.Req
)

// ---------------------------------------------------------------------------
// files with known content
// ---------------------------------------------------------------------------

var c16Encodings = map[string]encoding.Encoding{
	"plain": &parquet.Plain, "dlba": &parquet.DeltaLengthByteArray, "dba": &parquet.DeltaByteArray, "dict": &parquet.RLEDictionary,
}

var c16CodecNames = []string{"none", "snappy", "gzip", "brotli", "zstd", "lz4"}

// c16FileSpec describes a file reproducibly: a typed file of c16Rec rows
// (salt, rows, byte array encoding, codec, page size, page version, row group
// size) or a generated generic file (gen.Case).
type c16FileSpec struct {
	Typed   bool      `json:"typed"`
	Salt    int       `json:"salt,omitempty"`
	Rows    int       `json:"rows,omitempty"`
	Enc     string    `json:"enc,omitempty"`
	Codec   string    `json:"codec,omitempty"`
	PageBuf int       `json:"page_buffer,omitempty"`
	Version int       `json:"version,omitempty"`
	RGRows  int64     `json:"rg_rows,omitempty"`
	Gen     *gen.Case `json:"gen,omitempty"`
}

func (s c16FileSpec) key() string {
	b, _ := json.Marshal(s)
	return string(b)
}

type c16Built struct {
	spec   c16FileSpec
	data   []byte
	rows   []parquet.Row // expected rows (deep copies owned by the harness)
	exp    [][]byte      // canonical expected rows
	total  int64
	rgRows []int64
	rgOff  []int64
	ncols  int
	baCols int // number of byte array leaf columns
	path   string
	schema *parquet.Schema
}

var (
	c16Files   = map[string]*c16Built{}
	c16FileErr = map[string]error{}
	c16TmpDir  string
)

func c16Build(spec c16FileSpec) (*c16Built, error) {
	key := spec.key()
	if b, ok := c16Files[key]; ok {
		return b, nil
	}
	if err, ok := c16FileErr[key]; ok {
		return nil, err
	}
	b, err := c16BuildNew(spec)
	if err != nil {
		c16FileErr[key] = err
		return nil, err
	}
	c16Files[key] = b
	return b, nil
}

func c16BuildNew(spec c16FileSpec) (b *c16Built, err error) {
	defer func() {
		if r := recover(); r != nil {
			err = fmt.Errorf("panic while writing the file: %v", r)
		}
	}()
	b = &c16Built{spec: spec}
	var buf bytes.Buffer
	if spec.Typed {
		opts := []parquet.WriterOption{parquet.PageBufferSize(spec.PageBuf), parquet.DataPageVersion(spec.Version),
			parquet.Compression(gen.Codecs[spec.Codec])}
		if spec.RGRows > 0 {
			opts = append(opts, parquet.MaxRowsPerRowGroup(spec.RGRows))
		}
		if e, ok := c16Encodings[spec.Enc]; ok {
			opts = append(opts, parquet.DefaultEncodingFor(parquet.ByteArray, e))
			if spec.Enc != "dlba" {
				opts = append(opts, parquet.DefaultEncodingFor(parquet.FixedLenByteArray, e))
			}
		}
		w := parquet.NewGenericWriter[c16Rec](&buf, opts...)
		b.schema = c16Schema
		for i := 0; i < spec.Rows; {
			k := 13
			if i+k > spec.Rows {
				k = spec.Rows - i
			}
			batch := make([]parquet.Row, k)
			for j := range batch {
				rec := c16MakeRec(spec.Salt, i+j, false, 2)
				row := c16Schema.Deconstruct(nil, &rec).Clone()
				b.rows = append(b.rows, row)
				batch[j] = row.Clone()
			}
			if _, err := w.WriteRows(batch); err != nil {
				return nil, err
			}
			i += k
		}
		if err := w.Close(); err != nil {
			return nil, err
		}
	} else {
		g := spec.Gen.Build()
		b.schema = g.Schema
		for _, r := range g.Rows {
			b.rows = append(b.rows, r.Clone())
		}
		if err := g.Write(&buf); err != nil {
			return nil, err
		}
	}
	b.data = buf.Bytes()
	for _, r := range b.rows {
		b.exp = append(b.exp, c16CanonRow(r))
	}
	f, err := parquet.OpenFile(bytes.NewReader(b.data), int64(len(b.data)))
	if err != nil {
		return nil, err
	}
	b.total = f.NumRows()
	if b.total != int64(len(b.rows)) {
		return nil, fmt.Errorf("file has %d rows, %d were written", b.total, len(b.rows))
	}
	off := int64(0)
	for _, rg := range f.RowGroups() {
		b.rgRows = append(b.rgRows, rg.NumRows())
		b.rgOff = append(b.rgOff, off)
		off += rg.NumRows()
	}
	for _, l := range f.Schema().Columns() {
		b.ncols++
		if leaf, ok := f.Schema().Lookup(l...); ok {
			if k := leaf.Node.Type().Kind(); k == parquet.ByteArray || k == parquet.FixedLenByteArray {
				b.baCols++
			}
		}
	}
	return b, nil
}

// c16Path writes the file to disk (for parquet.ReadFile).
func (b *c16Built) filePath() (string, error) {
	if b.path != "" {
		return b.path, nil
	}
	if c16TmpDir == "" {
		d, err := os.MkdirTemp("", "c16files")
		if err != nil {
			return "", err
		}
		c16TmpDir = d
	}
	p := filepath.Join(c16TmpDir, fmt.Sprintf("f%d.parquet", len(c16Files)+rand.Intn(1<<30)))
	if err := os.WriteFile(p, b.data, 0o644); err != nil {
		return "", err
	}
	b.path = p
	return p, nil
}

func (b *c16Built) open(async bool) (*parquet.File, error) {
	var opts []parquet.FileOption
	if async {
		opts = append(opts, parquet.FileReadMode(parquet.ReadModeAsync))
	}
	return parquet.OpenFile(bytes.NewReader(b.data), int64(len(b.data)), opts...)
}

// c16GenSpec searches a generated case whose schema has byte array leaves.
func c16GenSpec(rng *rand.Rand, nrows int) c16FileSpec {
	for {
		cs := gen.Case{Seed: rng.Int63n(1 << 40), NRows: nrows, MaxDepth: 2, MaxFields: 5, Codecs: c16CodecNames, NullBias: 2}
		cfg := gen.Config{Codecs: cs.Codecs, MaxDepth: cs.MaxDepth, MaxFields: cs.MaxFields}
		root := gen.Schema(rand.New(rand.NewSource(cs.Seed)), cfg)
		n := 0
		for _, l := range root.Leaves() {
			switch l.Leaf {
			case "bytes", "string", "flba", "uuid":
				n++
			}
		}
		if n >= 2 {
			return c16FileSpec{Gen: &cs}
		}
	}
}

func c16TypedSpec(rng *rand.Rand, rows int) c16FileSpec {
	s := c16FileSpec{Typed: true, Salt: 1 + rng.Intn(900), Rows: rows/2 + rng.Intn(rows/2+1)}
	s.Enc = []string{"", "plain", "dlba", "dba", "dict"}[rng.Intn(5)]
	s.Codec = c16CodecNames[rng.Intn(len(c16CodecNames))]
	s.PageBuf = []int{64, 200, 512, 1500, 4096}[rng.Intn(5)]
	s.Version = 1 + rng.Intn(2)
	if rng.Intn(3) != 0 {
		s.RGRows = int64(10 + rng.Intn(s.Rows))
	}
	return s
}

// ---------------------------------------------------------------------------
// churn: unrelated activity that takes from and returns to the pools
// ---------------------------------------------------------------------------

type c16ChurnRec struct {
	A string   `parquet:"a"`
	B []byte   `parquet:"b"`
	C [16]byte `parquet:"c"`
	D string   `parquet:"d,dict"`
	E []string `parquet:"e,list"`
	N int64    `parquet:"n"`
}

func c16ChurnRows(rng *rand.Rand, n int) []c16ChurnRec {
	out := make([]c16ChurnRec, n)
	for i := range out {
		fill := func(l int) []byte {
			b := make([]byte, l)
			for k := range b {
				b[k] = 0xC0 | byte(rng.Intn(16))
			}
			return b
		}
		l := []int{0, 3, 17, 90, 400, 2100}[rng.Intn(6)]
		out[i].A = string(fill(l))
		out[i].B = fill(rng.Intn(64))
		copy(out[i].C[:], fill(16))
		out[i].D = string(fill(4 + rng.Intn(3)*20)[:4+rng.Intn(3)])
		for j := rng.Intn(3); j > 0; j-- {
			out[i].E = append(out[i].E, string(fill(rng.Intn(30))))
		}
		out[i].N = rng.Int63()
	}
	return out
}

var c16ChurnFiles [][]byte

func c16ChurnInit() error {
	rng := rand.New(rand.NewSource(99))
	for ci, name := range c16CodecNames {
		var buf bytes.Buffer
		w := parquet.NewGenericWriter[c16ChurnRec](&buf, parquet.Compression(gen.Codecs[name]),
			parquet.PageBufferSize([]int{256, 1024, 4096, 700, 9000, 2048}[ci]), parquet.DataPageVersion(1+ci%2), parquet.MaxRowsPerRowGroup(90))
		if _, err := w.Write(c16ChurnRows(rng, 160)); err != nil {
			return err
		}
		if err := w.Close(); err != nil {
			return err
		}
		c16ChurnFiles = append(c16ChurnFiles, buf.Bytes())
	}
	return nil
}

func c16ChurnUnit(rng *rand.Rand) {
	defer func() { _ = recover() }() // churn is not what is being judged
	switch rng.Intn(5) {
	case 0, 1: // read a file fully through row readers
		data := c16ChurnFiles[rng.Intn(len(c16ChurnFiles))]
		f, err := parquet.OpenFile(bytes.NewReader(data), int64(len(data)))
		if err != nil {
			return
		}
		buf := make([]parquet.Row, 1+rng.Intn(80))
		for _, rg := range f.RowGroups() {
			rows := rg.Rows()
			for {
				n, err := rows.ReadRows(buf)
				if err != nil || n == 0 {
					break
				}
			}
			rows.Close()
		}
	case 2: // read pages and release them
		data := c16ChurnFiles[rng.Intn(len(c16ChurnFiles))]
		f, err := parquet.OpenFile(bytes.NewReader(data), int64(len(data)))
		if err != nil {
			return
		}
		vals := make([]parquet.Value, 100)
		for _, rg := range f.RowGroups() {
			for _, cc := range rg.ColumnChunks() {
				pages := cc.Pages()
				for {
					pg, err := pages.ReadPage()
					if err != nil {
						break
					}
					vr := pg.Values()
					for {
						n, err := vr.ReadValues(vals)
						if err != nil || n == 0 {
							break
						}
					}
					parquet.Release(pg)
				}
				pages.Close()
			}
		}
	case 3: // write a new file
		name := c16CodecNames[rng.Intn(len(c16CodecNames))]
		w := parquet.NewGenericWriter[c16ChurnRec](io.Discard, parquet.Compression(gen.Codecs[name]),
			parquet.PageBufferSize(128<<uint(rng.Intn(7))), parquet.DataPageVersion(1+rng.Intn(2)))
		w.Write(c16ChurnRows(rng, 40+rng.Intn(60)))
		if rng.Intn(2) == 0 {
			w.Flush()
			w.Write(c16ChurnRows(rng, 20))
		}
		w.Close()
	default: // fill, sort, read and reset a buffer
		b := parquet.NewGenericBuffer[c16ChurnRec](parquet.SortingRowGroupConfig(parquet.SortingColumns(parquet.Ascending("a"))))
		b.Write(c16ChurnRows(rng, 30+rng.Intn(60)))
		sort.Sort(b)
		rows := b.Rows()
		buf := make([]parquet.Row, 50)
		for {
			n, err := rows.ReadRows(buf)
			if err != nil || n == 0 {
				break
			}
		}
		rows.Close()
		b.Reset()
	}
}

// c16Churn runs churn units in this goroutine and in `workers` others.
func c16Churn(seed int64, workers int) {
	rng := rand.New(rand.NewSource(seed))
	c16ChurnUnit(rng)
	c16ChurnUnit(rng)
	if workers > 0 {
		var wg sync.WaitGroup
		for g := 0; g < workers; g++ {
			wg.Add(1)
			s := rng.Int63()
			go func() {
				defer wg.Done()
				r := rand.New(rand.NewSource(s))
				c16ChurnUnit(r)
				c16ChurnUnit(r)
			}()
		}
		wg.Wait()
		c16ChurnUnit(rng)
	}
}

func c16GC(free bool) {
	runtime.GC()
	runtime.GC()
	if free {
		debug.FreeOSMemory()
	}
}
