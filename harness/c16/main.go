// C16: values handed to the caller are not changed by later library activity.
//
// Part 1 (held values): files with known content are read through several
// readers at once by a random history of operations (ReadRows, typed reads,
// Row.Clone, SeekToRow, Close, pool churn by unrelated readers/writers in this
// and other goroutines, GC).  Every batch handed to the caller is compared with
// the known file content right away, deep-snapshotted, and compared with the
// snapshot after every later operation for as long as the property entitles
// the caller to it.  The pools poison what is returned to them
// (parquet.VerifSetPoison), so a dangling alias shows deterministically.
// Pages (Values / Dictionary until Release), the value-level chunk reader
// (NewColumnChunkValueReader: values until the next call) and Buffers (Buffer,
// GenericBuffer, RowBuffer re-read after more writes, after sort, after Reset
// and new writes) are covered by their own case kinds.
//
// Part 2 (caller slices): the rows and slices passed to every write entry point
// and row writer wrapper (filter, dedupe, transform, multi) are checksummed
// (contents, order, addresses, spare capacity filled with a sentinel) before the
// call and after the call, sort, Flush, Close and churn; the input comes as
// drawn and sorted (repeated rows neighbours).
package main

import (
	"bytes"
	"encoding/binary"
	"encoding/hex"
	"encoding/json"
	"fmt"
	"io"
	"math/rand"
	"os"
	"path/filepath"
	"reflect"
	"runtime"
	"runtime/debug"
	"sort"
	"strconv"
	"strings"
	"sync"
	"time"
	"unsafe"

	"github.com/parquet-go/parquet-go"
	"github.com/parquet-go/parquet-go/encoding"
	"github.com/parquet-go/parquet-go/format"

	"verif/harness/core"
	"verif/harness/gen"
)

func main() { core.Main("C16", runC16, replayC16) }

const c16Sentinel = 0x5A

// ---------------------------------------------------------------------------
// known content: typed records
// ---------------------------------------------------------------------------

type c16Inner struct {
	Name string  `parquet:"name"`
	Tag  *string `parquet:"tag,optional"`
	Blob []byte  `parquet:"blob"`
}

type c16Rec struct {
	ID int64             `parquet:"id"`
	S  string            `parquet:"s"`
	D  string            `parquet:"d,dict"`
	B  []byte            `parquet:"b"`
	F  [16]byte          `parquet:"f"`
	G  [5]byte           `parquet:"g"`
	U  [16]byte          `parquet:"u,uuid"`
	O  *string           `parquet:"o,optional"`
	L  []string          `parquet:"l,list"`
	In c16Inner          `parquet:"in"`
	M  map[string]string `parquet:"m"`
}

var c16Schema = parquet.SchemaOf(c16Rec{})

var c16Lens = [...]int{0, 1, 3, 7, 12, 40, 300, 5, 9, 0, 64}

// c16Text is the content of text cell j of row i of the file with the given
// salt: lower-case letters with an identifying prefix, lengths 0..300.
func c16Text(salt, i, j int) []byte {
	n := c16Lens[(i*7+j*3+salt)%len(c16Lens)]
	b := make([]byte, n)
	x := uint32(salt*1000003 + i*8191 + j*131 + 7)
	for k := range b {
		x = x*1664525 + 1013904223
		b[k] = 'a' + byte((x>>24)%26)
	}
	copy(b, fmt.Sprintf("%d.%d.%d|", salt, i, j))
	return b
}

// c16Spare returns b with spare capacity filled with the sentinel.
func c16Spare(b []byte, extra int) []byte {
	out := make([]byte, len(b), len(b)+extra)
	copy(out, b)
	tail := out[len(b):cap(out)]
	for i := range tail {
		tail[i] = c16Sentinel
	}
	return out
}

// c16MakeRec builds row i of salt.  With spare, every slice has spare capacity
// holding sentinels.  maxMap bounds the number of map entries.
func c16MakeRec(salt, i int, spare bool, maxMap int) c16Rec {
	r := c16Rec{ID: int64(i)}
	r.S = string(c16Text(salt, i, 0))
	r.D = fmt.Sprintf("dict-%d-%d-%s", salt, i%11, strings.Repeat("d", (i%11)*6)) // 11 values, about 460 bytes of dictionary
	r.B = c16Text(salt, i, 1)
	copy(r.F[:], c16Text(salt+1, i*3+6, 2)) // length 300 cell: always fills
	for k := range r.F {
		if r.F[k] == 0 {
			r.F[k] = byte('A' + k)
		}
	}
	copy(r.G[:], fmt.Sprintf("%05d", i%100000))
	copy(r.U[:], fmt.Sprintf("u%07d%08d", salt%10000000, i))
	if i%3 != 1 {
		s := string(c16Text(salt, i, 3))
		r.O = &s
	}
	nl := i % 4
	if nl > 0 || spare {
		ex := 0
		if spare {
			ex = 3
		}
		r.L = make([]string, nl, nl+ex)
		for j := 0; j < nl; j++ {
			r.L[j] = string(c16Text(salt, i, 10+j))
		}
		tail := r.L[nl:cap(r.L)]
		for j := range tail {
			tail[j] = "SENTINEL-" + strings.Repeat("Z", j+1)
		}
	}
	r.In.Name = string(c16Text(salt, i, 4))
	if i%4 != 2 {
		s := string(c16Text(salt, i, 5))
		r.In.Tag = &s
	}
	r.In.Blob = c16Text(salt, i, 6)
	nm := i % 3
	if nm > maxMap {
		nm = maxMap
	}
	if nm > 0 {
		r.M = make(map[string]string, nm)
		for j := nm - 1; j >= 0; j-- {
			r.M[fmt.Sprintf("k%d", (j+i)%3)] = string(c16Text(salt, i, 20+j))
		}
	}
	if spare {
		r.B = c16Spare(r.B, 8)
		r.In.Blob = c16Spare(r.In.Blob, 5)
	}
	return r
}

// ---------------------------------------------------------------------------
// canonical forms
// ---------------------------------------------------------------------------

func c16U32(dst []byte, n int) []byte    { return binary.LittleEndian.AppendUint32(dst, uint32(n)) }
func c16U64(dst []byte, n uint64) []byte { return binary.LittleEndian.AppendUint64(dst, n) }

const c16ValHeader = 9

// c16AppendValue appends kind, levels, column, length and payload of v.
func c16AppendValue(dst []byte, v parquet.Value) []byte {
	dst = append(dst, byte(int8(v.Kind())), byte(v.RepetitionLevel()), byte(v.DefinitionLevel()))
	dst = binary.LittleEndian.AppendUint16(dst, uint16(int16(v.Column())))
	var p []byte
	switch {
	case v.IsNull():
	case v.Kind() == parquet.ByteArray || v.Kind() == parquet.FixedLenByteArray:
		p = v.ByteArray()
	default:
		p = v.Bytes()
	}
	dst = c16U32(dst, len(p))
	return append(dst, p...)
}

func c16CanonRow(row parquet.Row) []byte {
	n := 0
	for _, v := range row {
		n += c16ValHeader + 8
		if k := v.Kind(); k == parquet.ByteArray || k == parquet.FixedLenByteArray {
			n += len(v.ByteArray())
		}
	}
	dst := make([]byte, 0, n)
	for _, v := range row {
		dst = c16AppendValue(dst, v)
	}
	return dst
}

// c16SplitCanon cuts the canonical form of a row into its values.
func c16SplitCanon(b []byte) [][]byte {
	var out [][]byte
	for len(b) >= c16ValHeader {
		n := c16ValHeader + int(binary.LittleEndian.Uint32(b[5:9]))
		if n > len(b) {
			n = len(b)
		}
		out = append(out, b[:n])
		b = b[n:]
	}
	return out
}

func c16DescribeValue(b []byte) string {
	if len(b) < c16ValHeader {
		return "x" + hex.EncodeToString(b)
	}
	return fmt.Sprintf("kind=%d rep=%d def=%d col=%d len=%d bytes=x%s", int8(b[0]), b[1], b[2],
		int16(binary.LittleEndian.Uint16(b[3:5])), binary.LittleEndian.Uint32(b[5:9]), core.Trunc(hex.EncodeToString(b[c16ValHeader:]), 160))
}

// c16DiffRow describes the first differing value of two canonical rows.
func c16DiffRow(before, after []byte) string {
	x, y := c16SplitCanon(before), c16SplitCanon(after)
	for i := 0; i < len(x) || i < len(y); i++ {
		switch {
		case i >= len(x):
			return fmt.Sprintf("value %d: absent before, now {%s}", i, c16DescribeValue(y[i]))
		case i >= len(y):
			return fmt.Sprintf("value %d: was {%s}, absent now", i, c16DescribeValue(x[i]))
		case !bytes.Equal(x[i], y[i]):
			return fmt.Sprintf("value %d: was {%s}, now {%s}", i, c16DescribeValue(x[i]), c16DescribeValue(y[i]))
		}
	}
	return "no difference"
}

func c16CountByteArrays(row parquet.Row) int {
	n := 0
	for _, v := range row {
		if k := v.Kind(); (k == parquet.ByteArray || k == parquet.FixedLenByteArray) && len(v.ByteArray()) > 0 {
			n++
		}
	}
	return n
}

// c16Canon renders Go values.  In full mode addresses, nil-ness and the spare
// capacity of slices are part of the form (the caller's memory must stay
// exactly as it is); in content mode nil and empty are the same.
type c16Canon struct {
	buf  []byte
	full bool
}

func (w *c16Canon) val(v reflect.Value) {
	switch v.Kind() {
	case reflect.Struct:
		for i := 0; i < v.NumField(); i++ {
			w.val(v.Field(i))
		}
	case reflect.String:
		s := v.String()
		w.buf = c16U32(w.buf, len(s))
		if w.full && len(s) > 0 {
			w.buf = c16U64(w.buf, uint64(uintptr(unsafe.Pointer(unsafe.StringData(s)))))
		}
		w.buf = append(w.buf, s...)
	case reflect.Slice:
		n := v.Len()
		w.buf = c16U32(w.buf, n)
		if w.full {
			if v.IsNil() {
				w.buf = append(w.buf, 0)
			} else {
				w.buf = append(w.buf, 1)
			}
			w.buf = c16U32(w.buf, v.Cap())
			w.buf = c16U64(w.buf, uint64(v.Pointer()))
			n = v.Cap()
			v = v.Slice(0, n)
		}
		if v.Type().Elem().Kind() == reflect.Uint8 {
			w.buf = append(w.buf, v.Bytes()...)
			return
		}
		for i := 0; i < n; i++ {
			w.val(v.Index(i))
		}
	case reflect.Array:
		for i := 0; i < v.Len(); i++ {
			w.val(v.Index(i))
		}
	case reflect.Ptr:
		if v.IsNil() {
			w.buf = append(w.buf, 0)
			return
		}
		w.buf = append(w.buf, 1)
		if w.full {
			w.buf = c16U64(w.buf, uint64(v.Pointer()))
		}
		w.val(v.Elem())
	case reflect.Map:
		w.buf = c16U32(w.buf, v.Len())
		if w.full {
			w.buf = c16U64(w.buf, uint64(v.Pointer()))
		}
		type kv struct{ k, v []byte }
		var pairs []kv
		it := v.MapRange()
		for it.Next() {
			kw := c16Canon{full: w.full}
			kw.val(it.Key())
			vw := c16Canon{full: w.full}
			vw.val(it.Value())
			pairs = append(pairs, kv{kw.buf, vw.buf})
		}
		sort.Slice(pairs, func(i, j int) bool { return bytes.Compare(pairs[i].k, pairs[j].k) < 0 })
		for _, p := range pairs {
			w.buf = append(append(w.buf, p.k...), p.v...)
		}
	case reflect.Interface:
		if v.IsNil() {
			w.buf = append(w.buf, 0)
			return
		}
		w.buf = append(append(w.buf, 1), v.Elem().Type().String()...)
		w.val(v.Elem())
	case reflect.Bool:
		if v.Bool() {
			w.buf = append(w.buf, 1)
		} else {
			w.buf = append(w.buf, 0)
		}
	case reflect.Int, reflect.Int8, reflect.Int16, reflect.Int32, reflect.Int64:
		w.buf = c16U64(w.buf, uint64(v.Int()))
	case reflect.Uint, reflect.Uint8, reflect.Uint16, reflect.Uint32, reflect.Uint64, reflect.Uintptr:
		w.buf = c16U64(w.buf, v.Uint())
	case reflect.Float32, reflect.Float64:
		w.buf = append(w.buf, fmt.Sprintf("%x", v.Float())...)
	default:
		w.buf = append(w.buf, '?')
	}
}

func c16CanonGo(x any, full bool) []byte {
	w := c16Canon{full: full}
	v := reflect.ValueOf(x)
	if v.Kind() == reflect.Ptr {
		v = v.Elem()
	}
	w.val(v)
	return w.buf
}

// c16DiffBytes shows where two canonical forms differ.
func c16DiffBytes(before, after []byte) string {
	i := 0
	for i < len(before) && i < len(after) && before[i] == after[i] {
		i++
	}
	lo := i - 12
	if lo < 0 {
		lo = 0
	}
	cut := func(b []byte) string {
		hi := i + 36
		if hi > len(b) {
			hi = len(b)
		}
		if lo > len(b) {
			return ""
		}
		return hex.EncodeToString(b[lo:hi])
	}
	return fmt.Sprintf("canonical forms (%d and %d bytes) differ at byte %d: was ...x%s, now ...x%s", len(before), len(after), i, cut(before), cut(after))
}

// c16CanonRowsFull renders rows the caller passes to a writer: the whole
// capacity of the outer slice and of every row, and the address of every
// byte array.
func c16CanonRowsFull(rows []parquet.Row) []byte {
	var dst []byte
	dst = c16U32(dst, len(rows))
	dst = c16U32(dst, cap(rows))
	dst = c16U64(dst, uint64(uintptr(unsafe.Pointer(unsafe.SliceData(rows)))))
	for _, row := range rows[:cap(rows)] {
		dst = c16U32(dst, len(row))
		dst = c16U32(dst, cap(row))
		dst = c16U64(dst, uint64(uintptr(unsafe.Pointer(unsafe.SliceData(row)))))
		for _, v := range row[:cap(row)] {
			dst = c16AppendValue(dst, v)
			if k := v.Kind(); k == parquet.ByteArray || k == parquet.FixedLenByteArray {
				dst = c16U64(dst, uint64(uintptr(unsafe.Pointer(unsafe.SliceData(v.ByteArray())))))
			}
		}
	}
	return dst
}

// ---------------------------------------------------------------------------
// files with known content
// ---------------------------------------------------------------------------

var c16Encodings = map[string]encoding.Encoding{
	"plain": &parquet.Plain, "dlba": &parquet.DeltaLengthByteArray, "dba": &parquet.DeltaByteArray, "dict": &parquet.RLEDictionary,
}

var c16CodecNames = []string{"none", "snappy", "gzip", "brotli", "zstd", "lz4"}

// c16FileSpec describes a file reproducibly: a typed file of c16Rec rows or a
// file of c16DynS rows written with the explicit schema c16DynSchema (salt,
// rows, and the writer options that shape the pages the readers hand out: byte
// array encoding, codec, page buffer size, data page version, row group size,
// DictionaryMaxBytes), or a generated generic file (gen.Case).
type c16FileSpec struct {
	Typed   bool      `json:"typed"`
	Dyn     bool      `json:"dyn,omitempty"`
	Ref     bool      `json:"ref,omitempty"`   // c16RefRec rows: logical-type columns with reference-type Go values (ref.go)
	Kinds   bool      `json:"kinds,omitempty"` // one sparse optional leaf per physical type and encoding (kinds.go)
	Salt    int       `json:"salt,omitempty"`
	Rows    int       `json:"rows,omitempty"`
	Enc     string    `json:"enc,omitempty"`
	Codec   string    `json:"codec,omitempty"`
	PageBuf int       `json:"page_buffer,omitempty"`
	Version int       `json:"version,omitempty"`
	RGRows  int64     `json:"rg_rows,omitempty"`
	DictMax int64     `json:"dictionary_max_bytes,omitempty"` // > 0: dictionary columns fall back to PLAIN pages once their dictionary is larger
	Gen     *gen.Case `json:"gen,omitempty"`
}

// known: the content of the file is known as Go values (typed reads can be judged).
func (s c16FileSpec) known() bool { return s.Typed || s.Dyn || s.Ref || s.Kinds }

func (s c16FileSpec) key() string {
	b, _ := json.Marshal(s)
	return string(b)
}

type c16Built struct {
	spec   c16FileSpec
	data   []byte
	rows   []parquet.Row // expected rows (deep copies owned by the harness)
	exp    [][]byte      // canonical expected rows
	total  int64
	rgRows []int64
	rgOff  []int64
	ncols  int
	baCols int    // number of byte array leaf columns
	dict   int    // column chunks that have a dictionary page
	mixed  int    // ... of which hold PLAIN data pages too (dictionary -> PLAIN fallback inside the chunk)
	few    c16Few // kinds files: data pages by the number of non-null values
	path   string
	schema *parquet.Schema
}

var (
	c16Files   = map[string]*c16Built{}
	c16FileErr = map[string]error{}
	c16TmpDir  string
)

func c16Build(spec c16FileSpec) (*c16Built, error) {
	key := spec.key()
	if b, ok := c16Files[key]; ok {
		return b, nil
	}
	if err, ok := c16FileErr[key]; ok {
		return nil, err
	}
	b, err := c16BuildNew(spec)
	if err != nil {
		c16FileErr[key] = err
		return nil, err
	}
	c16Files[key] = b
	return b, nil
}

func c16BuildNew(spec c16FileSpec) (b *c16Built, err error) {
	defer func() {
		if r := recover(); r != nil {
			err = fmt.Errorf("panic while writing the file: %v", r)
		}
	}()
	b = &c16Built{spec: spec}
	var buf bytes.Buffer
	if spec.known() {
		opts := []parquet.WriterOption{parquet.PageBufferSize(spec.PageBuf), parquet.DataPageVersion(spec.Version),
			parquet.Compression(gen.Codecs[spec.Codec])}
		if spec.RGRows > 0 {
			opts = append(opts, parquet.MaxRowsPerRowGroup(spec.RGRows))
		}
		if e, ok := c16Encodings[spec.Enc]; ok {
			opts = append(opts, parquet.DefaultEncodingFor(parquet.ByteArray, e))
			if spec.Enc != "dlba" {
				opts = append(opts, parquet.DefaultEncodingFor(parquet.FixedLenByteArray, e))
			}
		}
		if spec.DictMax > 0 {
			opts = append(opts, parquet.DictionaryMaxBytes(spec.DictMax))
		}
		var w interface {
			WriteRows([]parquet.Row) (int, error)
			Close() error
		}
		var mkRow func(i int) parquet.Row
		if spec.Kinds {
			c16KindsInit()
			w = parquet.NewGenericWriter[any](&buf, append(opts, c16KindsSchema)...)
			b.schema = c16KindsSchema
			mkRow = func(i int) parquet.Row { return c16KindsRow(spec.Salt, i) }
		} else if spec.Ref {
			w = parquet.NewGenericWriter[c16RefRec](&buf, opts...)
			b.schema = c16RefSchema
			mkRow = func(i int) parquet.Row {
				rec := c16RefMake(spec.Salt, i)
				return c16RefSchema.Deconstruct(nil, &rec)
			}
		} else if spec.Dyn {
			w = parquet.NewGenericWriter[c16DynS](&buf, append(opts, c16DynSchema)...)
			b.schema = c16DynSchema
			mkRow = func(i int) parquet.Row {
				rec := c16DynMake(spec.Salt, i)
				return c16DynSchema.Deconstruct(nil, &rec)
			}
		} else {
			w = parquet.NewGenericWriter[c16Rec](&buf, opts...)
			b.schema = c16Schema
			mkRow = func(i int) parquet.Row {
				rec := c16MakeRec(spec.Salt, i, false, 2)
				return c16Schema.Deconstruct(nil, &rec)
			}
		}
		for i := 0; i < spec.Rows; {
			k := 13
			if i+k > spec.Rows {
				k = spec.Rows - i
			}
			batch := make([]parquet.Row, k)
			for j := range batch {
				row := mkRow(i + j).Clone()
				b.rows = append(b.rows, row)
				batch[j] = row.Clone()
			}
			if _, err := w.WriteRows(batch); err != nil {
				return nil, err
			}
			i += k
		}
		if err := w.Close(); err != nil {
			return nil, err
		}
	} else {
		g := spec.Gen.Build()
		b.schema = g.Schema
		for _, r := range g.Rows {
			b.rows = append(b.rows, r.Clone())
		}
		if err := g.Write(&buf); err != nil {
			return nil, err
		}
	}
	b.data = buf.Bytes()
	for _, r := range b.rows {
		b.exp = append(b.exp, c16CanonRow(r))
	}
	f, err := parquet.OpenFile(bytes.NewReader(b.data), int64(len(b.data)))
	if err != nil {
		return nil, err
	}
	b.total = f.NumRows()
	if b.total != int64(len(b.rows)) {
		return nil, fmt.Errorf("file has %d rows, %d were written", b.total, len(b.rows))
	}
	off := int64(0)
	for _, rg := range f.RowGroups() {
		b.rgRows = append(b.rgRows, rg.NumRows())
		b.rgOff = append(b.rgOff, off)
		off += rg.NumRows()
	}
	for _, rg := range f.Metadata().RowGroups {
		for _, col := range rg.Columns {
			if col.MetaData.DictionaryPageOffset <= 0 {
				continue
			}
			b.dict++
			for _, es := range col.MetaData.EncodingStats {
				if (es.PageType == format.DataPage || es.PageType == format.DataPageV2) && es.Encoding == format.Plain && es.Count > 0 {
					b.mixed++
					break
				}
			}
		}
	}
	if spec.Kinds {
		if b.few, err = c16CountFew(f); err != nil {
			return nil, fmt.Errorf("reading the pages of the file: %w", err)
		}
	}
	for _, l := range f.Schema().Columns() {
		b.ncols++
		if leaf, ok := f.Schema().Lookup(l...); ok {
			if k := leaf.Node.Type().Kind(); k == parquet.ByteArray || k == parquet.FixedLenByteArray {
				b.baCols++
			}
		}
	}
	return b, nil
}

// c16Path writes the file to disk (for parquet.ReadFile).
func (b *c16Built) filePath() (string, error) {
	if b.path != "" {
		return b.path, nil
	}
	if c16TmpDir == "" {
		d, err := os.MkdirTemp("", "c16files")
		if err != nil {
			return "", err
		}
		c16TmpDir = d
	}
	p := filepath.Join(c16TmpDir, fmt.Sprintf("f%d.parquet", len(c16Files)+rand.Intn(1<<30)))
	if err := os.WriteFile(p, b.data, 0o644); err != nil {
		return "", err
	}
	b.path = p
	return p, nil
}

func (b *c16Built) open(async bool) (*parquet.File, error) {
	var opts []parquet.FileOption
	if async {
		opts = append(opts, parquet.FileReadMode(parquet.ReadModeAsync))
	}
	return parquet.OpenFile(bytes.NewReader(b.data), int64(len(b.data)), opts...)
}

// c16GenSpec searches a generated case whose schema has byte array leaves.
func c16GenSpec(rng *rand.Rand, nrows int) c16FileSpec {
	for {
		cs := gen.Case{Seed: rng.Int63n(1 << 40), NRows: nrows, MaxDepth: 2, MaxFields: 5, Codecs: c16CodecNames, NullBias: 2}
		cfg := gen.Config{Codecs: cs.Codecs, MaxDepth: cs.MaxDepth, MaxFields: cs.MaxFields}
		root := gen.Schema(rand.New(rand.NewSource(cs.Seed)), cfg)
		n := 0
		for _, l := range root.Leaves() {
			switch l.Leaf {
			case "bytes", "string", "flba", "uuid":
				n++
			}
		}
		if n >= 2 {
			return c16FileSpec{Gen: &cs}
		}
	}
}

func c16TypedSpec(rng *rand.Rand, rows int) c16FileSpec {
	s := c16FileSpec{Typed: true, Salt: 1 + rng.Intn(900), Rows: rows/2 + rng.Intn(rows/2+1)}
	s.Enc = []string{"", "plain", "dlba", "dba", "dict"}[rng.Intn(5)]
	s.Codec = c16CodecNames[rng.Intn(len(c16CodecNames))]
	s.PageBuf = []int{64, 200, 512, 1500, 4096}[rng.Intn(5)]
	s.Version = 1 + rng.Intn(2)
	if rng.Intn(3) != 0 {
		s.RGRows = int64(10 + rng.Intn(s.Rows))
	}
	if rng.Intn(3) == 0 {
		s.DictMax = c16DictMaxes[rng.Intn(len(c16DictMaxes))]
	}
	return s
}

// DictionaryMaxBytes: from "the first page already exceeds it" to "never
// reached by the small dictionaries, reached late by the large ones".
var c16DictMaxes = []int64{48, 200, 700, 2000, 6000}

// c16DynSpec: a file of c16DynS rows (explicit schema), same writer options.
func c16DynSpec(rng *rand.Rand, rows int) c16FileSpec {
	s := c16TypedSpec(rng, rows)
	s.Typed, s.Dyn = false, true
	return s
}

// ---------------------------------------------------------------------------
// churn: unrelated activity that takes from and returns to the pools
// ---------------------------------------------------------------------------

type c16ChurnRec struct {
	A string   `parquet:"a"`
	B []byte   `parquet:"b"`
	C [16]byte `parquet:"c"`
	D string   `parquet:"d,dict"`
	E []string `parquet:"e,list"`
	N int64    `parquet:"n"`
}

func c16ChurnRows(rng *rand.Rand, n int) []c16ChurnRec {
	out := make([]c16ChurnRec, n)
	for i := range out {
		fill := func(l int) []byte {
			b := make([]byte, l)
			for k := range b {
				b[k] = 0xC0 | byte(rng.Intn(16))
			}
			return b
		}
		l := []int{0, 3, 17, 90, 400, 1300}[rng.Intn(6)]
		out[i].A = string(fill(l))
		out[i].B = fill(rng.Intn(64))
		copy(out[i].C[:], fill(16))
		out[i].D = string(fill(4 + rng.Intn(3)*20))
		for j := rng.Intn(3); j > 0; j-- {
			out[i].E = append(out[i].E, string(fill(rng.Intn(30))))
		}
		out[i].N = rng.Int63()
	}
	return out
}

var c16ChurnFiles [][]byte

func c16ChurnInit() error {
	rng := rand.New(rand.NewSource(99))
	for ci, name := range c16CodecNames {
		var buf bytes.Buffer
		w := parquet.NewGenericWriter[c16ChurnRec](&buf, parquet.Compression(gen.Codecs[name]),
			parquet.PageBufferSize([]int{256, 1024, 4096, 700, 9000, 2048}[ci]), parquet.DataPageVersion(1+ci%2), parquet.MaxRowsPerRowGroup(40))
		if _, err := w.Write(c16ChurnRows(rng, 70)); err != nil {
			return err
		}
		if err := w.Close(); err != nil {
			return err
		}
		c16ChurnFiles = append(c16ChurnFiles, buf.Bytes())
	}
	return nil
}

func c16ChurnUnit(rng *rand.Rand) {
	defer func() { _ = recover() }() // churn is not what is being judged
	switch rng.Intn(5) {
	case 0, 1: // read a file fully through row readers
		data := c16ChurnFiles[rng.Intn(len(c16ChurnFiles))]
		f, err := parquet.OpenFile(bytes.NewReader(data), int64(len(data)))
		if err != nil {
			return
		}
		buf := make([]parquet.Row, 1+rng.Intn(80))
		for _, rg := range f.RowGroups() {
			rows := rg.Rows()
			for {
				n, err := rows.ReadRows(buf)
				if err != nil || n == 0 {
					break
				}
			}
			rows.Close()
		}
	case 2: // read pages and release them
		data := c16ChurnFiles[rng.Intn(len(c16ChurnFiles))]
		f, err := parquet.OpenFile(bytes.NewReader(data), int64(len(data)))
		if err != nil {
			return
		}
		vals := make([]parquet.Value, 100)
		for _, rg := range f.RowGroups() {
			for _, cc := range rg.ColumnChunks() {
				pages := cc.Pages()
				for {
					pg, err := pages.ReadPage()
					if err != nil {
						break
					}
					vr := pg.Values()
					for {
						n, err := vr.ReadValues(vals)
						if err != nil || n == 0 {
							break
						}
					}
					parquet.Release(pg)
				}
				pages.Close()
			}
		}
	case 3: // write a new file
		name := c16CodecNames[rng.Intn(len(c16CodecNames))]
		w := parquet.NewGenericWriter[c16ChurnRec](io.Discard, parquet.Compression(gen.Codecs[name]),
			parquet.PageBufferSize(128<<uint(rng.Intn(7))), parquet.DataPageVersion(1+rng.Intn(2)))
		w.Write(c16ChurnRows(rng, 20+rng.Intn(40)))
		if rng.Intn(2) == 0 {
			w.Flush()
			w.Write(c16ChurnRows(rng, 20))
		}
		w.Close()
	default: // fill, sort, read and reset a buffer
		b := parquet.NewGenericBuffer[c16ChurnRec](parquet.SortingRowGroupConfig(parquet.SortingColumns(parquet.Ascending("a"))))
		b.Write(c16ChurnRows(rng, 20+rng.Intn(40)))
		sort.Sort(b)
		rows := b.Rows()
		buf := make([]parquet.Row, 50)
		for {
			n, err := rows.ReadRows(buf)
			if err != nil || n == 0 {
				break
			}
		}
		rows.Close()
		b.Reset()
	}
}

// c16Churn runs churn units in this goroutine and in `workers` others.
func c16Churn(seed int64, workers int) {
	rng := rand.New(rand.NewSource(seed))
	c16ChurnUnit(rng)
	c16ChurnUnit(rng)
	if workers > 0 {
		var wg sync.WaitGroup
		for g := 0; g < workers; g++ {
			wg.Add(1)
			s := rng.Int63()
			go func() {
				defer wg.Done()
				r := rand.New(rand.NewSource(s))
				c16ChurnUnit(r)
				c16ChurnUnit(r)
			}()
		}
		wg.Wait()
		c16ChurnUnit(rng)
	}
}

func c16GC(free bool) {
	runtime.GC()
	runtime.GC()
	if free {
		debug.FreeOSMemory()
	}
}

// ---------------------------------------------------------------------------
// Part 1: histories over several readers
// ---------------------------------------------------------------------------

// c16Op is one operation of a history.  Tok is the token sent to the model:
// r<i> ReadRows on reader i, t<i> typed read, k<i> clone the rows of the batch
// last returned by reader i, s<i> SeekToRow, z<i> Reset (Reader.Reset,
// GenericReader.Reset, the Reset method of row group row readers; the model
// replays it as a seek to row 0), c<i> Close, x churn, g GC.
type c16Op struct {
	Tok   string `json:"op"`
	N     int    `json:"n,omitempty"`              // batch size
	K     int64  `json:"k,omitempty"`              // seek target
	Reuse bool   `json:"reuse_dst,omitempty"`      // typed read into the destination of the previous typed read (the caller kept shallow copies)
	Free  bool   `json:"free_os_memory,omitempty"` // g: also debug.FreeOSMemory
}

type c16ReaderSpec struct {
	File  c16FileSpec `json:"file"`
	Kind  string      `json:"kind"` // rows | rowreader (NewRowGroupRowReader) | reader | generic | whole
	RG    int         `json:"row_group,omitempty"`
	Async bool        `json:"async,omitempty"`
	// destination type of the typed reads of a reader | generic | whole reader (dyn.go):
	// "" c16Rec with SchemaOf; with an explicit schema: struct | mapfields | anyfields |
	// map (map[string]any pre-made by the caller) | nilmap (nil maps) | any
	Dst string `json:"dst,omitempty"`
}

type c16HistCase struct {
	Part      string          `json:"part"`
	Readers   []c16ReaderSpec `json:"readers"`
	Ops       []c16Op         `json:"ops"`
	ChurnSeed int64           `json:"churn_seed"`
	Workers   int             `json:"workers"`
}

func c16ParseTok(tok string) (code byte, reader int) {
	if tok == "" {
		return '?', -1
	}
	if len(tok) == 1 {
		return tok[0], -1
	}
	var r int
	if _, err := fmt.Sscanf(tok[1:], "%x", &r); err != nil {
		return '?', -1
	}
	return tok[0], r
}

func c16Toks(ops []c16Op) string {
	if len(ops) == 0 {
		return "_"
	}
	parts := make([]string, len(ops))
	for i, op := range ops {
		parts[i] = op.Tok
	}
	return strings.Join(parts, ",")
}

// c16Entitled computes, for every operation of a history, the batches (numbered
// by the operation that created them) the caller is entitled to afterwards,
// and for k operations the batch they clone (-1: none, no batch is created).
func c16Entitled(nreaders int, ops []c16Op) (ent [][]int, src []int) {
	cur := make([]int, nreaders) // valid r-batch of each reader
	for i := range cur {
		cur[i] = -1
	}
	closed := make([]bool, nreaders) // a closed reader hands out nothing: its r and t create no batch
	var forever []int
	for j, op := range ops {
		code, i := c16ParseTok(op.Tok)
		s := -1
		if i >= 0 && i < nreaders {
			switch code {
			case 'r':
				cur[i] = -1
				if !closed[i] {
					cur[i] = j
				}
			case 't':
				cur[i] = -1
				if !closed[i] {
					forever = append(forever, j)
				}
			case 'k':
				if cur[i] >= 0 {
					s = cur[i]
					forever = append(forever, j)
				}
			case 's', 'z':
				cur[i] = -1
			case 'c':
				cur[i] = -1
				closed[i] = true
			}
		}
		src = append(src, s)
		set := append([]int(nil), forever...)
		for _, b := range cur {
			if b >= 0 {
				set = append(set, b)
			}
		}
		sort.Ints(set)
		ent = append(ent, set)
	}
	return ent, src
}

func c16EntitledText(ent [][]int) string {
	if len(ent) == 0 {
		return "_"
	}
	fields := make([]string, len(ent))
	for j, set := range ent {
		if len(set) == 0 {
			fields[j] = "_"
			continue
		}
		parts := make([]string, len(set))
		for x, b := range set {
			parts[x] = fmt.Sprint(b)
		}
		fields[j] = strings.Join(parts, ".")
	}
	return strings.Join(fields, ";")
}

type c16Held struct {
	id     int
	kind   byte
	reader int
	canon  func() [][]byte // what the caller holds now, canonical, one entry per row / record
	diff   func(before, after []byte) string
	diffAt func(i int, before, after []byte) string // optional: knows the row/record it is about
	snap   [][]byte
	ba     int // non-empty byte array values held
	churns int
}

type c16Outcome struct {
	class, what string
	batch, op   int
	nontrivial  bool
	batches     int
	compares    int
	values      int
}

func (o *c16Outcome) fail(class string, batch, op int, format string, a ...any) {
	if o.class == "" {
		o.class, o.batch, o.op = class, batch, op
		o.what = fmt.Sprintf(format, a...)
	}
}

// c16Compare checks that a held batch still equals its snapshot.
func (o *c16Outcome) compare(h *c16Held, op int, when string) {
	if o.class != "" {
		return
	}
	now := h.canon()
	o.compares++
	if len(now) != len(h.snap) {
		o.fail("held-value-changed", h.id, op, "batch %d (%c of reader %d): held %d rows/records, now %d (%s)", h.id, h.kind, h.reader, len(h.snap), len(now), when)
		return
	}
	for i := range now {
		if !bytes.Equal(now[i], h.snap[i]) {
			d := ""
			if h.diffAt != nil {
				d = h.diffAt(i, h.snap[i], now[i])
			} else {
				d = h.diff(h.snap[i], now[i])
			}
			o.fail("held-value-changed", h.id, op, "batch %d (%c of reader %d) changed %s: row/record %d of the batch: %s", h.id, h.kind, h.reader, when, i, d)
			return
		}
	}
}

func c16HoldRows(id int, kind byte, reader int, rows []parquet.Row) *c16Held {
	h := &c16Held{id: id, kind: kind, reader: reader, diff: c16DiffRow}
	h.canon = func() [][]byte {
		out := make([][]byte, len(rows))
		for i, r := range rows {
			out[i] = c16CanonRow(r)
		}
		return out
	}
	h.snap = h.canon()
	for _, r := range rows {
		h.ba += c16CountByteArrays(r)
	}
	return h
}

func c16HoldRecs(id int, reader int, recs []c16Rec) *c16Held {
	h := &c16Held{id: id, kind: 't', reader: reader, diff: c16DiffBytes}
	h.canon = func() [][]byte {
		out := make([][]byte, len(recs))
		for i := range recs {
			out[i] = c16CanonGo(&recs[i], true)
		}
		return out
	}
	h.snap = h.canon()
	h.ba = len(recs) * 6
	return h
}

// c16Reader is one reader of a history.
type c16Reader struct {
	spec   c16ReaderSpec
	b      *c16Built
	rows   parquet.Rows
	rd     *parquet.Reader
	gr     parquet.Rows   // the GenericReader[T] of ta
	ta     c16TypedAccess // typed reads into the destination type spec.Dst
	off    int64          // global number of the reader's first row
	total  int64
	pos    int64
	closed bool
	spare  []parquet.Row // rows of an ended batch, recycled as destination
}

func c16NewReader(spec c16ReaderSpec, files map[string]*parquet.File) (*c16Reader, error) {
	b, err := c16Build(spec.File)
	if err != nil {
		return nil, fmt.Errorf("building the file: %w", err)
	}
	r := &c16Reader{spec: spec, b: b, total: b.total}
	if spec.Kind == "whole" {
		if r.ta, err = c16NewDst(b, nil, spec.Dst); err != nil {
			return nil, err
		}
		return r, nil
	}
	fk := fmt.Sprintf("%s/%v", spec.File.key(), spec.Async)
	f := files[fk]
	if f == nil {
		if f, err = b.open(spec.Async); err != nil {
			return nil, fmt.Errorf("opening the file: %w", err)
		}
		files[fk] = f
	}
	switch spec.Kind {
	case "rows":
		if spec.RG >= len(b.rgRows) {
			return nil, fmt.Errorf("no row group %d", spec.RG)
		}
		r.rows = f.RowGroups()[spec.RG].Rows()
		r.off, r.total = b.rgOff[spec.RG], b.rgRows[spec.RG]
	case "rowreader":
		if spec.RG >= len(b.rgRows) {
			return nil, fmt.Errorf("no row group %d", spec.RG)
		}
		r.rows = parquet.NewRowGroupRowReader(f.RowGroups()[spec.RG])
		r.off, r.total = b.rgOff[spec.RG], b.rgRows[spec.RG]
	case "reader":
		if spec.File.known() {
			if r.ta, err = c16NewDst(b, f, spec.Dst); err != nil {
				return nil, err
			}
			r.rd = parquet.NewReader(f, r.ta.readerOptions()...)
		} else {
			r.rd = parquet.NewReader(f)
		}
	case "generic":
		if r.ta, err = c16NewDst(b, f, spec.Dst); err != nil {
			return nil, err
		}
		r.gr = r.ta.openGeneric(f)
	default:
		return nil, fmt.Errorf("unknown reader kind %q", spec.Kind)
	}
	return r, nil
}

func (r *c16Reader) canTyped() bool { return r.ta != nil }

func (r *c16Reader) readRows(n int) (rows []parquet.Row, cnt int, err error) {
	dst := make([]parquet.Row, n)
	if len(r.spare) > 0 { // destination rows with capacity left over from an ended batch
		copy(dst, r.spare)
		r.spare = nil
	}
	switch {
	case r.rows != nil:
		cnt, err = r.rows.ReadRows(dst)
	case r.rd != nil:
		cnt, err = r.rd.ReadRows(dst)
	case r.gr != nil:
		cnt, err = r.gr.ReadRows(dst)
	default:
		return nil, 0, nil
	}
	if cnt < 0 || cnt > n {
		return nil, cnt, fmt.Errorf("ReadRows returned %d for %d rows", cnt, n)
	}
	return dst[:cnt], cnt, err
}

// readTyped returns the Go values handed to the caller (a slice []T of the
// destination type; shallow copies of what the calls filled, see dyn.go) and
// the number of the first row.
func (r *c16Reader) readTyped(n int, reuse bool) (held reflect.Value, first int64, err error) {
	first = r.pos
	var batch any
	switch {
	case r.ta == nil:
		return reflect.ValueOf([]c16Rec(nil)), first, fmt.Errorf("the reader has no typed side")
	case r.gr != nil:
		batch, err = r.ta.readGeneric(n, reuse)
	case r.rd != nil:
		batch, err = r.ta.readEach(r.rd, n, reuse)
	default: // whole file helpers
		first = 0
		if r.closed {
			return reflect.ValueOf([]c16Rec(nil)), 0, io.EOF
		}
		batch, err = r.ta.readWhole(r.b, n%2 == 1)
	}
	return reflect.ValueOf(batch), first, err
}

func (r *c16Reader) seek(k int64) error {
	switch {
	case r.rows != nil:
		return r.rows.SeekToRow(k)
	case r.rd != nil:
		return r.rd.SeekToRow(k)
	case r.gr != nil:
		return r.gr.SeekToRow(k)
	}
	return nil
}

// reset puts the reader back at its first row: Reader.Reset,
// GenericReader.Reset, and the Reset method row group row readers have
// (reader.Reset uses it through interface{ Reset() }; SeekToRow(0) for a Rows
// without it).
func (r *c16Reader) reset() error {
	switch {
	case r.rows != nil:
		if z, ok := r.rows.(interface{ Reset() }); ok {
			z.Reset()
			return nil
		}
		return r.rows.SeekToRow(0)
	case r.rd != nil:
		r.rd.Reset()
	case r.gr != nil:
		r.ta.reset()
	}
	return nil
}

func (r *c16Reader) close() error {
	if r.closed {
		return nil
	}
	r.closed = true
	switch {
	case r.rows != nil:
		return r.rows.Close()
	case r.rd != nil:
		return r.rd.Close()
	case r.gr != nil:
		return r.gr.Close()
	}
	return nil
}

func c16ExecHist(cs *c16HistCase) *c16Outcome {
	async := false
	for _, r := range cs.Readers {
		async = async || r.Async
	}
	if !async {
		return c16ExecHistBody(cs)
	}
	ch := make(chan *c16Outcome, 1)
	go func() { ch <- c16ExecHistBody(cs) }()
	select {
	case o := <-ch:
		return o
	case <-time.After(60 * time.Second):
		o := &c16Outcome{}
		o.fail("hang", -1, -1, "the history did not finish within 60s (async read mode)")
		return o
	}
}

func c16ExecHistBody(cs *c16HistCase) (o *c16Outcome) {
	o = &c16Outcome{batch: -1, op: -1}
	cur := -1
	defer func() {
		if r := recover(); r != nil {
			o.fail("panic", -1, cur, "panic during op %d: %v", cur, r)
		}
	}()
	files := map[string]*parquet.File{}
	readers := make([]*c16Reader, len(cs.Readers))
	for i, rs := range cs.Readers {
		r, err := c16NewReader(rs, files)
		if err != nil {
			o.fail("file", -1, -1, "reader %d: %v", i, err)
			return o
		}
		readers[i] = r
	}
	defer func() {
		for _, r := range readers {
			func() {
				defer func() { _ = recover() }()
				r.close()
			}()
		}
	}()
	ent, src := c16Entitled(len(readers), cs.Ops)
	held := map[int]*c16Held{}
	lastRows := map[int][]parquet.Row{} // batch -> the caller's rows (for k)
	checkAll := func(j int, when string) {
		for _, id := range ent[j] {
			if h := held[id]; h != nil {
				o.compare(h, j, when)
			}
		}
	}
	noteChurn := func(j int) {
		for _, id := range ent[j] {
			if h := held[id]; h != nil {
				h.churns++
				if h.ba > 0 {
					o.nontrivial = true
				}
			}
		}
	}
	for j, op := range cs.Ops {
		if o.class != "" {
			return o
		}
		cur = j
		code, i := c16ParseTok(op.Tok)
		var rd *c16Reader
		if i >= 0 {
			if i >= len(readers) {
				o.fail("bad-op", -1, j, "op %q: no such reader", op.Tok)
				return o
			}
			rd = readers[i]
			if j > 0 && code != 'k' {
				// the last moment the caller may look at the rows of reader i
				for _, id := range ent[j-1] {
					if h := held[id]; h != nil && h.kind == 'r' && h.reader == i {
						o.compare(h, j-1, fmt.Sprintf("before op %d (%s)", j, op.Tok))
					}
				}
			}
		}
		switch code {
		case 'r':
			// recycle the row slices of this reader's ended batch as destination
			if j > 0 && op.N%2 == 1 {
				for _, id := range ent[j-1] {
					if h := held[id]; h != nil && h.kind == 'r' && h.reader == i {
						rd.spare = lastRows[id]
					}
				}
			}
			first := rd.pos
			rows, cnt, err := rd.readRows(op.N)
			if err != nil && err != io.EOF && !rd.closed {
				o.fail("error", -1, j, "op %d %s: ReadRows(%d) at row %d of %d: %v", j, op.Tok, op.N, first, rd.total, err)
				return o
			}
			if rd.closed && cnt > 0 {
				o.fail("wrong-value", j, j, "op %d %s: %d rows from a closed reader", j, op.Tok, cnt)
				return o
			}
			if first+int64(cnt) > rd.total {
				o.fail("wrong-value", j, j, "op %d %s: %d rows at row %d of %d", j, op.Tok, cnt, first, rd.total)
				return o
			}
			for x, row := range rows {
				want := rd.b.exp[rd.off+first+int64(x)]
				if got := c16CanonRow(row); !bytes.Equal(got, want) {
					o.fail("wrong-value", j, j, "op %d %s: row %d of the batch (row %d of the file) differs from what was written: %s", j, op.Tok, x, rd.off+first+int64(x), c16DiffRow(want, got))
					return o
				}
			}
			rd.pos += int64(cnt)
			held[j] = c16HoldRows(j, 'r', i, rows)
			lastRows[j] = rows
			o.batches++
			o.values += len(rows)
		case 't':
			recs, first, err := rd.readTyped(op.N, op.Reuse)
			if err != nil && err != io.EOF && !rd.closed {
				o.fail("error", -1, j, "op %d %s: typed read of %d rows at row %d of %d: %v", j, op.Tok, op.N, first, rd.total, err)
				return o
			}
			nrecs := recs.Len()
			if rd.closed && nrecs > 0 && rd.spec.Kind != "whole" {
				o.fail("wrong-value", j, j, "op %d %s: %d records from a closed reader", j, op.Tok, nrecs)
				return o
			}
			if first+int64(nrecs) > rd.total {
				o.fail("wrong-value", j, j, "op %d %s: %d records at row %d of %d", j, op.Tok, nrecs, first, rd.total)
				return o
			}
			for x := 0; x < nrecs; x++ {
				if typed, ok := recs.Interface().([]c16Rec); ok {
					want := c16MakeRec(rd.spec.File.Salt, int(first)+x, false, 2)
					if g, w := c16CanonGo(&typed[x], false), c16CanonGo(&want, false); !bytes.Equal(g, w) {
						o.fail("wrong-value", j, j, "op %d %s: record %d of the batch (row %d of the file) differs from what was written (id=%d s=%q m=%v, expected id=%d s=%q m=%v): %s",
							j, op.Tok, x, int(first)+x, typed[x].ID, core.Trunc(typed[x].S, 40), typed[x].M, want.ID, core.Trunc(want.S, 40), want.M, c16DiffBytes(w, g))
						return o
					}
					continue
				}
				// the other destination types: names and content
				if g, w := c16NormOf(recs.Index(x).Addr().Interface()), rd.b.expectNorm(int(first)+x); g != w {
					o.fail("wrong-value", j, j, "op %d %s: record %d of the batch (row %d of the file, read into %s) differs from what was written: %s",
						j, op.Tok, x, int(first)+x, recs.Type().Elem(), c16DiffText(w, g))
					return o
				}
			}
			if rd.spec.Kind != "whole" {
				rd.pos += int64(nrecs)
			}
			held[j] = c16HoldGo(j, i, recs.Interface())
			o.batches++
			o.values += nrecs
		case 'k':
			if s := src[j]; s >= 0 {
				orig := lastRows[s]
				clones := make([]parquet.Row, len(orig))
				for x := range orig {
					clones[x] = orig[x].Clone()
				}
				h := c16HoldRows(j, 'k', i, clones)
				if hs := held[s]; hs != nil {
					for x := range h.snap {
						if !bytes.Equal(h.snap[x], hs.snap[x]) {
							o.fail("wrong-value", j, j, "op %d %s: clone of row %d of batch %d differs from the row: %s", j, op.Tok, x, s, c16DiffRow(hs.snap[x], h.snap[x]))
							return o
						}
					}
				}
				held[j] = h
				o.batches++
			}
		case 's':
			err := rd.seek(op.K)
			if err != nil && !rd.closed {
				o.fail("error", -1, j, "op %d %s: SeekToRow(%d) on %d rows: %v", j, op.Tok, op.K, rd.total, err)
				return o
			}
			if err == nil {
				rd.pos = op.K
			}
		case 'z':
			err := rd.reset()
			if err != nil && !rd.closed {
				o.fail("error", -1, j, "op %d %s: Reset on %d rows: %v", j, op.Tok, rd.total, err)
				return o
			}
			if err == nil {
				rd.pos = 0
			}
		case 'c':
			if err := rd.close(); err != nil {
				o.fail("error", -1, j, "op %d %s: Close: %v", j, op.Tok, err)
				return o
			}
		case 'x':
			c16Churn(cs.ChurnSeed+int64(j)*7919, cs.Workers)
			noteChurn(j)
		case 'g':
			c16GC(op.Free)
			noteChurn(j)
		default:
			o.fail("bad-op", -1, j, "unknown op %q", op.Tok)
			return o
		}
		checkAll(j, fmt.Sprintf("after op %d (%s)", j, op.Tok))
	}
	if o.class != "" || len(cs.Ops) == 0 {
		return o
	}
	last := len(cs.Ops) - 1
	cur = len(cs.Ops)
	c16Churn(cs.ChurnSeed+104729, cs.Workers)
	if cs.ChurnSeed%3 == 0 {
		c16GC(false)
	}
	noteChurn(last)
	checkAll(last, "after the final churn and GC")
	for _, r := range readers {
		r.close()
	}
	c16Churn(cs.ChurnSeed+1299709, 0)
	for _, id := range ent[last] {
		if h := held[id]; h != nil && h.kind != 'r' {
			o.compare(h, last, "after every reader was closed")
		}
	}
	return o
}

// ---------------------------------------------------------------------------
// checking, shrinking and generating histories
// ---------------------------------------------------------------------------

type c16Stats struct {
	batches, compares, values int
	reported                  map[string]int
}

var c16Stat = c16Stats{reported: map[string]int{}}

// c16CheckHist runs a history, evaluates the predicate and the correspondence
// of the entitlement computation with the model.  Returns the failure class.
func c16CheckHist(c *core.Ctx, cs *c16HistCase, suffix string) (*c16Outcome, string) {
	o := c16ExecHist(cs)
	if o.class != "" {
		class := o.class
		if suffix != "" {
			class = suffix
		}
		c.Violation(class, fmt.Sprintf("%s [readers=%d ops=%s]", o.what, len(cs.Readers), c16Toks(cs.Ops)),
			map[string]any{"case": cs, "batch": o.batch, "after_op": o.op})
		return o, o.class
	}
	if c.HasOracle() {
		ent, _ := c16Entitled(len(cs.Readers), cs.Ops)
		impl := c16EntitledText(ent)
		req := fmt.Sprintf("c16.replay %x %s", len(cs.Readers), c16Toks(cs.Ops))
		if model := c.Ask(req); model != impl {
			c.Mismatch("corr:C16.entitled", req, impl, model, cs)
			return o, "corr"
		}
		c16VmAdd(c, len(cs.Readers), c16Toks(cs.Ops), ent)
	}
	return o, ""
}

// c16VmCases: histories with the entitlement sets computed in Go, re-evaluated
// by the model inside coqc with vm_compute (cases.v).
var c16VmCases []string

func c16VmAdd(c *core.Ctx, nreaders int, toks string, ent [][]int) {
	if len(c16VmCases) >= 60 || toks == "_" || toks == "" {
		return
	}
	var ops []string
	for _, t := range strings.Split(toks, ",") {
		arg := "0"
		if len(t) > 1 {
			v, err := strconv.ParseInt(t[1:], 16, 32)
			if err != nil {
				return
			}
			arg = strconv.FormatInt(v, 10)
		}
		switch t[0] {
		case 'r':
			ops = append(ops, "OReadRows "+arg+" 1")
		case 't':
			ops = append(ops, "OReadTyped "+arg+" 1")
		case 'k':
			ops = append(ops, "OClone "+arg)
		case 's', 'z':
			ops = append(ops, "OSeek "+arg+" 0")
		case 'c':
			ops = append(ops, "OClose "+arg)
		case 'x':
			ops = append(ops, "OChurn 77")
		case 'g':
			ops = append(ops, "OGC")
		default:
			return
		}
	}
	var sets []string
	for _, e := range ent {
		xs := make([]string, len(e))
		for i, b := range e {
			xs[i] = strconv.Itoa(b)
		}
		sets = append(sets, "["+strings.Join(xs, ";")+"]")
	}
	c16VmCases = append(c16VmCases, fmt.Sprintf("(%d, [%s], [%s])", nreaders, strings.Join(ops, "; "), strings.Join(sets, "; ")))
}

func c16VmWrite(c *core.Ctx) {
	if len(c16VmCases) == 0 {
		return
	}
	c.Vm("From Coq Require Import List Bool Arith.\nFrom PQ Require Import Conc.Ownership.\nImport ListNotations.")
	c.Vm("Definition cases : list (nat * list op * list (list nat)) := [\n  " + strings.Join(c16VmCases, ";\n  ") + "].")
	c.Vm("Definition agrees (cs : nat * list op * list (list nat)) : bool :=\n  let '(n, ops, want) := cs in\n  let got := replay default_pagefun (oinit n true) 0 ops in\n  (if list_eq_dec (list_eq_dec Nat.eq_dec) (map fst got) want then true else false) && forallb snd got.")
	c.Vm("Definition mismatches := filter (fun cs => negb (agrees cs)) cases.")
	c.Vm("Definition M := Eval vm_compute in (length cases, mismatches).\nPrint M.")
	c.Res.VmCases = len(c16VmCases)
}

func c16HistFails(c *core.Ctx, cs *c16HistCase) (bool, string) {
	class := ""
	failed := c.Probe(func() { _, class = c16CheckHist(c, cs, "") })
	return failed, class
}

func c16NoReuse(cs *c16HistCase) (*c16HistCase, bool) {
	t := *cs
	t.Ops = append([]c16Op(nil), cs.Ops...)
	had := false
	for i := range t.Ops {
		if t.Ops[i].Reuse {
			t.Ops[i].Reuse, had = false, true
		}
	}
	return &t, had
}

// c16ShrinkHist drops operations and readers' work while the failure stays.
func c16ShrinkHist(c *core.Ctx, cs *c16HistCase, class string) *c16HistCase {
	cur := *cs
	budget := 150
	try := func(t *c16HistCase) bool {
		if budget <= 0 {
			return false
		}
		budget--
		f, k := c16HistFails(c, t)
		return f && k == class
	}
	if cur.Workers > 0 {
		t := cur
		t.Workers = 0
		if try(&t) {
			cur = t
		}
	}
	for changed := true; changed && budget > 0; {
		changed = false
		for i := len(cur.Ops) - 1; i >= 0; i-- {
			t := cur
			t.Ops = append(append([]c16Op(nil), cur.Ops[:i]...), cur.Ops[i+1:]...)
			if try(&t) {
				cur, changed = t, true
			}
		}
	}
	// drop the readers no operation refers to
	used := map[int]bool{}
	for _, op := range cur.Ops {
		if _, i := c16ParseTok(op.Tok); i >= 0 {
			used[i] = true
		}
	}
	if len(used) < len(cur.Readers) && len(used) > 0 {
		t := cur
		t.Readers, t.Ops = nil, append([]c16Op(nil), cur.Ops...)
		renum := map[int]int{}
		for i, r := range cur.Readers {
			if used[i] {
				renum[i] = len(t.Readers)
				t.Readers = append(t.Readers, r)
			}
		}
		for x, op := range t.Ops {
			if code, i := c16ParseTok(op.Tok); i >= 0 {
				t.Ops[x].Tok = fmt.Sprintf("%c%x", code, renum[i])
			}
		}
		budget++
		if try(&t) {
			cur = t
		}
	}
	for i := range cur.Ops {
		for _, n := range []int{1, 2, 3} {
			if cur.Ops[i].N > n {
				t := cur
				t.Ops = append([]c16Op(nil), cur.Ops...)
				t.Ops[i].N = n
				if try(&t) {
					cur = t
					break
				}
			}
		}
	}
	return &cur
}

// c16RunHist checks one history; a failing one is classified (does it need a
// reused destination?), shrunk and reported once per class.
func c16RunHist(c *core.Ctx, cs *c16HistCase, bucket string) bool {
	key, _ := json.Marshal(cs)
	o := (*c16Outcome)(nil)
	class := ""
	failed := c.Probe(func() { o, class = c16CheckHist(c, cs, "") })
	c.Case(bucket, string(key), o != nil && o.nontrivial)
	if o != nil {
		c16Stat.batches += o.batches
		c16Stat.compares += o.compares
		c16Stat.values += o.values
	}
	if !failed {
		return true
	}
	if class == "corr" {
		c16CheckHist(c, cs, "")
		return false
	}
	suffix := ""
	t := cs
	if u, had := c16NoReuse(cs); had {
		if f, k := c16HistFails(c, u); f {
			t, class = u, k
		} else {
			suffix = "reused-destination"
			// the rest of the history still deserves a look
			defer c16RunHist(c, u, bucket)
		}
	}
	rep := class
	if suffix != "" {
		rep = suffix
	}
	c16Stat.reported[rep]++
	if c16Stat.reported[rep] > 1 {
		return false
	}
	min := c16ShrinkHist(c, t, class)
	c16CheckHist(c, min, suffix)
	return false
}

var c16BatchSizes = []int{1, 2, 3, 5, 17, 64, 200}

// destinations of the value-level reader: one value .. many pages
var c16ValueBatches = []int{1, 3, 17, 64, 200, 1500}

// c16GenHist draws a history over 2..4 readers of files from the pool.
func c16GenHist(rng *rand.Rand, pool []c16FileSpec, maxOps int) *c16HistCase {
	cs := &c16HistCase{Part: "hist", ChurnSeed: rng.Int63n(1 << 40)}
	if rng.Intn(2) == 0 {
		cs.Workers = 2 + rng.Intn(3)
	}
	nr := 2 + rng.Intn(3)
	type info struct {
		total int64
		typed bool
		kind  string
	}
	var infos []info
	for len(cs.Readers) < nr {
		spec := pool[rng.Intn(len(pool))]
		b, err := c16Build(spec)
		if err != nil {
			cs.Readers = append(cs.Readers, c16ReaderSpec{File: spec, Kind: "rows"})
			infos = append(infos, info{total: 1, kind: "rows"})
			continue
		}
		rs := c16ReaderSpec{File: spec, Async: rng.Intn(4) == 0}
		total := b.total
		if spec.known() {
			rs.Kind = []string{"rows", "rowreader", "reader", "generic", "generic", "whole"}[rng.Intn(6)]
			if dsts := c16DstsOf(spec, rs.Kind); rs.Kind != "rows" && rs.Kind != "rowreader" {
				rs.Dst = dsts[rng.Intn(len(dsts))]
				if spec.Typed && rng.Intn(2) == 0 {
					rs.Dst = "" // the struct the rows came from
				}
			}
		} else {
			rs.Kind = []string{"rows", "rowreader", "reader"}[rng.Intn(3)]
		}
		if rs.Kind == "rows" || rs.Kind == "rowreader" {
			rs.RG = rng.Intn(len(b.rgRows))
			total = b.rgRows[rs.RG]
		}
		if rs.Kind == "whole" {
			rs.Async = false
		}
		cs.Readers = append(cs.Readers, rs)
		infos = append(infos, info{total: total, typed: spec.known() && rs.Kind != "rows" && rs.Kind != "rowreader", kind: rs.Kind})
	}
	n := 4 + rng.Intn(maxOps-3)
	for len(cs.Ops) < n {
		i := rng.Intn(nr)
		in := infos[i]
		x := rng.Intn(100)
		tok := func(code byte) string { return fmt.Sprintf("%c%x", code, i) }
		switch {
		case x < 30:
			if in.kind == "whole" {
				cs.Ops = append(cs.Ops, c16Op{Tok: tok('t'), N: rng.Intn(2)})
			} else {
				cs.Ops = append(cs.Ops, c16Op{Tok: tok('r'), N: c16BatchSizes[rng.Intn(len(c16BatchSizes))]})
			}
		case x < 45:
			if in.typed {
				op := c16Op{Tok: tok('t'), N: c16BatchSizes[rng.Intn(5)], Reuse: rng.Intn(4) == 0}
				if in.kind == "reader" && op.N > 5 {
					op.N = 5
				}
				cs.Ops = append(cs.Ops, op)
			} else {
				cs.Ops = append(cs.Ops, c16Op{Tok: tok('r'), N: c16BatchSizes[rng.Intn(len(c16BatchSizes))]})
			}
		case x < 55:
			cs.Ops = append(cs.Ops, c16Op{Tok: tok('k')})
		case x < 64:
			if in.kind != "whole" {
				cs.Ops = append(cs.Ops, c16Op{Tok: tok('s'), K: rng.Int63n(in.total + 1)})
			}
		case x < 70:
			// Reset, mostly followed at once by a read that crosses pages
			if in.kind != "whole" {
				cs.Ops = append(cs.Ops, c16Op{Tok: tok('z')})
				if rng.Intn(3) != 0 {
					cs.Ops = append(cs.Ops, c16Op{Tok: tok('r'), N: c16BatchSizes[3+rng.Intn(len(c16BatchSizes)-3)]})
				}
			}
		case x < 73:
			cs.Ops = append(cs.Ops, c16Op{Tok: tok('c')})
		case x < 95:
			cs.Ops = append(cs.Ops, c16Op{Tok: "x"})
		default:
			cs.Ops = append(cs.Ops, c16Op{Tok: "g", Free: rng.Intn(4) == 0})
		}
	}
	return cs
}

// ---------------------------------------------------------------------------
// Part 1b: pages (values and dictionary values until the page is released)
// ---------------------------------------------------------------------------

type c16PagesCase struct {
	Part      string      `json:"part"`
	File      c16FileSpec `json:"file"`
	Async     bool        `json:"async,omitempty"`
	RG        int         `json:"row_group"`
	Col       int         `json:"column"`
	Hold      int         `json:"hold"` // pages the caller keeps before releasing the oldest
	MaxPages  int         `json:"max_pages"`
	// Batch > 0: the chunk is read through parquet.NewColumnChunkValueReader with
	// destinations of Batch values (MaxPages then bounds the number of calls);
	// SeekAt > 0: SeekToRow(SeekRow) before call number SeekAt.
	Batch     int         `json:"value_reader_batch,omitempty"`
	Recycle   bool        `json:"recycle_destination,omitempty"`
	SeekAt    int         `json:"seek_before_call,omitempty"`
	SeekRow   int64       `json:"seek_row,omitempty"`
	ChurnSeed int64       `json:"churn_seed"`
	Workers   int         `json:"workers"`
}

func c16HoldValues(id int, kind byte, vals []parquet.Value) *c16Held {
	return c16HoldRows(id, kind, 0, []parquet.Row{vals})
}

func c16ExecPages(cs *c16PagesCase) (o *c16Outcome) {
	o = &c16Outcome{batch: -1, op: -1}
	pageNo := -1
	defer func() {
		if r := recover(); r != nil {
			o.fail("panic", -1, pageNo, "panic at page %d: %v", pageNo, r)
		}
	}()
	b, err := c16Build(cs.File)
	if err != nil {
		o.fail("file", -1, -1, "building the file: %v", err)
		return o
	}
	f, err := b.open(cs.Async)
	if err != nil {
		o.fail("file", -1, -1, "opening the file: %v", err)
		return o
	}
	if cs.RG >= len(b.rgRows) || cs.Col >= b.ncols {
		o.fail("bad-op", -1, -1, "no such row group / column")
		return o
	}
	// expected values of the column chunk, in order
	var want [][]byte
	for _, row := range b.rows[b.rgOff[cs.RG] : b.rgOff[cs.RG]+b.rgRows[cs.RG]] {
		for _, v := range row {
			if v.Column() == cs.Col {
				want = append(want, c16AppendValue(nil, v))
			}
		}
	}
	cc := f.RowGroups()[cs.RG].ColumnChunks()[cs.Col]
	if cs.Batch > 0 {
		c16ExecChunkValues(cs, o, &pageNo, b, cc, want)
		return o
	}
	pages := cc.Pages()
	defer pages.Close()
	type heldPage struct {
		page parquet.Page
		h    []*c16Held
	}
	var pending []heldPage
	checkAll := func(when string) {
		for _, hp := range pending {
			for _, h := range hp.h {
				if h.ba > 0 {
					o.nontrivial = true
				}
				o.compare(h, pageNo, when)
			}
		}
	}
	pos := 0
	for pageNo = 0; pageNo < cs.MaxPages && o.class == ""; pageNo++ {
		pg, err := pages.ReadPage()
		if err != nil {
			if err != io.EOF {
				o.fail("error", -1, pageNo, "ReadPage %d: %v", pageNo, err)
			}
			break
		}
		vals := make([]parquet.Value, pg.NumValues())
		vr := pg.Values()
		n := 0
		for n < len(vals) {
			k, err := vr.ReadValues(vals[n:])
			n += k
			if err != nil || k == 0 {
				break
			}
		}
		vals = vals[:n]
		for x, v := range vals {
			got := c16AppendValue(nil, v)
			if pos+x >= len(want) || !bytes.Equal(got, want[pos+x]) {
				w := []byte(nil)
				if pos+x < len(want) {
					w = want[pos+x]
				}
				o.fail("wrong-value", pageNo, pageNo, "page %d: value %d (value %d of the chunk) differs from what was written: was {%s}, now {%s}", pageNo, x, pos+x, c16DescribeValue(w), c16DescribeValue(got))
				break
			}
		}
		pos += n
		hp := heldPage{page: pg, h: []*c16Held{c16HoldValues(pageNo, 'p', vals)}}
		o.batches++
		o.values += n
		if d := pg.Dictionary(); d != nil && d.Len() > 0 {
			dv := make([]parquet.Value, d.Len())
			for x := range dv {
				dv[x] = d.Index(int32(x))
			}
			hp.h = append(hp.h, c16HoldValues(pageNo, 'd', dv))
		}
		pending = append(pending, hp)
		c16Churn(cs.ChurnSeed+int64(pageNo)*31, map[bool]int{true: cs.Workers, false: 0}[pageNo%4 == 0])
		if pageNo%5 == 1 {
			c16GC(false)
		}
		checkAll(fmt.Sprintf("while the page is held (after reading page %d and churn)", pageNo))
		for len(pending) >= cs.Hold {
			parquet.Release(pending[0].page)
			pending = pending[1:]
		}
	}
	checkAll("before the last pages are released")
	for _, hp := range pending {
		parquet.Release(hp.page)
	}
	return o
}

// c16ExecChunkValues reads a column chunk through the public value-level
// reader, parquet.NewColumnChunkValueReader: ReadValues into destinations of
// cs.Batch values (smaller than, equal to, and many times larger than a page).
// ValueReader documents no validity window of its own; the caller is given the
// one every reader of the package has: what a call returned is the caller's
// until the next call on the same reader (ReadValues, SeekToRow, Close).  Each
// batch is compared with the chunk's content at once, and with its snapshot
// after churn and GC, before the next call.
func c16ExecChunkValues(cs *c16PagesCase, o *c16Outcome, callNo *int, b *c16Built, cc parquet.ColumnChunk, want [][]byte) {
	vr := parquet.NewColumnChunkValueReader(cc)
	closed := false
	defer func() {
		if !closed {
			vr.Close()
		}
	}()
	// index of the first value of every row of the row group in the chunk
	var rowStart []int
	{
		n := 0
		for _, row := range b.rows[b.rgOff[cs.RG] : b.rgOff[cs.RG]+b.rgRows[cs.RG]] {
			rowStart = append(rowStart, n)
			for _, v := range row {
				if v.Column() == cs.Col {
					n++
				}
			}
		}
	}
	var dst []parquet.Value
	pos := 0
	for *callNo = 0; *callNo < cs.MaxPages && o.class == ""; *callNo++ {
		call := *callNo
		if cs.SeekAt > 0 && call == cs.SeekAt && cs.SeekRow >= 0 && cs.SeekRow < int64(len(rowStart)) {
			if err := vr.SeekToRow(cs.SeekRow); err != nil {
				o.fail("error", -1, call, "SeekToRow(%d) before call %d: %v", cs.SeekRow, call, err)
				return
			}
			pos = rowStart[cs.SeekRow]
		}
		if dst == nil || !cs.Recycle {
			dst = make([]parquet.Value, cs.Batch)
		}
		n, err := vr.ReadValues(dst)
		if n < 0 || n > len(dst) {
			o.fail("error", -1, call, "ReadValues returned %d for a destination of %d values", n, len(dst))
			return
		}
		vals := dst[:n]
		for x, v := range vals {
			got := c16AppendValue(nil, v)
			if pos+x >= len(want) || !bytes.Equal(got, want[pos+x]) {
				w := []byte(nil)
				if pos+x < len(want) {
					w = want[pos+x]
				}
				o.fail("wrong-value", call, call, "call %d of ReadValues (destination of %d values, %d returned): value %d (value %d of the chunk) differs from what was written, right after the call: was {%s}, now {%s}", call, len(dst), n, x, pos+x, c16DescribeValue(w), c16DescribeValue(got))
				return
			}
		}
		pos += n
		if err != nil && err != io.EOF {
			o.fail("error", -1, call, "ReadValues call %d: %v", call, err)
			return
		}
		if n == 0 && err == nil {
			o.fail("error", -1, call, "ReadValues call %d: no value and no error", call)
			return
		}
		if n > 0 {
			h := c16HoldValues(call, 'v', vals)
			o.batches++
			o.values += n
			c16Churn(cs.ChurnSeed+int64(call)*31, map[bool]int{true: cs.Workers, false: 0}[call%4 == 0])
			if call%5 == 1 {
				c16GC(false)
			}
			if h.ba > 0 {
				o.nontrivial = true
			}
			o.compare(h, call, fmt.Sprintf("before the next call on the value reader (after call %d and churn)", call))
		}
		if err == io.EOF {
			if pos != len(want) {
				o.fail("wrong-value", call, call, "the value reader ended after %d values, the chunk holds %d", pos, len(want))
			}
			break
		}
	}
	closed = true
	if err := vr.Close(); err != nil && o.class == "" {
		o.fail("error", -1, *callNo, "Close of the value reader: %v", err)
	}
}

func c16RunPages(c *core.Ctx, cs *c16PagesCase, bucket string) bool {
	key, _ := json.Marshal(cs)
	var o *c16Outcome
	failed := c.Probe(func() {
		o = c16ExecPages(cs)
		if o.class != "" {
			c.Violation(o.class, o.what, cs)
		}
	})
	c.Case(bucket, string(key), o.nontrivial)
	c16Stat.batches += o.batches
	c16Stat.compares += o.compares
	c16Stat.values += o.values
	if !failed {
		return true
	}
	class := o.class
	c16Stat.reported[class]++
	if c16Stat.reported[class] > 1 {
		return false
	}
	min := *cs
	for _, t := range []func(*c16PagesCase){
		func(t *c16PagesCase) { t.Workers = 0 },
		func(t *c16PagesCase) { t.Hold = 1 },
		func(t *c16PagesCase) { t.MaxPages = o.op + 1 },
		func(t *c16PagesCase) { t.SeekAt = 0 },
		func(t *c16PagesCase) { t.Recycle = false },
		func(t *c16PagesCase) { t.Batch /= 4 },
		func(t *c16PagesCase) { t.Batch /= 2 },
		func(t *c16PagesCase) { t.Batch = t.Batch * 3 / 4 },
	} {
		u := min
		t(&u)
		if (cs.Batch > 0) != (u.Batch > 0) {
			continue
		}
		if c.Probe(func() {
			if r := c16ExecPages(&u); r.class == o.class {
				c.Violation(r.class, r.what, u)
			}
		}) {
			min = u
		}
	}
	r := c16ExecPages(&min)
	if r.class == "" {
		r, min = o, *cs
	}
	api := "ColumnChunk.Pages"
	if min.Batch > 0 {
		api = "NewColumnChunkValueReader"
	}
	c.Violation(class, fmt.Sprintf("%s [%s of row group %d column %d]", r.what, api, min.RG, min.Col), min)
	return false
}

// ---------------------------------------------------------------------------
// Part 1c: buffers re-read after more writes, after sort, after reset
// ---------------------------------------------------------------------------

type c16BufCase struct {
	Part       string `json:"part"`
	Generic    bool   `json:"generic"`    // GenericBuffer[T].Write, else Buffer
	RowBuf     bool   `json:"row_buffer,omitempty"` // RowBuffer[T]
	Rec        string `json:"record,omitempty"`     // "" c16Rec, "ref" c16RefRec (reference-type fields, raw variant struct)
	Rows       bool   `json:"write_rows"` // write through WriteRows
	Sort       string `json:"sort"`       // "", id-desc, s, d, u
	Salt       int    `json:"salt"`
	Batches    []int  `json:"batches"`
	SwapAt     *int   `json:"swap_at,omitempty"` // rows k and k+1 are written in the opposite order
	SortAfter  int    `json:"sort_after"`        // sort.Sort after this batch (-1: never)
	ResetAfter int    `json:"reset_after"`       // Reset after this batch (-1: never)
	ReadBatch  int    `json:"read_batch"`
	ChurnSeed  int64  `json:"churn_seed"`
	Workers    int    `json:"workers"`
}

type c16AnyBuffer interface {
	parquet.RowGroup
	sort.Interface
	WriteRows([]parquet.Row) (int, error)
	Reset()
}

// c16BufKit is what a buffer case needs to know of its record type T.
type c16BufKit[T any] struct {
	schema *parquet.Schema
	mk     func(salt, id int) T
	less   func(sort string) func(a, b *T) bool // nil: the record type has no such sort key
	// rowDiff compares a row read back from the buffer with record id ("" when equal)
	rowDiff func(salt, id int, row parquet.Row) string
	// recDiff compares a record read back by a typed read with record id
	recDiff func(salt, id int, got *T) string
}

var c16BufSortCols = map[string][]parquet.SortingColumn{
	"id":      {parquet.Ascending("id")},
	"id-desc": {parquet.Descending("id")},
	"s":       {parquet.Ascending("s")},
	"d":       {parquet.Ascending("d"), parquet.Ascending("s")},
	"u":       {parquet.Descending("u")},
}

var c16BufKitRec = c16BufKit[c16Rec]{
	schema: c16Schema,
	mk:     func(salt, id int) c16Rec { return c16MakeRec(salt, id, false, 1) },
	less: func(sort string) func(a, b *c16Rec) bool {
		switch sort {
		case "id":
			return func(a, b *c16Rec) bool { return a.ID < b.ID }
		case "id-desc":
			return func(a, b *c16Rec) bool { return a.ID > b.ID }
		case "s":
			return func(a, b *c16Rec) bool { return a.S < b.S }
		case "d":
			return func(a, b *c16Rec) bool { return a.D < b.D || a.D == b.D && a.S < b.S }
		case "u":
			return func(a, b *c16Rec) bool { return bytes.Compare(a.U[:], b.U[:]) > 0 }
		}
		return nil
	},
	rowDiff: func(salt, id int, row parquet.Row) string {
		r := c16MakeRec(salt, id, false, 1)
		if w, g := c16CanonRow(c16Schema.Deconstruct(nil, &r)), c16CanonRow(row); !bytes.Equal(w, g) {
			return c16DiffRow(w, g)
		}
		return ""
	},
	recDiff: func(salt, id int, got *c16Rec) string {
		want := c16MakeRec(salt, id, false, 1)
		if g, w := c16CanonGo(got, false), c16CanonGo(&want, false); !bytes.Equal(g, w) {
			return c16DiffBytes(w, g)
		}
		return ""
	},
}

// Records with reference-type fields (ref.go): JSON and VARIANT columns, a raw
// variant struct, lists and maps of byte slices.  Map entries are deconstructed
// in the order Go iterates the map, so rows are compared through the normal
// form of the record they reconstruct to.
var c16BufKitRef = c16BufKit[c16RefRec]{
	schema: c16RefSchema,
	mk:     c16RefMake,
	less: func(sort string) func(a, b *c16RefRec) bool {
		switch sort {
		case "id":
			return func(a, b *c16RefRec) bool { return a.ID < b.ID }
		case "id-desc":
			return func(a, b *c16RefRec) bool { return a.ID > b.ID }
		}
		return nil
	},
	rowDiff: func(salt, id int, row parquet.Row) string {
		var got c16RefRec
		if err := c16RefSchema.Reconstruct(&got, row); err != nil {
			return "the row cannot be reconstructed: " + err.Error()
		}
		want := c16RefMake(salt, id)
		if w, g := c16NormOf(&want), c16NormOf(&got); w != g {
			return c16DiffText(w, g)
		}
		return ""
	},
	recDiff: func(salt, id int, got *c16RefRec) string {
		want := c16RefMake(salt, id)
		if w, g := c16NormOf(&want), c16NormOf(got); w != g {
			return c16DiffText(w, g)
		}
		return ""
	},
}

func c16ExecBuf(cs *c16BufCase) *c16Outcome {
	if cs.Rec == "ref" {
		return c16ExecBufT(cs, &c16BufKitRef)
	}
	return c16ExecBufT(cs, &c16BufKitRec)
}

func c16ExecBufT[T any](cs *c16BufCase, kit *c16BufKit[T]) (o *c16Outcome) {
	o = &c16Outcome{batch: -1, op: -1}
	step := -1
	defer func() {
		if r := recover(); r != nil {
			o.fail("panic", -1, step, "panic at step %d: %v", step, r)
		}
	}()
	var opts []parquet.RowGroupOption
	less := kit.less(cs.Sort)
	if less != nil {
		opts = append(opts, parquet.SortingRowGroupConfig(parquet.SortingColumns(c16BufSortCols[cs.Sort]...)))
	}
	var buf c16AnyBuffer
	var gbuf *parquet.GenericBuffer[T]
	var rbuf *parquet.RowBuffer[T]
	var pbuf *parquet.Buffer
	switch {
	case cs.RowBuf:
		rbuf = parquet.NewRowBuffer[T](opts...)
		buf = rbuf
	case cs.Generic:
		gbuf = parquet.NewGenericBuffer[T](opts...)
		buf = gbuf
	default:
		pbuf = parquet.NewBuffer(append([]parquet.RowGroupOption{kit.schema}, opts...)...)
		buf = pbuf
	}
	mk := func(id int) T { return kit.mk(cs.Salt, id) }
	var order []int // ids in buffer order
	sorted := 0     // the first `sorted` rows went through sort.Sort (order known up to ties)
	var forever []*c16Held
	checkHeld := func(when string) {
		for _, h := range forever {
			if h.ba > 0 {
				o.nontrivial = true
			}
			o.compare(h, step, when)
		}
	}
	next := 0
	rng := rand.New(rand.NewSource(cs.ChurnSeed))
	for bi, n := range cs.Batches {
		if o.class != "" {
			return o
		}
		step = bi
		recs := make([]T, n)
		for j := range recs {
			id := next + j
			if cs.SwapAt != nil && id == *cs.SwapAt && j+1 < n {
				id++
			} else if cs.SwapAt != nil && id == *cs.SwapAt+1 && j > 0 {
				id--
			}
			recs[j] = mk(id)
			order = append(order, id)
		}
		next += n
		var err error
		switch {
		case cs.Rows:
			rows := make([]parquet.Row, n)
			for j := range recs {
				rows[j] = kit.schema.Deconstruct(nil, &recs[j])
			}
			_, err = buf.WriteRows(rows)
		case cs.RowBuf:
			_, err = rbuf.Write(recs)
		case cs.Generic:
			_, err = gbuf.Write(recs)
		default:
			for j := range recs {
				if err = pbuf.Write(&recs[j]); err != nil {
					break
				}
			}
		}
		if err != nil {
			o.fail("error", -1, bi, "write of batch %d: %v", bi, err)
			return o
		}
		if bi == cs.SortAfter && less != nil {
			sort.Sort(buf)
			sorted = len(order)
		}
		// read everything back through Rows()
		rows := buf.Rows()
		var got []parquet.Row
		for {
			dst := make([]parquet.Row, cs.ReadBatch)
			k, err := rows.ReadRows(dst)
			got = append(got, dst[:k]...)
			if err != nil || k == 0 {
				if err != nil && err != io.EOF {
					o.fail("error", -1, bi, "ReadRows after batch %d: %v", bi, err)
					return o
				}
				break
			}
		}
		if len(got) != len(order) {
			o.fail("wrong-value", bi, bi, "after batch %d the buffer returns %d rows, %d were written", bi, len(got), len(order))
			return o
		}
		seen := map[int]bool{}
		actual := make([]int, len(got))
		for x, row := range got {
			id := -1
			if len(row) > 0 && row[0].Column() == 0 && row[0].Kind() == parquet.Int64 {
				id = int(row[0].Int64())
			}
			if x >= sorted {
				id = order[x] // insertion order is known exactly
			}
			if id < 0 || id >= next || seen[id] {
				o.fail("wrong-value", bi, bi, "after batch %d: row %d of the buffer has id %d (out of range or repeated)", bi, x, id)
				return o
			}
			seen[id] = true
			actual[x] = id
			if d := kit.rowDiff(cs.Salt, id, row); d != "" {
				o.fail("wrong-value", bi, bi, "after batch %d (writes of %v rows, sort after batch %d): row %d of the buffer (id %d) differs from what was written: %s", bi, cs.Batches[:bi+1], cs.SortAfter, x, id, d)
				return o
			}
			if x > 0 && x < sorted && bi == cs.SortAfter {
				a, b := mk(actual[x-1]), mk(id)
				if less(&b, &a) {
					o.fail("wrong-value", bi, bi, "after sort.Sort: rows %d and %d of the buffer (ids %d, %d) are out of order", x-1, x, actual[x-1], id)
					return o
				}
			}
			if x < sorted && bi != cs.SortAfter && id != order[x] {
				o.fail("wrong-value", bi, bi, "after batch %d: row %d of the buffer has id %d, it had id %d before the write", bi, x, id, order[x])
				return o
			}
		}
		order = actual
		// the rows are valid until the next call on the reader / change of the buffer
		rh := c16HoldRows(bi, 'r', 0, got)
		c16Churn(cs.ChurnSeed+int64(bi), 0)
		o.compare(rh, bi, "while the buffer is unchanged (after churn)")
		// clones and Go values are the caller's for ever
		clones := make([]parquet.Row, len(got))
		for x := range got {
			clones[x] = got[x].Clone()
		}
		forever = append(forever, c16HoldRows(bi, 'k', 0, clones))
		gr := parquet.NewGenericRowGroupReader[T](buf)
		typed := make([]T, len(order))
		k, err := gr.Read(typed)
		if err != nil && err != io.EOF {
			o.fail("error", -1, bi, "typed read after batch %d: %v", bi, err)
			return o
		}
		for x := 0; x < k; x++ {
			if d := kit.recDiff(cs.Salt, order[x], &typed[x]); d != "" || k != len(order) {
				o.fail("wrong-value", bi, bi, "typed read after batch %d: record %d (id %d; %d of %d records) differs from what was written: %s", bi, x, order[x], k, len(order), d)
				return o
			}
		}
		forever = append(forever, c16HoldGo(bi, 0, typed[:k]))
		o.batches += 3
		o.values += 3 * len(got)
		rows.Close()
		gr.Close()
		checkHeld(fmt.Sprintf("after reading the buffer back (batch %d)", bi))
		if bi == cs.ResetAfter {
			buf.Reset()
			order, sorted = nil, 0
			checkHeld("after Buffer.Reset")
		}
		if rng.Intn(2) == 0 {
			c16Churn(cs.ChurnSeed+int64(bi)*13, cs.Workers)
			if rng.Intn(2) == 0 {
				c16GC(false)
			}
			checkHeld("after churn and GC")
		}
	}
	step = len(cs.Batches)
	buf.Reset()
	c16Churn(cs.ChurnSeed+77, cs.Workers)
	if cs.ChurnSeed%2 == 0 {
		c16GC(false)
	}
	checkHeld("after the final Reset, churn and GC")
	return o
}

func c16RunBuf(c *core.Ctx, cs *c16BufCase, bucket string) bool {
	key, _ := json.Marshal(cs)
	o := c16ExecBuf(cs)
	c.Case(bucket, string(key), o.nontrivial)
	c16Stat.batches += o.batches
	c16Stat.compares += o.compares
	c16Stat.values += o.values
	if o.class == "" {
		return true
	}
	class := o.class
	c16Stat.reported[class]++
	if c16Stat.reported[class] > 1 {
		return false
	}
	// shrink: fewer and smaller batches
	min := *cs
	same := func(t *c16BufCase) bool { r := c16ExecBuf(t); return r.class == o.class }
	for changed, budget := true, 80; changed && budget > 0; {
		changed = false
		for i := range min.Batches {
			for _, n := range []int{1, min.Batches[i] / 2, min.Batches[i] - 1} {
				if n >= 1 && n < min.Batches[i] && budget > 0 {
					budget--
					t := min
					t.Batches = append([]int(nil), min.Batches...)
					t.Batches[i] = n
					if same(&t) {
						min, changed = t, true
						break
					}
				}
			}
		}
		if len(min.Batches) > 1 && budget > 0 {
			budget--
			t := min
			t.Batches = min.Batches[:len(min.Batches)-1]
			if same(&t) {
				min, changed = t, true
			}
		}
	}
	min.Workers = 0
	r := c16ExecBuf(&min)
	if r.class != o.class {
		r, min = o, *cs
	}
	c.Violation(class, r.what, min)
	return false
}

// ---------------------------------------------------------------------------
// Part 2: the library never modifies what the caller passes to Write
// ---------------------------------------------------------------------------

type c16CallerCase struct {
	Part      string `json:"part"`
	API       string `json:"api"`
	Sorted    bool   `json:"sorting"` // sorting columns configured (input is not sorted)
	Dedupe    bool   `json:"drop_duplicated_rows,omitempty"`
	Salt      int    `json:"salt"`
	N         int    `json:"n"`
	Dup       bool   `json:"repeated_rows"`
	// Order of the caller's rows: "" as drawn (a permutation: repeated rows are
	// rarely neighbours), "sorted" by id (repeated rows are neighbours, in the
	// middle of the batch and at its ends: what the wrappers and writers that
	// compare neighbouring rows - DedupeRowWriter, DropDuplicatedRows - act on).
	Order     string `json:"order,omitempty"`
	Codec     string `json:"codec"`
	Shuffle   int64  `json:"shuffle_seed"`
	ChurnSeed int64  `json:"churn_seed"`
	Workers   int    `json:"workers"`
}

var c16CallerAPIs = []string{"gw.Write", "gw.WriteRows", "w.Write", "w.WriteRows", "gb.Write", "gb.WriteRows", "b.Write", "b.WriteRows",
	"sw.Write", "sw.WriteRows", "cw.WriteRowValues", "copyrows", "pq.Write", "filter.WriteRows", "dedupe.WriteRows", "transform.WriteRows", "multi.WriteRows",
	"copyrows.dedupe"}

// c16SliceReader serves caller-owned rows to CopyRows.
type c16SliceReader struct {
	rows []parquet.Row
	pos  int
}

func (r *c16SliceReader) ReadRows(dst []parquet.Row) (int, error) {
	n := 0
	for n < len(dst) && r.pos < len(r.rows) {
		dst[n] = append(dst[n][:0], r.rows[r.pos]...)
		n++
		r.pos++
	}
	if r.pos >= len(r.rows) {
		return n, io.EOF
	}
	return n, nil
}

// c16CallerInput builds unsorted records (every slice with spare capacity
// holding sentinels) and the same content as rows.
func c16CallerInput(cs *c16CallerCase) (recs []c16Rec, rows []parquet.Row) {
	rng := rand.New(rand.NewSource(cs.Shuffle))
	ids := rng.Perm(cs.N)
	recs = make([]c16Rec, cs.N, cs.N+2)
	for j, id := range ids {
		if cs.Dup && j > 0 && rng.Intn(3) == 0 {
			if rng.Intn(2) == 0 {
				recs[j] = recs[rng.Intn(j)] // shares the slices of an earlier record
			} else {
				recs[j] = c16MakeRec(cs.Salt, int(recs[rng.Intn(j)].ID), true, 2)
			}
			continue
		}
		recs[j] = c16MakeRec(cs.Salt, id, true, 2)
	}
	if cs.Order == "sorted" {
		sort.SliceStable(recs, func(a, b int) bool { return recs[a].ID < recs[b].ID })
	}
	tail := recs[cs.N:cap(recs)]
	for j := range tail {
		tail[j] = c16MakeRec(9999, 777+j, true, 2)
	}
	rows = make([]parquet.Row, cs.N, cs.N+2)
	all := rows[:cap(rows)]
	for j := range all {
		src := recs[:cap(recs)][j]
		vals := c16Schema.Deconstruct(nil, &src)
		row := make(parquet.Row, len(vals), len(vals)+3)
		for x, v := range vals {
			if k := v.Kind(); k == parquet.ByteArray || k == parquet.FixedLenByteArray {
				// the value's bytes live in a caller slice with spare capacity
				nv := parquet.ByteArrayValue(c16Spare(v.ByteArray(), 4))
				if k == parquet.FixedLenByteArray {
					nv = parquet.FixedLenByteArrayValue(c16Spare(v.ByteArray(), 4))
				}
				v = nv.Level(v.RepetitionLevel(), v.DefinitionLevel(), v.Column())
			}
			row[x] = v
		}
		sp := row[len(vals):cap(row)]
		for x := range sp {
			sp[x] = parquet.ByteArrayValue([]byte("SENTINEL-VALUE")).Level(0, 0, x)
		}
		all[j] = row
	}
	return recs, rows
}

var c16Sink any

type c16Flat struct {
	ID int64  `parquet:"id"`
	S  string `parquet:"s"`
}

func c16ExecCaller(cs *c16CallerCase) (o *c16Outcome) {
	o = &c16Outcome{batch: -1, op: -1}
	stage := "setup"
	defer func() {
		if r := recover(); r != nil {
			o.fail("panic", -1, -1, "%s: panic at stage %q: %v", cs.API, stage, r)
		}
	}()
	recs, rows := c16CallerInput(cs)
	useRows := strings.HasSuffix(cs.API, "Rows") || strings.HasPrefix(cs.API, "copyrows") || cs.API == "cw.WriteRowValues"
	// column-wise input of the column writers
	var colVals [][]parquet.Value
	if cs.API == "cw.WriteRowValues" {
		ids := make([]parquet.Value, cs.N, cs.N+2)
		ss := make([]parquet.Value, cs.N, cs.N+2)
		for j := range ids[:cap(ids)] {
			id, s := int64(7000+j), []byte("SENTINEL")
			if j < cs.N {
				id, s = recs[j].ID, c16Spare([]byte(recs[j].S), 4)
			}
			ids[:cap(ids)][j] = parquet.Int64Value(id).Level(0, 0, 0)
			ss[:cap(ss)][j] = parquet.ByteArrayValue(s).Level(0, 0, 1)
		}
		colVals = [][]parquet.Value{ids, ss}
	}
	var colRows []parquet.Row
	if colVals != nil {
		colRows = []parquet.Row{colVals[0], colVals[1]}
		c16Sink = colRows // heap allocated: stack growth would move it and change its address
	}
	canon := func() []byte {
		switch {
		case colVals != nil:
			return c16CanonRowsFull(colRows)
		case useRows:
			return c16CanonRowsFull(rows)
		default:
			w := c16Canon{full: true}
			w.val(reflect.ValueOf(&recs).Elem())
			return w.buf
		}
	}
	before := canon()
	o.values = cs.N
	o.nontrivial = cs.N > 1
	check := func() {
		o.compares++
		if now := canon(); !bytes.Equal(now, before) && o.class == "" {
			detail := c16DiffBytes(before, now)
			o.fail("caller-slice-modified", -1, -1, "%s (sorting=%v, %d rows, repeated=%v): the caller's input changed after stage %q: %s", cs.API, cs.Sorted, cs.N, cs.Dup, stage, detail)
		}
	}
	do := func(name string, f func() error) {
		if o.class != "" {
			return
		}
		stage = name
		if err := f(); err != nil {
			o.fail("error", -1, -1, "%s: stage %q: %v", cs.API, name, err)
			return
		}
		check()
	}
	var out bytes.Buffer
	var wopts []parquet.WriterOption
	var bopts []parquet.RowGroupOption
	wopts = append(wopts, parquet.Compression(gen.Codecs[cs.Codec]), parquet.PageBufferSize(300))
	if cs.Sorted {
		so := []parquet.SortingOption{parquet.SortingColumns(parquet.Ascending("s"), parquet.Descending("id"))}
		if cs.Dedupe {
			so = append(so, parquet.DropDuplicatedRows(true))
		}
		wopts = append(wopts, parquet.SortingWriterConfig(so...))
		bopts = append(bopts, parquet.SortingRowGroupConfig(so...))
	}
	churn := func() error {
		c16Churn(cs.ChurnSeed, cs.Workers)
		if cs.ChurnSeed%3 == 0 {
			c16GC(false)
		}
		return nil
	}
	switch cs.API {
	case "gw.Write", "gw.WriteRows", "copyrows":
		w := parquet.NewGenericWriter[c16Rec](&out, wopts...)
		do("write", func() (err error) {
			switch cs.API {
			case "gw.Write":
				_, err = w.Write(recs)
			case "gw.WriteRows":
				_, err = w.WriteRows(rows)
			default:
				_, err = parquet.CopyRows(w, &c16SliceReader{rows: rows})
			}
			return err
		})
		do("flush", w.Flush)
		do("write again", func() (err error) {
			if cs.API == "gw.Write" {
				_, err = w.Write(recs)
			} else {
				_, err = w.WriteRows(rows)
			}
			return err
		})
		do("close", w.Close)
	case "pq.Write":
		do("write", func() error { return parquet.Write[c16Rec](&out, recs, wopts...) })
	case "filter.WriteRows", "dedupe.WriteRows", "transform.WriteRows", "multi.WriteRows", "copyrows.dedupe":
		// row writer wrappers: they borrow the caller's rows on their way to the
		// writer.  The wrappers do what they are for: the filter drops rows, the
		// comparator of the dedupe writer finds the repeated rows equal (rows
		// with the same id), the transform rewrites rows, the multi writer has
		// two destinations.
		w := parquet.NewGenericWriter[c16Rec](&out, wopts...)
		var rw parquet.RowWriter
		switch cs.API {
		case "filter.WriteRows":
			k := 0
			rw = parquet.FilterRowWriter(w, func(parquet.Row) bool { k++; return k%3 != 0 })
		case "dedupe.WriteRows", "copyrows.dedupe":
			rw = parquet.DedupeRowWriter(w, c16Schema.Comparator(parquet.Ascending("id")))
		case "transform.WriteRows":
			k := 0
			rw = parquet.TransformRowWriter(w, func(dst, src parquet.Row) (parquet.Row, error) {
				if k++; k%4 == 0 {
					return dst, nil // dropped
				}
				for _, v := range src {
					if v.Kind() == parquet.Int64 && v.Column() == 0 {
						v = parquet.Int64Value(v.Int64()+1000).Level(v.RepetitionLevel(), v.DefinitionLevel(), v.Column())
					}
					dst = append(dst, v)
				}
				return dst, nil
			})
		case "multi.WriteRows":
			var out2 bytes.Buffer
			w2 := parquet.NewGenericWriter[c16Rec](&out2, wopts...)
			rw = parquet.MultiRowWriter(parquet.DedupeRowWriter(w, c16Schema.Comparator(parquet.Ascending("id"))), w2)
		}
		if cs.API == "copyrows.dedupe" {
			// the source is a RowBuffer holding the caller's rows: its reader hands the
			// buffer's own rows to the writer (WriteRowsTo); the buffer must read the
			// same afterwards
			rb := parquet.NewRowBuffer[c16Rec]()
			readAll := func() (all []byte, err error) {
				rr := rb.Rows()
				defer rr.Close()
				dst := make([]parquet.Row, 7)
				for {
					k, err := rr.ReadRows(dst)
					for _, r := range dst[:k] {
						all = append(all, c16CanonRow(r)...)
					}
					if err != nil || k == 0 {
						if err == io.EOF {
							err = nil
						}
						return all, err
					}
				}
			}
			var src []byte
			do("fill the source buffer", func() (err error) {
				if _, err = rb.WriteRows(rows); err == nil {
					src, err = readAll()
				}
				return err
			})
			do("write", func() (err error) {
				rr := rb.Rows()
				defer rr.Close()
				_, err = parquet.CopyRows(rw, rr)
				return err
			})
			do("read the source buffer again", func() error {
				now, err := readAll()
				if err == nil && !bytes.Equal(now, src) {
					o.fail("source-modified", -1, -1, "%s (%d rows, repeated=%v, order=%q): the RowBuffer that was the source of CopyRows reads differently after the copy: %s", cs.API, cs.N, cs.Dup, cs.Order, c16DiffBytes(src, now))
				}
				return err
			})
		} else {
			do("write", func() (err error) { _, err = rw.WriteRows(rows); return err })
		}
		do("flush", w.Flush)
		do("write again", func() (err error) { _, err = rw.WriteRows(rows); return err })
		do("close", w.Close)
	case "w.Write", "w.WriteRows":
		w := parquet.NewWriter(&out, append([]parquet.WriterOption{c16Schema}, wopts...)...)
		do("write", func() (err error) {
			if cs.API == "w.WriteRows" {
				_, err = w.WriteRows(rows)
				return err
			}
			for j := range recs {
				if j%2 == 0 {
					err = w.Write(&recs[j])
				} else {
					err = w.Write(recs[j])
				}
				if err != nil {
					return err
				}
			}
			return nil
		})
		do("flush", w.Flush)
		do("close", w.Close)
	case "gb.Write", "gb.WriteRows", "b.Write", "b.WriteRows":
		var buf c16AnyBuffer
		var gbuf *parquet.GenericBuffer[c16Rec]
		var pbuf *parquet.Buffer
		if strings.HasPrefix(cs.API, "gb.") {
			gbuf = parquet.NewGenericBuffer[c16Rec](bopts...)
			buf = gbuf
		} else {
			pbuf = parquet.NewBuffer(append([]parquet.RowGroupOption{c16Schema}, bopts...)...)
			buf = pbuf
		}
		do("write", func() (err error) {
			switch cs.API {
			case "gb.Write":
				_, err = gbuf.Write(recs)
			case "b.Write":
				for j := range recs {
					if err = pbuf.Write(&recs[j]); err != nil {
						return err
					}
				}
			default:
				_, err = buf.WriteRows(rows)
			}
			return err
		})
		if cs.Sorted {
			do("sort", func() error { sort.Sort(buf); return nil })
		}
		do("write row group", func() error {
			w := parquet.NewGenericWriter[c16Rec](&out, wopts...)
			if _, err := w.WriteRowGroup(buf); err != nil {
				return err
			}
			return w.Close()
		})
		do("reset", func() error { buf.Reset(); return nil })
	case "sw.Write", "sw.WriteRows":
		w := parquet.NewSortingWriter[c16Rec](&out, int64(3+cs.N/3), wopts...)
		do("write", func() (err error) {
			if cs.API == "sw.Write" {
				_, err = w.Write(recs)
			} else {
				_, err = w.WriteRows(rows)
			}
			return err
		})
		do("flush", w.Flush)
		do("write again", func() (err error) {
			if cs.API == "sw.Write" {
				_, err = w.Write(recs)
			} else {
				_, err = w.WriteRows(rows)
			}
			return err
		})
		do("close", w.Close)
	case "cw.WriteRowValues":
		w := parquet.NewGenericWriter[c16Flat](&out, wopts...)
		do("write", func() error {
			for ci, cw := range w.ColumnWriters() {
				if _, err := cw.WriteRowValues(colVals[ci]); err != nil {
					return err
				}
			}
			return nil
		})
		do("close", w.Close)
	default:
		o.fail("bad-op", -1, -1, "unknown API %q", cs.API)
	}
	do("churn", churn)
	return o
}

func c16RunCaller(c *core.Ctx, cs *c16CallerCase, bucket string) bool {
	key, _ := json.Marshal(cs)
	o := c16ExecCaller(cs)
	c.Case(bucket, string(key), o.nontrivial)
	c16Stat.compares += o.compares
	if o.class == "" {
		return true
	}
	class := o.class
	c16Stat.reported["caller/"+class]++
	if c16Stat.reported["caller/"+class] > 1 {
		return false
	}
	min := *cs
	for _, f := range []func(*c16CallerCase){
		func(t *c16CallerCase) { t.Workers = 0 },
		func(t *c16CallerCase) { t.Dup = false },
		func(t *c16CallerCase) { t.Dedupe = false },
		func(t *c16CallerCase) { t.N = 2 },
		func(t *c16CallerCase) { t.N = 3 },
		func(t *c16CallerCase) { t.N = t.N / 2 },
	} {
		t := min
		f(&t)
		if t.N >= 1 && t.N <= min.N {
			if r := c16ExecCaller(&t); r.class == o.class {
				min = t
			}
		}
	}
	r := c16ExecCaller(&min)
	if r.class != o.class {
		r, min = o, *cs
	}
	c.Violation(class, r.what, min)
	return false
}

// ---------------------------------------------------------------------------
// run / replay
// ---------------------------------------------------------------------------

func runC16(c *core.Ctx) {
	parquet.VerifSetPoison(true)
	debug.SetGCPercent(1000) // the live heap is a few MB: without this the collector runs thousands of times
	if runtime.GOMAXPROCS(0) > 4 {
		runtime.GOMAXPROCS(4) // explicit GCs on many Ps spend their time contending in the sweeper
	}
	defer func() {
		if c16TmpDir != "" {
			os.RemoveAll(c16TmpDir)
		}
	}()
	c.Res.Rule = "Pools poison what is returned to them. FILES of known content: typed files of c16Rec rows (int64, string, dictionary string, []byte, [16]byte, [5]byte, uuid, *string, []string, nested struct with string/*string/[]byte, map[string]string; cell lengths 0..300; written row by row so every value is known) over every byte array encoding (default, plain, delta length, delta byte array, dictionary) x codec (none snappy gzip brotli zstd lz4) x data page v1/v2 x page buffer 64..4096 x 1..n row groups x DictionaryMaxBytes (none, 48..6000: dictionary columns that fall back to PLAIN pages in the middle of a chunk, early or late), files of c16DynS rows written with an EXPLICIT schema of parquet.Group nodes (nested groups, optional group, repeated group, LIST, MAP, repeated leaf, dictionary column; same writer options), files of c16RefRec rows (REFERENCE-TYPE Go values of logical-type columns: JSON columns read into map, slice, struct, pointer, interface, slice of maps, json.RawMessage, optional map; a VARIANT column read into an interface and one read into a raw variant struct {Metadata, Value []byte}; lists of byte slices, nested lists, lists of pointers, a repeated byte slice, maps of byte slices / lists / groups, an optional group with slices, a list of groups; element counts go up and down from row to row and map keys overlap between neighbouring rows), KINDS files (one optional leaf per physical type - boolean, int32, int64, int96, float, double, byte array, string, fixed length byte arrays of 1/4/16 bytes, uuid - and per encoding the format allows for the type and the library takes: PLAIN, RLE, PLAIN_DICTIONARY, RLE_DICTIONARY, DELTA_BINARY_PACKED, DELTA_LENGTH_BYTE_ARRAY, DELTA_BYTE_ARRAY, BYTE_STREAM_SPLIT, 55 columns; every column filled every 1st/2nd/3rd/7th/24th/64th row, the density rotating with the salt, so that with small page buffers and row groups of 2 rows pages hold a dozen, a few, two, one or no value; the pages of each file are counted by their number of non-null values) and generated generic files (gen.Case, >= 2 byte array leaves, nested/optional/repeated). DESTINATION TYPES of typed reads: c16Rec (SchemaOf); with the explicit schema c16DynS, a struct whose groups are Go maps (map[string]any, map[string]string, []map[string]string, []any, any), a struct of `any` fields, rows of type map[string]any (maps pre-made by the caller, or nil) and rows of type any - through GenericReader[T].Read, Reader.Read(&v), parquet.Read[T]/ReadFile[T]; values of every destination type are compared with the known content through a normal form of names and content, and held as full canonical forms (content, addresses, map identities, spare capacity). WRITER SHAPES x READER KINDS (systematic): 24 (thorough 96) files walking DictionaryMaxBytes {none,48,200,350,700,2000} x default/dictionary encoding of every byte array column x v1/v2 x 6 codecs x page buffer {64,200,512,1500} x 1/3 row groups x both families, each read by RowGroup.Rows, NewRowGroupRowReader, GenericReader (destination types in turn) and Reader / whole-file helper in one history with batches that span many pages, once in ReadModeSync and once in ReadModeAsync; a shape with a limit counts as non-trivial only when the file has a chunk with a dictionary page AND PLAIN data pages. DESTINATION CORPUS: every destination type x {GenericReader, Reader, whole file}, the usual loop passing the same destination to every call while the caller keeps what earlier calls filled, with churn, GC, ReadRows, Clone, seek, Reset, Close in between. REFERENCE-TYPE DESTINATIONS: c16RefRec x {GenericReader, Reader, whole file}, the same loop with batch sizes 5/3/2/17 so that every destination slot receives rows with more and with fewer elements than it held, next to a row reader of the same file. KINDS CORPUS: 6 (thorough 18) kinds files over codecs x v1/v2 x page buffer 64/200 x {one row group, row groups of 2 rows, 3 row groups} x DictionaryMaxBytes {none,48,700}, each read by RowGroup.Rows, NewRowGroupRowReader, GenericReader and Reader / whole-file helper (into map[string]any pre-made or nil, any) in sync and async mode, and its column chunks page by page (values and dictionary values held until Release under churn; quick tier: every other column per file); a kinds file counts as non-trivial only when it has pages with exactly one and pages with exactly two non-null values. HISTORIES of 4..40 operations over 2..4 readers (RowGroup.Rows, NewRowGroupRowReader, parquet.Reader, GenericReader[T], parquet.Read/ReadFile; sync and async) of possibly different files: ReadRows (1..200 rows, sometimes into recycled rows), typed reads into a random destination type (1 in 4 into the previous destination whose shallow copies the caller kept), Row.Clone of the last batch, SeekToRow, Reset of every reader kind (Reader.Reset, GenericReader.Reset, the Reset method of row group row readers; mostly followed at once by a ReadRows of 5..200 rows, the reader is used on after it, also after Close), Close, churn (other files read by rows and by pages, files written with all codecs, buffers filled/sorted/reset, in this and 2..4 other goroutines), GC (+FreeOSMemory). Every batch is compared with the file content at once and with its deep snapshot after every later operation for as long as the caller is entitled to it (rows until the next call on the same reader; Go values and clones for ever, also after Close and a final churn); the entitlement sets are computed in Go and compared with the model. PAGES: values and dictionary values of 1..3 pages held until Release under churn. CHUNK VALUES: the same column chunks (and every fourth column of each kinds file; thorough: every column) through the value-level reader parquet.NewColumnChunkValueReader, ReadValues into destinations of 1/3/17/64/200/1500 values (less than a page .. many pages), new or recycled, 1 in 3 with a SeekToRow before one of the first calls; every batch compared with the chunk at once and, after churn and GC, with its snapshot before the next call on the reader. BUFFERS: Buffer/GenericBuffer/RowBuffer of c16Rec or c16RefRec records (reference-type fields incl. a raw variant struct {Metadata, Value []byte}) written in several batches (Write/WriteRows), read back after every batch, after sort.Sort (4 sort keys incl. ties and empty strings; c16RefRec by id) and Reset followed by more writes (every record type x buffer kind x write path systematically, 1 in 3 random cases); clones and Go values held across later writes, sort, Reset. CALLER SLICES: 16 write entry points (writers, buffers, sorting writer, column writers, CopyRows, FilterRowWriter, DedupeRowWriter whose comparator finds rows of the same id equal, TransformRowWriter dropping and rewriting rows, MultiRowWriter over a dedupe writer and a plain writer, CopyRows from a RowBuffer - re-read afterwards - into a dedupe writer) x sorting config x repeated rows x order of the input (as drawn, or sorted by id so that repeated rows are neighbours in the middle and at the ends of the batch), inputs with spare capacity holding sentinels; full canonical form (contents, order, addresses, capacity region) before vs after write, sort, flush, close, churn. A case is non-trivial when at least one non-empty byte array value was held across at least one churn or GC (caller cases: more than one row); distinct by the JSON of the case."
	if err := c16ChurnInit(); err != nil {
		c.Violation("file", "cannot write the churn files: "+err.Error(), nil)
		return
	}
	rng := c.Rng
	t0 := time.Now()
	lap := func(what string) {
		var ms runtime.MemStats
		runtime.ReadMemStats(&ms)
		c.Note("time %s: %.1fs (heap in use %d MB, sys %d MB, objects %d, GCs %d)", what, time.Since(t0).Seconds(), ms.HeapInuse>>20, ms.Sys>>20, ms.HeapObjects, ms.NumGC)
		t0 = time.Now()
	}

	// ---- the pool of files
	var typed, pool []c16FileSpec
	encs := []string{"", "plain", "dlba", "dba", "dict"}
	for k := 0; k < c.N(12, 36); k++ {
		spec := c16TypedSpec(rng, c.N(90, 240))
		spec.Enc, spec.Codec, spec.Version = encs[k%len(encs)], c16CodecNames[k%len(c16CodecNames)], 1+(k/2)%2
		if spec.Enc == "dict" {
			// every byte array column dictionary encoded: without limit, and with limits met early and late
			spec.DictMax = []int64{200, 0, 2000, 48, 700, 6000}[(k/len(encs))%6]
		}
		if _, err := c16Build(spec); err != nil {
			c.Violation("file", fmt.Sprintf("cannot write a typed file: %v", err), spec)
			continue
		}
		typed = append(typed, spec)
	}
	pool = append(pool, typed...)
	var dyn []c16FileSpec
	for k := 0; k < c.N(5, 15); k++ {
		spec := c16DynSpec(rng, c.N(90, 240))
		spec.Enc, spec.Codec, spec.Version = encs[(k*2)%len(encs)], c16CodecNames[(k+3)%len(c16CodecNames)], 1+k%2
		if _, err := c16Build(spec); err != nil {
			c.Violation("file", fmt.Sprintf("cannot write a file with the explicit schema: %v", err), spec)
			continue
		}
		dyn = append(dyn, spec)
	}
	pool = append(pool, dyn...)
	// reference-type destinations of logical-type columns; encodings x types x values per page
	var refs []c16FileSpec
	for k := 0; k < c.N(4, 12); k++ {
		spec := c16RefSpec(rng, c.N(60, 160))
		spec.Enc, spec.Codec, spec.Version = encs[(k*3+1)%len(encs)], c16CodecNames[(k+1)%len(c16CodecNames)], 1+k%2
		if _, err := c16Build(spec); err != nil {
			c.Violation("file", fmt.Sprintf("cannot write a file of rows with reference-type fields: %v", err), spec)
			continue
		}
		refs = append(refs, spec)
	}
	pool = append(pool, refs...)
	kinds := c16KindsSpecs(c.N(6, 18), c.N(100, 200))
	for k := 0; k < c.N(2, 6); k++ {
		spec := c16KindsSpec(rng, c.N(60, 160))
		if _, err := c16Build(spec); err != nil {
			c.Violation("file", fmt.Sprintf("cannot write a kinds file: %v", err), spec)
			continue
		}
		pool = append(pool, spec)
	}
	skipped := 0
	for k := 0; k < c.N(6, 20); k++ {
		spec := c16GenSpec(rng, c.N(70, 160))
		if _, err := c16Build(spec); err != nil {
			skipped++
			continue
		}
		pool = append(pool, spec)
	}
	if skipped > 0 {
		c.Note("%d generated files could not be written and were skipped", skipped)
	}
	if len(typed) == 0 {
		return
	}

	lap("files")
	c16Converted(c)
	lap("converted row groups")
	// ---- corpus histories
	for k, spec := range typed {
		if k >= c.N(5, 15) {
			break
		}
		other := typed[(k+1)%len(typed)]
		for _, async := range []bool{false, true} {
			cs := &c16HistCase{Part: "hist", ChurnSeed: int64(k), Workers: 2 * (k % 2),
				Readers: []c16ReaderSpec{{File: spec, Kind: "rows", Async: async}, {File: spec, Kind: "generic", Async: async}, {File: other, Kind: "reader"}, {File: other, Kind: "whole"}},
				Ops: []c16Op{{Tok: "r0", N: 17}, {Tok: "t1", N: 5}, {Tok: "x"}, {Tok: "k0"}, {Tok: "s0", K: 3}, {Tok: "g"}, {Tok: "r0", N: 200}, {Tok: "x"},
					{Tok: "r2", N: 64}, {Tok: "t2", N: 3}, {Tok: "t3"}, {Tok: "x"}, {Tok: "r1", N: 5}, {Tok: "k1"},
					{Tok: "z0"}, {Tok: "r0", N: 64}, {Tok: "x"}, {Tok: "z1"}, {Tok: "r1", N: 200}, {Tok: "x"}, {Tok: "t1", N: 3}, {Tok: "z2"}, {Tok: "r2", N: 17}, {Tok: "r2", N: 200}, {Tok: "x"}, {Tok: "z1"}, {Tok: "t1", N: 5},
					{Tok: "c1"}, {Tok: "z1"}, {Tok: "r1", N: 3}, {Tok: "x"}, {Tok: "t3", N: 1}, {Tok: "c0"}, {Tok: "c2"}, {Tok: "g", Free: true}, {Tok: "x"}}}
			c16RunHist(c, cs, "held/corpus")
			if k == 0 && !async {
				c.Sample(cs)
			}
		}
	}

	lap("corpus histories")
	c16Shapes(c)
	lap("writer shapes x reader kinds")
	c16DstCorpus(c, typed, dyn)
	lap("destination types")
	c16RefCorpus(c, refs)
	lap("reference-type destinations")
	c16KindsCorpus(c, kinds)
	lap("encodings x types x values per page")
	// ---- random histories
	nh := c.N(330, 2000)
	for i := 0; i < nh; i++ {
		cs := c16GenHist(rng, pool, 40)
		bucket := "held/rows"
		for _, op := range cs.Ops {
			if op.Tok[0] == 't' {
				bucket = "held/typed"
			}
		}
		c16RunHist(c, cs, bucket)
		if i < 2 {
			c.Sample(cs)
		}
	}

	lap("random histories")
	// ---- pages
	np := c.N(70, 600)
	for i := 0; i < np; i++ {
		spec := pool[rng.Intn(len(pool))]
		b, err := c16Build(spec)
		if err != nil {
			continue
		}
		cs := &c16PagesCase{Part: "pages", File: spec, Async: rng.Intn(4) == 0, RG: rng.Intn(len(b.rgRows)), Col: rng.Intn(b.ncols),
			Hold: 1 + rng.Intn(3), MaxPages: c.N(8, 16), ChurnSeed: rng.Int63n(1 << 40), Workers: rng.Intn(2) * (2 + rng.Intn(3))}
		c16RunPages(c, cs, "held/pages")
		if i == 0 {
			c.Sample(cs)
		}
		// the same chunk through the value-level reader, destinations from one value to many pages
		vs := *cs
		vs.Batch = c16ValueBatches[rng.Intn(len(c16ValueBatches))]
		vs.Recycle = rng.Intn(2) == 0
		if rng.Intn(3) == 0 {
			vs.SeekAt, vs.SeekRow = 1+rng.Intn(3), rng.Int63n(b.rgRows[vs.RG])
		}
		c16RunPages(c, &vs, "held/chunk-values")
		if i == 0 {
			c.Sample(&vs)
		}
	}

	lap("pages")
	// ---- buffers: the two repaired defects first
	for _, g := range []bool{true, false} {
		for _, rw := range []bool{false, true} {
			c16RunBuf(c, &c16BufCase{Part: "buffer", Generic: g, Rows: rw, Salt: 3, Batches: []int{1, 2}, SortAfter: -1, ResetAfter: -1, ReadBatch: 10, ChurnSeed: 1}, "held/buffer")
			c16RunBuf(c, &c16BufCase{Part: "buffer", Generic: g, Rows: rw, Sort: "id-desc", Salt: 3, Batches: []int{12, 3}, SortAfter: 0, ResetAfter: -1, ReadBatch: 5, ChurnSeed: 2}, "held/buffer")
		}
	}
	// one adjacent pair out of order: only values that are empty in the first row of the pair keep the offsets ascending
	for p := 0; p < 12; p++ {
		p := p
		c16RunBuf(c, &c16BufCase{Part: "buffer", Generic: p%2 == 0, Rows: p%4 < 2, Sort: "id", Salt: 3 + p/6, Batches: []int{14, 2}, SwapAt: &p, SortAfter: 0, ResetAfter: -1, ReadBatch: 64, ChurnSeed: int64(p)}, "held/buffer")
	}
	// record types x buffer kinds x write paths: the buffer is Reset and written again
	// while the caller keeps the clones and Go values of what it read before
	for ri, rec := range []string{"", "ref"} {
		for ki := 0; ki < 3; ki++ {
			for wi, rw := range []bool{false, true} {
				c16RunBuf(c, &c16BufCase{Part: "buffer", Rec: rec, Generic: ki == 1, RowBuf: ki == 2, Rows: rw, Salt: 7 + ri + ki, Batches: []int{6, 5, 9, 4}, SortAfter: -1,
					ResetAfter: (ki + wi) % 2, ReadBatch: 5, ChurnSeed: int64(20 + ki*2 + wi)}, "held/buffer-reset")
			}
		}
	}
	nb := c.N(80, 700)
	for i := 0; i < nb; i++ {
		cs := &c16BufCase{Part: "buffer", Generic: rng.Intn(2) == 0, Rows: rng.Intn(2) == 0, Sort: []string{"", "id-desc", "s", "d", "u", "id"}[rng.Intn(6)],
			Salt: 1 + rng.Intn(500), SortAfter: -1, ResetAfter: -1, ReadBatch: c16BatchSizes[1+rng.Intn(5)], ChurnSeed: rng.Int63n(1 << 40), Workers: rng.Intn(2) * 2}
		if rng.Intn(4) == 0 {
			cs.Generic, cs.RowBuf = false, true
		}
		if rng.Intn(3) == 0 {
			cs.Rec, cs.Sort = "ref", []string{"", "id-desc", "id"}[rng.Intn(3)]
		}
		for k := 1 + rng.Intn(4); k > 0; k-- {
			cs.Batches = append(cs.Batches, 1+rng.Intn(c.N(25, 60)))
		}
		if cs.Sort != "" {
			cs.SortAfter = rng.Intn(len(cs.Batches))
		}
		if cs.Sort == "id" {
			p := rng.Intn(cs.Batches[0])
			cs.SwapAt = &p
		}
		if rng.Intn(3) == 0 {
			cs.ResetAfter = rng.Intn(len(cs.Batches))
		}
		c16RunBuf(c, cs, "held/buffer")
		if i == 0 {
			c.Sample(cs)
		}
	}

	lap("buffers")
	// ---- caller slices
	for _, api := range c16CallerAPIs {
		for _, sorted := range []bool{false, true} {
			for _, dup := range []bool{false, true} {
				cs := &c16CallerCase{Part: "caller", API: api, Sorted: sorted, Dedupe: sorted && dup, Salt: 5, N: 12, Dup: dup, Codec: "snappy", Shuffle: 4, ChurnSeed: 6}
				c16RunCaller(c, cs, "caller/"+api)
				if dup {
					// the same with the repeated rows next to each other
					ns := *cs
					ns.Order = "sorted"
					c16RunCaller(c, &ns, "caller/"+api)
				}
			}
		}
	}
	nc := c.N(60, 600)
	for i := 0; i < nc; i++ {
		cs := &c16CallerCase{Part: "caller", API: c16CallerAPIs[rng.Intn(len(c16CallerAPIs))], Sorted: rng.Intn(2) == 0, Salt: 1 + rng.Intn(500), N: 1 + rng.Intn(c.N(30, 80)),
			Dup: rng.Intn(2) == 0, Codec: c16CodecNames[rng.Intn(len(c16CodecNames))], Shuffle: rng.Int63n(1 << 30), ChurnSeed: rng.Int63n(1 << 40), Workers: rng.Intn(2) * 3}
		cs.Dedupe = cs.Sorted && rng.Intn(3) == 0
		if rng.Intn(3) == 0 {
			cs.Order = "sorted"
		}
		c16RunCaller(c, cs, "caller/"+cs.API)
		if i == 0 {
			c.Sample(cs)
		}
	}

	lap("caller slices")
	c.Note("held batches: %d (rows/records/values: %d), comparisons of a held batch with its snapshot: %d", c16Stat.batches, c16Stat.values, c16Stat.compares)
	for cl, n := range c16Stat.reported {
		if n > 1 {
			c.Note("class %s: %d failing cases in total (the first one shrunk and reported)", cl, n)
		}
	}
	c.Note("rows read from Buffer.Rows() are only held while the buffer is unchanged (Buffer.Rows documents that reader and buffer share memory)")
	c.Note("async read mode and churn goroutines run under the Go scheduler as it comes; schedules are explored, not enumerated")
	c16VmWrite(c)
}

func replayC16(c *core.Ctx, raw json.RawMessage) {
	parquet.VerifSetPoison(true)
	if err := c16ChurnInit(); err != nil {
		c.Note("cannot write the churn files: %v", err)
		return
	}
	var wrap struct {
		Case json.RawMessage `json:"case"`
	}
	if err := json.Unmarshal(raw, &wrap); err == nil && len(wrap.Case) > 0 {
		raw = wrap.Case
	}
	var head struct {
		Part string `json:"part"`
	}
	if err := json.Unmarshal(raw, &head); err != nil {
		c.Note("replay is not a C16 case: %v", err)
		return
	}
	switch head.Part {
	case "hist":
		var cs c16HistCase
		if json.Unmarshal(raw, &cs) == nil {
			c16RunHist(c, &cs, "replay")
		}
	case "pages":
		var cs c16PagesCase
		if json.Unmarshal(raw, &cs) == nil {
			c16RunPages(c, &cs, "replay")
		}
	case "buffer":
		var cs c16BufCase
		if json.Unmarshal(raw, &cs) == nil {
			c16RunBuf(c, &cs, "replay")
		}
	case "caller":
		var cs c16CallerCase
		if json.Unmarshal(raw, &cs) == nil {
			c16RunCaller(c, &cs, "replay")
		}
	default:
		c.Note("replay is not a C16 case (part %q); rerun the check with the recorded seed", head.Part)
	}
	if c16TmpDir != "" {
		os.RemoveAll(c16TmpDir)
	}
}
