package main

// ENCODINGS x PHYSICAL TYPES x VALUES PER PAGE ("kinds" files).
//
// The values a reader hands out are produced by the decoder of the page's
// encoding for the column's physical type, and decoders have paths of their own
// for inputs of very few values (one value, two values, none).  The files of
// c16Rec / c16DynS rows vary the encoding of their byte array columns only and
// every page of them is full.  This family has
//
//   - one OPTIONAL leaf per physical type (BOOLEAN, INT32, INT64, INT96, FLOAT,
//     DOUBLE, BYTE_ARRAY, STRING, FIXED_LEN_BYTE_ARRAY of 1, 4 and 16 bytes,
//     UUID) and per encoding the format specification allows for that type
//     (PLAIN; RLE for booleans; PLAIN_DICTIONARY / RLE_DICTIONARY;
//     DELTA_BINARY_PACKED for the integers; DELTA_LENGTH_BYTE_ARRAY for byte
//     arrays; DELTA_BYTE_ARRAY for byte arrays and fixed length byte arrays;
//     BYTE_STREAM_SPLIT for INT32, INT64, FLOAT, DOUBLE and fixed length byte
//     arrays), kept when the library says it can encode the type with it,
//   - filled with a density that differs from column to column and (through the
//     salt) from file to file: every row, every 2nd, 3rd, 7th, 24th, 64th row.
//     With the small page buffers of the writer shapes a page spans about a
//     dozen rows: it holds a dozen, a handful, two, one or no value.
//
// The pages of every column chunk are counted by the number of non-null values
// they hold when the file is built (c16Built.few); a kinds file is a non-trivial
// case only when it has pages with exactly one AND pages with exactly two values.

import (
	"fmt"
	"io"
	"math/rand"
	"sort"

	"github.com/parquet-go/parquet-go"
	"github.com/parquet-go/parquet-go/deprecated"
	"github.com/parquet-go/parquet-go/encoding"

	"verif/harness/core"
)

type c16Kind struct {
	name string
	node func() parquet.Node
	can  func(encoding.Encoding) bool
	encs []string // what the format specification allows besides the dictionary encodings
	// the parquet value of row i and the Go value a read into `any` gives for it
	val func(salt, i int) (parquet.Value, any)
}

var c16KindEncodings = map[string]encoding.Encoding{
	"plain": &parquet.Plain, "rle": &parquet.RLE, "pdict": &parquet.PlainDictionary, "dict": &parquet.RLEDictionary,
	"delta": &parquet.DeltaBinaryPacked, "dlba": &parquet.DeltaLengthByteArray, "dba": &parquet.DeltaByteArray, "split": &parquet.ByteStreamSplit,
}

func c16KindFixed(name string, n int, node func() parquet.Node) c16Kind {
	return c16Kind{name, node, encoding.CanEncodeFixedLenByteArray, []string{"plain", "dba", "split"},
		func(salt, i int) (parquet.Value, any) {
			b := make([]byte, n)
			x := uint32(salt*1000003 + i*8191 + n)
			for k := range b {
				x = x*1664525 + 1013904223
				b[k] = 'A' + byte((x>>24)%26)
			}
			if n > 1 {
				copy(b, fmt.Sprintf("%d.", i))
			}
			return parquet.FixedLenByteArrayValue(b), b
		}}
}

func c16KindBytes(name string, node func() parquet.Node, j int) c16Kind {
	return c16Kind{name, node, encoding.CanEncodeByteArray, []string{"plain", "dlba", "dba"},
		func(salt, i int) (parquet.Value, any) {
			b := c16Text(salt, i, j)
			return parquet.ByteArrayValue(b), b
		}}
}

var c16Kinds = []c16Kind{
	{"bool", func() parquet.Node { return parquet.Leaf(parquet.BooleanType) }, encoding.CanEncodeBoolean, []string{"plain", "rle"},
		func(salt, i int) (parquet.Value, any) { v := (i+salt)%3 != 0; return parquet.BooleanValue(v), v }},
	{"int32", func() parquet.Node { return parquet.Leaf(parquet.Int32Type) }, encoding.CanEncodeInt32, []string{"plain", "delta", "split"},
		func(salt, i int) (parquet.Value, any) {
			v := int32(uint32(salt*1000003+i*8191) * 2654435761)
			return parquet.Int32Value(v), v
		}},
	{"int64", func() parquet.Node { return parquet.Leaf(parquet.Int64Type) }, encoding.CanEncodeInt64, []string{"plain", "delta", "split"},
		func(salt, i int) (parquet.Value, any) {
			v := int64(uint64(salt*1000003+i*8191) * 0x9E3779B97F4A7C15)
			return parquet.Int64Value(v), v
		}},
	{"int96", func() parquet.Node { return parquet.Leaf(parquet.Int96Type) }, encoding.CanEncodeInt96, []string{"plain"},
		func(salt, i int) (parquet.Value, any) {
			v := deprecated.Int96{uint32(i) * 2654435761, uint32(salt), uint32(i)}
			return parquet.Int96Value(v), v
		}},
	{"float", func() parquet.Node { return parquet.Leaf(parquet.FloatType) }, encoding.CanEncodeFloat, []string{"plain", "split"},
		func(salt, i int) (parquet.Value, any) { v := float32(i*7+salt) / 8; return parquet.FloatValue(v), v }},
	{"double", func() parquet.Node { return parquet.Leaf(parquet.DoubleType) }, encoding.CanEncodeDouble, []string{"plain", "split"},
		func(salt, i int) (parquet.Value, any) { v := float64(i*13+salt) / 16; return parquet.DoubleValue(v), v }},
	c16KindBytes("bytes", func() parquet.Node { return parquet.Leaf(parquet.ByteArrayType) }, 1),
	c16KindBytes("string", parquet.String, 2),
	c16KindFixed("fixed1", 1, func() parquet.Node { return parquet.Leaf(parquet.FixedLenByteArrayType(1)) }),
	c16KindFixed("fixed4", 4, func() parquet.Node { return parquet.Leaf(parquet.FixedLenByteArrayType(4)) }),
	c16KindFixed("fixed16", 16, func() parquet.Node { return parquet.Leaf(parquet.FixedLenByteArrayType(16)) }),
	c16KindFixed("uuid", 16, parquet.UUID),
}

type c16KindCol struct {
	name string
	kind *c16Kind
	enc  string
}

var (
	c16KindCols    []c16KindCol // in the order of the schema (parquet.Group sorts by name)
	c16KindsSchema *parquet.Schema
	c16KindsLeft   []string // type/encoding pairs of the specification the library does not take
)

var c16KindStrides = [...]int{1, 2, 3, 7, 24, 64}

func c16KindsInit() {
	if c16KindsSchema != nil {
		return
	}
	g := parquet.Group{}
	for k := range c16Kinds {
		kind := &c16Kinds[k]
		for _, enc := range append(append([]string(nil), kind.encs...), "pdict", "dict") {
			e := c16KindEncodings[enc]
			name := kind.name + "_" + enc
			ok := enc == "dict" || enc == "pdict" || kind.can(e)
			if ok {
				func() {
					defer func() {
						if recover() != nil {
							ok = false
						}
					}()
					g[name] = parquet.Optional(parquet.Encoded(kind.node(), e))
				}()
			}
			if !ok {
				c16KindsLeft = append(c16KindsLeft, name)
				continue
			}
			c16KindCols = append(c16KindCols, c16KindCol{name, kind, enc})
		}
	}
	sort.Slice(c16KindCols, func(i, j int) bool { return c16KindCols[i].name < c16KindCols[j].name })
	c16KindsSchema = parquet.NewSchema("c16Kinds", g)
}

// c16KindPresent: does row i have a value in column ci.
func c16KindPresent(salt, i, ci int) bool {
	st := c16KindStrides[(ci+salt)%len(c16KindStrides)]
	return (i+ci*5+salt)%st == 0
}

func c16KindsRow(salt, i int) parquet.Row {
	c16KindsInit()
	row := make(parquet.Row, len(c16KindCols))
	for ci, col := range c16KindCols {
		if c16KindPresent(salt, i, ci) {
			v, _ := col.kind.val(salt+ci, i)
			row[ci] = v.Level(0, 1, ci)
		} else {
			row[ci] = parquet.Value{}.Level(0, 0, ci)
		}
	}
	return row
}

// c16KindsGo: row i as a read into map[string]any gives it.
func c16KindsGo(salt, i int) map[string]any {
	c16KindsInit()
	m := make(map[string]any, len(c16KindCols))
	for ci, col := range c16KindCols {
		if c16KindPresent(salt, i, ci) {
			_, x := col.kind.val(salt+ci, i)
			m[col.name] = x
		} else {
			m[col.name] = nil
		}
	}
	return m
}

// c16Few counts the data pages of a file by the number of non-null values.
type c16Few struct{ pages, none, one, two int }

func c16CountFew(f *parquet.File) (few c16Few, err error) {
	for _, rg := range f.RowGroups() {
		for _, cc := range rg.ColumnChunks() {
			pages := cc.Pages()
			for {
				p, e := pages.ReadPage()
				if e != nil {
					if e != io.EOF {
						err = e
					}
					break
				}
				few.pages++
				switch p.NumValues() - p.NumNulls() {
				case 0:
					few.none++
				case 1:
					few.one++
				case 2:
					few.two++
				}
				parquet.Release(p)
			}
			pages.Close()
			if err != nil {
				return few, err
			}
		}
	}
	return few, nil
}

// c16KindsSpec: a kinds file; the writer options of the typed files except the
// default encodings (every column names its own).
func c16KindsSpec(rng *rand.Rand, rows int) c16FileSpec {
	s := c16TypedSpec(rng, rows)
	s.Typed, s.Kinds, s.Enc = false, true, ""
	s.PageBuf = []int{64, 200, 512}[rng.Intn(3)]
	return s
}

// c16KindsSpecs: n kinds files with consecutive salts (the density of every
// column walks through all strides in 6 files) over codecs, page versions,
// small page buffers, one / many small / a few row groups, with and without a
// dictionary limit.
func c16KindsSpecs(n, rows int) []c16FileSpec {
	var out []c16FileSpec
	for k := 0; k < n; k++ {
		s := c16FileSpec{Kinds: true, Salt: 3000 + k, Rows: rows + 5*(k%3), Codec: c16CodecNames[(k*5+1)%len(c16CodecNames)],
			Version: 1 + k%2, PageBuf: []int{64, 200}[(k/2)%2], DictMax: []int64{0, 48, 0, 700}[k%4]}
		switch k % 3 {
		case 1:
			s.RGRows = 2 // pages of at most two rows
			s.Rows = 24 + k
		case 2:
			s.RGRows = int64(s.Rows/3 + 1)
		}
		out = append(out, s)
	}
	return out
}

// c16KindsCorpus: every kinds file through every reader kind and read mode
// (batches that span many pages, held across churn), then its column chunks
// page by page.
func c16KindsCorpus(c *core.Ctx, specs []c16FileSpec) {
	c16KindsInit()
	var tot c16Few
	for k, spec := range specs {
		b, err := c16Build(spec)
		if err != nil {
			c.Violation("file", fmt.Sprintf("cannot write a kinds file: %v", err), spec)
			continue
		}
		tot.pages += b.few.pages
		tot.none += b.few.none
		tot.one += b.few.one
		tot.two += b.few.two
		dsts := c16DstsOf(spec, "generic")
		last := len(b.rgRows) - 1
		for _, async := range []bool{false, true} {
			third := c16ReaderSpec{File: spec, Kind: "reader", Async: async, Dst: dsts[(k+1)%len(dsts)]}
			if k%3 == 2 {
				third = c16ReaderSpec{File: spec, Kind: "whole", Dst: dsts[(k/3)%len(dsts)]}
			}
			cs := &c16HistCase{Part: "hist", ChurnSeed: int64(12000 + k), Workers: 2 * (k % 2),
				Readers: []c16ReaderSpec{
					{File: spec, Kind: "rows", RG: 0, Async: async},
					{File: spec, Kind: "rowreader", RG: last, Async: async},
					{File: spec, Kind: "generic", Async: async, Dst: dsts[k%len(dsts)]},
					third,
				},
				Ops: []c16Op{{Tok: "r0", N: 200}, {Tok: "x"}, {Tok: "k0"}, {Tok: "r1", N: 17}, {Tok: "r1", N: 200}, {Tok: "x"},
					{Tok: "t2", N: 64}, {Tok: "t2", N: 17, Reuse: true}, {Tok: "r2", N: 64}, {Tok: "x"},
					{Tok: "t3", N: 5}, {Tok: "r3", N: 200}, {Tok: "t3", N: 3, Reuse: true}, {Tok: "g"},
					{Tok: "s0", K: 1}, {Tok: "r0", N: 3}, {Tok: "r0", N: 64}, {Tok: "c1"}, {Tok: "c2"}, {Tok: "x"}}}
			if third.Kind == "whole" {
				cs.Ops[11] = c16Op{Tok: "t3", N: 1}
				cs.Ops[12] = c16Op{Tok: "x"}
			}
			ok := c16RunHist(c, cs, "held/kinds")
			c.Case("kinds-file", fmt.Sprintf("%s/async=%v", spec.key(), async), ok && b.few.one > 0 && b.few.two > 0)
			if k == 0 && !async {
				c.Sample(cs)
			}
		}
		// the column chunks of one row group page by page (quick tier: every other
		// column of a file, the other half in the next file)
		rg := k % len(b.rgRows)
		for col := 0; col < b.ncols; col++ {
			if (col+k)%c.N(2, 1) != 0 {
				continue
			}
			cs := &c16PagesCase{Part: "pages", File: spec, Async: (k+col)%4 == 0, RG: rg, Col: col, Hold: 1 + (k+col)%3, MaxPages: c.N(2, 8),
				ChurnSeed: int64(13000 + k*100 + col)}
			c16RunPages(c, cs, "held/kinds-pages")
			if (col/2+k)%c.N(2, 1) != 0 {
				continue
			}
			// the same chunk through the value-level reader (quick tier: every other one)
			vs := *cs
			vs.Batch, vs.Recycle, vs.MaxPages = c16ValueBatches[1+(k+col)%5], (k+col)%2 == 0, c.N(4, 8)
			c16RunPages(c, &vs, "held/kinds-chunk-values")
		}
	}
	c.Note("kinds files: %d columns (type_encoding) %v; %d files, %d data pages: %d without a value, %d with exactly one, %d with exactly two",
		len(c16KindCols), c16KindNames(), len(specs), tot.pages, tot.none, tot.one, tot.two)
	if len(c16KindsLeft) > 0 {
		c.Note("type/encoding pairs of the format specification the library does not take for writing (left out): %v", c16KindsLeft)
	}
}

func c16KindNames() []string {
	out := make([]string, len(c16KindCols))
	for i, col := range c16KindCols {
		out[i] = col.name
	}
	return out
}
