package main

// Systematic parts of the held-values check (the random histories draw from the
// same dimensions; these make sure every value of every dimension is met in
// every run):
//
//   c16Shapes:    writer-side option combinations that shape the pages the
//                 readers hand out — dictionary columns with and without a
//                 fallback to PLAIN pages in the middle of a chunk
//                 (DictionaryMaxBytes from "exceeded by the first page" to
//                 "exceeded late"), default / dictionary encoding of every byte
//                 array column, data page v1 / v2, the codecs, small and larger
//                 page buffers, one / several row groups, both file families —
//                 crossed with EVERY reader kind and read mode: each file is
//                 read by RowGroup.Rows, NewRowGroupRowReader, GenericReader and
//                 Reader / the whole-file helpers in one history, once with
//                 ReadModeSync and once with ReadModeAsync.
//   c16DstCorpus: every destination type x typed reader kind, read in the usual
//                 loop that passes the same destination slice to every call
//                 while the caller keeps what the earlier calls filled.

import (
	"fmt"

	"verif/harness/core"
)

type c16ShapeStats struct {
	files, withLimit, mixedFiles, dictChunks, mixedChunks int
	unmixed                                               []string
}

// c16ShapeSpecs enumerates n writer shapes: a mixed-radix walk whose digits
// advance at different speeds, so that every value of every dimension and most
// pairs occur within a few dozen files.
func c16ShapeSpecs(n, rows int) []c16FileSpec {
	limits := []int64{48, 700, 0, 200, 2000, 350}
	bufs := []int{64, 512, 200, 1500}
	var out []c16FileSpec
	for k := 0; k < n; k++ {
		s := c16FileSpec{Salt: 2000 + k, Rows: rows + 7*(k%5), Codec: c16CodecNames[k%len(c16CodecNames)],
			Version: 1 + k%2, PageBuf: bufs[(k/2)%len(bufs)], DictMax: limits[(k+k/6)%len(limits)]}
		if (k/3)%2 == 0 {
			s.Typed = true
		} else {
			s.Dyn = true
		}
		if (k/2)%3 != 0 {
			s.Enc = "dict" // every byte array column has a dictionary
		}
		if (k/4)%2 == 1 {
			s.RGRows = int64(s.Rows/3 + 1)
		}
		out = append(out, s)
	}
	return out
}

func c16Shapes(c *core.Ctx) {
	var st c16ShapeStats
	specs := c16ShapeSpecs(c.N(24, 96), c.N(110, 260))
	for k, spec := range specs {
		b, err := c16Build(spec)
		if err != nil {
			c.Violation("file", fmt.Sprintf("cannot write a file: %v", err), spec)
			continue
		}
		st.files++
		st.dictChunks += b.dict
		st.mixedChunks += b.mixed
		if spec.DictMax > 0 {
			st.withLimit++
			if b.mixed > 0 {
				st.mixedFiles++
			} else {
				st.unmixed = append(st.unmixed, fmt.Sprintf("typed=%v/enc=%q/limit=%d/page=%d/rg=%d", spec.Typed, spec.Enc, spec.DictMax, spec.PageBuf, spec.RGRows))
			}
		}
		dsts := c16DstsOf(spec, "generic")
		last := len(b.rgRows) - 1
		for _, async := range []bool{false, true} {
			third := c16ReaderSpec{File: spec, Kind: "reader", Async: async, Dst: c16DstsOf(spec, "reader")[k%len(c16DstsOf(spec, "reader"))]}
			if k%3 == 2 {
				third = c16ReaderSpec{File: spec, Kind: "whole", Dst: dsts[(k/3)%len(dsts)]}
			}
			cs := &c16HistCase{Part: "hist", ChurnSeed: int64(7000 + k), Workers: 2 * (k % 2),
				Readers: []c16ReaderSpec{
					{File: spec, Kind: "rows", RG: 0, Async: async},
					{File: spec, Kind: "rowreader", RG: last, Async: async},
					{File: spec, Kind: "generic", Async: async, Dst: dsts[k%len(dsts)]},
					third,
				},
				// batches that span many pages, held across churn; the second call on each
				// reader starts where the first one ended (in the middle of the chunk)
				Ops: []c16Op{{Tok: "r0", N: 200}, {Tok: "x"}, {Tok: "k0"}, {Tok: "r1", N: 64}, {Tok: "r1", N: 200}, {Tok: "x"},
					{Tok: "t2", N: 64}, {Tok: "t2", N: 17, Reuse: true}, {Tok: "r2", N: 64}, {Tok: "x"},
					{Tok: "t3", N: 5}, {Tok: "r3", N: 200}, {Tok: "t3", N: 3, Reuse: true}, {Tok: "g"},
					{Tok: "s0", K: 1}, {Tok: "r0", N: 64}, {Tok: "c1"}, {Tok: "c2"}, {Tok: "x"}}}
			if third.Kind == "whole" {
				cs.Ops[11] = c16Op{Tok: "t3", N: 1}
				cs.Ops[12] = c16Op{Tok: "x"}
			}
			key := fmt.Sprintf("%s/async=%v", spec.key(), async)
			// the history is counted by c16RunHist; the shape is a case of its own, non-trivial
			// when the option that was asked for took effect
			ok := c16RunHist(c, cs, "held/shapes")
			c.Case("shape", key, ok && (spec.DictMax == 0 || b.mixed > 0))
			if k == 0 && !async {
				c.Sample(cs)
			}
		}
	}
	c.Note("writer shapes: %d files (%d with DictionaryMaxBytes, %d of them with at least one chunk that has a dictionary page and PLAIN data pages); column chunks with a dictionary page: %d, with PLAIN data pages next to it: %d",
		st.files, st.withLimit, st.mixedFiles, st.dictChunks, st.mixedChunks)
	if len(st.unmixed) > 0 {
		c.Note("limits that no dictionary of the file reached before the last page of a chunk (pure dictionary chunks): %v", st.unmixed)
	}
}

// c16DstCorpus: the usual read loop for every destination type.
func c16DstCorpus(c *core.Ctx, typed, dyn []c16FileSpec) {
	n := 0
	for fam, specs := range [][]c16FileSpec{typed, dyn} {
		if len(specs) == 0 {
			continue
		}
		for _, kind := range []string{"generic", "reader", "whole"} {
			for di, dst := range c16DstsOf(specs[0], kind) {
				spec := specs[(n+fam)%len(specs)]
				n++
				cs := &c16HistCase{Part: "hist", ChurnSeed: int64(9000 + n), Workers: 2 * (di % 2),
					Readers: []c16ReaderSpec{{File: spec, Kind: kind, Dst: dst, Async: kind != "whole" && n%3 == 0}},
					Ops: []c16Op{{Tok: "t0", N: 5}, {Tok: "t0", N: 5, Reuse: true}, {Tok: "x"}, {Tok: "t0", N: 5, Reuse: true}, {Tok: "t0", N: 3, Reuse: true},
						{Tok: "g"}, {Tok: "r0", N: 17}, {Tok: "k0"}, {Tok: "t0", N: 5, Reuse: true}, {Tok: "x"}, {Tok: "s0", K: 2}, {Tok: "t0", N: 5, Reuse: true},
						{Tok: "z0"}, {Tok: "t0", N: 17}, {Tok: "t0", N: 17, Reuse: true}, {Tok: "c0"}, {Tok: "x"}}}
				if kind == "whole" {
					cs.Ops = []c16Op{{Tok: "t0", N: 0}, {Tok: "x"}, {Tok: "t0", N: 1}, {Tok: "g"}, {Tok: "t0", N: 0}, {Tok: "x"}}
				}
				c16RunHist(c, cs, "held/destination-types")
				if n == 2 {
					c.Sample(cs)
				}
			}
		}
	}
}
