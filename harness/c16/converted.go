package main

import (
	"bytes"
	"fmt"
	"io"

	"github.com/parquet-go/parquet-go"
	"verif/harness/core"
)

// c16Converted: values obtained from CONVERTED row groups read through their
// column chunks (MultiRowGroup / NewRowGroupRowReader / GenericRowGroupReader):
// the page wrappers of the conversion have their own release/detach methods.
// The string column moves to another leaf index and spans many small pages.
type c16ConvFull struct {
	ID   int64  `parquet:"id"`
	Name string `parquet:"name"`
	Tag  string `parquet:"tag,dict"`
}

type c16ConvName struct {
	Name string `parquet:"name"`
	Tag  string `parquet:"tag,dict"`
}

func c16ConvNameOf(i int) string { return fmt.Sprintf("name-%07d-abcdefghijklmnopqrstuvwxyz-%07d", i, i*7) }
func c16ConvTagOf(i int) string  { return fmt.Sprintf("tag-%03d", i%37) }

func c16ConvWrite[T any](rows []T, pageBuf int) (*parquet.File, error) {
	buf := new(bytes.Buffer)
	w := parquet.NewGenericWriter[T](buf, parquet.PageBufferSize(pageBuf))
	if _, err := w.Write(rows); err != nil {
		return nil, err
	}
	if err := w.Close(); err != nil {
		return nil, err
	}
	return parquet.OpenFile(bytes.NewReader(buf.Bytes()), int64(buf.Len()))
}

func c16Converted(c *core.Ctx) {
	for _, n := range []int{40, 700, 1500} {
		for _, pageBuf := range []int{256, 2048} {
			rp := map[string]any{"part": "converted", "rows": n, "page_buffer": pageBuf}
			what := fmt.Sprintf("two files of %d rows (layouts {name,tag} and {id,name,tag}, page buffer %d) converted to {name,tag} with ConvertRowGroup and read through MultiRowGroup", n, pageBuf)
			names := make([]c16ConvName, n)
			fulls := make([]c16ConvFull, n)
			for i := 0; i < n; i++ {
				names[i] = c16ConvName{Name: c16ConvNameOf(i), Tag: c16ConvTagOf(i)}
				fulls[i] = c16ConvFull{ID: int64(n + i), Name: c16ConvNameOf(n + i), Tag: c16ConvTagOf(n + i)}
			}
			fa, err := c16ConvWrite(names, pageBuf)
			if err != nil {
				c.Violation("file", what+": "+err.Error(), rp)
				continue
			}
			fb, err := c16ConvWrite(fulls, pageBuf)
			if err != nil {
				c.Violation("file", what+": "+err.Error(), rp)
				continue
			}
			target := parquet.SchemaOf(c16ConvName{})
			var groups []parquet.RowGroup
			for _, f := range []*parquet.File{fa, fb} {
				conv, err := parquet.Convert(target, f.Schema())
				if err != nil {
					c.Violation("file", what+": Convert: "+err.Error(), rp)
					return
				}
				for _, rg := range f.RowGroups() {
					groups = append(groups, parquet.ConvertRowGroup(rg, conv))
				}
			}
			all := parquet.MultiRowGroup(groups...)

			// typed reads in batches that cross many pages; everything is kept
			bad := ""
			p := c16Protect(func() {
				r := parquet.NewGenericRowGroupReader[c16ConvName](all)
				defer r.Close()
				out := make([]c16ConvName, 2*n)
				total := 0
				step := 1 + n/3
				for total < len(out) {
					hi := total + step
					if hi > len(out) {
						hi = len(out)
					}
					k, err := r.Read(out[total:hi])
					total += k
					c16Churn(int64(total), 0)
					if err != nil {
						if err != io.EOF {
							bad = "Read: " + err.Error()
						}
						break
					}
					if k == 0 {
						break
					}
				}
				if bad == "" && total != 2*n {
					bad = fmt.Sprintf("%d rows read of %d", total, 2*n)
				}
				c16GC(true)
				for i := 0; i < total && bad == ""; i++ {
					if out[i].Name != c16ConvNameOf(i) || out[i].Tag != c16ConvTagOf(i) {
						bad = fmt.Sprintf("row %d read as {%q %q}, the files hold {%q %q}", i, core.Trunc(out[i].Name, 60), out[i].Tag, c16ConvNameOf(i), c16ConvTagOf(i))
					}
				}
			})
			c.Res.Evaluations++
			if p != "" {
				c.Violation("panic", what+" (typed reader): "+core.Trunc(p, 200), rp)
			} else if bad != "" {
				c.Violation("wrong-value", what+" (GenericRowGroupReader, values kept across later reads, churn and GC): "+bad, rp)
			}

			// rows: each batch must be intact until the next call; clones for ever
			bad = ""
			p = c16Protect(func() {
				rows := parquet.NewRowGroupRowReader(all)
				defer rows.Close()
				buf := make([]parquet.Row, 64)
				var clones []parquet.Row
				seen := 0
				for {
					k, err := rows.ReadRows(buf)
					for _, row := range buf[:k] {
						if len(row) != 2 || string(row[0].ByteArray()) != c16ConvNameOf(seen) || string(row[1].ByteArray()) != c16ConvTagOf(seen) {
							bad = fmt.Sprintf("row %d read as %v", seen, row)
							return
						}
						if seen%97 == 0 {
							clones = append(clones, row.Clone())
						}
						seen++
					}
					if err != nil || k == 0 {
						break
					}
				}
				if seen != 2*n {
					bad = fmt.Sprintf("%d rows read of %d", seen, 2*n)
					return
				}
				c16Churn(int64(n), 2)
				c16GC(true)
				for j, row := range clones {
					if string(row[0].ByteArray()) != c16ConvNameOf(j*97) {
						bad = fmt.Sprintf("clone of row %d changed to %q", j*97, core.Trunc(string(row[0].ByteArray()), 60))
						return
					}
				}
			})
			c.Res.Evaluations++
			if p != "" {
				c.Violation("panic", what+" (row reader): "+core.Trunc(p, 200), rp)
			} else if bad != "" {
				c.Violation("wrong-value", what+" (NewRowGroupRowReader): "+bad, rp)
			}
			c.Case("held/converted", fmt.Sprintf("%d/%d", n, pageBuf), true)
		}
	}
}

func c16Protect(f func()) (p string) {
	defer func() {
		if r := recover(); r != nil {
			p = fmt.Sprint(r)
		}
	}()
	f()
	return ""
}
