// Package gen generates schemas, record values, writer options and write
// histories for the file-level checks (C01, C02), and shreds the values into
// parquet Rows with an independent implementation of the Dremel algorithm
// (the same recursion as coq/theories/Dremel/Model.v).
package gen

import (
	"encoding/hex"
	"fmt"
	"math"
	"math/rand"
	"strings"

	"github.com/parquet-go/parquet-go"
	"github.com/parquet-go/parquet-go/compress"
	"github.com/parquet-go/parquet-go/deprecated"
	"github.com/parquet-go/parquet-go/encoding"
)

const (
	Req = 0
	Opt = 1
	Rpt = 2
)

// Node is a schema node. Leaf != "" for leaves.
type Node struct {
	Name     string  `json:"name"`
	Rep      int     `json:"rep"`
	Leaf     string  `json:"leaf,omitempty"` // bool int32 int64 int96 float double bytes string flba uuid uint32 uint64 date ts
	Size     int     `json:"size,omitempty"` // flba
	Encoding string  `json:"enc,omitempty"`
	Codec    string  `json:"codec,omitempty"`
	Logical  string  `json:"logical,omitempty"` // "list" on the outer group of a LIST
	Fields   []*Node `json:"fields,omitempty"`
}

// Val is a record value tree (mirrors Dremel/Model.v `value`).
type Val struct {
	Leaf  *parquet.Value // leaf
	Group []*Val         // group: one per field
	Null  bool           // optional field, absent
	Some  *Val           // optional field, present
	List  []*Val         // repeated field
	IsOpt bool
	IsRpt bool
}

var encodings = map[string]encoding.Encoding{
	"plain": &parquet.Plain, "rle": &parquet.RLE, "dict": &parquet.RLEDictionary,
	"delta": &parquet.DeltaBinaryPacked, "dlba": &parquet.DeltaLengthByteArray, "dba": &parquet.DeltaByteArray,
	"split": &parquet.ByteStreamSplit,
}

var Codecs = map[string]compress.Codec{
	"none": &parquet.Uncompressed, "snappy": &parquet.Snappy, "gzip": &parquet.Gzip, "brotli": &parquet.Brotli,
	"zstd": &parquet.Zstd, "lz4": &parquet.Lz4Raw,
}

var leafEncodings = map[string][]string{
	"bool":   {"plain", "rle"},
	"int32":  {"plain", "delta", "dict", "split"},
	"int64":  {"plain", "delta", "dict", "split"},
	"uint32": {"plain", "delta", "dict"},
	"uint64": {"plain", "delta", "dict"},
	"date":   {"plain", "delta", "dict"},
	"ts":     {"plain", "delta", "dict"},
	"int96":  {"plain", "dict"},
	"float":  {"plain", "dict", "split"},
	"double": {"plain", "dict", "split"},
	"bytes":  {"plain", "dlba", "dba", "dict"},
	"string": {"plain", "dlba", "dba", "dict"},
	"flba":   {"plain", "dba", "dict", "split"},
	"uuid":   {"plain", "dict"},
}

var leafKinds = []string{"bool", "int32", "int64", "int96", "float", "double", "bytes", "string", "flba", "uuid", "uint32", "uint64", "date", "ts"}

// Config restricts the generator.
type Config struct {
	Codecs    []string // codecs allowed per column / per file
	MaxDepth  int
	MaxFields int
}

// Schema generates a root group.
func Schema(rng *rand.Rand, cfg Config) *Node {
	root := &Node{Name: "root"}
	n := 1 + rng.Intn(cfg.MaxFields)
	for i := 0; i < n; i++ {
		root.Fields = append(root.Fields, genNode(rng, cfg, fmt.Sprintf("f%02d", i), cfg.MaxDepth))
	}
	return root
}

func genNode(rng *rand.Rand, cfg Config, name string, depth int) *Node {
	nd := &Node{Name: name, Rep: []int{Req, Req, Opt, Opt, Rpt}[rng.Intn(5)]}
	switch {
	case depth > 0 && rng.Intn(4) == 0:
		// group
		n := 1 + rng.Intn(3)
		for i := 0; i < n; i++ {
			nd.Fields = append(nd.Fields, genNode(rng, cfg, fmt.Sprintf("g%02d", i), depth-1))
		}
	case depth > 0 && rng.Intn(6) == 0:
		// LIST: <rep> group name (LIST) { repeated group list { element } }
		if nd.Rep == Rpt {
			nd.Rep = Opt
		}
		nd.Logical = "list"
		el := genNode(rng, cfg, "element", depth-1)
		if el.Rep == Rpt {
			el.Rep = Opt
		}
		nd.Fields = []*Node{{Name: "list", Rep: Rpt, Fields: []*Node{el}}}
	default:
		nd.Leaf = leafKinds[rng.Intn(len(leafKinds))]
		if nd.Leaf == "flba" {
			nd.Size = []int{1, 3, 8, 12, 16, 20}[rng.Intn(6)]
		}
		if rng.Intn(3) != 0 {
			encs := leafEncodings[nd.Leaf]
			nd.Encoding = encs[rng.Intn(len(encs))]
		}
		if rng.Intn(5) == 0 && len(cfg.Codecs) > 0 {
			nd.Codec = cfg.Codecs[rng.Intn(len(cfg.Codecs))]
		}
	}
	return nd
}

// ParquetNode builds the library's schema node.
func (n *Node) ParquetNode() parquet.Node {
	var p parquet.Node
	if n.Leaf != "" {
		switch n.Leaf {
		case "bool":
			p = parquet.Leaf(parquet.BooleanType)
		case "int32":
			p = parquet.Leaf(parquet.Int32Type)
		case "int64":
			p = parquet.Leaf(parquet.Int64Type)
		case "int96":
			p = parquet.Leaf(parquet.Int96Type)
		case "float":
			p = parquet.Leaf(parquet.FloatType)
		case "double":
			p = parquet.Leaf(parquet.DoubleType)
		case "bytes":
			p = parquet.Leaf(parquet.ByteArrayType)
		case "string":
			p = parquet.String()
		case "flba":
			p = parquet.Leaf(parquet.FixedLenByteArrayType(n.Size))
		case "uuid":
			p = parquet.UUID()
		case "uint32":
			p = parquet.Uint(32)
		case "uint64":
			p = parquet.Uint(64)
		case "date":
			p = parquet.Date()
		case "ts":
			p = parquet.Timestamp(parquet.Millisecond)
		default:
			panic("leaf kind " + n.Leaf)
		}
		if n.Encoding != "" {
			p = parquet.Encoded(p, encodings[n.Encoding])
		}
		if n.Codec != "" {
			p = parquet.Compressed(p, Codecs[n.Codec])
		}
	} else if n.Logical == "list" {
		el := n.Fields[0].Fields[0]
		p = parquet.List(el.withRep())
	} else {
		g := parquet.Group{}
		for _, f := range n.Fields {
			g[f.Name] = f.withRep()
		}
		p = g
	}
	return p
}

func (n *Node) withRep() parquet.Node {
	p := n.ParquetNode()
	switch n.Rep {
	case Opt:
		return parquet.Optional(p)
	case Rpt:
		return parquet.Repeated(p)
	}
	return parquet.Required(p)
}

// ParquetSchema builds the schema of the root group.
func (n *Node) ParquetSchema() *parquet.Schema {
	g := parquet.Group{}
	for _, f := range n.Fields {
		g[f.Name] = f.withRep()
	}
	return parquet.NewSchema("root", g)
}

// Leaves returns the leaf nodes in column order.
func (n *Node) Leaves() []*Node {
	if n.Leaf != "" {
		return []*Node{n}
	}
	var out []*Node
	for _, f := range n.Fields {
		out = append(out, f.Leaves()...)
	}
	return out
}

// Text renders the schema compactly (for replays and bucket keys).
func (n *Node) Text() string {
	rep := []string{"R", "O", "P"}[n.Rep]
	if n.Leaf != "" {
		s := rep + ":" + n.Leaf
		if n.Size > 0 {
			s += fmt.Sprint(n.Size)
		}
		if n.Encoding != "" {
			s += "/" + n.Encoding
		}
		if n.Codec != "" {
			s += "@" + n.Codec
		}
		return s
	}
	parts := make([]string, len(n.Fields))
	for i, f := range n.Fields {
		parts[i] = f.Text()
	}
	l := ""
	if n.Logical != "" {
		l = "L"
	}
	return rep + l + "(" + strings.Join(parts, ",") + ")"
}

// MaxDepthOfRepetition reports whether any leaf is below a repeated node.
func (n *Node) HasRepeated() bool {
	if n.Rep == Rpt {
		return true
	}
	for _, f := range n.Fields {
		if f.HasRepeated() {
			return true
		}
	}
	return false
}

// ---- values ----

func genLeaf(rng *rand.Rand, n *Node) parquet.Value {
	boundary := rng.Intn(4) == 0
	switch n.Leaf {
	case "bool":
		return parquet.BooleanValue(rng.Intn(2) == 0)
	case "int32", "date":
		if boundary {
			return parquet.Int32Value([]int32{math.MinInt32, math.MaxInt32, 0, -1, 1}[rng.Intn(5)])
		}
		return parquet.Int32Value(int32(rng.Intn(2000) - 1000))
	case "uint32":
		if boundary {
			return parquet.Int32Value([]int32{-1, 0, math.MaxInt32, math.MinInt32}[rng.Intn(4)])
		}
		return parquet.Int32Value(int32(rng.Intn(2000)))
	case "int64", "ts":
		if boundary {
			return parquet.Int64Value([]int64{math.MinInt64, math.MaxInt64, 0, -1, 1}[rng.Intn(5)])
		}
		return parquet.Int64Value(int64(rng.Intn(2000) - 1000))
	case "uint64":
		if boundary {
			return parquet.Int64Value([]int64{-1, 0, math.MaxInt64, math.MinInt64}[rng.Intn(4)])
		}
		return parquet.Int64Value(int64(rng.Intn(2000)))
	case "int96":
		return parquet.Int96Value(deprecated.Int96{rng.Uint32(), rng.Uint32() >> uint(rng.Intn(32)), uint32(rng.Intn(3))})
	case "float":
		if boundary {
			bits := []uint32{0x7fc00000, 0x7fc00001, 0xffc00000, 0x80000000, 0, 0x7f800000, 0xff800000, 0x00000001, 0x7f7fffff}[rng.Intn(9)]
			return parquet.FloatValue(math.Float32frombits(bits))
		}
		return parquet.FloatValue(float32(rng.Intn(200)-100) / 4)
	case "double":
		if boundary {
			bits := []uint64{0x7ff8000000000000, 0x7ff8000000000001, 0xfff8000000000000, 0x8000000000000000, 0, 0x7ff0000000000000, 0xfff0000000000000, 1}[rng.Intn(8)]
			return parquet.DoubleValue(math.Float64frombits(bits))
		}
		return parquet.DoubleValue(float64(rng.Intn(200)-100) / 4)
	case "bytes", "string":
		l := rng.Intn(12)
		if boundary {
			l = []int{0, 0, 1, 300, 1000}[rng.Intn(5)]
		}
		b := make([]byte, l)
		switch rng.Intn(3) {
		case 0:
			for i := range b {
				b[i] = byte('a' + rng.Intn(3))
			}
		case 1:
			for i := range b {
				b[i] = 0xFF
			}
		default:
			rng.Read(b)
		}
		if n.Leaf == "string" {
			for i := range b {
				b[i] = byte('a' + int(b[i])%26)
			}
		}
		return parquet.ByteArrayValue(b)
	case "flba", "uuid":
		size := n.Size
		if n.Leaf == "uuid" {
			size = 16
		}
		b := make([]byte, size)
		if rng.Intn(3) != 0 {
			rng.Read(b)
		} else {
			for i := range b {
				b[i] = byte(rng.Intn(2)) * 0xFF
			}
		}
		return parquet.FixedLenByteArrayValue(b)
	}
	panic("leaf " + n.Leaf)
}

// Value generates a value for node n (ignoring n.Rep: the caller wraps).
func genValue(rng *rand.Rand, n *Node, nullBias int) *Val {
	if n.Leaf != "" {
		v := genLeaf(rng, n)
		return &Val{Leaf: &v}
	}
	g := &Val{}
	for _, f := range n.Fields {
		g.Group = append(g.Group, genField(rng, f, nullBias))
	}
	return g
}

func genField(rng *rand.Rand, f *Node, nullBias int) *Val {
	switch f.Rep {
	case Opt:
		if rng.Intn(10) < nullBias {
			return &Val{IsOpt: true, Null: true}
		}
		return &Val{IsOpt: true, Some: genValue(rng, f, nullBias)}
	case Rpt:
		v := &Val{IsRpt: true}
		n := 0
		switch rng.Intn(6) {
		case 0:
			n = 0
		case 1:
			n = 1
		case 2:
			n = 5 + rng.Intn(20)
		default:
			n = rng.Intn(4)
		}
		for i := 0; i < n; i++ {
			v.List = append(v.List, genValue(rng, f, nullBias))
		}
		return v
	}
	return genValue(rng, f, nullBias)
}

// Row generates one record of the root group.
func Row(rng *rand.Rand, root *Node, nullBias int) *Val {
	return genValue(rng, root, nullBias)
}

// ---- shredding (mirror of Dremel/Model.v shred) ----

type column = []parquet.Value

func nleaves(n *Node) int { return len(n.Leaves()) }

func zipapp(a, b []column) []column {
	out := make([]column, len(a))
	for i := range a {
		out[i] = append(append(column(nil), a[i]...), b[i]...)
	}
	return out
}

func nulls(n *Node, r, d int) []column {
	out := make([]column, nleaves(n))
	for i := range out {
		out[i] = column{parquet.Value{}.Level(r, d, 0)}
	}
	return out
}

func shred(n *Node, v *Val, r, d, k int) []column {
	if n.Leaf != "" {
		return []column{{v.Leaf.Level(r, d, 0)}}
	}
	var out []column
	for i, f := range n.Fields {
		fv := v.Group[i]
		switch f.Rep {
		case Req:
			out = append(out, shred(f, fv, r, d, k)...)
		case Opt:
			if fv.Null {
				out = append(out, nulls(f, r, d)...)
			} else {
				out = append(out, shred(f, fv.Some, r, d+1, k)...)
			}
		case Rpt:
			if len(fv.List) == 0 {
				out = append(out, nulls(f, r, d)...)
			} else {
				cols := shred(f, fv.List[0], r, d+1, k+1)
				for _, y := range fv.List[1:] {
					cols = zipapp(cols, shred(f, y, k+1, d+1, k+1))
				}
				out = append(out, cols...)
			}
		}
	}
	return out
}

// Shred turns a record into a parquet.Row (values grouped by column, in column order).
func Shred(root *Node, v *Val) parquet.Row {
	cols := shred(root, v, 0, 0, 0)
	var row parquet.Row
	for ci, c := range cols {
		for _, x := range c {
			row = append(row, x.Level(int(x.RepetitionLevel()), int(x.DefinitionLevel()), ci))
		}
	}
	return row
}

// Canon renders a value for comparison: column, levels, null or the PLAIN bytes.
func Canon(v parquet.Value) string {
	if v.IsNull() {
		return fmt.Sprintf("%d:%d:%d:null", v.Column(), v.RepetitionLevel(), v.DefinitionLevel())
	}
	return fmt.Sprintf("%d:%d:%d:%s", v.Column(), v.RepetitionLevel(), v.DefinitionLevel(), hex.EncodeToString(v.Bytes()))
}

func CanonRow(r parquet.Row) string {
	parts := make([]string, len(r))
	for i, v := range r {
		parts[i] = Canon(v)
	}
	return strings.Join(parts, " ")
}

// ---- options and histories ----

type Options struct {
	PageVersion   int    `json:"page_version"`
	PageBuffer    int    `json:"page_buffer"`
	MaxRows       int64  `json:"max_rows"`
	Codec         string `json:"codec"`
	DictMaxBytes  int64  `json:"dict_max_bytes"`
	PageStats     bool   `json:"page_stats"`
	WriteBuffer   int    `json:"write_buffer"`
	Bloom         bool   `json:"bloom"`
	DefaultEnc    string `json:"default_enc"`
	SkipBounds    bool   `json:"skip_bounds"`
	IndexSizeLim  int    `json:"index_size_limit"`
}

func GenOptions(rng *rand.Rand, cfg Config) Options {
	o := Options{PageVersion: 1 + rng.Intn(2), PageStats: rng.Intn(2) == 0, WriteBuffer: -1}
	o.PageBuffer = []int{64, 256, 1024, 4096, 1 << 18}[rng.Intn(5)]
	if rng.Intn(3) == 0 {
		o.MaxRows = int64(1 + rng.Intn(60))
	}
	if len(cfg.Codecs) > 0 {
		o.Codec = cfg.Codecs[rng.Intn(len(cfg.Codecs))]
	}
	if rng.Intn(4) == 0 {
		o.DictMaxBytes = int64(16 + rng.Intn(400))
	}
	if rng.Intn(4) == 0 {
		o.WriteBuffer = []int{0, 7, 100}[rng.Intn(3)]
	}
	o.Bloom = rng.Intn(4) == 0
	if rng.Intn(5) == 0 {
		o.DefaultEnc = []string{"plain", "dict"}[rng.Intn(2)]
	}
	if rng.Intn(6) == 0 {
		o.IndexSizeLim = 1 + rng.Intn(16)
	}
	return o
}

func (o Options) WriterOptions(root *Node) []parquet.WriterOption {
	opts := []parquet.WriterOption{
		parquet.DataPageVersion(o.PageVersion),
		parquet.PageBufferSize(o.PageBuffer),
		parquet.DataPageStatistics(o.PageStats),
	}
	if o.MaxRows > 0 {
		opts = append(opts, parquet.MaxRowsPerRowGroup(o.MaxRows))
	}
	if o.Codec != "" {
		opts = append(opts, parquet.Compression(Codecs[o.Codec]))
	}
	if o.DictMaxBytes > 0 {
		opts = append(opts, parquet.DictionaryMaxBytes(o.DictMaxBytes))
	}
	if o.WriteBuffer >= 0 {
		opts = append(opts, parquet.WriteBufferSize(o.WriteBuffer))
	}
	if o.DefaultEnc != "" {
		opts = append(opts, parquet.DefaultEncoding(encodings[o.DefaultEnc]))
	}
	if o.IndexSizeLim > 0 {
		lim := o.IndexSizeLim
		opts = append(opts, parquet.ColumnIndexSizeLimit(func([]string) int { return lim }))
	}
	if o.Bloom {
		var filters []parquet.BloomFilterColumn
		for _, p := range leafPaths(root, nil) {
			filters = append(filters, parquet.SplitBlockFilter(10, p...))
		}
		opts = append(opts, parquet.BloomFilters(filters...))
	}
	return opts
}

func leafPaths(n *Node, prefix []string) [][]string {
	if n.Leaf != "" {
		return [][]string{append(append([]string(nil), prefix...), n.Name)}
	}
	var out [][]string
	p := prefix
	if n.Name != "root" {
		p = append(append([]string(nil), prefix...), n.Name)
	}
	for _, f := range n.Fields {
		out = append(out, leafPaths(f, p)...)
	}
	return out
}

// History is a sequence of write batch sizes; a negative entry is a Flush.
func GenHistory(rng *rand.Rand, nrows int) []int {
	var h []int
	for nrows > 0 {
		if rng.Intn(5) == 0 {
			h = append(h, -1)
			continue
		}
		k := 1 + rng.Intn(40)
		if k > nrows {
			k = nrows
		}
		h = append(h, k)
		nrows -= k
	}
	if rng.Intn(4) == 0 {
		h = append(h, -1)
	}
	return h
}

// Case is a reproducible file-writing scenario: everything derives from Seed.
type Case struct {
	Seed      int64    `json:"seed"`
	NRows     int      `json:"nrows"`
	MaxDepth  int      `json:"max_depth"`
	MaxFields int      `json:"max_fields"`
	Codecs    []string `json:"codecs"`
	NullBias  int      `json:"null_bias"`
}

type Built struct {
	Root    *Node
	Schema  *parquet.Schema
	Vals    []*Val
	Rows    []parquet.Row
	Opts    Options
	History []int
}

func (cs Case) Build() *Built {
	rng := rand.New(rand.NewSource(cs.Seed))
	cfg := Config{Codecs: cs.Codecs, MaxDepth: cs.MaxDepth, MaxFields: cs.MaxFields}
	b := &Built{}
	b.Root = Schema(rng, cfg)
	b.Schema = b.Root.ParquetSchema()
	b.Opts = GenOptions(rng, cfg)
	// rows are generated from their own stream so that a prefix of the rows is
	// reproduced when NRows shrinks
	rrng := rand.New(rand.NewSource(cs.Seed ^ 0x5DEECE66D))
	for i := 0; i < cs.NRows; i++ {
		v := Row(rrng, b.Root, cs.NullBias)
		b.Vals = append(b.Vals, v)
		b.Rows = append(b.Rows, Shred(b.Root, v))
	}
	b.History = GenHistory(rng, cs.NRows)
	return b
}

// Write runs the history on a GenericWriter[any] using the Row API.
func (b *Built) Write(out interface{ Write([]byte) (int, error) }) error {
	w := parquet.NewGenericWriter[any](out, append([]parquet.WriterOption{b.Schema}, b.Opts.WriterOptions(b.Root)...)...)
	i := 0
	for _, h := range b.History {
		if h < 0 {
			if err := w.Flush(); err != nil {
				return fmt.Errorf("flush: %w", err)
			}
			continue
		}
		rows := make([]parquet.Row, h)
		for j := range rows {
			rows[j] = b.Rows[i+j].Clone()
		}
		if _, err := w.WriteRows(rows); err != nil {
			return fmt.Errorf("write rows: %w", err)
		}
		i += h
	}
	if err := w.Close(); err != nil {
		return fmt.Errorf("close: %w", err)
	}
	return nil
}
