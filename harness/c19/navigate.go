// C19 — part 9: typed navigation through the columnar reader.
//
// colRead (widen.go) rebuilds whole rows from the cursors of the shredding
// schema.  A query engine does something else: it asks for a PATH
// (VariantReader.Path / VariantCursor.Field / VariantCursor.Elements) and
// reads the entries of that one cursor; the path need not be part of the
// shredding schema.  Navigation is total (variant_column_reader.go): below a
// position that is not shredded the cursor is "virtual" and is served from
// the residual values of its nearest shredded ancestor — the whole residual
// of a row that did not match the shredded type, or the leftover object of a
// partially shredded object.
//
// Dimensions of this part, for every top-level file case and every case below
// an optional group (both the row-API file and the VariantColumnWriter file):
//
//   - paths (1..4 per case, one reader holding all of them): positions of the
//     shredding schema (inside), paths of the values that were written (these
//     leave the schema wherever the value does: outside / partly inside),
//     either of them extended by a further Field / Elements step (below a
//     typed leaf, below a virtual cursor, names nobody wrote);
//   - projection: the reader holds only the cursors of the paths, or also
//     every cursor of the shredding schema;
//   - windows: the window sizes / late cursor creation / SeekToRow(0) of the
//     case (plus.Window, plus.Late); what the rows of a window are (all
//     partially shredded objects, all residual, all fully typed, mixed) is
//     counted and reported;
//
// Expected: the logical navigation of the values that were written
// (coq/theories/Variant/Navigate.v: navigate, offsets; C19_navigate_shredded
// proves it cannot depend on the shredding schema).  Predicate, evaluated on
// what the cursors return: at every prefix of the path the cursor has the
// entries of the logical navigation (count, window row of each entry,
// missing or not), the ListOffsets before every Elements step are the running
// totals of the array lengths, and the value rebuilt from the last cursor of
// the path (location tag, typed vectors, residuals; every cursor of the
// shredding schema below it) is the written value at that path.
// Correspondence: the entries and offsets of the implementation, as text, equal
// the answers of c19.navigate / c19.offsets.
package main

import (
	"bytes"
	"encoding/hex"
	"fmt"
	"io"
	"sort"
	"strings"

	"github.com/parquet-go/parquet-go"
	"github.com/parquet-go/parquet-go/variant"

	"verif/harness/core"
)

// navReach counts what the navigation cases reached (reported as a note).
var navReach struct {
	reads, paths, inside, outside, elems, withAll int
	// windows read with at least one cursor outside the shredding schema, by
	// what the rows of the window are at the root
	winPartial, winResidual, winTyped, winMixed int
	entries, present                             int
}

// ---- paths ----

// a path is "." (the root) or steps joined by "/": f<hex name> (Field) | e (Elements)
type navStep struct {
	elems bool
	name  string
}

func parseNav(s string) ([]navStep, error) {
	if s == "." || s == "" {
		return nil, nil
	}
	var out []navStep
	for _, p := range strings.Split(s, "/") {
		switch {
		case p == "e":
			out = append(out, navStep{elems: true})
		case strings.HasPrefix(p, "f"):
			b, err := hex.DecodeString(p[1:])
			if err != nil {
				return nil, err
			}
			out = append(out, navStep{name: string(b)})
		default:
			return nil, fmt.Errorf("path step %q", p)
		}
	}
	return out, nil
}

func navText(p []navStep) string {
	if len(p) == 0 {
		return "."
	}
	parts := make([]string, len(p))
	for i, st := range p {
		if st.elems {
			parts[i] = "e"
		} else {
			parts[i] = "f" + hex.EncodeToString([]byte(st.name))
		}
	}
	return strings.Join(parts, "/")
}

// for messages: $.a[*].b
func navPretty(p []navStep) string {
	var sb strings.Builder
	sb.WriteByte('$')
	for _, st := range p {
		if st.elems {
			sb.WriteString("[*]")
		} else {
			fmt.Fprintf(&sb, ".%q", st.name)
		}
	}
	return sb.String()
}

// sub: the shredding schema at the end of the path; nil = the path has left
// the schema (virtual cursors).
func (s *sch) sub(p []navStep) *sch {
	cur := s
	for _, st := range p {
		if cur == nil {
			return nil
		}
		switch {
		case st.elems && cur.Kind == 'L':
			cur = cur.Elem
		case !st.elems && cur.Kind == 'O':
			var next *sch
			for i, n := range cur.Names {
				if n == st.name {
					next = cur.Fields[i]
				}
			}
			cur = next
		default:
			cur = nil
		}
	}
	return cur
}

// ---- the logical navigation of the written values (the harness's own copy
// of Variant/Navigate.v, so that the predicate does not need the oracle) ----

type navEntry struct {
	row int   // row of the window
	t   *tree // nil = missing
}

func navStepTrees(st navStep, es []navEntry) (out []navEntry, offsets []int32) {
	if !st.elems {
		out = make([]navEntry, len(es))
		for i, e := range es {
			out[i].row = e.row
			if e.t != nil && e.t.Kind == '{' {
				for j, n := range e.t.Names {
					if n == st.name {
						out[i].t = e.t.Elems[j]
						break
					}
				}
			}
		}
		return out, nil
	}
	offsets = []int32{0}
	for _, e := range es {
		if e.t != nil && e.t.Kind == '[' {
			for _, x := range e.t.Elems {
				out = append(out, navEntry{row: e.row, t: x})
			}
		}
		offsets = append(offsets, int32(len(out)))
	}
	return out, offsets
}

func entryText(row int, t *tree) string {
	if t == nil {
		return fmt.Sprintf("%x:-", row)
	}
	return fmt.Sprintf("%x:%s", row, t.canonText())
}

// ---- generation ----

func schemaNavPaths(s *sch, prefix []navStep, out *[][]navStep) {
	switch s.Kind {
	case 'O':
		for i, n := range s.Names {
			p := append(append([]navStep{}, prefix...), navStep{name: n})
			*out = append(*out, p)
			schemaNavPaths(s.Fields[i], p, out)
		}
	case 'L':
		p := append(append([]navStep{}, prefix...), navStep{elems: true})
		*out = append(*out, p)
		schemaNavPaths(s.Elem, p, out)
	}
}

func valueNavPaths(t *tree, prefix []navStep, depth int, out *[][]navStep) {
	if depth == 0 {
		return
	}
	switch t.Kind {
	case '{':
		for i, n := range t.Names {
			p := append(append([]navStep{}, prefix...), navStep{name: n})
			*out = append(*out, p)
			valueNavPaths(t.Elems[i], p, depth-1, out)
		}
	case '[':
		p := append(append([]navStep{}, prefix...), navStep{elems: true})
		*out = append(*out, p)
		for i, e := range t.Elems {
			if i < 3 {
				valueNavPaths(e, p, depth-1, out)
			}
		}
	}
}

// navPaths picks the paths of a case: positions of the schema, paths of the
// written values, and one-step extensions of either.
func (g *gen) navPaths(s *sch, rows []string) []string {
	r := g.aux
	var inSchema, inValues [][]navStep
	schemaNavPaths(s, nil, &inSchema)
	for i, text := range rows {
		if text == "" || i >= 12 {
			continue
		}
		if t, err := parseTree(text); err == nil {
			valueNavPaths(t, nil, 4, &inValues)
		}
	}
	extend := func(p []navStep) []navStep {
		q := append([]navStep{}, p...)
		switch r.Intn(6) {
		case 0, 1:
			return append(q, navStep{elems: true})
		case 2:
			return append(q, navStep{name: "zz"}) // a name nobody writes
		case 3:
			return append(q, navStep{name: ""})
		default:
			return append(q, navStep{name: g.names[r.Intn(len(g.names))]})
		}
	}
	seen := map[string]bool{}
	var out []string
	for tries, n := 0, 1+r.Intn(4); len(out) < n && tries < 20; tries++ {
		var p []navStep
		switch k := r.Intn(10); {
		case k < 3 && len(inValues) > 0:
			p = inValues[r.Intn(len(inValues))]
		case k < 6 && len(inSchema) > 0:
			p = inSchema[r.Intn(len(inSchema))]
		case k < 8 && len(inValues) > 0:
			p = extend(inValues[r.Intn(len(inValues))])
		case k < 9 && len(inSchema) > 0:
			p = extend(inSchema[r.Intn(len(inSchema))])
		default:
			p = extend(nil)
			if r.Intn(2) == 0 {
				p = extend(p)
			}
		}
		if len(p) > 6 {
			p = p[:6]
		}
		if key := navText(p); !seen[key] {
			seen[key] = true
			out = append(out, key)
		}
	}
	return out
}

// shrinkNav: one path of the set, then its shortest prefix, for which fails holds.
func shrinkNav(navs []string, fails func([]string) bool) []string {
	if len(navs) > 1 {
		for _, nav := range navs {
			if fails([]string{nav}) {
				navs = []string{nav}
				break
			}
		}
	}
	if len(navs) == 1 {
		if p, err := parseNav(navs[0]); err == nil {
			for j := 1; j < len(p); j++ {
				if cand := []string{navText(p[:j])}; fails(cand) {
					return cand
				}
			}
		}
	}
	return navs
}

// ---- reading ----

type navDiff struct {
	class, what string
}

// navResult: per path, the entries ("<global row>:<tree>|-") and, per prefix
// that is followed by an Elements step, the list offsets, both over the whole
// row group (windows concatenated in row order).
type navResult struct {
	entries map[string][]string
	offsets map[string][]int32 // key: text of the prefix
}

type navWindow struct {
	base    int
	entries map[string][]string
	offsets map[string][]int32
}

// colNavigate reads the variant column through a VariantReader that holds the
// cursors of the paths (and, with all, every cursor of the shredding schema)
// and compares every window with the logical navigation of rows (nil = no
// value in that row).
func colNavigate(data []byte, s *sch, path []string, window int, late, all bool, navs []string, rows []*tree) (res *navResult, diff *navDiff, err error) {
	defer func() {
		if r := recover(); r != nil {
			err = fmt.Errorf("panic: %v", r)
		}
	}()
	if window <= 0 {
		window = 1024
	}
	paths := make([][]navStep, len(navs))
	for i, n := range navs {
		if paths[i], err = parseNav(n); err != nil {
			return nil, nil, err
		}
	}
	navReach.reads++
	if all {
		navReach.withAll++
	}
	f, err := parquet.OpenFile(bytes.NewReader(data), int64(len(data)))
	if err != nil {
		return nil, nil, err
	}
	var windows []navWindow
	rowBase := 0
	for _, rg := range f.RowGroups() {
		r, err := parquet.NewVariantReader(rg, path...)
		if err != nil {
			return nil, nil, fmt.Errorf("NewVariantReader: %w", err)
		}
		root := r.Root()
		cr := &colReader{idx: map[*parquet.VariantCursor][]int32{}}
		// chains[k][j]: the cursor after j steps of path k
		var chains [][]*parquet.VariantCursor
		subs := make([]*sch, len(paths))
		virtual := false
		create := func() error {
			for k, p := range paths {
				chain := []*parquet.VariantCursor{root}
				cur := root
				for _, st := range p {
					if st.elems {
						cur = cur.Elements()
					} else {
						cur = cur.Field(st.name)
					}
					chain = append(chain, cur)
				}
				chains = append(chains, chain)
				// the kinds along the path are those of the schema; below it, unshredded
				for j := range chain {
					sub := s.sub(p[:j])
					kind := byte('N')
					if sub != nil {
						kind = sub.Kind
					}
					want := map[byte]parquet.VariantCursorKind{'N': parquet.VariantCursorUnshredded, 'P': parquet.VariantCursorLeaf, 'O': parquet.VariantCursorObject, 'L': parquet.VariantCursorList}[kind]
					if chain[j].Kind() != want {
						return fmt.Errorf("the cursor at %s has kind %v, the shredding schema there is %c", navPretty(p[:j]), chain[j].Kind(), kind)
					}
				}
				subs[k] = s.sub(p)
				if subs[k] == nil {
					subs[k] = &sch{Kind: 'N'}
					virtual = true
				}
				if err := materialize(cur, subs[k]); err != nil {
					return err
				}
			}
			if all {
				return materialize(root, s)
			}
			return nil
		}
		// one window: rows [base, base+n) of the row group
		check := func(base, n int) (*navDiff, error) {
			w := navWindow{base: rowBase + base, entries: map[string][]string{}, offsets: map[string][]int32{}}
			if len(root.Locs()) != n {
				return nil, fmt.Errorf("Next returned %d rows, the root cursor has %d entries", n, len(root.Locs()))
			}
			if rowBase+base+n > len(rows) {
				return nil, fmt.Errorf("the reader returns rows %d..%d, %d were written", rowBase+base, rowBase+base+n-1, len(rows))
			}
			if virtual {
				partial, residual, typed := 0, 0, 0
				for i, l := range root.Locs() {
					switch l {
					case variant.LocTypedObject:
						if _, ok, _ := root.Residual(i); ok {
							partial++
						} else {
							typed++
						}
					case variant.LocResidual:
						residual++
					default:
						typed++
					}
				}
				switch {
				case partial == n:
					navReach.winPartial++
				case residual == n:
					navReach.winResidual++
				case typed == n:
					navReach.winTyped++
				default:
					navReach.winMixed++
				}
			}
			for k, p := range paths {
				where := func(j int) string {
					return fmt.Sprintf("cursor %s, window of rows %d..%d", navPretty(p[:j]), rowBase+base, rowBase+base+n-1)
				}
				es := make([]navEntry, n)
				for i := range es {
					es[i] = navEntry{row: i, t: rows[rowBase+base+i]}
				}
				chain := chains[k]
				for j := 0; ; j++ {
					c := chain[j]
					locs := c.Locs()
					if len(locs) != len(es) {
						return &navDiff{"columnar-navigation-differs", fmt.Sprintf("%s: the cursor has %d entries, the values written have %d there", where(j), len(locs), len(es))}, nil
					}
					crows := c.Rows()
					if len(crows) != 0 && len(crows) != len(locs) {
						return &navDiff{"columnar-navigation-differs", fmt.Sprintf("%s: Rows() has %d entries, Locs() %d", where(j), len(crows), len(locs))}, nil
					}
					for i, e := range es {
						row := i
						if len(crows) != 0 {
							row = int(crows[i])
						}
						if row != e.row {
							return &navDiff{"columnar-navigation-differs", fmt.Sprintf("%s: entry %d belongs to window row %d, the cursor says %d", where(j), i, e.row, row)}, nil
						}
						if (locs[i] != variant.LocMissing) != (e.t != nil) {
							wt := "nothing"
							if e.t != nil {
								wt = core.Trunc(e.t.canonText(), 200)
							}
							return &navDiff{"columnar-navigation-differs", fmt.Sprintf("%s: entry %d (row %d) is tagged %v, written there: %s", where(j), i, rowBase+base+e.row, locs[i], wt)}, nil
						}
					}
					if j == len(p) {
						break
					}
					next, offs := navStepTrees(p[j], es)
					if p[j].elems {
						got := c.ListOffsets()
						same := len(got) == len(offs)
						for i := 0; same && i < len(got); i++ {
							same = got[i] == offs[i]
						}
						if !same {
							return &navDiff{"columnar-navigation-differs", fmt.Sprintf("%s: ListOffsets %v, the arrays written give %v", where(j), got, offs)}, nil
						}
						key := navText(p[:j])
						w.offsets[key] = append([]int32{}, got...)
					}
					es = next
				}
				// the values at the end of the path
				last := chain[len(p)]
				if err := cr.fill(last, subs[k]); err != nil {
					return nil, fmt.Errorf("%s: %w", where(len(p)), err)
				}
				texts := make([]string, len(es))
				for i, e := range es {
					v, ok, err := cr.value(last, subs[k], i)
					if err != nil {
						return nil, fmt.Errorf("%s, entry %d: %w", where(len(p)), i, err)
					}
					var gt *tree
					if ok {
						gt = fromValue(v)
					}
					texts[i] = entryText(rowBase+base+e.row, gt)
					navReach.entries++
					if e.t != nil {
						navReach.present++
					}
					if want := entryText(rowBase+base+e.row, e.t); texts[i] != want {
						return &navDiff{"columnar-navigation-differs", fmt.Sprintf("%s: entry %d reads as %s, written there (row:value) %s", where(len(p)), i, core.Trunc(texts[i], 300), core.Trunc(want, 300))}, nil
					}
				}
				w.entries[navs[k]] = texts
			}
			windows = append(windows, w)
			return nil, nil
		}
		fail := func(d *navDiff, e error) (*navResult, *navDiff, error) {
			r.Close()
			return nil, d, e
		}
		first, done := 0, 0
		if late && rg.NumRows() > 0 {
			n, err := r.Next(window)
			if err != nil {
				return fail(nil, fmt.Errorf("first Next: %w", err))
			}
			first, done = n, n
		}
		if err := create(); err != nil {
			return fail(nil, err)
		}
		for {
			n, err := r.Next(window)
			if err == io.EOF {
				break
			}
			if err != nil {
				return fail(nil, fmt.Errorf("Next at row %d: %w", done, err))
			}
			if n <= 0 {
				return fail(nil, fmt.Errorf("Next returned %d rows", n))
			}
			if d, err := check(done, n); d != nil || err != nil {
				return fail(d, err)
			}
			done += n
		}
		if first > 0 {
			if err := r.SeekToRow(0); err != nil {
				return fail(nil, fmt.Errorf("SeekToRow(0): %w", err))
			}
			n, err := r.Next(first)
			if err != nil || n != first {
				return fail(nil, fmt.Errorf("Next(%d) after SeekToRow(0): %d, %v", first, n, err))
			}
			if d, err := check(0, n); d != nil || err != nil {
				return fail(d, err)
			}
		}
		if err := r.Close(); err != nil {
			return nil, nil, fmt.Errorf("Close: %w", err)
		}
		rowBase += done
	}
	if rowBase != len(rows) {
		return nil, nil, fmt.Errorf("the reader returned %d rows, %d were written", rowBase, len(rows))
	}
	// the windows in row order, concatenated
	sort.SliceStable(windows, func(i, j int) bool { return windows[i].base < windows[j].base })
	res = &navResult{entries: map[string][]string{}, offsets: map[string][]int32{}}
	for k, p := range paths {
		res.entries[navs[k]] = []string{}
		for j := range p {
			if p[j].elems {
				res.offsets[navText(p[:j])] = []int32{0}
			}
		}
	}
	for _, w := range windows {
		for key, e := range w.entries {
			res.entries[key] = append(res.entries[key], e...)
		}
		for key, o := range w.offsets {
			acc := res.offsets[key]
			last := acc[len(acc)-1]
			for _, x := range o[1:] {
				acc = append(acc, last+x)
			}
			res.offsets[key] = acc
		}
	}
	for k, p := range paths {
		navReach.paths++
		if s.sub(p) != nil {
			navReach.inside++
		} else {
			navReach.outside++
		}
		for _, st := range p {
			if st.elems {
				navReach.elems++
				break
			}
		}
		_ = k
	}
	return res, nil, nil
}

// checkNavigate: the navigation part of a file case.  want[i] is the canonical
// text of the value written in row i ("" = a null row).
func checkNavigate(c *core.Ctx, where string, replay any, data []byte, s *sch, path []string, p *plus, want []string, model bool) {
	if len(p.Nav) == 0 {
		return
	}
	rows := make([]*tree, len(want))
	toks := make([]string, len(want))
	for i, w := range want {
		toks[i] = "_"
		if w == "" {
			continue
		}
		t, err := parseTree(w)
		if err != nil {
			c.Note("navigation: unreadable row %q: %v", core.Trunc(w, 100), err)
			return
		}
		rows[i], toks[i] = t, w
	}
	res, diff, err := colNavigate(data, s, path, p.Window, p.Late, p.NavAll, p.Nav, rows)
	switch {
	case err != nil:
		c.Violation("columnar-navigation-error", where+", navigation "+strings.Join(p.Nav, " ")+": "+err.Error(), replay)
		return
	case diff != nil:
		c.Violation(diff.class, where+", navigation: "+diff.what, replay)
		return
	}
	if !model || !c.HasOracle() {
		return
	}
	args := strings.Join(toks, " ")
	for _, nav := range p.Nav {
		impl := strings.Join(res.entries[nav], " ")
		if impl == "" {
			impl = "_"
		}
		if ans := c.Ask("c19.navigate " + nav + " " + args); ans != impl {
			c.Mismatch("corr:C19.navigate", "c19.navigate "+nav+" "+core.Trunc(args, 1500), impl, ans, replay)
			return
		}
	}
	keys := make([]string, 0, len(res.offsets))
	for k := range res.offsets {
		keys = append(keys, k)
	}
	sort.Strings(keys)
	for _, k := range keys {
		parts := make([]string, len(res.offsets[k]))
		for i, x := range res.offsets[k] {
			parts[i] = fmt.Sprintf("%x", x)
		}
		impl := strings.Join(parts, ",")
		if ans := c.Ask("c19.offsets " + k + " " + args); ans != impl {
			c.Mismatch("corr:C19.offsets", "c19.offsets "+k+" "+core.Trunc(args, 1500), impl, ans, replay)
			return
		}
	}
}
