// C19 — part 7: variant columns below other groups.
//
// The shredded writer and reader work with levels relative to the variant
// group and add the levels of the enclosing schema (shredLevels.baseDef /
// baseRep in variant_shredded_write.go, the def / rep arguments of
// shreddedVariantGroup.read).  The file cases of part 4 keep the variant
// column at the top level, where both are zero; the cases here put it
//
//	rep     items: repeated group { var }            rows of 0..3 items
//	list    items (LIST) { list { element: var } }   rows of 0..3 items
//	repvar  vars: repeated var                       the variant group itself repeated
//	opt     og: optional group { var }               group present / absent
//	optrep  og: optional group { items: repeated group { var } }
//
// with the variant node required or optional, and compare every item of
// every row, read back typed, raw and converted to unshredded, with what was
// written; the stored leaf columns are compared per item (items delimited by
// the repetition levels) with the model's shredding of that item.
package main

import (
	"bytes"
	"encoding/json"
	"fmt"
	"io"
	"strings"

	"github.com/parquet-go/parquet-go"

	"verif/harness/core"
)

type nItem[V any] struct {
	Var V `parquet:"var,variant"`
}
type nRep[V any] struct {
	ID    int32      `parquet:"id"`
	Items []nItem[V] `parquet:"items"`
}
type nList[V any] struct {
	ID    int32 `parquet:"id"`
	Items []V   `parquet:"items,list" parquet-element:",variant"`
}
type nRepVar[V any] struct {
	ID   int32 `parquet:"id"`
	Vars []V   `parquet:"vars"`
}
type nOpt[V any] struct {
	ID int32     `parquet:"id"`
	Og *nItem[V] `parquet:"og"`
}
type nInner[V any] struct {
	Items []nItem[V] `parquet:"items"`
}
type nOptRep[V any] struct {
	ID int32      `parquet:"id"`
	Og *nInner[V] `parquet:"og"`
}

// nestRow is one row: the optional group absent, or its items ("" = a null
// variant).  Shape opt has exactly one item when the group is present.
type nestRow struct {
	Absent bool     `json:"absent,omitempty"`
	Items  []string `json:"items"`
}

type nestCase struct {
	Mode     string    `json:"mode"` // "nested"
	Schema   string    `json:"schema"`
	Nest     string    `json:"nest"`     // rep | list | repvar | opt | optrep
	Optional bool      `json:"optional"` // the variant node itself (never for repvar)
	PageV    int       `json:"page_version"`
	Write    string    `json:"write"` // typed | raw
	Path     string    `json:"path"`  // writer | buffer | rows
	PageBuf  int       `json:"page_buffer"`
	Rows     []nestRow `json:"rows"`
	plus
}

func (nc *nestCase) writerOptions() []parquet.WriterOption {
	opts := []parquet.WriterOption{parquet.DataPageVersion(nc.PageV)}
	if nc.PageBuf > 0 {
		opts = append(opts, parquet.PageBufferSize(nc.PageBuf))
	}
	return append(opts, nc.plus.writerOptions()...)
}

// nestVals is a row in the form the adapters exchange.
type nestVals[V any] struct {
	id     int32
	absent bool
	items  []V
}

func itemsOf[V any](xs []nItem[V]) []V {
	out := make([]V, len(xs))
	for i := range xs {
		out[i] = xs[i].Var
	}
	return out
}
func toItems[V any](xs []V) []nItem[V] {
	if xs == nil {
		return nil
	}
	out := make([]nItem[V], len(xs))
	for i := range xs {
		out[i].Var = xs[i]
	}
	return out
}

func getRep[V any](r nRep[V]) nestVals[V]   { return nestVals[V]{r.ID, false, itemsOf(r.Items)} }
func getList[V any](r nList[V]) nestVals[V] { return nestVals[V]{r.ID, false, r.Items} }
func getRepVar[V any](r nRepVar[V]) nestVals[V] {
	return nestVals[V]{r.ID, false, r.Vars}
}
func getOpt[V any](r nOpt[V]) nestVals[V] {
	if r.Og == nil {
		return nestVals[V]{r.ID, true, nil}
	}
	return nestVals[V]{r.ID, false, []V{r.Og.Var}}
}
func getOptRep[V any](r nOptRep[V]) nestVals[V] {
	if r.Og == nil {
		return nestVals[V]{r.ID, true, nil}
	}
	return nestVals[V]{r.ID, false, itemsOf(r.Og.Items)}
}

func mkRep(v nestVals[any]) nRep[any]       { return nRep[any]{v.id, toItems(v.items)} }
func mkList(v nestVals[any]) nList[any]     { return nList[any]{v.id, v.items} }
func mkRepVar(v nestVals[any]) nRepVar[any] { return nRepVar[any]{v.id, v.items} }
func mkOpt(v nestVals[any]) nOpt[any] {
	if v.absent {
		return nOpt[any]{ID: v.id}
	}
	return nOpt[any]{v.id, &nItem[any]{v.items[0]}}
}
func mkOptRep(v nestVals[any]) nOptRep[any] {
	if v.absent {
		return nOptRep[any]{ID: v.id}
	}
	return nOptRep[any]{v.id, &nInner[any]{toItems(v.items)}}
}

// nestLayout: the schema of the case, the path of the variant group, and the
// levels that delimit items: a value starts a new item when its repetition
// level is <= rep, and stands for "no item" when its definition level is
// below def.
type nestLayout struct {
	s        *sch
	schema   *parquet.Schema
	fschema  *parquet.Schema // the file as stored when a leaf has the layout of another writer (else nil)
	conv     *parquet.Schema // target of the conversion to unshredded (nil: the schema of the Go type)
	path     []string
	rep      int
	def      int
	optional bool
}

func (nc *nestCase) build() (l *nestLayout, rows [][]*tree, err error) {
	defer func() {
		if r := recover(); r != nil {
			err = fmt.Errorf("schema construction panicked: %v", r)
		}
	}()
	l = &nestLayout{}
	if l.s, err = parseSch(nc.Schema); err != nil {
		return
	}
	l.optional = nc.Optional && nc.Nest != "repvar"
	l.path, l.rep, l.def, _ = nestLevels(nc.Nest)
	mk := func(o nodeOpts) (*parquet.Schema, error) {
		var node parquet.Node
		if l.s.Kind == 'N' {
			node = parquet.Variant()
		} else {
			var e error
			if node, e = parquet.ShreddedVariant(l.s.node(o)); e != nil {
				return nil, e
			}
		}
		if l.optional {
			node = parquet.Optional(node)
		}
		switch nc.Nest {
		case "rep", "list", "repvar", "opt", "optrep":
		default:
			return nil, fmt.Errorf("unknown nesting %q", nc.Nest)
		}
		return evoSchema(nc.Nest, node, true, nil, nil, 0), nil
	}
	if l.schema, err = mk(nodeOpts{dict: nc.Dict == "typed"}); err != nil {
		return
	}
	if l.s.foreign() {
		if l.fschema, err = mk(nodeOpts{dict: nc.Dict == "typed", foreign: true}); err != nil {
			return
		}
	}
	if nc.Nest == "repvar" {
		l.conv = parquet.NewSchema("table", parquet.Group{"id": parquet.Int(32), "vars": parquet.Repeated(parquet.Variant())})
	}
	for _, r := range nc.Rows {
		var items []*tree
		if nc.Nest == "opt" && !r.Absent && len(r.Items) != 1 {
			err = fmt.Errorf("shape opt takes one item per present row")
			return
		}
		for _, it := range r.Items {
			if it == "" {
				items = append(items, nil)
				continue
			}
			t, e := parseTree(it)
			if e != nil {
				err = e
				return
			}
			items = append(items, t)
		}
		rows = append(rows, items)
	}
	return
}

func nestWrite[T any](nc *nestCase, l *nestLayout, in []T) (data []byte, err error) {
	defer func() {
		if r := recover(); r != nil {
			err = fmt.Errorf("panic: %v", r)
		}
	}()
	schema := l.schema
	if l.fschema != nil {
		// the layout of another writer: the library shreds the rows, the leaf
		// values are re-laid out and stored through the row API
		dec := make([]parquet.Row, len(in))
		for i := range in {
			dec[i] = schema.Deconstruct(nil, &in[i])
		}
		return writeForeign(schema, l.fschema, dec, l.s.leafWidths(l.path), nc.writerOptions())
	}
	buf := new(bytes.Buffer)
	opts := append([]parquet.WriterOption{schema}, nc.writerOptions()...)
	w := parquet.NewGenericWriter[T](buf, opts...)
	switch nc.Path {
	case "buffer":
		b := parquet.NewGenericBuffer[T](schema)
		if _, err = b.Write(in); err != nil {
			return nil, err
		}
		if _, err = w.WriteRowGroup(b); err != nil {
			return nil, err
		}
	case "rows":
		dec := make([]parquet.Row, len(in))
		for i := range in {
			dec[i] = schema.Deconstruct(nil, &in[i])
		}
		if _, err = w.WriteRows(dec); err != nil {
			return nil, err
		}
	default:
		for i := 0; i < len(in); {
			k := 1 + (i*7+3)%4
			if i+k > len(in) {
				k = len(in) - i
			}
			if _, err = w.Write(in[i : i+k]); err != nil {
				return nil, err
			}
			i += k
		}
	}
	if err = w.Close(); err != nil {
		return nil, err
	}
	return buf.Bytes(), nil
}

func nestRead[T any](data []byte, schema *parquet.Schema, n int) (out []T, err error) {
	defer func() {
		if r := recover(); r != nil {
			err = fmt.Errorf("panic: %v", r)
		}
	}()
	if schema == nil {
		out, err = parquet.Read[T](bytes.NewReader(data), int64(len(data)))
	} else {
		r := parquet.NewGenericReader[T](bytes.NewReader(data), schema)
		defer r.Close()
		out = make([]T, n+1)
		k, e := r.Read(out)
		if e != nil && e != io.EOF {
			return nil, e
		}
		out = out[:k]
	}
	if err == nil && len(out) != n {
		err = fmt.Errorf("read %d of %d rows", len(out), n)
	}
	return
}

// nestColumns returns, per row, per leaf column of the variant group, the
// items of the row, each with its non-null values (nil items list: the row
// has no item).
func nestColumns(data []byte, l *nestLayout, nrows int) (out [][][][]string, ncols int, err error) {
	defer func() {
		if r := recover(); r != nil {
			err = fmt.Errorf("panic: %v", r)
		}
	}()
	f, err := parquet.OpenFile(bytes.NewReader(data), int64(len(data)))
	if err != nil {
		return nil, 0, err
	}
	// leaf columns below the variant group, in file order
	colOf := map[int]int{}
	for ci, p := range f.Schema().Columns() {
		if len(p) > len(l.path) && strings.Join(p[:len(l.path)], "\x00") == strings.Join(l.path, "\x00") {
			colOf[ci] = ncols
			ncols++
		}
	}
	for _, rg := range f.RowGroups() {
		rows := rg.Rows()
		for {
			buf := make([]parquet.Row, 16)
			n, e := rows.ReadRows(buf)
			for _, row := range buf[:n] {
				cols := make([][][]string, ncols)
				for _, v := range row {
					k, ok := colOf[v.Column()]
					if !ok {
						continue
					}
					if v.RepetitionLevel() <= l.rep || cols[k] == nil {
						if v.DefinitionLevel() < l.def {
							continue // no item
						}
						cols[k] = append(cols[k], []string{})
					}
					if !v.IsNull() {
						last := len(cols[k]) - 1
						cols[k][last] = append(cols[k][last], leafText(v))
					}
				}
				out = append(out, cols)
			}
			if e != nil {
				if e != io.EOF {
					rows.Close()
					return nil, 0, e
				}
				break
			}
			if n == 0 {
				break
			}
		}
		rows.Close()
	}
	if len(out) != nrows {
		return nil, 0, fmt.Errorf("file has %d rows, %d written", len(out), nrows)
	}
	return out, ncols, nil
}

type nestAdapters[TA, TP, TR any] struct {
	mk   func(nestVals[any]) TA
	getA func(TA) nestVals[any]
	getP func(TP) nestVals[*rawVariant]
	getR func(TR) nestVals[rawVariant]
}

func checkNested(c *core.Ctx, nc *nestCase) {
	switch nc.Nest {
	case "rep":
		checkNestedT(c, nc, nestAdapters[nRep[any], nRep[*rawVariant], nRep[rawVariant]]{mkRep, getRep[any], getRep[*rawVariant], getRep[rawVariant]})
	case "list":
		checkNestedT(c, nc, nestAdapters[nList[any], nList[*rawVariant], nList[rawVariant]]{mkList, getList[any], getList[*rawVariant], getList[rawVariant]})
	case "repvar":
		checkNestedT(c, nc, nestAdapters[nRepVar[any], nRepVar[*rawVariant], nRepVar[rawVariant]]{mkRepVar, getRepVar[any], getRepVar[*rawVariant], getRepVar[rawVariant]})
	case "opt":
		checkNestedT(c, nc, nestAdapters[nOpt[any], nOpt[*rawVariant], nOpt[rawVariant]]{mkOpt, getOpt[any], getOpt[*rawVariant], getOpt[rawVariant]})
	case "optrep":
		checkNestedT(c, nc, nestAdapters[nOptRep[any], nOptRep[*rawVariant], nOptRep[rawVariant]]{mkOptRep, getOptRep[any], getOptRep[*rawVariant], getOptRep[rawVariant]})
	default:
		c.Note("unknown nesting %q", nc.Nest)
	}
}

func checkNestedT[TA, TP, TR any](c *core.Ctx, nc *nestCase, ad nestAdapters[TA, TP, TR]) {
	l, rows, err := nc.build()
	if err != nil {
		c.Violation("schema-rejected", "a shredding schema of the supported class is rejected: "+err.Error(), nc)
		return
	}
	n := len(rows)
	where := fmt.Sprintf("schema %s below %s optional=%v v%d %s/%s write", nc.Schema, nc.Nest, l.optional, nc.PageV, nc.Write, nc.Path)
	// what is written, and what must come back: want[i][j] == "" is a null item
	in := make([]TA, n)
	want := make([][]string, n)
	for i, items := range rows {
		v := nestVals[any]{id: int32(i), absent: nc.Rows[i].Absent}
		if !v.absent && nc.Nest != "opt" {
			v.items = []any{} // present and empty
		}
		want[i] = make([]string, len(items))
		for j, t := range items {
			if nc.Write == "typed" && l.optional && t != nil && t.Kind == 'n' {
				rows[i][j], t = nil, nil // the typed API writes a nil value of an optional column as a null
			}
			var x any
			switch {
			case t == nil:
				if !l.optional {
					want[i][j] = "n" // a nil value in a required variant column is variant null
				}
			case nc.Write == "typed":
				x, want[i][j] = t.goAny(), t.canonText()
			default:
				meta, val, e := goEncode(t)
				if e != nil {
					c.Violation("encode-error", e.Error(), nc)
					return
				}
				x, want[i][j] = rawVariant{Metadata: meta, Value: val}, t.canonText()
			}
			v.items = append(v.items, x)
		}
		in[i] = ad.mk(v)
	}
	data, err := nestWrite(nc, l, in)
	if err != nil {
		c.Violation("file-write-error", fmt.Sprintf("writing %s: %v", where, err), nc)
		return
	}
	rschema := l.schema
	if l.fschema != nil {
		rschema = l.fschema
	}
	// flat: the rows as (value or nil) per row, for the columnar API, which
	// reaches variant columns that are not below a repeated field
	var flat []*tree
	var flatWant []string
	anyAbsent := false
	if nc.Nest == "opt" {
		for i, items := range rows {
			if nc.Rows[i].Absent {
				anyAbsent = true
				flat, flatWant = append(flat, nil), append(flatWant, "")
				continue
			}
			flat, flatWant = append(flat, items[0]), append(flatWant, want[i][0])
		}
	}
	verify := func(data []byte, schema *parquet.Schema, where string) {
		if o := nc.plus.text(); o != "" {
			where += " " + o
		}
		// shape of a row read back: absent flag and number of items
		shape := func(form string, i int, absent bool, k int) bool {
			if absent != nc.Rows[i].Absent || k != len(rows[i]) {
				desc := func(a bool, k int) string {
					if a {
						return "an absent group"
					}
					return fmt.Sprintf("%d items", k)
				}
				c.Violation(map[string]string{"typed": "typed-read-differs", "raw": "raw-read-differs", "convert-to-unshredded": "raw-read-differs"}[form],
					fmt.Sprintf("%s, %s read: row %d reads back with %s, written with %s", where, form, i, desc(absent, k), desc(nc.Rows[i].Absent, len(rows[i]))), nc)
				return false
			}
			return true
		}
		// typed read
		if out, err := nestRead[TA](data, schema, n); err != nil {
			c.Violation("typed-read-error", where+": "+err.Error(), nc)
		} else {
		typed:
			for i := range out {
				v := ad.getA(out[i])
				if v.id != int32(i) {
					c.Violation("typed-read-differs", fmt.Sprintf("%s, typed read: row %d has id %d", where, i, v.id), nc)
					break
				}
				if !shape("typed", i, v.absent, len(v.items)) {
					break
				}
				for j, x := range v.items {
					exp := "nil"
					if rows[i][j] != nil {
						exp = anyText(rows[i][j].goAny())
					}
					if got := anyText(x); got != exp {
						c.Violation("typed-read-differs", fmt.Sprintf("%s, typed read: row %d item %d reads back as %s, want %s", where, i, j, core.Trunc(got, 300), core.Trunc(exp, 300)), nc)
						break typed
					}
				}
			}
		}
		decodeRaw := func(form string, i, j int, meta, val []byte, null bool) bool {
			bad := func(got string) bool {
				c.Violation("raw-read-differs", fmt.Sprintf("%s, %s read: row %d item %d reads back as %s, written %s", where, form, i, j, core.Trunc(got, 300), core.Trunc(want[i][j], 300)), nc)
				return false
			}
			if null || (len(meta) == 0 && len(val) == 0) {
				if want[i][j] != "" {
					return bad("null")
				}
				return true
			}
			t, err := goDecode(meta, val)
			if err != nil {
				return bad("undecodable bytes (" + err.Error() + ")")
			}
			if got := t.canonText(); got != want[i][j] {
				return bad(got)
			}
			if c.HasOracle() && want[i][j] != "" {
				if back := c.Ask("c19.decode " + core.Hexs(meta) + " " + core.Hexs(val)); back != want[i][j] {
					c.Mismatch("corr:C19.decode-readback", form+" read bytes", want[i][j], back, nc)
					return false
				}
			}
			return true
		}
		// raw read through the file's own schema
		if out, err := nestRead[TP](data, schema, n); err != nil {
			c.Violation("raw-read-error", where+": "+err.Error(), nc)
		} else {
		raw:
			for i := range out {
				v := ad.getP(out[i])
				if !shape("raw", i, v.absent, len(v.items)) {
					break
				}
				for j, x := range v.items {
					var m, b []byte
					if x != nil {
						m, b = x.Metadata, x.Value
					}
					if !decodeRaw("raw", i, j, m, b, x == nil) {
						break raw
					}
				}
			}
		}
		// conversion to an unshredded variant column at the same place
		if out, err := nestRead[TR](data, l.conv, n); err != nil {
			c.Violation("convert-read-error", where+": "+err.Error(), nc)
		} else {
		conv:
			for i := range out {
				v := ad.getR(out[i])
				if !shape("convert-to-unshredded", i, v.absent, len(v.items)) {
					break
				}
				for j, x := range v.items {
					if !decodeRaw("convert-to-unshredded", i, j, x.Metadata, x.Value, false) {
						break conv
					}
				}
			}
		}
		// the columnar reader
		if nc.Nest == "opt" {
			got, err := colRead(data, l.s, l.path, nc.Window, nc.Late)
			switch {
			case err != nil:
				c.Violation("columnar-read-error", where+", columnar read: "+err.Error(), nc)
			case len(got) != n:
				c.Violation("columnar-read-error", fmt.Sprintf("%s, columnar read: %d of %d rows", where, len(got), n), nc)
			default:
				for i := range got {
					if got[i] != flatWant[i] {
						g, w := got[i], flatWant[i]
						if g == "" {
							g = "null"
						}
						if w == "" {
							w = "null"
						}
						c.Violation("columnar-read-differs", fmt.Sprintf("%s, columnar read: row %d reads back as %s, written %s", where, i, core.Trunc(g, 300), core.Trunc(w, 300)), nc)
						break
					}
				}
			}
			// typed navigation: cursors on paths inside / outside the shredding schema (navigate.go)
			checkNavigate(c, where, nc, data, l.s, l.path, &nc.plus, flatWant, true)
		}
	}
	verify(data, rschema, where)

	// the same rows through the columnar writer (it cannot write an absent enclosing group)
	if nc.Nest == "opt" && !anyAbsent && l.fschema == nil {
		data2, err := colWrite(l.schema, l.path, flat, nil, l.optional, nc.writerOptions())
		if err != nil {
			c.Violation("columnar-write-error", fmt.Sprintf("schema %s below opt optional=%v: VariantColumnWriter: %v", nc.Schema, l.optional, err), nc)
		} else {
			verify(data2, l.schema, fmt.Sprintf("schema %s below %s optional=%v v%d columnar write", nc.Schema, nc.Nest, l.optional, nc.PageV))
		}
	}

	// reader schemas that add / drop / reorder columns around the variant column
	if nc.Evo != nil {
		narrow := make([]parquet.Row, n)
		if err := protect(func() error {
			for i := range in {
				narrow[i] = l.schema.Deconstruct(nil, &in[i])
			}
			return nil
		}); err != nil {
			c.Violation("file-write-error", "Deconstruct: "+err.Error(), nc)
			return
		}
		absent := make([]bool, n)
		for i := range absent {
			absent[i] = nc.Rows[i].Absent
		}
		checkEvolve(c, &evoCtx{nest: nc.Nest, path: l.path, s: l.s, dict: nc.Dict == "typed", optional: l.optional,
			narrow: l.schema, rows: narrow, want: want, absent: absent, opts: nc.writerOptions(), evo: nc.Evo,
			where: fmt.Sprintf("schema %s below %s optional=%v v%d", nc.Schema, nc.Nest, l.optional, nc.PageV), replay: nc})
	}

	// what the file stores, item by item == the model's shredding of the item
	if !c.HasOracle() || l.fschema != nil {
		return
	}
	cols, ncols, err := nestColumns(data, l, n)
	if err != nil {
		c.Violation("file-scan-error", err.Error(), nc)
		return
	}
	for i, items := range rows {
		wantItems := len(items)
		if nc.Nest == "opt" {
			wantItems = 1 // rows are not delimited by repetition: one (possibly empty) item per row
		}
		for k := 0; k < ncols; k++ {
			if len(cols[i][k]) != wantItems && !(wantItems == 1 && len(cols[i][k]) == 0 && (nc.Rows[i].Absent || rows[i][0] == nil)) {
				c.Mismatch("corr:C19.nested-levels", fmt.Sprintf("row %d, leaf column %d of the variant group: items delimited by the levels", i, k), fmt.Sprint(len(cols[i][k])), fmt.Sprint(wantItems), nc)
				return
			}
		}
		for j, t := range items {
			got := make([][]string, ncols)
			for k := 0; k < ncols; k++ {
				if j < len(cols[i][k]) {
					got[k] = cols[i][k][j]
				}
			}
			if t == nil {
				if l.optional {
					if g := colsText(got); strings.Trim(g, "_;") != "" {
						c.Violation("null-row-has-values", fmt.Sprintf("row %d item %d is null and stores values: %s", i, j, g), nc)
						return
					}
					continue
				}
				t = &tree{Kind: 'n'}
			}
			in := t
			if nc.Write == "raw" {
				if l.s.Kind != 'N' {
					in = t.canon()
				}
			} else if t.maxFields() > 1 {
				continue // map iteration order decides the dictionary order
			}
			var model string
			if l.s.Kind == 'N' {
				model = strings.Join(strings.Split(c.Ask("c19.encode "+in.text()), " "), ";")
			} else {
				ans := strings.Split(c.Ask("c19.shred "+l.s.text()+" "+in.text()), " ")
				if len(ans) != 3 {
					c.Mismatch("corr:C19.shred", "c19.shred "+l.s.text()+" "+in.text(), colsText(got), strings.Join(ans, " "), nc)
					return
				}
				model = ans[0] + ";" + ans[2]
			}
			if g := colsText(got); g != model {
				c.Mismatch("corr:C19.shred", fmt.Sprintf("row %d item %d: c19.shred %s %s", i, j, l.s.text(), in.text()), g, model, nc)
				return
			}
		}
	}
}

func shrinkNested(c *core.Ctx, nc *nestCase) *nestCase {
	fails := func(x *nestCase) bool { return c.Probe(func() { checkNested(c, x) }) }
	cur := *nc
	cloneRows := func(rs []nestRow) []nestRow {
		out := make([]nestRow, len(rs))
		for i, r := range rs {
			out[i] = nestRow{Absent: r.Absent, Items: append([]string{}, r.Items...)}
		}
		return out
	}
	// single rows first
	for i := range nc.Rows {
		t := cur
		t.Rows = cloneRows(nc.Rows[i : i+1])
		if fails(&t) {
			cur = t
			break
		}
	}
	for changed := true; changed && len(cur.Rows) > 1; {
		changed = false
		for i := range cur.Rows {
			t := cur
			t.Rows = append(cloneRows(cur.Rows[:i]), cloneRows(cur.Rows[i+1:])...)
			if fails(&t) {
				cur, changed = t, true
				break
			}
		}
	}
	// drop items
	if cur.Nest != "opt" {
		for changed := true; changed; {
			changed = false
		rows:
			for i := range cur.Rows {
				for j := range cur.Rows[i].Items {
					t := cur
					t.Rows = cloneRows(cur.Rows)
					t.Rows[i].Items = append(t.Rows[i].Items[:j:j], t.Rows[i].Items[j+1:]...)
					if fails(&t) {
						cur, changed = t, true
						break rows
					}
				}
			}
		}
	}
	// simpler shredding schemas
	if s0, err := parseSch(cur.Schema); err == nil {
		budget := 80
		for changed := true; changed && budget > 0; {
			changed = false
			for _, cand := range s0.simpler() {
				if budget--; budget < 0 {
					break
				}
				t := cur
				t.Rows = cloneRows(cur.Rows)
				t.Schema = cand.replayText()
				if fails(&t) {
					cur, s0, changed = t, cand, true
					break
				}
			}
		}
	}
	if cur.Evo != nil {
		for changed := true; changed; {
			changed = false
			for _, e := range cur.Evo.simpler() {
				t := cur
				t.Rows = cloneRows(cur.Rows)
				t.Evo = e
				if fails(&t) {
					cur, changed = t, true
					break
				}
			}
		}
	}
	for _, simpler := range []func(*nestCase){
		func(x *nestCase) { x.Evo = nil },
		func(x *nestCase) { x.Nav = nil },
		func(x *nestCase) { x.NavAll = false },
		func(x *nestCase) { x.Dict, x.DictMax = "", 0 },
		func(x *nestCase) { x.Late = false },
		func(x *nestCase) { x.Window = 0 },
		func(x *nestCase) { x.Optional = false },
		func(x *nestCase) { x.Path = "writer" },
		func(x *nestCase) { x.PageBuf = 0 },
		func(x *nestCase) { x.PageV = 1 },
	} {
		t := cur
		t.Rows = cloneRows(cur.Rows)
		simpler(&t)
		if fails(&t) {
			cur = t
		}
	}
	cur.Nav = shrinkNav(cur.Nav, func(nav []string) bool {
		t := cur
		t.Rows = cloneRows(cur.Rows)
		t.Nav = nav
		return fails(&t)
	})
	for i := range cur.Rows {
		for j, it := range cur.Rows[i].Items {
			if it == "" {
				continue
			}
			t0, err := parseTree(it)
			if err != nil {
				continue
			}
			min := shrinkTree(t0, func(x *tree) bool {
				if cur.Write == "typed" && !x.native() {
					return false
				}
				t := cur
				t.Rows = cloneRows(cur.Rows)
				t.Rows[i].Items[j] = x.text()
				return fails(&t)
			})
			cur.Rows = cloneRows(cur.Rows)
			cur.Rows[i].Items[j] = min.text()
		}
	}
	return &cur
}

// simpler: schemas one step smaller (a child in place of its parent, a field
// dropped, a child simplified, int64 in place of another leaf).
func (s *sch) simpler() []*sch {
	var out []*sch
	switch s.Kind {
	case 'L':
		out = append(out, s.Elem)
		for _, e := range s.Elem.simpler() {
			out = append(out, &sch{Kind: 'L', Elem: e})
		}
	case 'O':
		out = append(out, s.Fields...)
		if len(s.Fields) > 1 {
			for i := range s.Fields {
				out = append(out, &sch{Kind: 'O',
					Names:  append(append([]string{}, s.Names[:i]...), s.Names[i+1:]...),
					Fields: append(append([]*sch{}, s.Fields[:i]...), s.Fields[i+1:]...)})
			}
		}
		for i, f := range s.Fields {
			for _, e := range f.simpler() {
				fs := append([]*sch{}, s.Fields...)
				fs[i] = e
				out = append(out, &sch{Kind: 'O', Names: s.Names, Fields: fs})
			}
		}
	case 'P':
		if s.Width != 0 {
			out = append(out, &sch{Kind: 'P', Prim: s.Prim, Plain: s.Plain}) // the library's own layout
		}
		if s.Prim != "i3" || s.Plain {
			out = append(out, &sch{Kind: 'P', Prim: "i3"})
		}
	}
	return out
}

func runNestedCase(c *core.Ctx, nc *nestCase, bucket string) {
	if c.Probe(func() { checkNested(c, nc) }) {
		checkNested(c, shrinkNested(c, nc))
	}
	key, _ := json.Marshal(nc)
	c.Case(bucket, string(key), true)
}

// genNested: one random nested case.  Schemas are biased towards lists (the
// repetition levels of a shredded list are added to those of the enclosing
// repeated field) and arrays of two and more elements.
func (g *gen) nested(i int) *nestCase {
	r := g.c.Rng
	var s *sch
	switch r.Intn(10) {
	case 0:
		s = &sch{Kind: 'N'}
	case 1, 2, 3:
		s = &sch{Kind: 'L', Elem: g.schema(r.Intn(3))}
	default:
		s = g.schema(r.Intn(4))
	}
	nests := []string{"rep", "list", "repvar", "opt", "optrep"}
	nc := &nestCase{Mode: "nested", Schema: s.replayText(), Nest: nests[i%len(nests)], Optional: r.Intn(2) == 0, PageV: 1 + r.Intn(2),
		Write: []string{"typed", "raw", "raw"}[r.Intn(3)], Path: []string{"writer", "writer", "buffer", "rows", "rows"}[r.Intn(5)]}
	if nc.Nest == "repvar" {
		nc.Optional = false
	}
	if r.Intn(3) == 0 {
		nc.PageBuf = 64 + r.Intn(400)
	}
	nc.plus = g.plus(nc.Nest, false)
	item := func() string {
		if r.Intn(8) == 0 {
			return ""
		}
		return g.valueFor(s, 1+r.Intn(4), nc.Write == "typed").text()
	}
	for n := 1 + r.Intn(6); n > 0; n-- {
		row := nestRow{Items: []string{}}
		switch {
		case nc.Nest == "opt":
			if row.Absent = r.Intn(4) == 0; !row.Absent {
				row.Items = []string{item()}
			}
		case nc.Nest == "optrep" && r.Intn(5) == 0:
			row.Absent = true
		default:
			for k := r.Intn(4); k > 0; k-- {
				row.Items = append(row.Items, item())
			}
		}
		nc.Rows = append(nc.Rows, row)
	}
	if nc.Nest == "opt" {
		var items []string
		for _, row := range nc.Rows {
			items = append(items, row.Items...)
		}
		nc.Nav, nc.NavAll = g.navPaths(s, items), g.aux.Intn(3) == 0
	}
	return nc
}
