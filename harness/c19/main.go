// C19 — variant values survive encoding, and shredding never changes them.
//
// Part 1 (this section): variant value trees of the harness, their text form
// (the oracle syntax, see oracle/c19.ml), conversions to and from
// variant.Value and to the Go values of the typed API.
package main

import (
	"bytes"
	"encoding/binary"
	"encoding/hex"
	"encoding/json"
	"fmt"
	"io"
	"math"
	"math/big"
	"math/rand"
	"sort"
	"strings"
	"time"

	"github.com/google/uuid"
	"github.com/parquet-go/parquet-go"
	"github.com/parquet-go/parquet-go/variant"

	"verif/harness/core"
)

func main() { core.Main("C19", runC19, replayC19) }

// tree kinds (first character of the text form)
//
//	n t f  null, true, false
//	i      K = 0..9 int8 int16 int32 int64 date ts ts_ntz time ts_nanos ts_ntz_nanos, value I
//	r      K = 0 float 1 double, bits U
//	d      K = 0..2 decimal4/8/16, Scale, value I (decimal16: D = 16 bytes little endian)
//	b s u  binary, string, uuid: D
//	[ {    array (Elems), object (Names, Elems)
type tree struct {
	Kind  byte
	K     int
	I     int64
	U     uint64
	Scale byte
	D     []byte
	Names []string
	Elems []*tree
}

var intWidth = []int{1, 2, 4, 8, 4, 8, 8, 8, 8, 8}

func zhex(v int64) string { return core.Zs(v) }

func d16Big(le []byte) *big.Int {
	be := make([]byte, 16)
	for i := range le {
		be[15-i] = le[i]
	}
	z := new(big.Int).SetBytes(be)
	if be[0]&0x80 != 0 {
		z.Sub(z, new(big.Int).Lsh(big.NewInt(1), 128))
	}
	return z
}

func d16FromBig(z *big.Int) []byte {
	m := new(big.Int).Set(z)
	if m.Sign() < 0 {
		m.Add(m, new(big.Int).Lsh(big.NewInt(1), 128))
	}
	be := m.FillBytes(make([]byte, 16))
	le := make([]byte, 16)
	for i := range be {
		le[15-i] = be[i]
	}
	return le
}

func bigHex(z *big.Int) string {
	if z.Sign() < 0 {
		return "-" + new(big.Int).Neg(z).Text(16)
	}
	return z.Text(16)
}

func (t *tree) write(sb *strings.Builder, canon bool) {
	switch t.Kind {
	case 'n', 't', 'f':
		sb.WriteByte(t.Kind)
	case 'i':
		fmt.Fprintf(sb, "i%d:%s", t.K, zhex(t.I))
	case 'r':
		fmt.Fprintf(sb, "r%d:%x", t.K, t.U)
	case 'd':
		if t.K == 2 {
			fmt.Fprintf(sb, "d2:%x:%s", t.Scale, bigHex(d16Big(t.D)))
		} else {
			fmt.Fprintf(sb, "d%d:%x:%s", t.K, t.Scale, zhex(t.I))
		}
	case 'b', 's', 'u':
		sb.WriteByte(t.Kind)
		sb.WriteString(hex.EncodeToString(t.D))
	case '[':
		sb.WriteByte('[')
		for i, e := range t.Elems {
			if i > 0 {
				sb.WriteByte(',')
			}
			e.write(sb, canon)
		}
		sb.WriteByte(']')
	case '{':
		idx := make([]int, len(t.Elems))
		for i := range idx {
			idx[i] = i
		}
		if canon {
			sort.SliceStable(idx, func(a, b int) bool { return t.Names[idx[a]] < t.Names[idx[b]] })
		}
		sb.WriteByte('{')
		for n, i := range idx {
			if n > 0 {
				sb.WriteByte(',')
			}
			sb.WriteString(hex.EncodeToString([]byte(t.Names[i])))
			sb.WriteByte('=')
			t.Elems[i].write(sb, canon)
		}
		sb.WriteByte('}')
	default:
		panic("tree kind")
	}
}

// text is the oracle syntax, fields in construction order.
func (t *tree) text() string { var sb strings.Builder; t.write(&sb, false); return sb.String() }

// canonText lists object fields in name order at every level: two trees are
// equal as variant values (objects are unordered) iff their canonText agree.
func (t *tree) canonText() string { var sb strings.Builder; t.write(&sb, true); return sb.String() }

// canon returns the tree with every object's fields in name order.
func (t *tree) canon() *tree {
	c := *t
	if t.Kind == '[' || t.Kind == '{' {
		c.Elems = make([]*tree, len(t.Elems))
		for i, e := range t.Elems {
			c.Elems[i] = e.canon()
		}
	}
	if t.Kind == '{' {
		idx := make([]int, len(t.Elems))
		for i := range idx {
			idx[i] = i
		}
		sort.SliceStable(idx, func(a, b int) bool { return t.Names[idx[a]] < t.Names[idx[b]] })
		names := make([]string, len(idx))
		elems := make([]*tree, len(idx))
		for n, i := range idx {
			names[n], elems[n] = t.Names[i], c.Elems[i]
		}
		c.Names, c.Elems = names, elems
	}
	return &c
}

type parser struct {
	s string
	p int
}

func (p *parser) peek() byte {
	if p.p < len(p.s) {
		return p.s[p.p]
	}
	return 0
}
func (p *parser) expect(c byte) {
	if p.peek() != c {
		panic(fmt.Sprintf("parse: expected %c at %d", c, p.p))
	}
	p.p++
}
func isHex(c byte) bool { return c >= '0' && c <= '9' || c >= 'a' && c <= 'f' }
func (p *parser) hexrun() string {
	b := p.p
	for isHex(p.peek()) {
		p.p++
	}
	return p.s[b:p.p]
}
func (p *parser) big() *big.Int {
	neg := p.peek() == '-'
	if neg {
		p.p++
	}
	z, ok := new(big.Int).SetString("0"+p.hexrun(), 16)
	if !ok {
		panic("parse: number")
	}
	if neg {
		z.Neg(z)
	}
	return z
}
func (p *parser) bytes() []byte {
	b, err := hex.DecodeString(p.hexrun())
	if err != nil {
		panic("parse: hex")
	}
	return b
}

func (p *parser) tree() *tree {
	c := p.peek()
	p.p++
	switch c {
	case 'n', 't', 'f':
		return &tree{Kind: c}
	case 'i':
		k := int(p.peek() - '0')
		p.p++
		p.expect(':')
		return &tree{Kind: 'i', K: k, I: p.big().Int64()}
	case 'r':
		k := int(p.peek() - '0')
		p.p++
		p.expect(':')
		return &tree{Kind: 'r', K: k, U: p.big().Uint64()}
	case 'd':
		k := int(p.peek() - '0')
		p.p++
		p.expect(':')
		sc := byte(p.big().Uint64())
		p.expect(':')
		z := p.big()
		if k == 2 {
			return &tree{Kind: 'd', K: 2, Scale: sc, D: d16FromBig(z)}
		}
		return &tree{Kind: 'd', K: k, Scale: sc, I: z.Int64()}
	case 'b', 's', 'u':
		return &tree{Kind: c, D: p.bytes()}
	case '[':
		t := &tree{Kind: '['}
		for p.peek() != ']' {
			t.Elems = append(t.Elems, p.tree())
			if p.peek() == ',' {
				p.p++
			}
		}
		p.p++
		return t
	case '{':
		t := &tree{Kind: '{'}
		for p.peek() != '}' {
			name := string(p.bytes())
			p.expect('=')
			t.Names = append(t.Names, name)
			t.Elems = append(t.Elems, p.tree())
			if p.peek() == ',' {
				p.p++
			}
		}
		p.p++
		return t
	}
	panic(fmt.Sprintf("parse: unexpected %q at %d", c, p.p-1))
}

func parseTree(s string) (t *tree, err error) {
	defer func() {
		if r := recover(); r != nil {
			err = fmt.Errorf("%v", r)
		}
	}()
	p := &parser{s: s}
	t = p.tree()
	if p.p != len(s) {
		return nil, fmt.Errorf("parse: trailing input at %d", p.p)
	}
	return t, nil
}

// toValue builds the variant.Value of the public API.
func (t *tree) toValue() variant.Value {
	switch t.Kind {
	case 'n':
		return variant.Null()
	case 't':
		return variant.Bool(true)
	case 'f':
		return variant.Bool(false)
	case 'i':
		switch t.K {
		case 0:
			return variant.Int8(int8(t.I))
		case 1:
			return variant.Int16(int16(t.I))
		case 2:
			return variant.Int32(int32(t.I))
		case 3:
			return variant.Int64(t.I)
		case 4:
			return variant.Date(int32(t.I))
		case 5:
			return variant.Timestamp(t.I)
		case 6:
			return variant.TimestampNTZ(t.I)
		case 7:
			return variant.Time(t.I)
		case 8:
			return variant.TimestampNanos(t.I)
		default:
			return variant.TimestampNTZNanos(t.I)
		}
	case 'r':
		if t.K == 0 {
			return variant.Float(math.Float32frombits(uint32(t.U)))
		}
		return variant.Double(math.Float64frombits(t.U))
	case 'd':
		switch t.K {
		case 0:
			return variant.Decimal4(int32(t.I), t.Scale)
		case 1:
			return variant.Decimal8(t.I, t.Scale)
		default:
			var d [16]byte
			copy(d[:], t.D)
			return variant.Decimal16(d, t.Scale)
		}
	case 'b':
		return variant.Binary(append([]byte{}, t.D...))
	case 's':
		return variant.String(string(t.D))
	case 'u':
		var u uuid.UUID
		copy(u[:], t.D)
		return variant.UUID(u)
	case '[':
		es := make([]variant.Value, len(t.Elems))
		for i, e := range t.Elems {
			es[i] = e.toValue()
		}
		return variant.MakeArray(es)
	default:
		fs := make([]variant.Field, len(t.Elems))
		for i, e := range t.Elems {
			fs[i] = variant.Field{Name: t.Names[i], Value: e.toValue()}
		}
		return variant.MakeObject(fs)
	}
}

var primToIntKind = map[variant.PrimitiveType]int{
	variant.PrimitiveInt8: 0, variant.PrimitiveInt16: 1, variant.PrimitiveInt32: 2, variant.PrimitiveInt64: 3,
	variant.PrimitiveDate: 4, variant.PrimitiveTimestamp: 5, variant.PrimitiveTimestampNTZ: 6, variant.PrimitiveTime: 7,
	variant.PrimitiveTimestampNanos: 8, variant.PrimitiveTimestampNTZNanos: 9,
}

// fromValue reads a variant.Value back into a tree through its accessors.
func fromValue(v variant.Value) *tree {
	switch v.Basic() {
	case variant.BasicObject:
		t := &tree{Kind: '{'}
		for _, f := range v.ObjectValue().Fields {
			t.Names = append(t.Names, f.Name)
			t.Elems = append(t.Elems, fromValue(f.Value))
		}
		return t
	case variant.BasicArray:
		t := &tree{Kind: '['}
		for _, e := range v.ArrayValue().Elements {
			t.Elems = append(t.Elems, fromValue(e))
		}
		return t
	case variant.BasicShortString:
		return &tree{Kind: 's', D: []byte(v.Str())}
	}
	switch p := v.Type(); p {
	case variant.PrimitiveNull:
		return &tree{Kind: 'n'}
	case variant.PrimitiveTrue:
		return &tree{Kind: 't'}
	case variant.PrimitiveFalse:
		return &tree{Kind: 'f'}
	case variant.PrimitiveFloat:
		return &tree{Kind: 'r', K: 0, U: uint64(math.Float32bits(float32(v.FloatValue())))}
	case variant.PrimitiveDouble:
		return &tree{Kind: 'r', K: 1, U: math.Float64bits(v.FloatValue())}
	case variant.PrimitiveDecimal4:
		return &tree{Kind: 'd', K: 0, Scale: v.Scale(), I: v.Int()}
	case variant.PrimitiveDecimal8:
		return &tree{Kind: 'd', K: 1, Scale: v.Scale(), I: v.Int()}
	case variant.PrimitiveDecimal16:
		d := v.Decimal16Value()
		return &tree{Kind: 'd', K: 2, Scale: v.Scale(), D: append([]byte{}, d[:]...)}
	case variant.PrimitiveBinary:
		return &tree{Kind: 'b', D: append([]byte{}, v.Bytes()...)}
	case variant.PrimitiveString:
		return &tree{Kind: 's', D: []byte(v.Str())}
	case variant.PrimitiveUUID:
		u := v.UUIDValue()
		return &tree{Kind: 'u', D: append([]byte{}, u[:]...)}
	default:
		if k, ok := primToIntKind[p]; ok {
			return &tree{Kind: 'i', K: k, I: v.Int()}
		}
		return &tree{Kind: '?'}
	}
}

// goAny is the Go value that the typed API exchanges for the tree
// (variant.Value.GoValue: date -> int32, time / *_ntz -> int64, decimal4/8 ->
// int32/int64 unscaled, decimal16 -> [16]byte, ts -> time.Time UTC).
func (t *tree) goAny() any {
	switch t.Kind {
	case 'n':
		return nil
	case 't':
		return true
	case 'f':
		return false
	case 'i':
		switch t.K {
		case 0:
			return int8(t.I)
		case 1:
			return int16(t.I)
		case 2, 4:
			return int32(t.I)
		case 5:
			return time.UnixMicro(t.I).UTC()
		case 8:
			return time.Unix(0, t.I).UTC()
		default:
			return t.I
		}
	case 'r':
		if t.K == 0 {
			return math.Float32frombits(uint32(t.U))
		}
		return math.Float64frombits(t.U)
	case 'd':
		switch t.K {
		case 0:
			return int32(t.I)
		case 1:
			return t.I
		default:
			var d [16]byte
			copy(d[:], t.D)
			return d
		}
	case 'b':
		return append([]byte{}, t.D...)
	case 's':
		return string(t.D)
	case 'u':
		var u uuid.UUID
		copy(u[:], t.D)
		return u
	case '[':
		a := make([]any, len(t.Elems))
		for i, e := range t.Elems {
			a[i] = e.goAny()
		}
		return a
	default:
		m := make(map[string]any, len(t.Elems))
		for i, e := range t.Elems {
			m[t.Names[i]] = e.goAny()
		}
		return m
	}
}

// anyText renders a Go value of the typed API canonically, with its dynamic
// type, floats by bits, map keys in order.
func anyText(x any) string {
	var sb strings.Builder
	writeAny(&sb, x)
	return sb.String()
}

func writeAny(sb *strings.Builder, x any) {
	switch v := x.(type) {
	case nil:
		sb.WriteString("nil")
	case bool:
		fmt.Fprintf(sb, "bool:%v", v)
	case int8:
		fmt.Fprintf(sb, "int8:%d", v)
	case int16:
		fmt.Fprintf(sb, "int16:%d", v)
	case int32:
		fmt.Fprintf(sb, "int32:%d", v)
	case int64:
		fmt.Fprintf(sb, "int64:%d", v)
	case float32:
		fmt.Fprintf(sb, "float32:%08x", math.Float32bits(v))
	case float64:
		fmt.Fprintf(sb, "float64:%016x", math.Float64bits(v))
	case string:
		fmt.Fprintf(sb, "string:%x", v)
	case []byte:
		fmt.Fprintf(sb, "bytes:%x", v)
	case [16]byte:
		fmt.Fprintf(sb, "byte16:%x", v[:])
	case uuid.UUID:
		fmt.Fprintf(sb, "uuid:%x", v[:])
	case time.Time:
		fmt.Fprintf(sb, "time:%d.%09d:%s", v.Unix(), v.Nanosecond(), v.Location())
	case []any:
		sb.WriteByte('[')
		for i, e := range v {
			if i > 0 {
				sb.WriteByte(',')
			}
			writeAny(sb, e)
		}
		sb.WriteByte(']')
	case map[string]any:
		keys := make([]string, 0, len(v))
		for k := range v {
			keys = append(keys, k)
		}
		sort.Strings(keys)
		sb.WriteByte('{')
		for i, k := range keys {
			if i > 0 {
				sb.WriteByte(',')
			}
			fmt.Fprintf(sb, "%x=", k)
			writeAny(sb, v[k])
		}
		sb.WriteByte('}')
	default:
		fmt.Fprintf(sb, "?%T:%v", x, x)
	}
}

// native tells whether the typed API can write the tree without changing its
// variant type (only Go-native kinds; nanosecond timestamps only when
// timeToVariant keeps nanoseconds).
func (t *tree) native() bool {
	switch t.Kind {
	case 'd':
		return false
	case 'i':
		switch t.K {
		case 0, 1, 2, 3, 5:
			return true
		case 8:
			tm := time.Unix(0, t.I).UTC()
			return t.I%1000 != 0 && tm.Year() >= 1678 && tm.Year() <= 2261
		}
		return false
	case '[', '{':
		for _, e := range t.Elems {
			if !e.native() {
				return false
			}
		}
	}
	return true
}

// maxFields is the largest number of fields of an object of the tree.
func (t *tree) maxFields() int {
	m := 0
	if t.Kind == '{' {
		m = len(t.Elems)
	}
	for _, e := range t.Elems {
		if k := e.maxFields(); k > m {
			m = k
		}
	}
	return m
}

func (t *tree) size() int {
	n := 1
	for _, e := range t.Elems {
		n += e.size()
	}
	return n
}

// wellFormed: names distinct in every object (what the property quantifies over).
func (t *tree) wellFormed() bool {
	if t.Kind == '{' {
		seen := map[string]bool{}
		for _, n := range t.Names {
			if seen[n] {
				return false
			}
			seen[n] = true
		}
	}
	for _, e := range t.Elems {
		if !e.wellFormed() {
			return false
		}
	}
	return true
}

var (
	_ = bytes.NewReader
	_ = binary.LittleEndian
	_ = json.Marshal
	_ = io.EOF
	_ parquet.Node
)

// ---------------------------------------------------------------------------
// Part 2: generators

type gen struct {
	c     *core.Ctx
	names []string // name pool shared with the shredding schemas
	// aux: a second stream derived from the same seed, for the dimensions of
	// navigate.go and arena.go (the cases of the other parts stay what they were)
	aux *rand.Rand
}

var unicodeBits = []string{"é", "ß", "λ", "Ж", "中", "日本", "😀", "\u0000", "~", " ", "a", "Z", "0", "_", "-"}

func (g *gen) str(n int) []byte {
	// valid UTF-8 of exactly n bytes
	var b []byte
	for len(b) < n {
		s := unicodeBits[g.c.Rng.Intn(len(unicodeBits))]
		if g.c.Rng.Intn(3) > 0 {
			s = string(rune('a' + g.c.Rng.Intn(26)))
		}
		if len(b)+len(s) <= n {
			b = append(b, s...)
		}
	}
	return b
}

var strLens = []int{0, 1, 2, 5, 62, 63, 64, 65, 80}

func (g *gen) name() string {
	r := g.c.Rng
	switch r.Intn(10) {
	case 0, 1, 2, 3, 4:
		return g.names[r.Intn(len(g.names))]
	case 5:
		return ""
	case 6:
		return string(g.str(1 + r.Intn(70)))
	default:
		return string(g.str(1 + r.Intn(4)))
	}
}

var edge64 = []int64{0, 1, -1, 127, -128, 128, 255, 256, 32767, -32768, 65535, 1 << 31, -1 << 31, 1<<31 - 1, math.MaxInt64, math.MinInt64, 999999999, -999999999, 1000000000, 999999999999999999, 1000000000000000000}

func (g *gen) int64v(width int) int64 {
	r := g.c.Rng
	var v int64
	if r.Intn(2) == 0 {
		v = edge64[r.Intn(len(edge64))]
	} else {
		v = int64(r.Uint64()) >> uint(r.Intn(64))
	}
	switch width {
	case 1:
		return int64(int8(v))
	case 2:
		return int64(int16(v))
	case 4:
		return int64(int32(v))
	}
	return v
}

var f32bits = []uint32{0, 0x80000000, 0x7f800000, 0xff800000, 0x7fc00000, 0x7fc00001, 0xffc12345, 1, 0x807fffff, 0x3f800000, 0x7f7fffff}
var f64bits = []uint64{0, 1 << 63, 0x7ff0000000000000, 0xfff0000000000000, 0x7ff8000000000000, 0x7ff0000000000001, 0xfff8000000000123, 1, 0x3ff0000000000000, 0x7fefffffffffffff}

func (g *gen) prim() *tree {
	r := g.c.Rng
	switch r.Intn(13) {
	case 0:
		return &tree{Kind: 'n'}
	case 1:
		return &tree{Kind: "tf"[r.Intn(2)]}
	case 2, 3, 4:
		k := r.Intn(10)
		return &tree{Kind: 'i', K: k, I: g.int64v(intWidth[k])}
	case 5:
		// float32: signalling NaNs are excluded (variant.Value keeps float32 as
		// float64, the conversion quiets them; reported separately)
		var u uint32
		if r.Intn(2) == 0 {
			u = f32bits[r.Intn(len(f32bits))]
		} else {
			u = r.Uint32()
		}
		if u&0x7f800000 == 0x7f800000 && u&0x007fffff != 0 {
			u |= 0x00400000
		}
		return &tree{Kind: 'r', K: 0, U: uint64(u)}
	case 6:
		if r.Intn(2) == 0 {
			return &tree{Kind: 'r', K: 1, U: f64bits[r.Intn(len(f64bits))]}
		}
		return &tree{Kind: 'r', K: 1, U: r.Uint64()}
	case 7:
		k := r.Intn(3)
		sc := byte([]int{0, 2, 2, 2, 3, 9, 38, 255}[r.Intn(8)])
		if k == 2 {
			d := make([]byte, 16)
			switch r.Intn(4) {
			case 0:
				r.Read(d)
			case 1:
				binary.LittleEndian.PutUint64(d, uint64(g.int64v(8)))
				if d[7]&0x80 != 0 {
					for i := 8; i < 16; i++ {
						d[i] = 0xff
					}
				}
			case 2:
				// +-(10^38 - 1), 10^38
				z := new(big.Int).Exp(big.NewInt(10), big.NewInt(38), nil)
				if r.Intn(2) == 0 {
					z.Sub(z, big.NewInt(1))
				}
				if r.Intn(2) == 0 {
					z.Neg(z)
				}
				d = d16FromBig(z)
			default:
				d[15] = 0x80 // minimum
			}
			return &tree{Kind: 'd', K: 2, Scale: sc, D: d}
		}
		return &tree{Kind: 'd', K: k, Scale: sc, I: g.int64v([]int{4, 8}[k])}
	case 8:
		d := make([]byte, []int{0, 1, 16, 20, 63, 64, 100}[r.Intn(7)])
		r.Read(d)
		return &tree{Kind: 'b', D: d}
	case 9, 10, 11:
		n := strLens[r.Intn(len(strLens))]
		if r.Intn(3) == 0 {
			n = r.Intn(90)
		}
		return &tree{Kind: 's', D: g.str(n)}
	default:
		d := make([]byte, 16)
		r.Read(d)
		return &tree{Kind: 'u', D: d}
	}
}

// nativePrim: kinds the typed API writes without changing their type.
func (g *gen) nativePrim() *tree {
	for {
		if t := g.prim(); t.native() {
			return t
		}
	}
}

func (g *gen) tree(depth int, native bool) *tree {
	r := g.c.Rng
	if depth > 0 && r.Intn(5) < 2 {
		if r.Intn(2) == 0 {
			t := &tree{Kind: '['}
			n := []int{0, 1, 2, 3, 4, 6}[r.Intn(6)]
			for i := 0; i < n; i++ {
				t.Elems = append(t.Elems, g.tree(depth-1, native))
			}
			return t
		}
		t := &tree{Kind: '{'}
		n := []int{0, 1, 2, 3, 4, 7}[r.Intn(6)]
		seen := map[string]bool{}
		for i := 0; i < n; i++ {
			nm := g.name()
			if seen[nm] {
				continue
			}
			seen[nm] = true
			t.Names = append(t.Names, nm)
			t.Elems = append(t.Elems, g.tree(depth-1, native))
		}
		return t
	}
	if native {
		return g.nativePrim()
	}
	return g.prim()
}

func keyName(i int) string { return fmt.Sprintf("k%03d", i) }

// boundary trees: element counts 0,1,255,256 and payload sizes 255,256,65535,65536
// (the 1/2/3-byte offset thresholds and is_large), wide dictionaries.
func (g *gen) boundaries() []*tree {
	var out []*tree
	small := func(i int) *tree {
		switch i % 3 {
		case 0:
			return &tree{Kind: 'i', K: 0, I: int64(int8(i))}
		case 1:
			return &tree{Kind: 'n'}
		}
		return &tree{Kind: 's', D: []byte{byte('a' + i%26)}}
	}
	// payload of the container = target bytes exactly, with 1..3 elements
	for _, target := range []int{254, 255, 256, 257, 65534, 65535, 65536, 65537} {
		for variantNo := 0; variantNo < 3; variantNo++ {
			var elems []*tree
			rest := target
			if variantNo >= 1 {
				elems = append(elems, &tree{Kind: 'i', K: 0, I: 5}) // 2 bytes
				rest -= 2
			}
			if variantNo == 2 {
				elems = append(elems, &tree{Kind: 's', D: g.str(10)}) // 11 bytes
				rest -= 11
			}
			// a binary of length L encodes to 5+L bytes
			d := make([]byte, rest-5)
			g.c.Rng.Read(d)
			elems = append(elems, &tree{Kind: 'b', D: d})
			a := &tree{Kind: '[', Elems: elems}
			o := &tree{Kind: '{'}
			for i, e := range elems {
				o.Names = append(o.Names, []string{"z", "m", "a"}[i])
				o.Elems = append(o.Elems, e)
			}
			out = append(out, a, o, &tree{Kind: '[', Elems: []*tree{o, a}})
		}
	}
	for _, n := range []int{0, 1, 2, 254, 255, 256, 257} {
		a := &tree{Kind: '['}
		o := &tree{Kind: '{'}
		for i := 0; i < n; i++ {
			a.Elems = append(a.Elems, small(i))
			o.Names = append(o.Names, keyName((i*7)%n)) // unsorted insertion order, distinct (7 coprime to n unless n%7==0)
			o.Elems = append(o.Elems, small(i))
		}
		if !o.wellFormed() {
			for i := range o.Names {
				o.Names[i] = keyName(n - 1 - i)
			}
		}
		out = append(out, a, o)
	}
	// strings around the short-string limit, alone and as elements
	for _, n := range []int{0, 1, 62, 63, 64, 65, 127, 128, 255, 256} {
		s := &tree{Kind: 's', D: g.str(n)}
		out = append(out, s, &tree{Kind: '[', Elems: []*tree{s, s}}, &tree{Kind: '{', Names: []string{string(g.str(n))}, Elems: []*tree{s}})
	}
	// dictionary wider than 255 entries, then small objects using high ids:
	// field_id_size 2 with offset_size 1
	for _, n := range []int{255, 256, 257, 300} {
		wide := &tree{Kind: '{'}
		for i := 0; i < n; i++ {
			wide.Names = append(wide.Names, keyName(i))
			wide.Elems = append(wide.Elems, &tree{Kind: 'n'})
		}
		smallObj := &tree{Kind: '{', Names: []string{keyName(n - 1)}, Elems: []*tree{{Kind: 't'}}}
		two := &tree{Kind: '{', Names: []string{keyName(n - 1), keyName(0)}, Elems: []*tree{{Kind: 't'}, {Kind: 'i', K: 1, I: 300}}}
		out = append(out, &tree{Kind: '[', Elems: []*tree{wide, smallObj, two}})
	}
	// dictionary string bytes crossing 255/256 and 65535/65536 (metadata offset size)
	for _, total := range []int{254, 255, 256, 257, 65535, 65536} {
		o := &tree{Kind: '{'}
		left := total
		for i := 0; left > 0; i++ {
			n := 200
			if total > 1000 {
				n = 8000
			}
			if n > left {
				n = left
			}
			nm := []byte(fmt.Sprintf("%04d", i))
			for len(nm) < n {
				nm = append(nm, 'x')
			}
			nm = nm[:n]
			if n < 4 {
				nm = []byte("~~~~")[:n]
			}
			o.Names = append(o.Names, string(nm))
			o.Elems = append(o.Elems, &tree{Kind: 'n'})
			left -= n
		}
		if o.wellFormed() {
			out = append(out, o)
		}
	}
	// sorted / unsorted dictionaries through nesting order
	mk := func(names ...string) *tree {
		o := &tree{Kind: '{'}
		for _, n := range names {
			o.Names = append(o.Names, n)
			o.Elems = append(o.Elems, &tree{Kind: 'n'})
		}
		return o
	}
	out = append(out, mk("a", "b", "c"), mk("c", "b", "a"), mk("a", "ab", "b"), mk("b", "a"), mk("", "a"), mk("a", ""),
		&tree{Kind: '{', Names: []string{"a", "c"}, Elems: []*tree{mk("b"), mk("d", "a")}},
		&tree{Kind: '[', Elems: []*tree{mk("a", "b"), mk("b", "a"), mk("é", "z", "中")}})
	// depth 5 nest
	deep := &tree{Kind: 'i', K: 2, I: 7}
	for i := 0; i < 5; i++ {
		if i%2 == 0 {
			deep = &tree{Kind: '[', Elems: []*tree{deep, {Kind: 'n'}}}
		} else {
			deep = &tree{Kind: '{', Names: []string{"x", "a"}, Elems: []*tree{deep, {Kind: 's', D: []byte("v")}}}
		}
	}
	out = append(out, deep)
	return out
}

// ---------------------------------------------------------------------------
// Part 3: Encode / Decode / Marshal / Unmarshal against the tree and the model

type encReplay struct {
	Mode string `json:"mode"` // "encode"
	Tree string `json:"tree"`
}

func goEncode(t *tree) (meta, val []byte, err error) {
	defer func() {
		if r := recover(); r != nil {
			err = fmt.Errorf("panic: %v", r)
		}
	}()
	var b variant.MetadataBuilder
	val = variant.Encode(&b, t.toValue())
	_, meta = b.Build()
	if val == nil {
		err = fmt.Errorf("Encode returned nil")
	}
	return
}

func goDecode(meta, val []byte) (t *tree, err error) {
	defer func() {
		if r := recover(); r != nil {
			err = fmt.Errorf("panic: %v", r)
		}
	}()
	m, err := variant.DecodeMetadata(meta)
	if err != nil {
		return nil, err
	}
	v, err := variant.Decode(m, val)
	if err != nil {
		return nil, err
	}
	return fromValue(v), nil
}

// checkEncode runs one tree through Encode/Decode (and Marshal/Unmarshal when
// the tree is native) and the model.  Reports through c; returns nothing:
// callers use c.Probe to learn whether it failed.
func checkEncode(c *core.Ctx, t *tree) {
	rp := encReplay{Mode: "encode", Tree: t.text()}
	want := t.canonText()
	meta, val, err := goEncode(t)
	if err != nil {
		c.Violation("encode-error", "variant.Encode failed on a well-formed value: "+err.Error(), rp)
		return
	}
	ok := true
	// predicate: Decode(Encode(v)) == v
	got, err := goDecode(meta, val)
	switch {
	case err != nil:
		c.Violation("decode-of-encode-error", "variant.Decode rejects the bytes variant.Encode produced: "+err.Error(), rp)
		ok = false
	case got.canonText() != want:
		c.Violation("decode-of-encode-differs", "Decode(Encode(v)) != v: got "+core.Trunc(got.canonText(), 300)+" want "+core.Trunc(want, 300), rp)
		ok = false
	}
	// model bytes == Go bytes (asked only when the predicate held: a failure is
	// already reported, and the shrinker probes this function many times)
	if c.HasOracle() && ok {
		ans := c.Ask("c19.encode " + t.text())
		impl := core.Hexs(meta) + " " + core.Hexs(val)
		if ans != impl {
			// is the difference visible to an independent reader? the model decoder on Go's bytes
			back := c.Ask("c19.decode " + core.Hexs(meta) + " " + core.Hexs(val))
			if back != want && ok {
				c.Violation("encode-bytes-not-decodable-by-spec", "a decoder written from the specification does not read the value back from Encode's bytes: got "+core.Trunc(back, 300)+" want "+core.Trunc(want, 300), rp)
				ok = false
			}
			if ok {
				c.Mismatch("corr:C19.encode", "c19.encode "+t.text(), impl, ans, rp)
			}
			ok = false
		} else {
			back := c.Ask("c19.decode " + core.Hexs(meta) + " " + core.Hexs(val))
			if back != want {
				c.Mismatch("corr:C19.decode", "c19.decode of Encode's bytes", want, back, rp)
				ok = false
			}
		}
	}
	if !ok {
		return
	}
	// the streaming encoder (variant.Builder) on the same value
	if !checkBuilder(c, t, meta, val, rp) {
		return
	}
	// Marshal / Unmarshal of the Go value
	if t.native() {
		func() {
			defer func() {
				if r := recover(); r != nil {
					c.Violation("marshal-panic", fmt.Sprint(r), rp)
				}
			}()
			x := t.goAny()
			m2, v2, err := variant.Marshal(x)
			if err != nil {
				c.Violation("marshal-error", err.Error(), rp)
				return
			}
			y, err := variant.Unmarshal(m2, v2)
			if err != nil {
				c.Violation("unmarshal-of-marshal-error", err.Error(), rp)
				return
			}
			if anyText(y) != anyText(x) {
				c.Violation("unmarshal-of-marshal-differs", "Unmarshal(Marshal(x)) != x: got "+core.Trunc(anyText(y), 300)+" want "+core.Trunc(anyText(x), 300), rp)
				return
			}
			if t.maxFields() <= 1 && (!bytes.Equal(m2, meta) || !bytes.Equal(v2, val)) {
				c.Violation("marshal-encode-bytes-differ", "Marshal and Encode produce different bytes for the same value", rp)
				return
			}
			if c.HasOracle() {
				back := c.Ask("c19.decode " + core.Hexs(m2) + " " + core.Hexs(v2))
				if back != want {
					c.Mismatch("corr:C19.decode-marshal", "c19.decode of Marshal's bytes", want, back, rp)
				}
			}
		}()
	}
}

// ---- conforming non-canonical encodings (for the decoders) ----

func putUint(b []byte, v, size int) []byte {
	for i := 0; i < size; i++ {
		b = append(b, byte(v>>(8*i)))
	}
	return b
}

func minSize(v int) int {
	switch {
	case v <= 0xff:
		return 1
	case v <= 0xffff:
		return 2
	case v <= 0xffffff:
		return 3
	}
	return 4
}

type altEnc struct {
	rng  *rand.Rand
	dict map[string]int
}

func (a *altEnc) pick(min int) int { return min + a.rng.Intn(5-min) }

func (a *altEnc) value(t *tree) []byte {
	r := a.rng
	switch t.Kind {
	case 's':
		if len(t.D) <= 63 && r.Intn(2) == 0 {
			// long form of a short string
			b := []byte{16 << 2}
			b = putUint(b, len(t.D), 4)
			return append(b, t.D...)
		}
	case '[':
		var encs [][]byte
		total := 0
		for _, e := range t.Elems {
			x := a.value(e)
			encs = append(encs, x)
			total += len(x)
		}
		osz := a.pick(minSize(total))
		large := len(encs) > 255 || r.Intn(3) == 0
		h := byte(3) | byte(osz-1)<<2
		var b []byte
		if large {
			b = putUint(append(b, h|1<<4), len(encs), 4)
		} else {
			b = append(b, h, byte(len(encs)))
		}
		off := 0
		for _, x := range encs {
			b = putUint(b, off, osz)
			off += len(x)
		}
		b = putUint(b, off, osz)
		for _, x := range encs {
			b = append(b, x...)
		}
		return b
	case '{':
		n := len(t.Elems)
		idx := make([]int, n)
		for i := range idx {
			idx[i] = i
		}
		sort.Slice(idx, func(x, y int) bool { return t.Names[idx[x]] < t.Names[idx[y]] })
		encs := make([][]byte, n) // by sorted position
		total, maxID := 0, 0
		for p, i := range idx {
			encs[p] = a.value(t.Elems[i])
			total += len(encs[p])
			if id := a.dict[t.Names[i]]; id > maxID {
				maxID = id
			}
		}
		// values stored in a random order: offsets need not be monotonic
		order := r.Perm(n)
		offs := make([]int, n)
		off := 0
		for _, p := range order {
			offs[p] = off
			off += len(encs[p])
		}
		osz := a.pick(minSize(total))
		fsz := a.pick(minSize(maxID))
		large := n > 255 || r.Intn(3) == 0
		h := byte(2) | byte(osz-1)<<2 | byte(fsz-1)<<4
		var b []byte
		if large {
			b = putUint(append(b, h|1<<6), n, 4)
		} else {
			b = append(b, h, byte(n))
		}
		for _, i := range idx {
			b = putUint(b, a.dict[t.Names[i]], fsz)
		}
		for p := range idx {
			b = putUint(b, offs[p], osz)
		}
		b = putUint(b, total, osz)
		for _, p := range order {
			b = append(b, encs[p]...)
		}
		return b
	}
	_, val, err := goEncode(t)
	if err != nil {
		panic(err)
	}
	return val
}

func collectNames(t *tree, set map[string]bool) {
	for _, n := range t.Names {
		set[n] = true
	}
	for _, e := range t.Elems {
		collectNames(e, set)
	}
}

// altEncode: a random conforming encoding of t: dictionary in a random order
// with unused entries, wider offsets, is_large, long-form strings, shuffled
// object values.
func altEncode(seed int64, t *tree) (meta, val []byte) {
	rng := rand.New(rand.NewSource(seed))
	set := map[string]bool{}
	collectNames(t, set)
	if rng.Intn(2) == 0 {
		set["unused-"+fmt.Sprint(rng.Intn(100))] = true
	}
	names := make([]string, 0, len(set))
	for n := range set {
		names = append(names, n)
	}
	sort.Strings(names)
	sorted := rng.Intn(2) == 0
	if !sorted {
		rng.Shuffle(len(names), func(i, j int) { names[i], names[j] = names[j], names[i] })
	}
	isSorted := sort.StringsAreSorted(names)
	a := &altEnc{rng: rng, dict: map[string]int{}}
	total := 0
	for i, n := range names {
		a.dict[n] = i
		total += len(n)
	}
	m := total
	if len(names) > m {
		m = len(names)
	}
	osz := a.pick(minSize(m))
	h := byte(1) | byte(osz-1)<<6
	if isSorted && rng.Intn(2) == 0 {
		h |= 1 << 4 // the flag may be left unset on a sorted dictionary
	}
	meta = putUint([]byte{h}, len(names), osz)
	off := 0
	for _, n := range names {
		meta = putUint(meta, off, osz)
		off += len(n)
	}
	meta = putUint(meta, off, osz)
	for _, n := range names {
		meta = append(meta, n...)
	}
	return meta, a.value(t)
}

func checkAltDecode(c *core.Ctx, t *tree, seed int64) {
	var meta, val []byte
	func() {
		defer func() { recover() }()
		meta, val = altEncode(seed, t)
	}()
	if val == nil {
		return
	}
	rp := map[string]any{"mode": "decode", "tree": t.text(), "meta": hex.EncodeToString(meta), "value": hex.EncodeToString(val)}
	want := t.canonText()
	got, err := goDecode(meta, val)
	if err != nil {
		c.Violation("decode-rejects-conforming", "variant.Decode rejects a conforming encoding: "+err.Error(), rp)
		return
	}
	if got.canonText() != want {
		c.Violation("decode-conforming-differs", "variant.Decode of a conforming encoding: got "+core.Trunc(got.canonText(), 300)+" want "+core.Trunc(want, 300), rp)
		return
	}
	if c.HasOracle() {
		back := c.Ask("c19.decode " + core.Hexs(meta) + " " + core.Hexs(val))
		if back != want {
			c.Mismatch("corr:C19.decode-conforming", "c19.decode of a conforming non-canonical encoding", want, back, rp)
		}
	}
}

// ---- shrinking ----

// shrinkTree minimises a tree for which fails holds: hoist a child, drop
// elements / fields (halves first), replace subtrees by null, shorten strings.
func shrinkTree(t *tree, fails func(*tree) bool) *tree {
	cur := t
	budget := 600
	try := func(cand *tree) bool {
		if budget <= 0 {
			return false
		}
		budget--
		if cand.wellFormed() && fails(cand) {
			cur = cand
			return true
		}
		return false
	}
	for changed := true; changed && budget > 0; {
		changed = false
		// hoist a child
		for _, e := range cur.Elems {
			if try(e) {
				changed = true
				break
			}
		}
		if changed {
			continue
		}
		if cur.Kind != 'n' && len(cur.Elems) == 0 && try(&tree{Kind: 'n'}) {
			changed = true
			continue
		}
		// drop chunks of children
		n := len(cur.Elems)
		for chunk := n / 2; chunk >= 1 && !changed; chunk /= 2 {
			for lo := 0; lo+chunk <= n && !changed; lo += chunk {
				cand := *cur
				cand.Elems = append(append([]*tree{}, cur.Elems[:lo]...), cur.Elems[lo+chunk:]...)
				if cur.Kind == '{' {
					cand.Names = append(append([]string{}, cur.Names[:lo]...), cur.Names[lo+chunk:]...)
				}
				if try(&cand) {
					changed = true
				}
			}
		}
		if changed {
			continue
		}
		// shorten payloads and names
		if (cur.Kind == 's' || cur.Kind == 'b') && len(cur.D) > 0 {
			for _, k := range []int{0, len(cur.D) / 2, len(cur.D) - 1} {
				cand := *cur
				cand.D = bytes.Repeat([]byte{'a'}, k)
				if try(&cand) {
					changed = true
					break
				}
			}
			if changed {
				continue
			}
		}
		// shrink children in place
		for i, e := range cur.Elems {
			if e.Kind == 'n' {
				continue
			}
			base := cur
			sub := shrinkTree(e, func(x *tree) bool {
				if budget <= 0 {
					return false
				}
				budget--
				cand := *base
				cand.Elems = append([]*tree{}, base.Elems...)
				cand.Elems[i] = x
				return cand.wellFormed() && fails(&cand)
			})
			if sub != e {
				cand := *base
				cand.Elems = append([]*tree{}, base.Elems...)
				cand.Elems[i] = sub
				cur = &cand
				changed = true
			}
		}
	}
	return cur
}

// runAltDecode: the random choices of the alternative encoding are a function
// of the seed, so a failing tree can be shrunk under the same seed.
func runAltDecode(c *core.Ctx, t *tree) {
	seed := c.Rng.Int63()
	if c.Probe(func() { checkAltDecode(c, t, seed) }) {
		min := shrinkTree(t, func(x *tree) bool { return c.Probe(func() { checkAltDecode(c, x, seed) }) })
		checkAltDecode(c, min, seed)
	}
}

func runEncodeCase(c *core.Ctx, t *tree, bucket string) {
	if c.Probe(func() { checkEncode(c, t) }) {
		min := shrinkTree(t, func(x *tree) bool { return c.Probe(func() { checkEncode(c, x) }) })
		checkEncode(c, min)
	}
	c.Case(bucket, t.text(), t.Kind == '[' || t.Kind == '{' || t.Kind == 's')
}

// ---------------------------------------------------------------------------
// Part 4: shredding schemas and files

// sch is one (value, typed_value) group of a shredding schema.
//
//	N  no typed_value (top level only: an unshredded variant column)
//	P  primitive typed_value (Prim)
//	L  list (Elem)
//	O  object (Names sorted, Fields)
type sch struct {
	Kind  byte
	Prim  string // model text of the leaf type: b i<K> r<K> s y u d<K>:<prec>:<scale>
	Plain bool   // INT32/INT64 without annotation, decimal16 as BYTE_ARRAY
	// Width: the physical layout of a decimal16 leaf in the file when the file
	// is written the way other writers lay it out (see foreign.go): 0 = the
	// library's own (16 bytes), n = 1..15 FIXED_LEN_BYTE_ARRAY(n), -1 =
	// BYTE_ARRAY of minimal length, -2 = BYTE_ARRAY of minimal length plus a
	// few sign bytes.
	Width  int
	Elem   *sch
	Names  []string
	Fields []*sch
}

func (s *sch) text() string {
	switch s.Kind {
	case 'N':
		return "N"
	case 'P':
		return "P" + s.Prim
	case 'L':
		return "L" + s.Elem.text()
	}
	var sb strings.Builder
	sb.WriteString("O{")
	for i, f := range s.Fields {
		if i > 0 {
			sb.WriteByte(',')
		}
		sb.WriteString(hex.EncodeToString([]byte(s.Names[i])))
		sb.WriteByte('=')
		sb.WriteString(f.text())
	}
	sb.WriteByte('}')
	return sb.String()
}

// full text including the physical-type choice (for replays)
func (s *sch) replayText() string {
	switch s.Kind {
	case 'P':
		r := "P" + s.Prim
		if s.Plain {
			r += "!"
		}
		switch {
		case s.Width > 0:
			r += fmt.Sprintf("@%d", s.Width)
		case s.Width == -1:
			r += "@m"
		case s.Width == -2:
			r += "@p"
		}
		return r
	case 'L':
		return "L" + s.Elem.replayText()
	case 'O':
		var sb strings.Builder
		sb.WriteString("O{")
		for i, f := range s.Fields {
			if i > 0 {
				sb.WriteByte(',')
			}
			sb.WriteString(hex.EncodeToString([]byte(s.Names[i])))
			sb.WriteByte('=')
			sb.WriteString(f.replayText())
		}
		sb.WriteByte('}')
		return sb.String()
	}
	return "N"
}

func (p *parser) sch() *sch {
	c := p.peek()
	p.p++
	switch c {
	case 'N':
		return &sch{Kind: 'N'}
	case 'L':
		return &sch{Kind: 'L', Elem: p.sch()}
	case 'P':
		b := p.p
		for p.peek() != 0 && p.peek() != ',' && p.peek() != '}' && p.peek() != '!' && p.peek() != '@' {
			p.p++
		}
		s := &sch{Kind: 'P', Prim: p.s[b:p.p]}
		if p.peek() == '!' {
			s.Plain = true
			p.p++
		}
		if p.peek() == '@' {
			p.p++
			switch p.peek() {
			case 'm':
				s.Width = -1
				p.p++
			case 'p':
				s.Width = -2
				p.p++
			default:
				for p.peek() >= '0' && p.peek() <= '9' {
					s.Width = s.Width*10 + int(p.peek()-'0')
					p.p++
				}
			}
		}
		return s
	case 'O':
		p.expect('{')
		s := &sch{Kind: 'O'}
		for p.peek() != '}' {
			name := string(p.bytes())
			p.expect('=')
			s.Names = append(s.Names, name)
			s.Fields = append(s.Fields, p.sch())
			if p.peek() == ',' {
				p.p++
			}
		}
		p.p++
		return s
	}
	panic("parse: schema")
}

func parseSch(s string) (r *sch, err error) {
	defer func() {
		if x := recover(); x != nil {
			err = fmt.Errorf("%v", x)
		}
	}()
	p := &parser{s: s}
	r = p.sch()
	return r, nil
}

// nodeOpts: dict = every typed leaf that can be (all but booleans) is
// dictionary encoded; foreign = decimal16 leaves take the layout of Width.
type nodeOpts struct{ dict, foreign bool }

// typedNode is the parquet node handed to parquet.ShreddedVariant.
func (s *sch) typedNode() parquet.Node { return s.node(nodeOpts{}) }

func (s *sch) node(o nodeOpts) parquet.Node {
	switch s.Kind {
	case 'L':
		return parquet.List(s.Elem.node(o))
	case 'O':
		g := parquet.Group{}
		for i, f := range s.Fields {
			g[s.Names[i]] = f.node(o)
		}
		return g
	}
	n := s.leafNode(o.foreign)
	if o.dict && n.Type().Kind() != parquet.Boolean {
		n = parquet.Encoded(n, &parquet.RLEDictionary)
	}
	return n
}

func (s *sch) leafNode(foreign bool) parquet.Node {
	p := s.Prim
	switch p[0] {
	case 'b':
		return parquet.Leaf(parquet.BooleanType)
	case 's':
		return parquet.String()
	case 'y':
		return parquet.Leaf(parquet.ByteArrayType)
	case 'u':
		return parquet.UUID()
	case 'r':
		if p[1] == '0' {
			return parquet.Leaf(parquet.FloatType)
		}
		return parquet.Leaf(parquet.DoubleType)
	case 'i':
		switch p[1] {
		case '0':
			return parquet.Int(8)
		case '1':
			return parquet.Int(16)
		case '2':
			if s.Plain {
				return parquet.Leaf(parquet.Int32Type)
			}
			return parquet.Int(32)
		case '3':
			if s.Plain {
				return parquet.Leaf(parquet.Int64Type)
			}
			return parquet.Int(64)
		case '4':
			return parquet.Date()
		case '5':
			return parquet.TimestampAdjusted(parquet.Microsecond, true)
		case '6':
			return parquet.TimestampAdjusted(parquet.Microsecond, false)
		case '7':
			return parquet.TimeAdjusted(parquet.Microsecond, false)
		case '8':
			return parquet.TimestampAdjusted(parquet.Nanosecond, true)
		default:
			return parquet.TimestampAdjusted(parquet.Nanosecond, false)
		}
	case 'd':
		var k, prec, scale int
		fmt.Sscanf(p, "d%d:%x:%x", &k, &prec, &scale)
		switch k {
		case 0:
			return parquet.Decimal(scale, prec, parquet.Int32Type)
		case 1:
			return parquet.Decimal(scale, prec, parquet.Int64Type)
		default:
			if foreign && s.Width > 0 {
				return parquet.Decimal(scale, prec, parquet.FixedLenByteArrayType(s.Width))
			}
			if s.Plain || (foreign && s.Width < 0) {
				return parquet.Decimal(scale, prec, parquet.ByteArrayType)
			}
			return parquet.Decimal(scale, prec, parquet.FixedLenByteArrayType(16))
		}
	}
	panic("typedNode: " + p)
}

func (g *gen) primType() *sch {
	r := g.c.Rng
	s := &sch{Kind: 'P', Plain: r.Intn(2) == 0}
	switch r.Intn(9) {
	case 0:
		s.Prim = "b"
	case 1, 2:
		s.Prim = fmt.Sprintf("i%d", r.Intn(10))
	case 3:
		s.Prim = fmt.Sprintf("r%d", r.Intn(2))
	case 4, 5:
		s.Prim = "s"
	case 6:
		s.Prim = "y"
	case 7:
		s.Prim = "u"
	default:
		k := r.Intn(3)
		prec := []int{1 + r.Intn(9), 10 + r.Intn(9), 1 + r.Intn(38)}[k]
		scale := []int{0, 2, 2, 2, 3, 9}[r.Intn(6)]
		if scale > prec {
			scale = prec
		}
		s.Prim = fmt.Sprintf("d%d:%x:%x", k, prec, scale)
		if k == 2 && r.Intn(3) > 0 {
			// the layouts of other writers: FIXED_LEN_BYTE_ARRAY of every width
			// that holds the precision, BYTE_ARRAY of minimal / padded length
			lo := decimalMinBytes(prec)
			switch r.Intn(4) {
			case 0:
				s.Width = lo
			case 1:
				s.Width = lo + r.Intn(17-lo) // lo..16 (16 = the library's own: Width 0)
				if s.Width == 16 {
					s.Width = 0
				}
			case 2:
				s.Width = -1
			default:
				s.Width = -2
			}
			s.Plain = s.Width < 0
		}
	}
	return s
}

// decimalMinBytes: the least n such that every unscaled value of the
// precision fits n bytes of two's complement.
func decimalMinBytes(prec int) int {
	max := new(big.Int).Exp(big.NewInt(10), big.NewInt(int64(prec)), nil)
	max.Sub(max, big.NewInt(1))
	for n := 1; ; n++ {
		lim := new(big.Int).Lsh(big.NewInt(1), uint(8*n-1))
		if max.Cmp(lim) < 0 {
			return n
		}
	}
}

// decimalWithin: an unscaled decimal16 value of at most prec digits: the
// bounds, the values around the sign-byte boundaries of every width, random
// magnitudes of every length; negative half of the time.
func (g *gen) decimalWithin(prec int) []byte {
	r := g.c.Rng
	bound := new(big.Int).Exp(big.NewInt(10), big.NewInt(int64(prec)), nil)
	z := new(big.Int)
	switch r.Intn(5) {
	case 0:
		z.Sub(bound, big.NewInt(1))
	case 1:
		z.SetInt64(int64(r.Intn(3)))
	case 2:
		// 2^(8k-1) - 1, 2^(8k-1), 2^(8k-1) + 1: the last value of a width and the first of the next
		z.Lsh(big.NewInt(1), uint(8*(1+r.Intn(16))-1))
		z.Add(z, big.NewInt(int64(r.Intn(3)-1)))
	default:
		digits := 1 + r.Intn(prec)
		z.Rand(r, new(big.Int).Exp(big.NewInt(10), big.NewInt(int64(digits)), nil))
	}
	if z.CmpAbs(bound) >= 0 {
		z.Mod(z, bound)
	}
	if r.Intn(2) == 0 {
		z.Neg(z)
	}
	return d16FromBig(z)
}

func (g *gen) schema(depth int) *sch {
	r := g.c.Rng
	if depth > 0 {
		switch r.Intn(8) {
		case 0, 1:
			return &sch{Kind: 'L', Elem: g.schema(depth - 1)}
		case 2, 3, 4:
			s := &sch{Kind: 'O'}
			names := append([]string{}, g.names...)
			sort.Strings(names)
			for _, n := range names {
				if r.Intn(2) == 0 {
					s.Names = append(s.Names, n)
					s.Fields = append(s.Fields, g.schema(depth-1))
				}
			}
			if len(s.Names) == 0 {
				s.Names = []string{names[r.Intn(len(names))]}
				s.Fields = []*sch{g.schema(depth - 1)}
			}
			return s
		}
	}
	return g.primType()
}

// valueFor generates a value biased towards the shape of the schema (exact
// matches, partial matches, mismatches).
func (g *gen) valueFor(s *sch, depth int, native bool) *tree {
	r := g.c.Rng
	if r.Intn(5) == 0 || depth == 0 {
		return g.tree(depth, native)
	}
	switch s.Kind {
	case 'L':
		t := &tree{Kind: '['}
		for i, n := 0, r.Intn(4); i < n; i++ {
			t.Elems = append(t.Elems, g.valueFor(s.Elem, depth-1, native))
		}
		return t
	case 'O':
		t := &tree{Kind: '{'}
		for i, n := range s.Names {
			if r.Intn(4) > 0 {
				t.Names = append(t.Names, n)
				t.Elems = append(t.Elems, g.valueFor(s.Fields[i], depth-1, native))
			}
		}
		for i, n := 0, r.Intn(3); i < n; i++ {
			nm := g.name()
			dup := false
			for _, x := range t.Names {
				dup = dup || x == nm
			}
			if !dup {
				t.Names = append(t.Names, nm)
				t.Elems = append(t.Elems, g.tree(depth-1, native))
			}
		}
		r.Shuffle(len(t.Names), func(i, j int) {
			t.Names[i], t.Names[j] = t.Names[j], t.Names[i]
			t.Elems[i], t.Elems[j] = t.Elems[j], t.Elems[i]
		})
		return t
	case 'P':
		for tries := 0; tries < 40; tries++ {
			t := g.prim()
			if native && !t.native() {
				continue
			}
			if primMatches(s.Prim, t) {
				if t.Kind == 'd' && r.Intn(4) > 0 {
					var k, prec, scale int
					fmt.Sscanf(s.Prim, "d%d:%x:%x", &k, &prec, &scale)
					t.Scale = byte(scale)
					if t.K < 2 && r.Intn(2) == 0 {
						t.I %= 1000
					}
					if t.K == 2 && r.Intn(4) > 0 {
						t.D = g.decimalWithin(prec)
					}
				}
				return t
			}
		}
	}
	return g.tree(depth, native)
}

func primMatches(p string, t *tree) bool {
	switch p[0] {
	case 'b':
		return t.Kind == 't' || t.Kind == 'f'
	case 's':
		return t.Kind == 's'
	case 'y':
		return t.Kind == 'b'
	case 'u':
		return t.Kind == 'u'
	case 'r':
		return t.Kind == 'r' && t.K == int(p[1]-'0')
	case 'i':
		return t.Kind == 'i' && t.K == int(p[1]-'0')
	case 'd':
		return t.Kind == 'd' && t.K == int(p[1]-'0')
	}
	return false
}

type rawVariant struct {
	Metadata []byte `parquet:"metadata"`
	Value    []byte `parquet:"value"`
}
type rowAny struct {
	ID  int32 `parquet:"id"`
	Var any   `parquet:"var,variant"`
}
type rowRawP struct {
	ID  int32       `parquet:"id"`
	Var *rawVariant `parquet:"var,variant"`
}
type rowRaw struct {
	ID  int32      `parquet:"id"`
	Var rawVariant `parquet:"var,variant"`
}

// fileCase is one file: a variant column (shredded or not), rows, how it is
// written.  Rows[i] == "" is a null row (optional column only).
type fileCase struct {
	Mode     string   `json:"mode"` // "file"
	Schema   string   `json:"schema"`
	Optional bool     `json:"optional"`
	PageV    int      `json:"page_version"`
	Write    string   `json:"write"` // typed | raw
	Path     string   `json:"path"`  // writer | buffer | rows
	PageBuf  int      `json:"page_buffer"`
	Rows     []string `json:"rows"`
	// FreshPool: the pool of tree encoders (variant/encoding.go) is emptied
	// before every write and every read of the case, so that what the encoder
	// does with the residual values depends on the case alone (arena.go)
	FreshPool bool `json:"empty_encoder_pool,omitempty"`
	plus
}

func (fc *fileCase) freshPool() {
	if fc.FreshPool {
		emptyEncoderPool()
	}
}

// bulk: many rows (pages, dictionaries); the per-row model questions are
// asked of the small cases only.
func (fc *fileCase) bulk() bool { return len(fc.Rows) > 16 || fc.hugeRows() }

// hugeRows: containers of thousands of children (arena.go); the model decoder
// and the model's field sort are quadratic.
func (fc *fileCase) hugeRows() bool {
	for _, r := range fc.Rows {
		if len(r) > 8000 {
			return true
		}
	}
	return false
}

// build returns the shredding schema, the file schema the library's own
// shredding writer fills (schema), and, when a leaf has the layout of another
// writer, the schema of the file as stored (fschema, else nil).
func (fc *fileCase) build() (s *sch, schema, fschema *parquet.Schema, rows []*tree, err error) {
	defer func() {
		if r := recover(); r != nil {
			err = fmt.Errorf("schema construction panicked: %v", r)
		}
	}()
	if s, err = parseSch(fc.Schema); err != nil {
		return
	}
	mk := func(o nodeOpts) (*parquet.Schema, error) {
		var node parquet.Node
		if s.Kind == 'N' {
			node = parquet.Variant()
		} else {
			var e error
			if node, e = parquet.ShreddedVariant(s.node(o)); e != nil {
				return nil, e
			}
		}
		if fc.Optional {
			node = parquet.Optional(node)
		}
		return parquet.NewSchema("table", parquet.Group{"id": parquet.Int(32), "var": node}), nil
	}
	if schema, err = mk(nodeOpts{dict: fc.Dict == "typed"}); err != nil {
		return
	}
	if s.foreign() {
		if fschema, err = mk(nodeOpts{dict: fc.Dict == "typed", foreign: true}); err != nil {
			return
		}
	}
	for _, r := range fc.Rows {
		if r == "" {
			rows = append(rows, nil)
			continue
		}
		t, e := parseTree(r)
		if e != nil {
			err = e
			return
		}
		rows = append(rows, t)
	}
	return
}

func (fc *fileCase) writerOptions() []parquet.WriterOption {
	opts := []parquet.WriterOption{parquet.DataPageVersion(fc.PageV)}
	if fc.PageBuf > 0 {
		opts = append(opts, parquet.PageBufferSize(fc.PageBuf))
	}
	return append(opts, fc.plus.writerOptions()...)
}

func (fc *fileCase) write(s *sch, schema, fschema *parquet.Schema, rows []*tree) (data []byte, err error) {
	defer func() {
		if r := recover(); r != nil {
			err = fmt.Errorf("panic: %v", r)
		}
	}()
	in := make([]rowAny, len(rows))
	for i, t := range rows {
		in[i].ID = int32(i)
		if t == nil {
			continue
		}
		if fc.Write == "typed" {
			in[i].Var = t.goAny()
		} else {
			meta, val, e := goEncode(t)
			if e != nil {
				return nil, e
			}
			in[i].Var = rawVariant{Metadata: meta, Value: val}
		}
	}
	if fschema != nil {
		// the layout of another writer: the library shreds the rows, the leaf
		// values are re-laid out and stored through the row API
		dec := make([]parquet.Row, len(in))
		for i := range in {
			dec[i] = schema.Deconstruct(nil, &in[i])
		}
		return writeForeign(schema, fschema, dec, s.leafWidths([]string{"var"}), fc.writerOptions())
	}
	buf := new(bytes.Buffer)
	opts := append([]parquet.WriterOption{schema}, fc.writerOptions()...)
	w := parquet.NewGenericWriter[rowAny](buf, opts...)
	switch fc.Path {
	case "buffer":
		b := parquet.NewGenericBuffer[rowAny](schema)
		if _, err = b.Write(in); err != nil {
			return nil, err
		}
		if _, err = w.WriteRowGroup(b); err != nil {
			return nil, err
		}
	case "rows":
		dec := make([]parquet.Row, len(in))
		for i := range in {
			dec[i] = schema.Deconstruct(nil, &in[i])
		}
		if _, err = w.WriteRows(dec); err != nil {
			return nil, err
		}
	default:
		for i := 0; i < len(in); {
			k := 1 + (i*7+3)%4
			if fc.bulk() {
				k = 16 + (i*7+3)%48
			}
			if i+k > len(in) {
				k = len(in) - i
			}
			if _, err = w.Write(in[i : i+k]); err != nil {
				return nil, err
			}
			i += k
		}
	}
	if err = w.Close(); err != nil {
		return nil, err
	}
	return buf.Bytes(), nil
}

func leafText(v parquet.Value) string {
	switch v.Kind() {
	case parquet.Boolean:
		if v.Boolean() {
			return "b1"
		}
		return "b0"
	case parquet.Int32:
		return "i" + zhex(int64(v.Int32()))
	case parquet.Int64:
		return "l" + zhex(v.Int64())
	case parquet.Float:
		return fmt.Sprintf("e%x", math.Float32bits(v.Float()))
	case parquet.Double:
		return fmt.Sprintf("g%x", math.Float64bits(v.Double()))
	default:
		return "x" + hex.EncodeToString(v.ByteArray())
	}
}

// fileColumns returns, per row, the non-null values of every leaf column of
// the variant group (column 0 is id).
func fileColumns(data []byte, nrows int) (out [][][]string, err error) {
	defer func() {
		if r := recover(); r != nil {
			err = fmt.Errorf("panic: %v", r)
		}
	}()
	f, err := parquet.OpenFile(bytes.NewReader(data), int64(len(data)))
	if err != nil {
		return nil, err
	}
	ncols := len(f.Schema().Columns())
	for _, rg := range f.RowGroups() {
		rows := rg.Rows()
		for {
			buf := make([]parquet.Row, 16)
			n, e := rows.ReadRows(buf)
			for _, row := range buf[:n] {
				cols := make([][]string, ncols-1)
				for _, v := range row {
					if ci := v.Column(); ci >= 1 && !v.IsNull() {
						cols[ci-1] = append(cols[ci-1], leafText(v))
					}
				}
				out = append(out, cols)
			}
			if e != nil {
				if e != io.EOF {
					rows.Close()
					return nil, e
				}
				break
			}
			if n == 0 {
				break
			}
		}
		rows.Close()
	}
	if len(out) != nrows {
		return nil, fmt.Errorf("file has %d rows, %d written", len(out), nrows)
	}
	return out, nil
}

func colsText(cols [][]string) string {
	parts := make([]string, len(cols))
	for i, c := range cols {
		if len(c) == 0 {
			parts[i] = "_"
		} else {
			parts[i] = strings.Join(c, ",")
		}
	}
	return strings.Join(parts, ";")
}

func protect(f func() error) (err error) {
	defer func() {
		if r := recover(); r != nil {
			err = fmt.Errorf("panic: %v", r)
		}
	}()
	return f()
}

// checkFile writes the file and reads it back in every form; then writes the
// same rows through the columnar writer and reads that file back too; then
// reads the file through reader schemas that differ around the variant column.
func checkFile(c *core.Ctx, fc *fileCase) {
	s, schema, fschema, rows, err := fc.build()
	if err != nil {
		c.Violation("schema-rejected", "a shredding schema of the supported class is rejected: "+err.Error(), fc)
		return
	}
	fc.freshPool()
	data, err := fc.write(s, schema, fschema, rows)
	if err != nil {
		c.Violation("file-write-error", fmt.Sprintf("writing %s/%s: %v", fc.Write, fc.Path, err), fc)
		return
	}
	rschema := schema
	if fschema != nil {
		rschema = fschema
	}
	n := len(rows)
	want := make([]string, n)
	for i, t := range rows {
		if fc.Write == "typed" && fc.Optional && t != nil && t.Kind == 'n' {
			rows[i], t = nil, nil // the typed API writes a nil value of an optional column as a null row
		}
		if t != nil {
			want[i] = t.canonText()
		} else if !fc.Optional {
			want[i] = "n" // a nil value in a required variant column is variant null
		}
	}
	fc.verify(c, s, rschema, data, rows, want, fmt.Sprintf("%s/%s write", fc.Write, fc.Path))

	// the same rows through the columnar writer (variant_column_writer.go)
	if fschema == nil {
		fc.freshPool()
		data2, err := colWrite(schema, []string{"var"}, rows, nil, fc.Optional, fc.writerOptions())
		if err != nil {
			c.Violation("columnar-write-error", fmt.Sprintf("schema %s optional=%v: VariantColumnWriter: %v", fc.Schema, fc.Optional, err), fc)
		} else {
			fc.verify(c, s, schema, data2, rows, want, "columnar write")
		}
	}

	// reader schemas that add / drop / reorder columns around the variant column
	if fc.Evo != nil {
		in := make([]rowAny, n)
		for i, t := range rows {
			in[i].ID = int32(i)
			if t != nil {
				meta, val, e := goEncode(t)
				if e != nil {
					c.Violation("encode-error", e.Error(), fc)
					return
				}
				in[i].Var = rawVariant{Metadata: meta, Value: val}
			}
		}
		narrow := make([]parquet.Row, n)
		if err := protect(func() error {
			for i := range in {
				narrow[i] = schema.Deconstruct(nil, &in[i])
			}
			return nil
		}); err != nil {
			c.Violation("file-write-error", "Deconstruct: "+err.Error(), fc)
			return
		}
		items := make([][]string, n)
		for i := range want {
			items[i] = []string{want[i]}
		}
		checkEvolve(c, &evoCtx{nest: "top", path: []string{"var"}, s: s, dict: fc.Dict == "typed", optional: fc.Optional,
			narrow: schema, rows: narrow, want: items, absent: make([]bool, n), opts: fc.writerOptions(), evo: fc.Evo,
			where: fmt.Sprintf("schema %s optional=%v v%d", fc.Schema, fc.Optional, fc.PageV), replay: fc, model: !fc.bulk()})
	}

	// what the file stores == the model's shredding of the value
	if c.HasOracle() && fschema == nil && !fc.bulk() {
		cols, err := fileColumns(data, n)
		if err != nil {
			c.Violation("file-scan-error", err.Error(), fc)
			return
		}
		for i, t := range rows {
			if t == nil {
				if fc.Optional {
					if got := colsText(cols[i]); strings.Trim(got, "_;") != "" {
						c.Violation("null-row-has-values", "a null row stores values: "+got, fc)
					}
					continue
				}
				t = &tree{Kind: 'n'}
			}
			in := t
			if fc.Write == "raw" {
				if s.Kind != 'N' {
					in = t.canon() // the shredded raw write decodes the bytes: fields arrive in name order
				} // an unshredded column stores the given bytes unchanged
			} else if t.maxFields() > 1 {
				continue // map iteration order decides the dictionary order
			}
			var model string
			if s.Kind == 'N' {
				ans := strings.Split(c.Ask("c19.encode "+in.text()), " ")
				model = strings.Join(ans, ";")
			} else {
				ans := strings.Split(c.Ask("c19.shred "+s.text()+" "+in.text()), " ")
				if len(ans) != 3 {
					c.Mismatch("corr:C19.shred", "c19.shred "+s.text()+" "+in.text(), colsText(cols[i]), strings.Join(ans, " "), fc)
					return
				}
				model = ans[0] + ";" + ans[2]
				// the model reader on the model writer's fragment
				if back := c.Ask("c19.reconstruct " + s.text() + " " + ans[0] + " " + ans[1]); back != t.canonText() {
					bk := back
					if bt, e := parseTree(back); e == nil {
						bk = bt.canonText()
					}
					if bk != t.canonText() {
						c.Mismatch("corr:C19.reconstruct", "c19.reconstruct of c19.shred", t.canonText(), back, fc)
						return
					}
				}
			}
			if got := colsText(cols[i]); got != model {
				c.Mismatch("corr:C19.shred", "row "+fmt.Sprint(i)+": c19.shred "+s.text()+" "+in.text(), got, model, fc)
				return
			}
		}
	}
	// the typed leaves as other writers lay them out: the model's leaf reader on the stored bytes
	if c.HasOracle() && fschema != nil && !fc.bulk() {
		checkForeignLeaves(c, data, fschema, s, []string{"var"}, fc)
	}
}

// verify reads data (a file of schema holding rows) typed, raw through its own
// schema, converted to unshredded, and through the columnar reader; every row
// must read back as want[i] ("" = a null row).
func (fc *fileCase) verify(c *core.Ctx, s *sch, schema *parquet.Schema, data []byte, rows []*tree, want []string, how string) {
	n := len(rows)
	size := int64(len(data))
	where := fmt.Sprintf("schema %s optional=%v v%d %s", fc.Schema, fc.Optional, fc.PageV, how)
	if o := fc.plus.text(); o != "" {
		where += " " + o
	}
	bad := func(class, form string, i int, got string) {
		c.Violation(class, fmt.Sprintf("%s, %s read: row %d reads back as %s, written %s",
			where, form, i, core.Trunc(got, 300), core.Trunc(want[i], 300)), fc)
	}
	// typed read
	fc.freshPool()
	if err := protect(func() error {
		r := parquet.NewGenericReader[rowAny](bytes.NewReader(data), schema)
		defer r.Close()
		out := make([]rowAny, n)
		if k, err := r.Read(out); k != n && err != nil && err != io.EOF {
			return err
		} else if k != n {
			return fmt.Errorf("read %d of %d rows", k, n)
		}
		for i := range out {
			exp := "nil"
			if rows[i] != nil {
				exp = anyText(rows[i].goAny())
			}
			if got := anyText(out[i].Var); got != exp || out[i].ID != int32(i) {
				c.Violation("typed-read-differs", fmt.Sprintf("%s, typed read: row %d reads back as %s, want %s",
					where, i, core.Trunc(got, 300), core.Trunc(exp, 300)), fc)
				return nil
			}
		}
		return nil
	}); err != nil {
		c.Violation("typed-read-error", where+": "+err.Error(), fc)
	}
	decodeRaw := func(form string, i int, meta, val []byte, null bool) bool {
		if null || (len(meta) == 0 && len(val) == 0) {
			if want[i] != "" {
				bad("raw-read-differs", form, i, "null")
				return false
			}
			return true
		}
		t, err := goDecode(meta, val)
		if err != nil {
			bad("raw-read-differs", form, i, "undecodable bytes ("+err.Error()+")")
			return false
		}
		if got := t.canonText(); got != want[i] {
			bad("raw-read-differs", form, i, got)
			return false
		}
		if c.HasOracle() && want[i] != "" && !fc.bulk() {
			if back := c.Ask("c19.decode " + core.Hexs(meta) + " " + core.Hexs(val)); back != want[i] {
				c.Mismatch("corr:C19.decode-readback", form+" read bytes", want[i], back, fc)
				return false
			}
		}
		return true
	}
	// raw read through the file's own schema
	fc.freshPool()
	if err := protect(func() error {
		r := parquet.NewGenericReader[rowRawP](bytes.NewReader(data), schema)
		defer r.Close()
		out := make([]rowRawP, n)
		if k, err := r.Read(out); k != n && err != nil && err != io.EOF {
			return err
		} else if k != n {
			return fmt.Errorf("read %d of %d rows", k, n)
		}
		for i := range out {
			var m, v []byte
			if out[i].Var != nil {
				m, v = out[i].Var.Metadata, out[i].Var.Value
			}
			if !decodeRaw("raw", i, m, v, out[i].Var == nil) {
				return nil
			}
		}
		return nil
	}); err != nil {
		c.Violation("raw-read-error", where+": "+err.Error(), fc)
	}
	// conversion to an unshredded variant column (convert_variant.go)
	fc.freshPool()
	if err := protect(func() error {
		out, err := parquet.Read[rowRaw](bytes.NewReader(data), size)
		if err != nil {
			return err
		}
		if len(out) != n {
			return fmt.Errorf("read %d of %d rows", len(out), n)
		}
		for i := range out {
			if !decodeRaw("convert-to-unshredded", i, out[i].Var.Metadata, out[i].Var.Value, false) {
				return nil
			}
		}
		return nil
	}); err != nil {
		c.Violation("convert-read-error", where+": "+err.Error(), fc)
	}
	// the columnar reader (variant_column_reader.go)
	got, err := colRead(data, s, []string{"var"}, fc.Window, fc.Late)
	switch {
	case err != nil:
		c.Violation("columnar-read-error", where+", columnar read: "+err.Error(), fc)
	case len(got) != n:
		c.Violation("columnar-read-error", fmt.Sprintf("%s, columnar read: %d of %d rows", where, len(got), n), fc)
	default:
		for i := range got {
			if got[i] != want[i] {
				g := got[i]
				if g == "" {
					g = "null"
				}
				bad("columnar-read-differs", "columnar", i, g)
				break
			}
		}
	}
	// typed navigation: cursors on paths inside / outside the shredding schema (navigate.go)
	checkNavigate(c, where, fc, data, s, []string{"var"}, &fc.plus, want, !fc.hugeRows())
}

func shrinkFile(c *core.Ctx, fc *fileCase) *fileCase {
	budget := 400
	fails := func(x *fileCase) bool {
		if budget <= 0 {
			return false
		}
		budget--
		return c.Probe(func() { checkFile(c, x) })
	}
	cur := *fc
	// single rows first
	if len(fc.Rows) <= 16 {
		for i := range fc.Rows {
			t := cur
			t.Rows = []string{fc.Rows[i]}
			if fails(&t) {
				cur = t
				break
			}
		}
	}
	// drop runs of rows: halves, quarters, ..., single rows
	for chunk := (len(cur.Rows) + 1) / 2; chunk >= 1 && len(cur.Rows) > 1; {
		changed := false
		for lo := 0; lo < len(cur.Rows) && len(cur.Rows) > 1; {
			hi := lo + chunk
			if hi > len(cur.Rows) {
				hi = len(cur.Rows)
			}
			t := cur
			t.Rows = append(append([]string{}, cur.Rows[:lo]...), cur.Rows[hi:]...)
			if len(t.Rows) > 0 && fails(&t) {
				cur, changed = t, true
			} else {
				lo = hi
			}
		}
		if chunk == 1 && !changed {
			break
		}
		if chunk > 1 {
			chunk = (chunk + 1) / 2
		}
	}
	// the options of the case, one at a time
	simplers := []func(*fileCase){
		func(x *fileCase) { x.Evo = nil },
		func(x *fileCase) { x.Nav = nil },
		func(x *fileCase) { x.NavAll = false },
		func(x *fileCase) { x.Dict, x.DictMax = "", 0 },
		func(x *fileCase) { x.Late = false },
		func(x *fileCase) { x.Window = 0 },
		func(x *fileCase) { x.Optional = false },
		func(x *fileCase) { x.Path = "writer" },
		func(x *fileCase) { x.PageBuf = 0 },
		func(x *fileCase) { x.PageV = 1 },
	}
	for _, simpler := range simplers {
		t := cur
		simpler(&t)
		if fails(&t) {
			cur = t
		}
	}
	if cur.Evo != nil {
		for changed := true; changed; {
			changed = false
			for _, e := range cur.Evo.simpler() {
				t := cur
				t.Evo = e
				if fails(&t) {
					cur, changed = t, true
					break
				}
			}
		}
	}
	// one navigation path, then its shortest failing prefix
	cur.Nav = shrinkNav(cur.Nav, func(nav []string) bool {
		t := cur
		t.Nav = nav
		return fails(&t)
	})
	// simpler shredding schemas
	if s0, err := parseSch(cur.Schema); err == nil {
		for changed := true; changed && budget > 0; {
			changed = false
			for _, cand := range s0.simpler() {
				t := cur
				t.Schema = cand.replayText()
				if fails(&t) {
					cur, s0, changed = t, cand, true
					break
				}
			}
		}
	}
	if len(cur.Rows) <= 16 {
		for i, r := range cur.Rows {
			if r == "" {
				continue
			}
			t0, err := parseTree(r)
			if err != nil {
				continue
			}
			min := shrinkTree(t0, func(x *tree) bool {
				if cur.Write == "typed" && !x.native() {
					return false
				}
				t := cur
				t.Rows = append([]string{}, cur.Rows...)
				t.Rows[i] = x.text()
				return fails(&t)
			})
			cur.Rows = append([]string{}, cur.Rows...)
			cur.Rows[i] = min.text()
		}
	}
	return &cur
}

func runFileCase(c *core.Ctx, fc *fileCase, bucket string) {
	if c.Probe(func() { checkFile(c, fc) }) {
		checkFile(c, shrinkFile(c, fc))
	}
	key, _ := json.Marshal(fc)
	c.Case(bucket, string(key), true)
}

// ---------------------------------------------------------------------------
// Part 5: driver, replay, vm_compute sample

func coqBytes(b []byte) string { return core.CoqBytes(b) }

var coqIntKinds = []string{"I8", "I16", "I32", "I64", "IDate", "ITs", "ITsNtz", "ITime", "ITsNs", "ITsNtzNs"}

func (t *tree) coq() string {
	switch t.Kind {
	case 'n':
		return "VNull"
	case 't':
		return "(VBool true)"
	case 'f':
		return "(VBool false)"
	case 'i':
		return fmt.Sprintf("(VInt %s %s)", coqIntKinds[t.K], core.CoqZ(t.I))
	case 'r':
		return fmt.Sprintf("(VFlt %s %d%%N)", []string{"F32", "F64"}[t.K], t.U)
	case 'd':
		z := big.NewInt(t.I)
		if t.K == 2 {
			z = d16Big(t.D)
		}
		return fmt.Sprintf("(VDec %s %d%%N (%s)%%Z)", []string{"D4", "D8", "D16"}[t.K], t.Scale, z.String())
	case 'b':
		return "(VBinary " + coqBytes(t.D) + ")"
	case 's':
		return "(VString " + coqBytes(t.D) + ")"
	case 'u':
		return "(VUuid " + coqBytes(t.D) + ")"
	case '[':
		es := make([]string, len(t.Elems))
		for i, e := range t.Elems {
			es[i] = e.coq()
		}
		return "(VArray " + core.CoqList(es) + ")"
	default:
		es := make([]string, len(t.Elems))
		for i, e := range t.Elems {
			es[i] = "(" + coqBytes([]byte(t.Names[i])) + ", " + e.coq() + ")"
		}
		return "(VObject " + core.CoqList(es) + ")"
	}
}

func (s *sch) coq() string {
	switch s.Kind {
	case 'N':
		return "SNone"
	case 'L':
		return "(SList " + s.Elem.coq() + ")"
	case 'O':
		es := make([]string, len(s.Fields))
		for i, f := range s.Fields {
			es[i] = "(" + coqBytes([]byte(s.Names[i])) + ", " + f.coq() + ")"
		}
		return "(SObj " + core.CoqList(es) + ")"
	}
	p := s.Prim
	switch p[0] {
	case 'b':
		return "(SPrim PTBool)"
	case 's':
		return "(SPrim PTString)"
	case 'y':
		return "(SPrim PTBinary)"
	case 'u':
		return "(SPrim PTUuid)"
	case 'r':
		return "(SPrim (PTFlt " + []string{"F32", "F64"}[p[1]-'0'] + "))"
	case 'i':
		return "(SPrim (PTInt " + coqIntKinds[p[1]-'0'] + "))"
	}
	var k, prec, scale int
	fmt.Sscanf(p, "d%d:%x:%x", &k, &prec, &scale)
	return fmt.Sprintf("(SPrim (PTDec %s %d%%Z %d%%Z))", []string{"D4", "D8", "D16"}[k], prec, scale)
}

func runC19(c *core.Ctx) {
	c.Res.Rule = "variant value trees generated at random (depth <= 5, every primitive kind with edge values, strings of length 0,1,62..65,80 with multi-byte UTF-8, names from a small pool shared with the schemas plus empty/long/unicode names) and boundary trees (arrays/objects of 0,1,2,254..257 elements; container payloads of exactly 254..257 and 65534..65537 bytes with 1..3 elements; dictionaries of 255..300 names followed by small objects using the highest ids; dictionary bytes of 254..257 and 65535/65536; sorted and unsorted dictionaries); each tree: variant.Encode bytes == model bytes, Decode(Encode(v)) == v, model decoder on Go's bytes == v, variant.Builder through Value.Write (round trip, metadata == Encode's, value == Encode's when fields arrive in name order, else model decoder), Marshal/Unmarshal of the Go value, and random conforming non-canonical encodings (wider offsets, is_large, long-form strings, shuffled object values, permuted dictionaries) through both decoders. Files: random shredding schemas (all typed leaves, objects, lists, nesting <= 3) and unshredded columns x optional/required x page v1/v2 x typed/raw write x writer/buffer/rows plumbing, several rows with nulls; every row read back typed, raw and converted to unshredded must equal the written value, and the stored leaf columns must equal the model's shredding. Thresholds (bounds.go): array / object children, dictionary names totalling 0xFE..0x101, 0xFFFE..0x10001 and 0xFFFFFF, 0x1000000 (thorough also 0xFFFFFE, 0x1000001) bytes, highest field id 0xFE..0x100 and 0xFFFE..0x10000 (thorough: around 2^24), through Encode and Builder: Go round trip, header bytes == the model's header functions on the sizes, payload == the children, offset-size fields == offset_size_code of the number. Nested (nested.go): the variant column below a repeated group, a LIST, as a repeated node, below an optional group and below repeated-in-optional, variant node required/optional, rows of 0..3 items / absent groups / null items, schemas biased to lists, same write and read combinations, every item compared, leaf columns compared per item as delimited by the stored levels. Other access paths and layouts (widen.go): every top-level file case and every case below an optional group is also read through the columnar VariantReader (every row rebuilt from cursors: location tags, typed vectors, list offsets, residuals; windows of 1..1000 rows; cursors created before the first Next, or after it followed by SeekToRow(0)) and also written through VariantColumnWriter (WriteValue and BeginRow/Value.Write/EndRow, WriteNullRow) and that file read back typed, raw, converted and columnar; writer options: typed leaves (or every column) dictionary encoded, DictionaryMaxBytes 8..1024, pages of 64..1024 bytes; many-row files (40..300 rows) whose chunks start with dictionary pages and continue PLAIN (recorded per case); decimal16 leaves in the layouts of other writers (FIXED_LEN_BYTE_ARRAY(n) for every n from the least that holds the precision to 15, BYTE_ARRAY of minimal and padded length; rows shredded by the library, leaf values re-laid out and stored through the row API; corpus over precisions x widths x {leaf, object field, list element} with -1, the bounds of the precision and values around every sign-byte boundary, and in the random schemas), read typed, raw, converted, columnar, the model reader run on the re-laid-out fragment and the stored leaf columns compared with it; convert-to-unshredded through reader schemas that drop sibling columns of the file, add columns the file lacks (one leaf, required or optional, or a group of two leaves; names sorting before and after the variant column), list group fields out of name order (file side and reader side) and flip the variant column between required and optional, at the top level and inside the enclosing group of every nested placement, through parquet.NewReader(schema) and Convert+ConvertRowGroup: every item must be the value written, kept columns must hold what was written, added columns nothing. Typed navigation (navigate.go): every top-level file case and every case below an optional group is also read through a second VariantReader that holds the cursors of 1..4 paths (positions of the shredding schema; paths of the written values, which leave the schema where the value does; either extended by a Field of a pooled / absent / empty name or by Elements), alone or together with every cursor of the schema, over the windows / late creation / SeekToRow(0) of the case: at every prefix of a path the cursor must have the entries of the logical navigation of the written values (count, window row, missing or not), ListOffsets the running totals of the array lengths, and the value rebuilt from the last cursor must be the written value at the path; entries and offsets as text == c19.navigate / c19.offsets (Variant/Navigate.v). Size x nesting x encoder history (arena.go): containers of 31,32,33,64,65,100 and 4095,4096,4097,5000 children (the 32-entry arenas of a fresh tree encoder, their first doubling, the 4096 entries the encoder pool keeps), arrays and objects inside arrays and objects, alone / first / middle / last among siblings, depth 2 and 3, five element kinds, payloads around 1 KiB and 1 MiB, each through Encode, Marshal and a Builder from an emptied encoder pool (two garbage collections); sequences of 2..5 such values of every pair of size classes on one pooled encoder (Encode, Marshal, both alternating) and one reused Builder, every output examined after the whole sequence; the same values as residuals of shredded files (type mismatch, leftover field, list element) with the pool emptied before every write and read. Non-trivial = container or string at the root (encode cases), every file case, every arena case; distinct by tree / case text."
	g := &gen{c: c, names: []string{"a", "b", "c", "d", "e"}, aux: rand.New(rand.NewSource(c.Seed ^ 0x5eed19c0ffee))}
	var vmEnc, vmShred []string

	addVmEnc := func(t *tree) {
		if len(vmEnc) >= 120 || t.size() > 40 || len(t.text()) > 1500 {
			return
		}
		meta, val, err := goEncode(t)
		if err != nil {
			return
		}
		vmEnc = append(vmEnc, fmt.Sprintf("(%s, %s, %s)", t.coq(), coqBytes(meta), coqBytes(val)))
	}

	// corpus: the boundary trees
	for i, t := range g.boundaries() {
		runEncodeCase(c, t, "encode/boundary")
		runAltDecode(c, t)
		if i%9 == 0 {
			addVmEnc(t)
		}
	}
	c.Sample(map[string]string{"tree": "{62=[i0:-1,s6869,n],61={62=t},63=d0:2:3039}", "syntax": "oracle/c19.ml"})

	// duplicate names: outside the property; both decoders must agree on rejection
	for _, t := range []*tree{
		{Kind: '{', Names: []string{"a", "a"}, Elems: []*tree{{Kind: 'n'}, {Kind: 't'}}},
		{Kind: '{', Names: []string{"b", "a", "b"}, Elems: []*tree{{Kind: 'n'}, {Kind: 't'}, {Kind: 'f'}}},
	} {
		meta, val, err := goEncode(t)
		if err != nil {
			continue
		}
		_, derr := goDecode(meta, val)
		if c.HasOracle() {
			back := c.Ask("c19.decode " + core.Hexs(meta) + " " + core.Hexs(val))
			if (derr != nil) != (back == "NONE") {
				c.Mismatch("corr:C19.decode-duplicate-names", t.text(), fmt.Sprint(derr), back, nil)
			}
		}
		c.Case("decode/duplicate-names", t.text(), false)
	}

	// random trees
	nRand := c.N(4000, 150000)
	for i := 0; i < nRand; i++ {
		t := g.tree(1+c.Rng.Intn(5), c.Rng.Intn(3) == 0)
		runEncodeCase(c, t, fmt.Sprintf("encode/random/%c", t.Kind))
		if i%3 == 0 {
			runAltDecode(c, t)
			c.Case("decode/conforming", "alt:"+t.text(), t.Kind == '[' || t.Kind == '{')
		}
		if i < 3 {
			c.Sample(map[string]string{"tree": t.text()})
		}
		if i%20 == 0 {
			addVmEnc(t)
		}
	}

	// every use of offsetSizeCode below / at / above 0xFF, 0xFFFF, 0xFFFFFF (bounds.go)
	runBigCases(c)
	// size x nesting x encoder history (arena.go)
	runArena(c, g)

	// files
	nFiles := c.N(400, 10000)
	for i := 0; i < nFiles; i++ {
		var s *sch
		if c.Rng.Intn(8) == 0 {
			s = &sch{Kind: 'N'}
		} else {
			s = g.schema(c.Rng.Intn(4))
		}
		fc := &fileCase{Mode: "file", Schema: s.replayText(), Optional: c.Rng.Intn(2) == 0, PageV: 1 + c.Rng.Intn(2),
			Write: []string{"typed", "raw", "raw"}[c.Rng.Intn(3)], Path: []string{"writer", "writer", "buffer", "rows"}[c.Rng.Intn(4)]}
		if c.Rng.Intn(3) == 0 {
			fc.PageBuf = 64 + c.Rng.Intn(400)
		}
		nrows := 1 + c.Rng.Intn(8)
		for r := 0; r < nrows; r++ {
			if c.Rng.Intn(7) == 0 {
				fc.Rows = append(fc.Rows, "")
				continue
			}
			t := g.valueFor(s, 1+c.Rng.Intn(4), fc.Write == "typed")
			fc.Rows = append(fc.Rows, t.text())
			if len(vmShred) < 60 && s.Kind != 'N' && t.size() <= 25 && len(t.text()) < 800 {
				vmShred = append(vmShred, fmt.Sprintf("(%s, %s)", s.coq(), t.coq()))
			}
		}
		fc.plus = g.plus("top", false)
		fc.Nav, fc.NavAll = g.navPaths(s, fc.Rows), g.aux.Intn(3) == 0
		runFileCase(c, fc, fmt.Sprintf("file/%c/%s", s.Kind, fc.Write))
		if i < 2 {
			c.Sample(fc)
		}
	}
	// many rows: pages of a few values, dictionary-encoded leaves whose
	// dictionary outgrows DictionaryMaxBytes after the first pages (the rest of
	// the chunk is PLAIN), read in windows of every size
	nBulk := c.N(70, 2500)
	for i := 0; i < nBulk; i++ {
		s := g.bulkSchema()
		fc := &fileCase{Mode: "file", Schema: s.replayText(), Optional: c.Rng.Intn(2) == 0, PageV: 1 + c.Rng.Intn(2),
			Write: "raw", Path: []string{"writer", "writer", "buffer", "rows"}[c.Rng.Intn(4)], PageBuf: 64 << uint(c.Rng.Intn(5))}
		fc.plus = g.plus("top", true)
		nrows := 40 + c.Rng.Intn(260)
		for r := 0; r < nrows; r++ {
			if fc.Optional && c.Rng.Intn(9) == 0 {
				fc.Rows = append(fc.Rows, "")
				continue
			}
			fc.Rows = append(fc.Rows, g.valueFor(s, 1+c.Rng.Intn(3), false).text())
		}
		fc.Nav, fc.NavAll = g.navPaths(s, fc.Rows), g.aux.Intn(3) == 0
		mixed := runBulkCase(c, fc)
		if i < 1 {
			c.Sample(map[string]any{"mode": "file", "schema": fc.Schema, "rows": len(fc.Rows), "page_buffer": fc.PageBuf, "options": fc.plus.text(), "chunks_mixing_dictionary_and_plain_pages": mixed})
		}
	}
	// decimal leaves of every width other writers store (widen.go)
	runForeignCorpus(c, g)
	// boundary values through a shredded file: a partially shredded object holding large values
	for _, t := range g.boundaries() {
		if t.size() > 400 || c.Rng.Intn(3) > 0 {
			continue
		}
		s := &sch{Kind: 'O', Names: []string{"a", "k000", "z"}, Fields: []*sch{{Kind: 'P', Prim: "y"}, {Kind: 'P', Prim: "i0"}, {Kind: 'L', Elem: &sch{Kind: 'P', Prim: "s"}}}}
		fc := &fileCase{Mode: "file", Schema: s.replayText(), PageV: 1 + c.Rng.Intn(2), Write: "raw", Path: "writer", Rows: []string{t.text()}}
		runFileCase(c, fc, "file/boundary")
	}

	// the variant column below repeated / optional groups (nested.go)
	nNested := c.N(400, 12000)
	for i := 0; i < nNested; i++ {
		nc := g.nested(i)
		runNestedCase(c, nc, fmt.Sprintf("nested/%s/%s/%s", nc.Nest, nc.Write, nc.Path))
		if i < 2 {
			c.Sample(nc)
		}
	}
	// the seeded shape: arrays of arrays through a shredded list below each nesting
	for _, nest := range []string{"rep", "list", "repvar", "optrep"} {
		for _, path := range []string{"writer", "buffer", "rows"} {
			for _, write := range []string{"typed", "raw"} {
				nc := &nestCase{Mode: "nested", Schema: "LPi3", Nest: nest, PageV: 1 + c.Rng.Intn(2), Write: write, Path: path,
					Rows: []nestRow{{Items: []string{"[i3:1,i3:2,i3:3]", "[i3:4,i3:5]"}}, {Items: []string{}}, {Items: []string{"[i3:6]", "s6e6f742061206c697374", "[i3:7,i3:8]"}}}}
				runNestedCase(c, nc, "nested/corpus")
			}
		}
	}

	// vm_compute sample
	c.Vm("From Coq Require Import List ZArith NArith Bool.\nFrom PQ Require Import Base.Bytes Variant.Model Variant.Shred Variant.Header.\nImport ListNotations.\nOpen Scope N_scope.")
	c.Vm("Fixpoint veqb (a b : value) {struct a} : bool :=\n  match a, b with\n  | VNull, VNull => true\n  | VBool x, VBool y => Bool.eqb x y\n  | VInt k x, VInt k' y => (int_id k =? int_id k') && Z.eqb x y\n  | VFlt k x, VFlt k' y => (flt_id k =? flt_id k') && (x =? y)\n  | VDec k s x, VDec k' s' y => (dec_id k =? dec_id k') && (s =? s') && Z.eqb x y\n  | VBinary x, VBinary y => beq x y\n  | VString x, VString y => beq x y\n  | VUuid x, VUuid y => beq x y\n  | VArray l, VArray l' => (fix go (l l' : list value) : bool := match l, l' with [] , [] => true | x :: r, y :: r' => veqb x y && go r r' | _, _ => false end) l l'\n  | VObject l, VObject l' => (fix go (l : list (bytes * value)) (l' : list (bytes * value)) : bool := match l, l' with [] , [] => true | (k, x) :: r, (k', y) :: r' => beq k k' && veqb x y && go r r' | _, _ => false end) l l'\n  | _, _ => false\n  end.")
	c.Vm("Definition beqs (a b : bytes) : bool := beq a b.")
	c.Vm("Definition enc_cases : list (value * bytes * bytes) := [\n  " + strings.Join(vmEnc, ";\n  ") + "].")
	c.Vm("Definition enc_bad := filter (fun '(v, m, b) => negb (let '(m', b') := encode v in beqs m m' && beqs b b' && match decode m b with Some v' => veqb v' (canon v) | None => false end)) enc_cases.")
	c.Vm("Definition shred_cases : list (schema * value) := [\n  " + strings.Join(vmShred, ";\n  ") + "].")
	c.Vm("Definition shred_bad := filter (fun '(s, v) => negb (match reconstruct s (shred s v) with Some (Some v') => veqb (canon v') (canon v) | _ => false end && let '(m, f) := shred_bytes s v in match reconstruct_bytes s m f with Some (Some v') => veqb (canon v') (canon v) | _ => false end)) shred_cases.")
	c.Vm("Definition hdr_cases : list (list N * bytes) := [\n  " + strings.Join(vmHeaders, ";\n  ") + "].")
	c.Vm("Definition hdr_bad := filter (fun '(sizes, h) => negb (beqs (array_header sizes) h)) hdr_cases.")
	c.Vm("Definition mismatches := (map (fun '(v, _, _) => (SNone, v)) enc_bad) ++ shred_bad ++ map (fun '(sizes, _) => (SNone, VArray (map (fun n => VInt I64 (Z.of_N n)) sizes))) hdr_bad.")
	c.Vm("Definition M := Eval vm_compute in ((length enc_cases + length shred_cases + length hdr_cases)%nat, mismatches).\nPrint M.")
	c.Res.VmCases = len(vmEnc) + len(vmShred) + len(vmHeaders)
	c.Note("part 8 (widen.go) reached: %d columnar reads (%d with cursors created after the first Next and SeekToRow(0)), %d files written by VariantColumnWriter, %d files in the layout of other writers holding %d typed decimals narrower than 16 bytes (%d negative), %d reads through evolved reader schemas (%d nested; %d with a column added before the variant column, %d with one dropped before it, %d with fields out of name order)",
		reach.colReads, reach.colReadsLate, reach.colWrites, reach.foreignFiles, reach.narrowLeaves, reach.narrowNegativeLeaves, reach.evolved, reach.evolvedNested, reach.addedBefore, reach.droppedBefore, reach.reordered)
	c.Note("part 9 (navigate.go) reached: %d navigation reads (%d with every cursor of the shredding schema as well) over %d paths (%d ending inside the shredding schema, %d outside it, %d through Elements), %d entries compared (%d present); windows read with a cursor outside the schema: %d of partially shredded objects only, %d of residual rows only, %d of fully typed / null rows only, %d mixed",
		navReach.reads, navReach.withAll, navReach.paths, navReach.inside, navReach.outside, navReach.elems, navReach.entries, navReach.present,
		navReach.winPartial, navReach.winResidual, navReach.winTyped, navReach.winMixed)
	c.Note("float32 values are generated without signalling NaNs: variant.Value keeps a float32 as float64 and the conversion quiets them (hardware behaviour; stated assumption)")
	c.Note("typed writes use only kinds with a Go-native mapping (variant.ValueOf); dates, times, *_ntz timestamps and decimals enter through raw writes")
	c.Note("the columnar VariantColumnWriter / VariantReader do not reach variant columns below a repeated field (resolveVariantColumn rejects them): exercised at the top level and below an optional group; VariantColumnWriter cannot write an absent enclosing group: those rows are written by the row API only")
}

func replayC19(c *core.Ctx, raw json.RawMessage) {
	var head struct {
		Mode  string `json:"mode"`
		Tree  string `json:"tree"`
		Meta  string `json:"meta"`
		Value string `json:"value"`
	}
	if err := json.Unmarshal(raw, &head); err != nil {
		c.Note("unreadable replay: %v", err)
		return
	}
	switch head.Mode {
	case "encode":
		t, err := parseTree(head.Tree)
		if err != nil {
			c.Note("unreadable tree: %v", err)
			return
		}
		checkEncode(c, t)
		c.Case("replay/encode", head.Tree, true)
	case "decode":
		t, err := parseTree(head.Tree)
		meta, e1 := hex.DecodeString(head.Meta)
		val, e2 := hex.DecodeString(head.Value)
		if err != nil || e1 != nil || e2 != nil {
			c.Note("unreadable replay")
			return
		}
		got, derr := goDecode(meta, val)
		if derr != nil {
			c.Violation("decode-rejects-conforming", derr.Error(), raw)
		} else if got.canonText() != t.canonText() {
			c.Violation("decode-conforming-differs", "got "+core.Trunc(got.canonText(), 300), raw)
		}
		c.Case("replay/decode", head.Tree, true)
	case "file":
		var fc fileCase
		if err := json.Unmarshal(raw, &fc); err != nil {
			c.Note("unreadable file case: %v", err)
			return
		}
		checkFile(c, &fc)
		c.Case("replay/file", string(raw), true)
	case "big":
		var bc bigCase
		if err := json.Unmarshal(raw, &bc); err != nil {
			c.Note("unreadable big case: %v", err)
			return
		}
		checkBig(c, &bc)
		c.Case("replay/big", string(raw), true)
	case "arena":
		var ac arenaCase
		if err := json.Unmarshal(raw, &ac); err != nil {
			c.Note("unreadable arena case: %v", err)
			return
		}
		checkArena(c, &ac)
		c.Case("replay/arena", string(raw), true)
	case "nested":
		var nc nestCase
		if err := json.Unmarshal(raw, &nc); err != nil {
			c.Note("unreadable nested case: %v", err)
			return
		}
		checkNested(c, &nc)
		c.Case("replay/nested", string(raw), true)
	default:
		c.Note("replay mode %q is not replayable; rerun the check with the recorded seed", head.Mode)
	}
}
