// C19 — variant values survive encoding, and shredding never changes them.
//
// Part 1 (this section): variant value trees of the harness, their text form
// (the oracle syntax, see oracle/c19.ml), conversions to and from
// variant.Value and to the Go values of the typed API.
package main

import (
	"bytes"
	"encoding/binary"
	"encoding/hex"
	"encoding/json"
	"fmt"
	"io"
	"math"
	"math/big"
	"sort"
	"strings"
	"time"

	"github.com/google/uuid"
	"github.com/parquet-go/parquet-go"
	"github.com/parquet-go/parquet-go/variant"

	"verif/harness/core"
)

func main() { core.Main("C19", runC19, replayC19) }

// tree kinds (first character of the text form)
//
//	n t f  null, true, false
//	i      K = 0..9 int8 int16 int32 int64 date ts ts_ntz time ts_nanos ts_ntz_nanos, value I
//	r      K = 0 float 1 double, bits U
//	d      K = 0..2 decimal4/8/16, Scale, value I (decimal16: D = 16 bytes little endian)
//	b s u  binary, string, uuid: D
//	[ {    array (Elems), object (Names, Elems)
type tree struct {
	Kind  byte
	K     int
	I     int64
	U     uint64
	Scale byte
	D     []byte
	Names []string
	Elems []*tree
}

var intWidth = []int{1, 2, 4, 8, 4, 8, 8, 8, 8, 8}

func zhex(v int64) string { return core.Zs(v) }

func d16Big(le []byte) *big.Int {
	be := make([]byte, 16)
	for i := range le {
		be[15-i] = le[i]
	}
	z := new(big.Int).SetBytes(be)
	if be[0]&0x80 != 0 {
		z.Sub(z, new(big.Int).Lsh(big.NewInt(1), 128))
	}
	return z
}

func d16FromBig(z *big.Int) []byte {
	m := new(big.Int).Set(z)
	if m.Sign() < 0 {
		m.Add(m, new(big.Int).Lsh(big.NewInt(1), 128))
	}
	be := m.FillBytes(make([]byte, 16))
	le := make([]byte, 16)
	for i := range be {
		le[15-i] = be[i]
	}
	return le
}

func bigHex(z *big.Int) string {
	if z.Sign() < 0 {
		return "-" + new(big.Int).Neg(z).Text(16)
	}
	return z.Text(16)
}

func (t *tree) write(sb *strings.Builder, canon bool) {
	switch t.Kind {
	case 'n', 't', 'f':
		sb.WriteByte(t.Kind)
	case 'i':
		fmt.Fprintf(sb, "i%d:%s", t.K, zhex(t.I))
	case 'r':
		fmt.Fprintf(sb, "r%d:%x", t.K, t.U)
	case 'd':
		if t.K == 2 {
			fmt.Fprintf(sb, "d2:%x:%s", t.Scale, bigHex(d16Big(t.D)))
		} else {
			fmt.Fprintf(sb, "d%d:%x:%s", t.K, t.Scale, zhex(t.I))
		}
	case 'b', 's', 'u':
		sb.WriteByte(t.Kind)
		sb.WriteString(hex.EncodeToString(t.D))
	case '[':
		sb.WriteByte('[')
		for i, e := range t.Elems {
			if i > 0 {
				sb.WriteByte(',')
			}
			e.write(sb, canon)
		}
		sb.WriteByte(']')
	case '{':
		idx := make([]int, len(t.Elems))
		for i := range idx {
			idx[i] = i
		}
		if canon {
			sort.SliceStable(idx, func(a, b int) bool { return t.Names[idx[a]] < t.Names[idx[b]] })
		}
		sb.WriteByte('{')
		for n, i := range idx {
			if n > 0 {
				sb.WriteByte(',')
			}
			sb.WriteString(hex.EncodeToString([]byte(t.Names[i])))
			sb.WriteByte('=')
			t.Elems[i].write(sb, canon)
		}
		sb.WriteByte('}')
	default:
		panic("tree kind")
	}
}

// text is the oracle syntax, fields in construction order.
func (t *tree) text() string { var sb strings.Builder; t.write(&sb, false); return sb.String() }

// canonText lists object fields in name order at every level: two trees are
// equal as variant values (objects are unordered) iff their canonText agree.
func (t *tree) canonText() string { var sb strings.Builder; t.write(&sb, true); return sb.String() }

// canon returns the tree with every object's fields in name order.
func (t *tree) canon() *tree {
	c := *t
	if t.Kind == '[' || t.Kind == '{' {
		c.Elems = make([]*tree, len(t.Elems))
		for i, e := range t.Elems {
			c.Elems[i] = e.canon()
		}
	}
	if t.Kind == '{' {
		idx := make([]int, len(t.Elems))
		for i := range idx {
			idx[i] = i
		}
		sort.SliceStable(idx, func(a, b int) bool { return t.Names[idx[a]] < t.Names[idx[b]] })
		names := make([]string, len(idx))
		elems := make([]*tree, len(idx))
		for n, i := range idx {
			names[n], elems[n] = t.Names[i], c.Elems[i]
		}
		c.Names, c.Elems = names, elems
	}
	return &c
}

type parser struct {
	s string
	p int
}

func (p *parser) peek() byte {
	if p.p < len(p.s) {
		return p.s[p.p]
	}
	return 0
}
func (p *parser) expect(c byte) {
	if p.peek() != c {
		panic(fmt.Sprintf("parse: expected %c at %d", c, p.p))
	}
	p.p++
}
func isHex(c byte) bool { return c >= '0' && c <= '9' || c >= 'a' && c <= 'f' }
func (p *parser) hexrun() string {
	b := p.p
	for isHex(p.peek()) {
		p.p++
	}
	return p.s[b:p.p]
}
func (p *parser) big() *big.Int {
	neg := p.peek() == '-'
	if neg {
		p.p++
	}
	z, ok := new(big.Int).SetString("0"+p.hexrun(), 16)
	if !ok {
		panic("parse: number")
	}
	if neg {
		z.Neg(z)
	}
	return z
}
func (p *parser) bytes() []byte {
	b, err := hex.DecodeString(p.hexrun())
	if err != nil {
		panic("parse: hex")
	}
	return b
}

func (p *parser) tree() *tree {
	c := p.peek()
	p.p++
	switch c {
	case 'n', 't', 'f':
		return &tree{Kind: c}
	case 'i':
		k := int(p.peek() - '0')
		p.p++
		p.expect(':')
		return &tree{Kind: 'i', K: k, I: p.big().Int64()}
	case 'r':
		k := int(p.peek() - '0')
		p.p++
		p.expect(':')
		return &tree{Kind: 'r', K: k, U: p.big().Uint64()}
	case 'd':
		k := int(p.peek() - '0')
		p.p++
		p.expect(':')
		sc := byte(p.big().Uint64())
		p.expect(':')
		z := p.big()
		if k == 2 {
			return &tree{Kind: 'd', K: 2, Scale: sc, D: d16FromBig(z)}
		}
		return &tree{Kind: 'd', K: k, Scale: sc, I: z.Int64()}
	case 'b', 's', 'u':
		return &tree{Kind: c, D: p.bytes()}
	case '[':
		t := &tree{Kind: '['}
		for p.peek() != ']' {
			t.Elems = append(t.Elems, p.tree())
			if p.peek() == ',' {
				p.p++
			}
		}
		p.p++
		return t
	case '{':
		t := &tree{Kind: '{'}
		for p.peek() != '}' {
			name := string(p.bytes())
			p.expect('=')
			t.Names = append(t.Names, name)
			t.Elems = append(t.Elems, p.tree())
			if p.peek() == ',' {
				p.p++
			}
		}
		p.p++
		return t
	}
	panic(fmt.Sprintf("parse: unexpected %q at %d", c, p.p-1))
}

func parseTree(s string) (t *tree, err error) {
	defer func() {
		if r := recover(); r != nil {
			err = fmt.Errorf("%v", r)
		}
	}()
	p := &parser{s: s}
	t = p.tree()
	if p.p != len(s) {
		return nil, fmt.Errorf("parse: trailing input at %d", p.p)
	}
	return t, nil
}

// toValue builds the variant.Value of the public API.
func (t *tree) toValue() variant.Value {
	switch t.Kind {
	case 'n':
		return variant.Null()
	case 't':
		return variant.Bool(true)
	case 'f':
		return variant.Bool(false)
	case 'i':
		switch t.K {
		case 0:
			return variant.Int8(int8(t.I))
		case 1:
			return variant.Int16(int16(t.I))
		case 2:
			return variant.Int32(int32(t.I))
		case 3:
			return variant.Int64(t.I)
		case 4:
			return variant.Date(int32(t.I))
		case 5:
			return variant.Timestamp(t.I)
		case 6:
			return variant.TimestampNTZ(t.I)
		case 7:
			return variant.Time(t.I)
		case 8:
			return variant.TimestampNanos(t.I)
		default:
			return variant.TimestampNTZNanos(t.I)
		}
	case 'r':
		if t.K == 0 {
			return variant.Float(math.Float32frombits(uint32(t.U)))
		}
		return variant.Double(math.Float64frombits(t.U))
	case 'd':
		switch t.K {
		case 0:
			return variant.Decimal4(int32(t.I), t.Scale)
		case 1:
			return variant.Decimal8(t.I, t.Scale)
		default:
			var d [16]byte
			copy(d[:], t.D)
			return variant.Decimal16(d, t.Scale)
		}
	case 'b':
		return variant.Binary(append([]byte{}, t.D...))
	case 's':
		return variant.String(string(t.D))
	case 'u':
		var u uuid.UUID
		copy(u[:], t.D)
		return variant.UUID(u)
	case '[':
		es := make([]variant.Value, len(t.Elems))
		for i, e := range t.Elems {
			es[i] = e.toValue()
		}
		return variant.MakeArray(es)
	default:
		fs := make([]variant.Field, len(t.Elems))
		for i, e := range t.Elems {
			fs[i] = variant.Field{Name: t.Names[i], Value: e.toValue()}
		}
		return variant.MakeObject(fs)
	}
}

var primToIntKind = map[variant.PrimitiveType]int{
	variant.PrimitiveInt8: 0, variant.PrimitiveInt16: 1, variant.PrimitiveInt32: 2, variant.PrimitiveInt64: 3,
	variant.PrimitiveDate: 4, variant.PrimitiveTimestamp: 5, variant.PrimitiveTimestampNTZ: 6, variant.PrimitiveTime: 7,
	variant.PrimitiveTimestampNanos: 8, variant.PrimitiveTimestampNTZNanos: 9,
}

// fromValue reads a variant.Value back into a tree through its accessors.
func fromValue(v variant.Value) *tree {
	switch v.Basic() {
	case variant.BasicObject:
		t := &tree{Kind: '{'}
		for _, f := range v.ObjectValue().Fields {
			t.Names = append(t.Names, f.Name)
			t.Elems = append(t.Elems, fromValue(f.Value))
		}
		return t
	case variant.BasicArray:
		t := &tree{Kind: '['}
		for _, e := range v.ArrayValue().Elements {
			t.Elems = append(t.Elems, fromValue(e))
		}
		return t
	case variant.BasicShortString:
		return &tree{Kind: 's', D: []byte(v.Str())}
	}
	switch p := v.Type(); p {
	case variant.PrimitiveNull:
		return &tree{Kind: 'n'}
	case variant.PrimitiveTrue:
		return &tree{Kind: 't'}
	case variant.PrimitiveFalse:
		return &tree{Kind: 'f'}
	case variant.PrimitiveFloat:
		return &tree{Kind: 'r', K: 0, U: uint64(math.Float32bits(float32(v.FloatValue())))}
	case variant.PrimitiveDouble:
		return &tree{Kind: 'r', K: 1, U: math.Float64bits(v.FloatValue())}
	case variant.PrimitiveDecimal4:
		return &tree{Kind: 'd', K: 0, Scale: v.Scale(), I: v.Int()}
	case variant.PrimitiveDecimal8:
		return &tree{Kind: 'd', K: 1, Scale: v.Scale(), I: v.Int()}
	case variant.PrimitiveDecimal16:
		d := v.Decimal16Value()
		return &tree{Kind: 'd', K: 2, Scale: v.Scale(), D: append([]byte{}, d[:]...)}
	case variant.PrimitiveBinary:
		return &tree{Kind: 'b', D: append([]byte{}, v.Bytes()...)}
	case variant.PrimitiveString:
		return &tree{Kind: 's', D: []byte(v.Str())}
	case variant.PrimitiveUUID:
		u := v.UUIDValue()
		return &tree{Kind: 'u', D: append([]byte{}, u[:]...)}
	default:
		if k, ok := primToIntKind[p]; ok {
			return &tree{Kind: 'i', K: k, I: v.Int()}
		}
		return &tree{Kind: '?'}
	}
}

// goAny is the Go value that the typed API exchanges for the tree
// (variant.Value.GoValue: date -> int32, time / *_ntz -> int64, decimal4/8 ->
// int32/int64 unscaled, decimal16 -> [16]byte, ts -> time.Time UTC).
func (t *tree) goAny() any {
	switch t.Kind {
	case 'n':
		return nil
	case 't':
		return true
	case 'f':
		return false
	case 'i':
		switch t.K {
		case 0:
			return int8(t.I)
		case 1:
			return int16(t.I)
		case 2, 4:
			return int32(t.I)
		case 5:
			return time.UnixMicro(t.I).UTC()
		case 8:
			return time.Unix(0, t.I).UTC()
		default:
			return t.I
		}
	case 'r':
		if t.K == 0 {
			return math.Float32frombits(uint32(t.U))
		}
		return math.Float64frombits(t.U)
	case 'd':
		switch t.K {
		case 0:
			return int32(t.I)
		case 1:
			return t.I
		default:
			var d [16]byte
			copy(d[:], t.D)
			return d
		}
	case 'b':
		return append([]byte{}, t.D...)
	case 's':
		return string(t.D)
	case 'u':
		var u uuid.UUID
		copy(u[:], t.D)
		return u
	case '[':
		a := make([]any, len(t.Elems))
		for i, e := range t.Elems {
			a[i] = e.goAny()
		}
		return a
	default:
		m := make(map[string]any, len(t.Elems))
		for i, e := range t.Elems {
			m[t.Names[i]] = e.goAny()
		}
		return m
	}
}

// anyText renders a Go value of the typed API canonically, with its dynamic
// type, floats by bits, map keys in order.
func anyText(x any) string {
	var sb strings.Builder
	writeAny(&sb, x)
	return sb.String()
}

func writeAny(sb *strings.Builder, x any) {
	switch v := x.(type) {
	case nil:
		sb.WriteString("nil")
	case bool:
		fmt.Fprintf(sb, "bool:%v", v)
	case int8:
		fmt.Fprintf(sb, "int8:%d", v)
	case int16:
		fmt.Fprintf(sb, "int16:%d", v)
	case int32:
		fmt.Fprintf(sb, "int32:%d", v)
	case int64:
		fmt.Fprintf(sb, "int64:%d", v)
	case float32:
		fmt.Fprintf(sb, "float32:%08x", math.Float32bits(v))
	case float64:
		fmt.Fprintf(sb, "float64:%016x", math.Float64bits(v))
	case string:
		fmt.Fprintf(sb, "string:%x", v)
	case []byte:
		fmt.Fprintf(sb, "bytes:%x", v)
	case [16]byte:
		fmt.Fprintf(sb, "byte16:%x", v[:])
	case uuid.UUID:
		fmt.Fprintf(sb, "uuid:%x", v[:])
	case time.Time:
		fmt.Fprintf(sb, "time:%d.%09d:%s", v.Unix(), v.Nanosecond(), v.Location())
	case []any:
		sb.WriteByte('[')
		for i, e := range v {
			if i > 0 {
				sb.WriteByte(',')
			}
			writeAny(sb, e)
		}
		sb.WriteByte(']')
	case map[string]any:
		keys := make([]string, 0, len(v))
		for k := range v {
			keys = append(keys, k)
		}
		sort.Strings(keys)
		sb.WriteByte('{')
		for i, k := range keys {
			if i > 0 {
				sb.WriteByte(',')
			}
			fmt.Fprintf(sb, "%x=", k)
			writeAny(sb, v[k])
		}
		sb.WriteByte('}')
	default:
		fmt.Fprintf(sb, "?%T:%v", x, x)
	}
}

// native tells whether the typed API can write the tree without changing its
// variant type (only Go-native kinds; nanosecond timestamps only when
// timeToVariant keeps nanoseconds).
func (t *tree) native() bool {
	switch t.Kind {
	case 'd':
		return false
	case 'i':
		switch t.K {
		case 0, 1, 2, 3, 5:
			return true
		case 8:
			tm := time.Unix(0, t.I).UTC()
			return t.I%1000 != 0 && tm.Year() >= 1678 && tm.Year() <= 2261
		}
		return false
	case '[', '{':
		for _, e := range t.Elems {
			if !e.native() {
				return false
			}
		}
	}
	return true
}

// maxFields is the largest number of fields of an object of the tree.
func (t *tree) maxFields() int {
	m := 0
	if t.Kind == '{' {
		m = len(t.Elems)
	}
	for _, e := range t.Elems {
		if k := e.maxFields(); k > m {
			m = k
		}
	}
	return m
}

func (t *tree) size() int {
	n := 1
	for _, e := range t.Elems {
		n += e.size()
	}
	return n
}

// wellFormed: names distinct in every object (what the property quantifies over).
func (t *tree) wellFormed() bool {
	if t.Kind == '{' {
		seen := map[string]bool{}
		for _, n := range t.Names {
			if seen[n] {
				return false
			}
			seen[n] = true
		}
	}
	for _, e := range t.Elems {
		if !e.wellFormed() {
			return false
		}
	}
	return true
}

var (
	_ = bytes.NewReader
	_ = binary.LittleEndian
	_ = json.Marshal
	_ = io.EOF
	_ parquet.Node
)
