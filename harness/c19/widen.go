// C19 — part 8: the other access paths and the other writers' layouts.
//
//   - the columnar API: every file is also read through parquet.VariantReader
//     (variant_column_reader.go: cursors, typed vectors, location tags,
//     residuals; windows of every size; cursors created before and after the
//     first Next, SeekToRow) and every case is also written through
//     parquet.VariantColumnWriter (variant_column_writer.go) and that file is
//     read back in every form;
//   - writer options that change the pages of the leaf columns: dictionary
//     encoding of the typed leaves (or of every column), DictionaryMaxBytes
//     small enough that a chunk starts with dictionary pages and continues
//     PLAIN, pages of a few values, many rows;
//   - typed leaves laid out as other writers do (the library's own shredding
//     writer stores a decimal16 in 16 bytes only): DECIMAL over
//     FIXED_LEN_BYTE_ARRAY(n) for every n that holds the precision, over
//     BYTE_ARRAY of minimal length and of minimal length plus sign bytes; the
//     rows are shredded by the library, the leaf values re-laid out and stored
//     through the row API;
//   - convert-to-unshredded through reader schemas that are not the file's:
//     sibling columns of the variant column (before and after it in name
//     order, one leaf or several) present in the file and dropped by the
//     reader, absent from the file and added by the reader, groups whose
//     fields are not in name order (on either side), at the top level and
//     inside the group that encloses the variant column in the nested
//     placements.
package main

import (
	"bytes"
	"encoding/hex"
	"encoding/json"
	"fmt"
	"io"
	"math/big"
	"math/rand"
	"sort"
	"strings"

	"github.com/google/uuid"
	"github.com/parquet-go/parquet-go"
	"github.com/parquet-go/parquet-go/variant"

	"verif/harness/core"
)

// reach counts what the cases of this part reached (reported as a note).
var reach struct {
	colReads, colReadsLate, colWrites                             int
	foreignFiles, narrowLeaves, narrowNegativeLeaves              int
	evolved, evolvedNested, addedBefore, droppedBefore, reordered int
}

// plus: the dimensions shared by the top-level and the nested file cases.
type plus struct {
	Dict    string   `json:"dict,omitempty"`           // "" | typed (the typed_value leaves) | all (every column)
	DictMax int      `json:"dict_max_bytes,omitempty"` // parquet.DictionaryMaxBytes
	Window  int      `json:"window,omitempty"`         // rows per VariantReader.Next (0 = 1024)
	Late    bool     `json:"late_cursors,omitempty"`   // cursors below the root are created after the first Next
	Evo     *evoSpec `json:"evolve,omitempty"`
	// typed navigation (navigate.go): the paths whose cursors a second reader
	// holds ("." or steps f<hex name> | e joined by "/"); NavAll: that reader
	// also holds every cursor of the shredding schema
	Nav    []string `json:"navigate,omitempty"`
	NavAll bool     `json:"navigate_with_all_cursors,omitempty"`
}

func (p *plus) writerOptions() []parquet.WriterOption {
	var opts []parquet.WriterOption
	if p.Dict == "all" {
		for _, k := range []parquet.Kind{parquet.Int32, parquet.Int64, parquet.Float, parquet.Double, parquet.ByteArray, parquet.FixedLenByteArray} {
			opts = append(opts, parquet.DefaultEncodingFor(k, &parquet.RLEDictionary))
		}
	}
	if p.DictMax > 0 {
		opts = append(opts, parquet.DictionaryMaxBytes(int64(p.DictMax)))
	}
	return opts
}

func (p *plus) text() string {
	var parts []string
	if p.Dict != "" {
		parts = append(parts, fmt.Sprintf("dictionary=%s max=%d", p.Dict, p.DictMax))
	}
	if p.Window != 0 {
		parts = append(parts, fmt.Sprintf("window=%d", p.Window))
	}
	if p.Late {
		parts = append(parts, "late-cursors")
	}
	if len(p.Nav) > 0 {
		parts = append(parts, "navigate="+strings.Join(p.Nav, ","))
		if p.NavAll {
			parts = append(parts, "with-all-cursors")
		}
	}
	return strings.Join(parts, " ")
}

func (g *gen) plus(nest string, bulk bool) plus {
	r := g.c.Rng
	var p plus
	if bulk {
		p.Dict = []string{"typed", "typed", "typed", "typed", "typed", "typed", "all", "all", "all", ""}[r.Intn(10)]
		if p.Dict != "" {
			p.DictMax = []int{16, 32, 64, 128, 256, 1024}[r.Intn(6)]
		}
	} else {
		p.Dict = []string{"", "", "", "", "typed", "typed", "all"}[r.Intn(7)]
		if p.Dict != "" {
			p.DictMax = []int{0, 8, 16, 64}[r.Intn(4)]
		}
	}
	p.Window = []int{0, 1, 2, 3, 5, 8, 16, 64, 1000}[r.Intn(9)]
	p.Late = r.Intn(3) == 0
	if (bulk && r.Intn(6) == 0) || (!bulk && r.Intn(2) == 0) {
		p.Evo = g.evo(nest)
	}
	return p
}

// bulkSchema: schemas whose typed leaves receive most of the values.
func (g *gen) bulkSchema() *sch {
	r := g.c.Rng
	switch r.Intn(5) {
	case 0, 1:
		return g.primType()
	case 2, 3:
		s := &sch{Kind: 'O'}
		names := append([]string{}, g.names...)
		sort.Strings(names)
		for _, n := range names {
			if r.Intn(2) == 0 {
				s.Names = append(s.Names, n)
				s.Fields = append(s.Fields, g.primType())
			}
		}
		if len(s.Names) == 0 {
			s.Names, s.Fields = []string{"a"}, []*sch{g.primType()}
		}
		return s
	}
	return g.schema(2)
}

// pageMix counts the column chunks of the file whose data pages are all
// dictionary encoded, all plain, or both.
func pageMix(data []byte) (dict, plain, mixed int) {
	defer func() { recover() }()
	f, err := parquet.OpenFile(bytes.NewReader(data), int64(len(data)))
	if err != nil {
		return
	}
	for _, rg := range f.RowGroups() {
		for _, chunk := range rg.ColumnChunks() {
			d, p := false, false
			pages := chunk.Pages()
			for {
				pg, err := pages.ReadPage()
				if err != nil {
					break
				}
				if pg.Dictionary() != nil {
					d = true
				} else {
					p = true
				}
				parquet.Release(pg)
			}
			pages.Close()
			switch {
			case d && p:
				mixed++
			case d:
				dict++
			case p:
				plain++
			}
		}
	}
	return
}

// runBulkCase runs a many-row case and records whether its file has a chunk
// that starts dictionary encoded and continues plain.
func runBulkCase(c *core.Ctx, fc *fileCase) (mixed int) {
	if c.Probe(func() { checkFile(c, fc) }) {
		checkFile(c, shrinkFile(c, fc))
	}
	if s, schema, fschema, rows, err := fc.build(); err == nil {
		if data, err := fc.write(s, schema, fschema, rows); err == nil {
			_, _, mixed = pageMix(data)
		}
	}
	key, _ := json.Marshal(fc)
	bucket := "file/bulk/uniform-chunks"
	if mixed > 0 {
		bucket = "file/bulk/dictionary-then-plain"
	}
	c.Case(bucket, string(key), true)
	return mixed
}

// ---------------------------------------------------------------------------
// the columnar writer

// colWrite writes the rows (nil = a null row when the column is optional, the
// variant null otherwise) through VariantColumnWriter; the id column (leaf
// column 0) through its ColumnWriter, as an application writing column by
// column would.
func colWrite(schema *parquet.Schema, path []string, rows []*tree, _ []bool, optional bool, opts []parquet.WriterOption) (data []byte, err error) {
	defer func() {
		if r := recover(); r != nil {
			err = fmt.Errorf("panic: %v", r)
		}
	}()
	reach.colWrites++
	buf := new(bytes.Buffer)
	w := parquet.NewWriter(buf, append([]parquet.WriterOption{schema}, opts...)...)
	vw, err := parquet.NewVariantColumnWriter(w, path...)
	if err != nil {
		return nil, err
	}
	id := w.ColumnWriters()[0]
	one := make([]parquet.Value, 1)
	for i, t := range rows {
		one[0] = parquet.Int32Value(int32(i)).Level(0, 0, 0)
		if _, err = id.WriteRowValues(one); err != nil {
			return nil, fmt.Errorf("id column, row %d: %w", i, err)
		}
		switch {
		case t == nil && optional:
			err = vw.WriteNullRow()
		case t == nil:
			err = vw.WriteValue(variant.Null())
		case i%2 == 0:
			err = vw.WriteValue(t.toValue())
		default:
			if err = vw.BeginRow(); err == nil {
				t.toValue().Write(vw)
				err = vw.EndRow()
			}
		}
		if err != nil {
			return nil, fmt.Errorf("row %d: %w", i, err)
		}
	}
	if err = w.Close(); err != nil {
		return nil, err
	}
	return buf.Bytes(), nil
}

// ---------------------------------------------------------------------------
// the columnar reader

type colReader struct {
	idx map[*parquet.VariantCursor][]int32 // entry -> index in the typed vectors, per window
}

// materialize creates the cursors of every shredded position, so that the
// reader projects every column; the kinds must be those of the schema.
func materialize(c *parquet.VariantCursor, s *sch) error {
	want := map[byte]parquet.VariantCursorKind{'N': parquet.VariantCursorUnshredded, 'P': parquet.VariantCursorLeaf, 'O': parquet.VariantCursorObject, 'L': parquet.VariantCursorList}[s.Kind]
	if c.Kind() != want {
		return fmt.Errorf("cursor kind %v at a position shredded as %c", c.Kind(), s.Kind)
	}
	switch s.Kind {
	case 'O':
		if got := strings.Join(c.Fields(), "\x00"); got != strings.Join(s.Names, "\x00") {
			return fmt.Errorf("cursor fields %q, schema fields %q", c.Fields(), s.Names)
		}
		for i, n := range s.Names {
			if err := materialize(c.Field(n), s.Fields[i]); err != nil {
				return err
			}
		}
	case 'L':
		return materialize(c.Elements(), s.Elem)
	}
	return nil
}

func (cr *colReader) fill(c *parquet.VariantCursor, s *sch) error {
	idx := make([]int32, len(c.Locs()))
	for i := range idx {
		idx[i] = -1
	}
	for d, e := range c.TypedRows() {
		if int(e) >= len(idx) {
			return fmt.Errorf("TypedRows holds entry %d of %d", e, len(idx))
		}
		idx[e] = int32(d)
	}
	cr.idx[c] = idx
	switch s.Kind {
	case 'O':
		for i, n := range s.Names {
			if err := cr.fill(c.Field(n), s.Fields[i]); err != nil {
				return err
			}
		}
	case 'L':
		return cr.fill(c.Elements(), s.Elem)
	}
	return nil
}

func signExtend16LE(be []byte) (out [16]byte, err error) {
	if len(be) > 16 || len(be) == 0 {
		return out, fmt.Errorf("decimal of %d bytes", len(be))
	}
	for i := range be {
		out[i] = be[len(be)-1-i]
	}
	if be[0]&0x80 != 0 {
		for i := len(be); i < 16; i++ {
			out[i] = 0xff
		}
	}
	return out, nil
}

// typed: the d-th value of the typed vectors of a leaf cursor as the variant
// value the shredded types table of the specification assigns to it.
func (cr *colReader) typed(c *parquet.VariantCursor, s *sch, d int) (v variant.Value, err error) {
	p := s.Prim
	short := func(n int) error {
		if d >= n {
			return fmt.Errorf("typed vector of %d values, value %d wanted", n, d)
		}
		return nil
	}
	i32 := func() (int32, error) {
		x := c.Int32s()
		if err := short(len(x)); err != nil {
			return 0, err
		}
		return x[d], nil
	}
	i64 := func() (int64, error) {
		x := c.Int64s()
		if err := short(len(x)); err != nil {
			return 0, err
		}
		return x[d], nil
	}
	ba := func() ([]byte, error) {
		slab, off := c.ByteArrays()
		if err := short(len(off) - 1); err != nil {
			return nil, err
		}
		return append([]byte{}, slab[off[d]:off[d+1]]...), nil
	}
	flba := func() ([]byte, error) {
		slab, size := c.FixedLenByteArrays()
		if size <= 0 {
			return nil, fmt.Errorf("fixed-length vector of size %d", size)
		}
		if err := short(len(slab) / size); err != nil {
			return nil, err
		}
		return append([]byte{}, slab[d*size:(d+1)*size]...), nil
	}
	switch p[0] {
	case 'b':
		x := c.Booleans()
		if err := short(len(x)); err != nil {
			return v, err
		}
		return variant.Bool(x[d]), nil
	case 's', 'y':
		b, err := ba()
		if err != nil {
			return v, err
		}
		if p[0] == 's' {
			return variant.String(string(b)), nil
		}
		return variant.Binary(b), nil
	case 'u':
		b, err := flba()
		if err != nil {
			return v, err
		}
		if len(b) != 16 {
			return v, fmt.Errorf("uuid of %d bytes", len(b))
		}
		return variant.UUID(uuid.UUID(b)), nil
	case 'r':
		if p[1] == '0' {
			x := c.Floats()
			if err := short(len(x)); err != nil {
				return v, err
			}
			return variant.Float(x[d]), nil
		}
		x := c.Doubles()
		if err := short(len(x)); err != nil {
			return v, err
		}
		return variant.Double(x[d]), nil
	case 'i':
		switch p[1] {
		case '0', '1', '2', '4':
			x, err := i32()
			if err != nil {
				return v, err
			}
			switch p[1] {
			case '0':
				return variant.Int8(int8(x)), nil
			case '1':
				return variant.Int16(int16(x)), nil
			case '2':
				return variant.Int32(x), nil
			}
			return variant.Date(x), nil
		}
		x, err := i64()
		if err != nil {
			return v, err
		}
		switch p[1] {
		case '3':
			return variant.Int64(x), nil
		case '5':
			return variant.Timestamp(x), nil
		case '6':
			return variant.TimestampNTZ(x), nil
		case '7':
			return variant.Time(x), nil
		case '8':
			return variant.TimestampNanos(x), nil
		}
		return variant.TimestampNTZNanos(x), nil
	case 'd':
		var k, prec, scale int
		fmt.Sscanf(p, "d%d:%x:%x", &k, &prec, &scale)
		switch k {
		case 0:
			x, err := i32()
			return variant.Decimal4(x, byte(scale)), err
		case 1:
			x, err := i64()
			return variant.Decimal8(x, byte(scale)), err
		}
		var b []byte
		if s.Width > 0 || (s.Width == 0 && !s.Plain) {
			b, err = flba()
		} else {
			b, err = ba()
		}
		if err != nil {
			return v, err
		}
		le, err := signExtend16LE(b)
		return variant.Decimal16(le, byte(scale)), err
	}
	return v, fmt.Errorf("leaf type %q", p)
}

// value rebuilds the variant value of entry e of a cursor from the columnar
// API alone; present = false: no value (a null row, a missing field).
func (cr *colReader) value(c *parquet.VariantCursor, s *sch, e int) (v variant.Value, present bool, err error) {
	locs := c.Locs()
	if e < 0 || e >= len(locs) {
		return v, false, fmt.Errorf("entry %d of %d", e, len(locs))
	}
	switch locs[e] {
	case variant.LocMissing:
		return variant.Null(), false, nil
	case variant.LocNull:
		return variant.Null(), true, nil
	case variant.LocResidual:
		r, ok, err := c.Residual(e)
		if err != nil {
			return v, false, err
		}
		if !ok {
			return v, false, fmt.Errorf("entry %d is tagged residual and has no residual value", e)
		}
		return r, true, nil
	case variant.LocTyped:
		if s.Kind != 'P' {
			return v, false, fmt.Errorf("entry %d is tagged typed at a position shredded as %c", e, s.Kind)
		}
		d := cr.idx[c][e]
		if d < 0 {
			return v, false, fmt.Errorf("typed entry %d is not in TypedRows", e)
		}
		v, err = cr.typed(c, s, int(d))
		return v, true, err
	case variant.LocTypedObject:
		if s.Kind != 'O' {
			return v, false, fmt.Errorf("entry %d is tagged typed-object at a position shredded as %c", e, s.Kind)
		}
		var fields []variant.Field
		for i, name := range s.Names {
			fv, ok, err := cr.value(c.Field(name), s.Fields[i], e)
			if err != nil {
				return v, false, fmt.Errorf("field %q: %w", name, err)
			}
			if ok {
				fields = append(fields, variant.Field{Name: name, Value: fv})
			}
		}
		if r, ok, err := c.Residual(e); err != nil {
			return v, false, err
		} else if ok {
			if r.Basic() != variant.BasicObject {
				return v, false, fmt.Errorf("the residual of a partially shredded object is not an object")
			}
			for _, f := range r.ObjectValue().Fields {
				dup := false
				for _, n := range s.Names {
					dup = dup || n == f.Name
				}
				if dup {
					return v, false, fmt.Errorf("the residual of a partially shredded object holds the shredded field %q", f.Name)
				}
				fields = append(fields, f)
			}
		}
		return variant.MakeObject(fields), true, nil
	case variant.LocTypedList:
		if s.Kind != 'L' {
			return v, false, fmt.Errorf("entry %d is tagged typed-list at a position shredded as %c", e, s.Kind)
		}
		off := c.ListOffsets()
		if e+1 >= len(off) {
			return v, false, fmt.Errorf("ListOffsets has %d offsets, entry %d", len(off), e)
		}
		el := c.Elements()
		elems := []variant.Value{}
		for i := off[e]; i < off[e+1]; i++ {
			ev, ok, err := cr.value(el, s.Elem, int(i))
			if err != nil {
				return v, false, err
			}
			if !ok {
				ev = variant.Null()
			}
			elems = append(elems, ev)
		}
		return variant.MakeArray(elems), true, nil
	}
	return v, false, fmt.Errorf("location tag %v", locs[e])
}

// colRead reads every row of the variant column at path through
// VariantReader and returns the canonical text of each ("" = no value).  With
// late, the first window is read with the root cursor alone (rows whose value
// lives below the root are left open), the other cursors are created then, the
// rest is read, and the first window is read again after SeekToRow(0).
func colRead(data []byte, s *sch, path []string, window int, late bool) (out []string, err error) {
	defer func() {
		if r := recover(); r != nil {
			err = fmt.Errorf("panic: %v", r)
		}
	}()
	if window <= 0 {
		window = 1024
	}
	reach.colReads++
	if late {
		reach.colReadsLate++
	}
	f, err := parquet.OpenFile(bytes.NewReader(data), int64(len(data)))
	if err != nil {
		return nil, err
	}
	for _, rg := range f.RowGroups() {
		r, err := parquet.NewVariantReader(rg, path...)
		if err != nil {
			return nil, fmt.Errorf("NewVariantReader: %w", err)
		}
		root := r.Root()
		cr := &colReader{idx: map[*parquet.VariantCursor][]int32{}}
		base := len(out)
		text := func(e int) (string, error) {
			v, ok, err := cr.value(root, s, e)
			if err != nil {
				return "", fmt.Errorf("row %d: %w", len(out), err)
			}
			if !ok {
				return "", nil
			}
			return fromValue(v).canonText(), nil
		}
		readAll := func() error {
			for {
				n, err := r.Next(window)
				if err == io.EOF {
					return nil
				}
				if err != nil {
					return fmt.Errorf("Next at row %d: %w", len(out), err)
				}
				if n <= 0 || len(root.Locs()) != n {
					return fmt.Errorf("Next returned %d rows, the root cursor has %d entries", n, len(root.Locs()))
				}
				if err := cr.fill(root, s); err != nil {
					return err
				}
				for e := 0; e < n; e++ {
					t, err := text(e)
					if err != nil {
						return err
					}
					out = append(out, t)
				}
			}
		}
		first := 0
		if late && rg.NumRows() > 0 {
			n, err := r.Next(window)
			if err != nil {
				r.Close()
				return nil, fmt.Errorf("first Next: %w", err)
			}
			first = n
			for e := 0; e < n; e++ {
				switch root.Locs()[e] {
				case variant.LocMissing, variant.LocNull, variant.LocResidual:
					t, err := text(e)
					if err != nil {
						r.Close()
						return nil, err
					}
					out = append(out, t)
				default:
					out = append(out, "?")
				}
			}
		}
		if err := materialize(root, s); err != nil {
			r.Close()
			return nil, err
		}
		if err := readAll(); err != nil {
			r.Close()
			return nil, err
		}
		if first > 0 {
			// the first window again, now with every cursor
			if err := r.SeekToRow(0); err != nil {
				r.Close()
				return nil, fmt.Errorf("SeekToRow(0): %w", err)
			}
			n, err := r.Next(first)
			if err != nil || n != first {
				r.Close()
				return nil, fmt.Errorf("Next(%d) after SeekToRow(0): %d, %v", first, n, err)
			}
			if err := cr.fill(root, s); err != nil {
				r.Close()
				return nil, err
			}
			for e := 0; e < n; e++ {
				v, ok, err := cr.value(root, s, e)
				if err != nil {
					r.Close()
					return nil, fmt.Errorf("row %d after SeekToRow(0): %w", e, err)
				}
				t := ""
				if ok {
					t = fromValue(v).canonText()
				}
				if prev := out[base+e]; prev != "?" && prev != t {
					r.Close()
					return nil, fmt.Errorf("row %d reads as %s with the root cursor alone and as %s after SeekToRow(0)", e, core.Trunc(prev, 200), core.Trunc(t, 200))
				}
				out[base+e] = t
			}
		}
		if err := r.Close(); err != nil {
			return nil, fmt.Errorf("Close: %w", err)
		}
	}
	return out, nil
}

// ---------------------------------------------------------------------------
// typed leaves as other writers lay them out

func (s *sch) foreign() bool {
	switch s.Kind {
	case 'P':
		return s.Width != 0
	case 'L':
		return s.Elem.foreign()
	case 'O':
		for _, f := range s.Fields {
			if f.foreign() {
				return true
			}
		}
	}
	return false
}

// leafWidths maps the column path of every typed leaf with a layout of its
// own to its Width; prefix is the path of the variant group.
func (s *sch) leafWidths(prefix []string) map[string]int {
	m := map[string]int{}
	var walk func(s *sch, prefix []string)
	walk = func(s *sch, prefix []string) {
		at := func(more ...string) []string { return append(append([]string{}, prefix...), more...) }
		switch s.Kind {
		case 'P':
			if s.Width != 0 {
				m[strings.Join(at("typed_value"), "\x00")] = s.Width
			}
		case 'L':
			walk(s.Elem, at("typed_value", "list", "element"))
		case 'O':
			for i, f := range s.Fields {
				walk(f, at("typed_value", s.Names[i]))
			}
		}
	}
	walk(s, prefix)
	return m
}

// relayout: a decimal of 16 big-endian two's complement bytes in the layout
// of the width: n bytes, the minimal length, or the minimal length and up to
// three more sign bytes (a function of the value).
func relayout(b []byte, width int) ([]byte, error) {
	if len(b) != 16 {
		return nil, fmt.Errorf("decimal leaf of %d bytes from the library's writer", len(b))
	}
	sign := byte(0)
	if b[0]&0x80 != 0 {
		sign = 0xff
	}
	min := 16
	for min > 1 && b[16-min] == sign && (b[16-min+1]&0x80 != 0) == (sign != 0) {
		min--
	}
	n := width
	switch width {
	case -1:
		n = min
	case -2:
		n = min + int(b[15]%4)
		if n > 16 {
			n = 16
		}
	}
	if n < min {
		return nil, fmt.Errorf("decimal %x does not fit %d bytes", b, n)
	}
	return append([]byte{}, b[16-n:]...), nil
}

// writeForeign stores rows that the library shredded for the native schema in
// a file of the foreign schema (same columns, other leaf layouts).
func writeForeign(native, foreign *parquet.Schema, rows []parquet.Row, widths map[string]int, opts []parquet.WriterOption) (data []byte, err error) {
	defer func() {
		if r := recover(); r != nil {
			err = fmt.Errorf("panic: %v", r)
		}
	}()
	ncols, fcols := native.Columns(), foreign.Columns()
	if len(ncols) != len(fcols) {
		return nil, fmt.Errorf("harness: %d native and %d foreign columns", len(ncols), len(fcols))
	}
	width := make([]int, len(fcols))
	fixed := make([]bool, len(fcols))
	for i, p := range fcols {
		width[i] = widths[strings.Join(p, "\x00")]
		if leaf, ok := foreign.Lookup(p...); ok {
			fixed[i] = leaf.Node.Type().Kind() == parquet.FixedLenByteArray
		}
	}
	reach.foreignFiles++
	out := make([]parquet.Row, len(rows))
	for i, row := range rows {
		out[i] = make(parquet.Row, len(row))
		for j, v := range row {
			ci := v.Column()
			if width[ci] != 0 && !v.IsNull() {
				nb, err := relayout(v.ByteArray(), width[ci])
				if err != nil {
					return nil, fmt.Errorf("harness: %w", err)
				}
				if len(nb) < 16 {
					reach.narrowLeaves++
					if nb[0]&0x80 != 0 {
						reach.narrowNegativeLeaves++
					}
				}
				if fixed[ci] {
					v = parquet.FixedLenByteArrayValue(nb).Level(v.RepetitionLevel(), v.DefinitionLevel(), ci)
				} else {
					v = parquet.ByteArrayValue(nb).Level(v.RepetitionLevel(), v.DefinitionLevel(), ci)
				}
			}
			out[i][j] = v
		}
	}
	buf := new(bytes.Buffer)
	w := parquet.NewWriter(buf, append([]parquet.WriterOption{foreign}, opts...)...)
	if _, err = w.WriteRows(out); err != nil {
		return nil, err
	}
	if err = w.Close(); err != nil {
		return nil, err
	}
	return buf.Bytes(), nil
}

// runForeignCorpus: every width a decimal16 leaf can have in a file (FIXED_LEN_BYTE_ARRAY(n)
// for every n from the least that holds the precision to 15, BYTE_ARRAY of
// minimal and padded length) for precisions of every byte length, the leaf at
// the top, as an object field and as a list element; rows: -1, the bounds of
// the precision, 0, and values around the sign-byte boundaries, negative half
// of the time.
func runForeignCorpus(c *core.Ctx, g *gen) {
	precs := []int{1, 2, 3, 5, 9, 10, 18, 19, 20, 28, 37, 38}
	if !c.Quick() {
		precs = nil
		for p := 1; p <= 38; p++ {
			precs = append(precs, p)
		}
	}
	k := 0
	for _, prec := range precs {
		var widths []int
		for n := decimalMinBytes(prec); n <= 15; n++ {
			widths = append(widths, n)
		}
		widths = append(widths, -1, -2)
		for _, w := range widths {
			scale := []int{0, 2, prec}[k%3]
			if scale > prec {
				scale = prec
			}
			leaf := &sch{Kind: 'P', Prim: fmt.Sprintf("d2:%x:%x", prec, scale), Width: w, Plain: w < 0}
			bound := new(big.Int).Exp(big.NewInt(10), big.NewInt(int64(prec)), nil)
			dec := func(z *big.Int) *tree { return &tree{Kind: 'd', K: 2, Scale: byte(scale), D: d16FromBig(z)} }
			vals := []*tree{dec(big.NewInt(-1)), dec(new(big.Int).Sub(bound, big.NewInt(1))), dec(new(big.Int).Sub(big.NewInt(1), bound)), dec(big.NewInt(0))}
			for i := 0; i < 4; i++ {
				vals = append(vals, &tree{Kind: 'd', K: 2, Scale: byte(scale), D: g.decimalWithin(prec)})
			}
			shapes := []int{k % 3}
			if !c.Quick() {
				shapes = []int{0, 1, 2}
			}
			for _, shape := range shapes {
				s := leaf
				wrap := func(i int) *tree { return vals[i] }
				switch shape {
				case 1:
					s = &sch{Kind: 'O', Names: []string{"a", "b"}, Fields: []*sch{leaf, {Kind: 'P', Prim: "s"}}}
					wrap = func(i int) *tree {
						return &tree{Kind: '{', Names: []string{"b", "a"}, Elems: []*tree{{Kind: 's', D: []byte("x")}, vals[i]}}
					}
				case 2:
					s = &sch{Kind: 'L', Elem: leaf}
					wrap = func(i int) *tree { return &tree{Kind: '[', Elems: []*tree{vals[i], vals[(i+3)%len(vals)]}} }
				}
				fc := &fileCase{Mode: "file", Schema: s.replayText(), Optional: k%2 == 0, PageV: 1 + k%2, Write: "raw", Path: "rows"}
				fc.plus = g.plus("top", false)
				for i := range vals {
					fc.Rows = append(fc.Rows, wrap(i).text())
				}
				if fc.Optional {
					fc.Rows = append(fc.Rows, "")
				}
				runFileCase(c, fc, "file/foreign-layout")
			}
			k++
		}
	}
}

// rewriteFrag re-lays out the decimal leaves of a model fragment (oracle
// syntax, see oracle/c19.ml) as the schema's widths say.
func rewriteFrag(frag string, s *sch) (out string, err error) {
	defer func() {
		if r := recover(); r != nil {
			err = fmt.Errorf("fragment %q: %v", frag, r)
		}
	}()
	p := &parser{s: frag}
	var sb strings.Builder
	var walk func(s *sch)
	resid := func() {
		if p.peek() == '-' {
			sb.WriteByte('-')
			p.p++
			return
		}
		p.expect('x')
		sb.WriteByte('x')
		sb.WriteString(p.hexrun())
	}
	list := func(child func(i int) *sch) {
		p.expect('[')
		sb.WriteByte('[')
		for i := 0; p.peek() != ']'; i++ {
			if i > 0 {
				p.expect(',')
				sb.WriteByte(',')
			}
			walk(child(i))
		}
		p.p++
		sb.WriteByte(']')
	}
	walk = func(s *sch) {
		k := p.peek()
		p.p++
		sb.WriteByte(k)
		resid()
		switch k {
		case 'N':
		case 'P':
			p.expect(';')
			sb.WriteByte(';')
			tag := p.peek()
			p.p++
			sb.WriteByte(tag)
			if tag == '-' {
				panic("negative leaf tag")
			}
			b := p.p
			for p.peek() == '-' || isHex(p.peek()) {
				p.p++
			}
			tok := p.s[b:p.p]
			if tag == 'y' && s.Kind == 'P' && s.Width != 0 {
				raw, e := hex.DecodeString(tok)
				if e != nil {
					panic(e)
				}
				nb, e := relayout(raw, s.Width)
				if e != nil {
					panic(e)
				}
				tok = hex.EncodeToString(nb)
			}
			sb.WriteString(tok)
		case 'L':
			list(func(int) *sch { return s.Elem })
		case 'O':
			list(func(i int) *sch { return s.Fields[i] })
		default:
			panic(fmt.Sprintf("unexpected %q at %d", k, p.p-1))
		}
	}
	walk(s)
	if p.p != len(frag) {
		panic("trailing input")
	}
	return sb.String(), nil
}

// checkForeignRow: the model reader on the fragment of the row as the file
// lays it out (the model's shredding with the decimal leaves re-laid out)
// must return the value; the file must hold the leaf values of that fragment.
func checkForeignRow(c *core.Ctx, s *sch, t *tree, cols [][]string, widthOfCol []int, replay any) bool {
	in := t.canon()
	ans := strings.Split(c.Ask("c19.shred "+s.text()+" "+in.text()), " ")
	if len(ans) != 3 {
		c.Mismatch("corr:C19.shred", "c19.shred "+s.text()+" "+in.text(), colsText(cols), strings.Join(ans, " "), replay)
		return false
	}
	frag, err := rewriteFrag(ans[1], s)
	if err != nil {
		c.Note("harness: %v", err)
		return false
	}
	back := c.Ask("c19.reconstruct " + s.text() + " " + ans[0] + " " + frag)
	if bt, e := parseTree(back); e == nil {
		back = bt.canonText()
	}
	if back != t.canonText() {
		c.Mismatch("corr:C19.reconstruct-foreign-layout", "c19.reconstruct "+s.text()+" "+ans[0]+" "+frag, t.canonText(), back, replay)
		return false
	}
	// the leaf columns of the model's fragment, the decimal ones re-laid out
	mcols := strings.Split(ans[0]+";"+ans[2], ";")
	if len(mcols) != len(cols) {
		c.Mismatch("corr:C19.shred", "leaf columns of c19.shred "+s.text()+" "+in.text(), colsText(cols), strings.Join(mcols, ";"), replay)
		return false
	}
	for k, col := range mcols {
		if widthOfCol[k] == 0 || col == "_" {
			continue
		}
		leaves := strings.Split(col, ",")
		for i, lf := range leaves {
			raw, e := hex.DecodeString(strings.TrimPrefix(lf, "x"))
			if e != nil {
				continue
			}
			if nb, e := relayout(raw, widthOfCol[k]); e == nil {
				leaves[i] = "x" + hex.EncodeToString(nb)
			}
		}
		mcols[k] = strings.Join(leaves, ",")
	}
	if got, model := colsText(cols), strings.Join(mcols, ";"); got != model {
		c.Mismatch("corr:C19.shred-foreign-layout", "leaf columns of c19.shred "+s.text()+" "+in.text()+", decimal leaves re-laid out", got, model, replay)
		return false
	}
	return true
}

func checkForeignLeaves(c *core.Ctx, data []byte, fschema *parquet.Schema, s *sch, prefix []string, fc *fileCase) {
	rows := make([]*tree, len(fc.Rows))
	for i, r := range fc.Rows {
		if r != "" {
			rows[i], _ = parseTree(r)
		}
	}
	cols, err := fileColumns(data, len(rows))
	if err != nil {
		c.Violation("file-scan-error", err.Error(), fc)
		return
	}
	widths := s.leafWidths(prefix)
	var widthOfCol []int
	for _, p := range fschema.Columns() {
		if len(p) > len(prefix) && strings.Join(p[:len(prefix)], "\x00") == strings.Join(prefix, "\x00") {
			widthOfCol = append(widthOfCol, widths[strings.Join(p, "\x00")])
		}
	}
	for i, t := range rows {
		if t == nil {
			if fc.Optional {
				continue
			}
			t = &tree{Kind: 'n'}
		}
		if fc.Write == "typed" && (t.maxFields() > 1 || (fc.Optional && t.Kind == 'n')) {
			continue
		}
		if !checkForeignRow(c, s, t, cols[i], widthOfCol, fc) {
			return
		}
	}
}

// ---------------------------------------------------------------------------
// reader schemas that differ from the file's around the variant column

// ordGroup: a group whose fields are in a given order (parquet.Group lists
// them by name).
type ordGroup struct {
	parquet.Group
	order []string
}

func (g ordGroup) Fields() []parquet.Field {
	by := map[string]parquet.Field{}
	for _, f := range g.Group.Fields() {
		by[f.Name()] = f
	}
	out := make([]parquet.Field, 0, len(by))
	for _, n := range g.order {
		out = append(out, by[n])
	}
	return out
}

// sib: a column beside the variant column.
//
//	oi64  optional INT64
//	ri32  required INT32
//	grp   group { x: optional STRING, y: required INT64 }
type sib struct {
	Name string `json:"name"`
	Kind string `json:"kind"`
}

type sibLeaf struct {
	path     []string
	optional bool
	kind     parquet.Kind
}

func (b sib) node() parquet.Node {
	switch b.Kind {
	case "oi64":
		return parquet.Optional(parquet.Int(64))
	case "ri32":
		return parquet.Int(32)
	}
	return parquet.Group{"x": parquet.Optional(parquet.String()), "y": parquet.Int(64)}
}

func (b sib) leaves() []sibLeaf {
	switch b.Kind {
	case "oi64":
		return []sibLeaf{{[]string{b.Name}, true, parquet.Int64}}
	case "ri32":
		return []sibLeaf{{[]string{b.Name}, false, parquet.Int32}}
	}
	return []sibLeaf{{[]string{b.Name, "x"}, true, parquet.ByteArray}, {[]string{b.Name, "y"}, false, parquet.Int64}}
}

// value of a sibling leaf for the item of the row (ok = false: null).
func (l sibLeaf) value(row, item int) (v parquet.Value, ok bool) {
	x := row*1000 + item*10 + len(l.path[len(l.path)-1])
	if l.optional && (row+item)%3 == 0 {
		return parquet.NullValue(), false
	}
	switch l.kind {
	case parquet.Int32:
		return parquet.Int32Value(int32(x)), true
	case parquet.Int64:
		return parquet.Int64Value(int64(x) << 20), true
	}
	return parquet.ByteArrayValue([]byte(fmt.Sprintf("sibling-%d", x))), true
}

// evoSpec: the file has, besides id and the variant column, the sibling
// columns FileRoot (at the top level) and FileInner (in the group that
// encloses the variant column: nests rep, opt, optrep); the reader schema
// omits Drop, declares AddRoot / AddInner that the file does not have, and
// lists the fields of every group in the order of FileOrder / ReadOrder (0 =
// by name, else the seed of a permutation).
type evoSpec struct {
	FileRoot     []sib    `json:"file_root,omitempty"`
	FileInner    []sib    `json:"file_inner,omitempty"`
	FileOrder    int64    `json:"file_order,omitempty"`
	Drop         []string `json:"drop,omitempty"` // id | root:<name> | inner:<name>
	AddRoot      []sib    `json:"add_root,omitempty"`
	AddInner     []sib    `json:"add_inner,omitempty"`
	ReadOrder    int64    `json:"read_order,omitempty"`
	FlipOptional bool     `json:"flip_optional,omitempty"` // the reader declares the variant column required / optional, unlike the file
	Api          string   `json:"api,omitempty"`           // "" parquet.NewReader(schema) | convert (Convert + ConvertRowGroup)
}

func nestHasInner(nest string) bool { return nest == "rep" || nest == "opt" || nest == "optrep" }

func (g *gen) evo(nest string) *evoSpec {
	r := g.c.Rng
	e := &evoSpec{}
	kind := func() string { return []string{"oi64", "oi64", "ri32", "grp"}[r.Intn(4)] }
	// names before and after id / items / og / var / vars in name order
	for _, n := range []string{"aa", "ab", "k", "m", "zy", "zz"} {
		switch r.Intn(7) {
		case 0:
			e.FileRoot = append(e.FileRoot, sib{n, kind()})
		case 1:
			e.FileRoot = append(e.FileRoot, sib{n, kind()})
			e.Drop = append(e.Drop, "root:"+n)
		case 2, 3:
			e.AddRoot = append(e.AddRoot, sib{n, kind()})
		}
	}
	if nestHasInner(nest) {
		for _, n := range []string{"aa", "ab", "zy", "zz"} {
			switch r.Intn(6) {
			case 0:
				e.FileInner = append(e.FileInner, sib{n, kind()})
			case 1:
				e.FileInner = append(e.FileInner, sib{n, kind()})
				e.Drop = append(e.Drop, "inner:"+n)
			case 2, 3:
				e.AddInner = append(e.AddInner, sib{n, kind()})
			}
		}
	}
	if r.Intn(4) == 0 {
		e.Drop = append(e.Drop, "id")
	}
	if r.Intn(3) == 0 {
		e.FileOrder = 1 + r.Int63n(1000)
	}
	if r.Intn(3) == 0 {
		e.ReadOrder = 1 + r.Int63n(1000)
	}
	e.FlipOptional = nest != "repvar" && r.Intn(4) == 0
	if r.Intn(2) == 0 {
		e.Api = "convert"
	}
	return e
}

// simpler: specifications one step smaller.
func (e *evoSpec) simpler() []*evoSpec {
	var out []*evoSpec
	add := func(f func(x *evoSpec)) {
		x := *e
		x.FileRoot = append([]sib{}, e.FileRoot...)
		x.FileInner = append([]sib{}, e.FileInner...)
		x.AddRoot = append([]sib{}, e.AddRoot...)
		x.AddInner = append([]sib{}, e.AddInner...)
		x.Drop = append([]string{}, e.Drop...)
		f(&x)
		out = append(out, &x)
	}
	undrop := func(x *evoSpec, key string) {
		for i, d := range x.Drop {
			if d == key {
				x.Drop = append(x.Drop[:i:i], x.Drop[i+1:]...)
				return
			}
		}
	}
	for i := range e.FileRoot {
		add(func(x *evoSpec) {
			undrop(x, "root:"+x.FileRoot[i].Name)
			x.FileRoot = append(x.FileRoot[:i:i], x.FileRoot[i+1:]...)
		})
	}
	for i := range e.FileInner {
		add(func(x *evoSpec) {
			undrop(x, "inner:"+x.FileInner[i].Name)
			x.FileInner = append(x.FileInner[:i:i], x.FileInner[i+1:]...)
		})
	}
	for i := range e.AddRoot {
		add(func(x *evoSpec) { x.AddRoot = append(x.AddRoot[:i:i], x.AddRoot[i+1:]...) })
	}
	for i := range e.AddInner {
		add(func(x *evoSpec) { x.AddInner = append(x.AddInner[:i:i], x.AddInner[i+1:]...) })
	}
	for i := range e.Drop {
		add(func(x *evoSpec) { x.Drop = append(x.Drop[:i:i], x.Drop[i+1:]...) })
	}
	for i, b := range e.AddRoot {
		if b.Kind != "oi64" {
			add(func(x *evoSpec) { x.AddRoot[i].Kind = "oi64" })
		}
	}
	for i, b := range e.AddInner {
		if b.Kind != "oi64" {
			add(func(x *evoSpec) { x.AddInner[i].Kind = "oi64" })
		}
	}
	if e.FileOrder != 0 {
		add(func(x *evoSpec) { x.FileOrder = 0 })
	}
	if e.ReadOrder != 0 {
		add(func(x *evoSpec) { x.ReadOrder = 0 })
	}
	if e.FlipOptional {
		add(func(x *evoSpec) { x.FlipOptional = false })
	}
	if e.Api != "" {
		add(func(x *evoSpec) { x.Api = "" })
	}
	return out
}

// evoSchema: the schema of the nesting with the variant node and siblings.
func evoSchema(nest string, varNode parquet.Node, withID bool, root, inner []sib, order int64) *parquet.Schema {
	grp := func(tag int64, fields parquet.Group) parquet.Node {
		if order == 0 || len(fields) < 2 {
			return fields
		}
		names := make([]string, 0, len(fields))
		for n := range fields {
			names = append(names, n)
		}
		sort.Strings(names)
		rand.New(rand.NewSource(order*8+tag)).Shuffle(len(names), func(i, j int) { names[i], names[j] = names[j], names[i] })
		return ordGroup{fields, names}
	}
	innerGroup := func() parquet.Node {
		g := parquet.Group{"var": varNode}
		for _, b := range inner {
			g[b.Name] = b.node()
		}
		return grp(1, g)
	}
	top := parquet.Group{}
	if withID {
		top["id"] = parquet.Int(32)
	}
	for _, b := range root {
		top[b.Name] = b.node()
	}
	switch nest {
	case "top":
		top["var"] = varNode
	case "rep":
		top["items"] = parquet.Repeated(innerGroup())
	case "list":
		top["items"] = parquet.List(varNode)
	case "repvar":
		top["vars"] = parquet.Repeated(varNode)
	case "opt":
		top["og"] = parquet.Optional(innerGroup())
	case "optrep":
		top["og"] = parquet.Optional(parquet.Group{"items": parquet.Repeated(innerGroup())})
	}
	return parquet.NewSchema("table", grp(0, top))
}

// nestLevels: a value of a leaf of the variant group starts an item when its
// repetition level is <= rep and stands for no item when its definition level
// is below def; inner is the definition level at which the group enclosing
// the variant column exists (nests with such a group).
func nestLevels(nest string) (path []string, rep, def, inner int) {
	switch nest {
	case "rep":
		return []string{"items", "var"}, 1, 1, 1
	case "list":
		return []string{"items", "list", "element"}, 1, 1, 0
	case "repvar":
		return []string{"vars"}, 1, 1, 0
	case "opt":
		return []string{"og", "var"}, 0, 0, 1
	case "optrep":
		return []string{"og", "items", "var"}, 1, 2, 2
	}
	return []string{"var"}, 0, 0, 0
}

type evoCtx struct {
	nest     string
	path     []string
	s        *sch
	dict     bool
	optional bool            // the variant node of the file is optional
	narrow   *parquet.Schema // id + the nesting with the variant column: what rows are deconstructed for
	rows     []parquet.Row
	want     [][]string // per row, per item: canonical text, "" = null
	absent   []bool     // per row: the optional group is absent (opt, optrep)
	opts     []parquet.WriterOption
	evo      *evoSpec
	where    string
	replay   any
	model    bool
}

func pathKey(p []string) string { return strings.Join(p, "\x00") }

func (x *evoCtx) varNode(unshredded, optional bool) (parquet.Node, error) {
	var node parquet.Node
	if unshredded || x.s.Kind == 'N' {
		node = parquet.Variant()
	} else {
		var err error
		if node, err = parquet.ShreddedVariant(x.s.node(nodeOpts{dict: x.dict})); err != nil {
			return nil, err
		}
	}
	if optional && x.nest != "repvar" {
		node = parquet.Optional(node)
	}
	return node, nil
}

// widen places the values of the narrow rows in the columns of the file
// schema and adds the values of the file's sibling columns; wantSib: per
// sibling leaf column path, per row, the non-null values written.
func (x *evoCtx) widen(file *parquet.Schema) (out []parquet.Row, wantSib map[string][][]string, err error) {
	_, _, _, innerDef := nestLevels(x.nest)
	fcols := file.Columns()
	colIdx := map[string]int{}
	for i, p := range fcols {
		colIdx[pathKey(p)] = i
	}
	ncols := x.narrow.Columns()
	to := make([]int, len(ncols))
	metaNarrow := -1
	for i, p := range ncols {
		j, ok := colIdx[pathKey(p)]
		if !ok {
			return nil, nil, fmt.Errorf("harness: column %v is not in the file schema", p)
		}
		to[i] = j
		if pathKey(p) == pathKey(append(append([]string{}, x.path...), "metadata")) {
			metaNarrow = i
		}
	}
	if metaNarrow < 0 {
		return nil, nil, fmt.Errorf("harness: no metadata column at %v", x.path)
	}
	wantSib = map[string][][]string{}
	record := func(key string, ri int, v parquet.Value, ok bool) {
		if wantSib[key] == nil {
			wantSib[key] = make([][]string, len(x.rows))
		}
		if ok {
			wantSib[key][ri] = append(wantSib[key][ri], leafText(v))
		}
	}
	enclosing := x.path[:len(x.path)-1]
	out = make([]parquet.Row, len(x.rows))
	for ri, row := range x.rows {
		cols := make([][]parquet.Value, len(fcols))
		for _, v := range row {
			j := to[v.Column()]
			cols[j] = append(cols[j], v.Level(v.RepetitionLevel(), v.DefinitionLevel(), j))
		}
		for _, b := range x.evo.FileRoot {
			for _, l := range b.leaves() {
				key := pathKey(l.path)
				j := colIdx[key]
				v, ok := l.value(ri, 0)
				def := 0
				if l.optional && ok {
					def = 1
				}
				cols[j] = append(cols[j], v.Level(0, def, j))
				record(key, ri, v, ok)
			}
		}
		for _, b := range x.evo.FileInner {
			for _, l := range b.leaves() {
				key := pathKey(append(append([]string{}, enclosing...), l.path...))
				j := colIdx[key]
				item := 0
				for _, mv := range row {
					if mv.Column() != metaNarrow {
						continue
					}
					rep, d := mv.RepetitionLevel(), mv.DefinitionLevel()
					if d < innerDef {
						cols[j] = append(cols[j], parquet.NullValue().Level(rep, d, j))
						continue
					}
					v, ok := l.value(ri, item)
					def := innerDef
					if l.optional && ok {
						def++
					}
					cols[j] = append(cols[j], v.Level(rep, def, j))
					record(key, ri, v, ok)
					item++
				}
			}
		}
		for _, vs := range cols {
			out[ri] = append(out[ri], vs...)
		}
	}
	return out, wantSib, nil
}

func readConverted(data []byte, target *parquet.Schema, api string) (out []parquet.Row, err error) {
	defer func() {
		if r := recover(); r != nil {
			err = fmt.Errorf("panic: %v", r)
		}
	}()
	drain := func(rows parquet.RowReader) error {
		buf := make([]parquet.Row, 7)
		for {
			n, e := rows.ReadRows(buf)
			for _, row := range buf[:n] {
				out = append(out, row.Clone())
			}
			if e == io.EOF {
				return nil
			}
			if e != nil {
				return e
			}
			if n == 0 {
				return fmt.Errorf("ReadRows made no progress")
			}
		}
	}
	if api == "convert" {
		f, err := parquet.OpenFile(bytes.NewReader(data), int64(len(data)))
		if err != nil {
			return nil, err
		}
		conv, err := parquet.Convert(target, f.Schema())
		if err != nil {
			return nil, fmt.Errorf("Convert: %w", err)
		}
		for _, rg := range f.RowGroups() {
			rows := parquet.ConvertRowGroup(rg, conv).Rows()
			e := drain(rows)
			rows.Close()
			if e != nil {
				return nil, e
			}
		}
		return out, nil
	}
	r := parquet.NewReader(bytes.NewReader(data), target)
	defer r.Close()
	if err := drain(r); err != nil {
		return nil, err
	}
	return out, nil
}

// checkEvolve: the file with its sibling columns, read through the reader
// schema of the specification; every item of every row must be the value
// written, the columns kept must hold what was written, the columns added
// nothing.
func checkEvolve(c *core.Ctx, x *evoCtx) {
	e := x.evo
	if !nestHasInner(x.nest) && (len(e.FileInner) > 0 || len(e.AddInner) > 0) {
		y := *e
		y.FileInner, y.AddInner = nil, nil
		e = &y
		xx := *x
		xx.evo = e
		x = &xx
	}
	n := len(x.rows)
	desc, _ := json.Marshal(e)
	where := x.where + " reader schema " + string(desc)
	fileVar, err := x.varNode(false, x.optional)
	if err != nil {
		c.Violation("schema-rejected", err.Error(), x.replay)
		return
	}
	var file, target *parquet.Schema
	var rows []parquet.Row
	var wantSib map[string][][]string
	var data []byte
	if err := protect(func() error {
		file = evoSchema(x.nest, fileVar, true, e.FileRoot, e.FileInner, e.FileOrder)
		var err error
		if rows, wantSib, err = x.widen(file); err != nil {
			return err
		}
		buf := new(bytes.Buffer)
		w := parquet.NewWriter(buf, append([]parquet.WriterOption{file}, x.opts...)...)
		if _, err := w.WriteRows(rows); err != nil {
			return err
		}
		if err := w.Close(); err != nil {
			return err
		}
		data = buf.Bytes()
		return nil
	}); err != nil {
		c.Violation("file-write-error", where+": writing the file with sibling columns: "+err.Error(), x.replay)
		return
	}
	dropped := map[string]bool{}
	for _, d := range e.Drop {
		dropped[d] = true
	}
	var keepRoot, keepInner []sib
	for _, b := range e.FileRoot {
		if !dropped["root:"+b.Name] {
			keepRoot = append(keepRoot, b)
		}
	}
	for _, b := range e.FileInner {
		if !dropped["inner:"+b.Name] {
			keepInner = append(keepInner, b)
		}
	}
	readVar, _ := x.varNode(true, x.optional != e.FlipOptional)
	if err := protect(func() error {
		target = evoSchema(x.nest, readVar, !dropped["id"], append(keepRoot, e.AddRoot...), append(keepInner, e.AddInner...), e.ReadOrder)
		return nil
	}); err != nil {
		c.Violation("schema-rejected", where+": "+err.Error(), x.replay)
		return
	}
	got, err := readConverted(data, target, e.Api)
	if err != nil {
		c.Violation("convert-read-error", where+": "+err.Error(), x.replay)
		return
	}
	if len(got) != n {
		c.Violation("convert-read-error", fmt.Sprintf("%s: read %d of %d rows", where, len(got), n), x.replay)
		return
	}
	reach.evolved++
	if x.nest != "top" {
		reach.evolvedNested++
	}
	if e.FileOrder != 0 || e.ReadOrder != 0 {
		reach.reordered++
	}
	before := func(bs []sib, level string, only map[string]bool) bool {
		for _, b := range bs {
			if b.Name < x.path[0] && level == "root" || b.Name < "var" && level == "inner" {
				if only == nil || only[level+":"+b.Name] {
					return true
				}
			}
		}
		return false
	}
	if before(e.AddRoot, "root", nil) || before(e.AddInner, "inner", nil) {
		reach.addedBefore++
	}
	if before(e.FileRoot, "root", dropped) || before(e.FileInner, "inner", dropped) {
		reach.droppedBefore++
	}
	_, rep, def, _ := nestLevels(x.nest)
	tcols := target.Columns()
	metaCol, valCol, idCol := -1, -1, -1
	kept := map[int]string{}
	added := map[int]bool{}
	for i, p := range tcols {
		switch k := pathKey(p); {
		case k == pathKey(append(append([]string{}, x.path...), "metadata")):
			metaCol = i
		case k == pathKey(append(append([]string{}, x.path...), "value")):
			valCol = i
		case k == "id":
			idCol = i
		case wantSib[k] != nil:
			kept[i] = k
		default:
			added[i] = true
		}
	}
	if metaCol < 0 || valCol < 0 {
		c.Note("harness: the reader schema has no variant column at %v", x.path)
		return
	}
	// items of a leaf column of the variant group: nil = null
	items := func(row parquet.Row, col int) (out [][]byte, absent bool, err error) {
		first := true
		for _, v := range row {
			if v.Column() != col {
				continue
			}
			if first && v.DefinitionLevel() == 0 && (x.nest == "opt" || x.nest == "optrep") {
				absent = true
			}
			if !first && v.RepetitionLevel() > rep {
				return nil, false, fmt.Errorf("a value of column %v continues an item (repetition level %d)", tcols[col], v.RepetitionLevel())
			}
			first = false
			if v.DefinitionLevel() < def || absent {
				continue
			}
			if v.IsNull() {
				out = append(out, nil)
			} else {
				out = append(out, append([]byte{}, v.ByteArray()...))
			}
		}
		if first {
			return nil, false, fmt.Errorf("the row has no value of column %v", tcols[col])
		}
		return out, absent, nil
	}
	shape := func(a bool, k int) string {
		if a {
			return "an absent group"
		}
		return fmt.Sprintf("%d items", k)
	}
	for i, row := range got {
		metas, absent, err := items(row, metaCol)
		if err != nil {
			c.Violation("convert-evolved-differs", fmt.Sprintf("%s: row %d: %v", where, i, err), x.replay)
			return
		}
		vals, absentV, err := items(row, valCol)
		if err != nil {
			c.Violation("convert-evolved-differs", fmt.Sprintf("%s: row %d: %v", where, i, err), x.replay)
			return
		}
		if absent != x.absent[i] || absentV != absent || len(metas) != len(x.want[i]) || len(vals) != len(metas) {
			c.Violation("convert-evolved-differs", fmt.Sprintf("%s: row %d reads back with %s (metadata) / %s (value), written with %s",
				where, i, shape(absent, len(metas)), shape(absentV, len(vals)), shape(x.absent[i], len(x.want[i]))), x.replay)
			return
		}
		for j := range metas {
			g := "null"
			if len(metas[j]) != 0 || len(vals[j]) != 0 {
				if t, err := goDecode(metas[j], vals[j]); err != nil {
					g = fmt.Sprintf("undecodable bytes (metadata %x value %s: %v)", metas[j], core.Trunc(hex.EncodeToString(vals[j]), 80), err)
				} else {
					g = t.canonText()
				}
			}
			w := x.want[i][j]
			if w == "" {
				w = "null"
			}
			if g != w {
				c.Violation("convert-evolved-differs", fmt.Sprintf("%s, convert-to-unshredded read: row %d item %d reads back as %s, written %s",
					where, i, j, core.Trunc(g, 300), core.Trunc(w, 300)), x.replay)
				return
			}
		}
		// the other columns
		texts := map[int][]string{}
		for _, v := range row {
			ci := v.Column()
			if ci == metaCol || ci == valCol {
				continue
			}
			if added[ci] {
				zero := v.IsNull()
				if !zero {
					switch v.Kind() {
					case parquet.Int32:
						zero = v.Int32() == 0
					case parquet.Int64:
						zero = v.Int64() == 0
					default:
						zero = len(v.ByteArray()) == 0
					}
				}
				if !zero {
					c.Violation("convert-evolved-sibling-differs", fmt.Sprintf("%s: row %d: column %v, which the file does not have, reads %s",
						where, i, tcols[ci], core.Trunc(leafText(v), 200)), x.replay)
					return
				}
				continue
			}
			if !v.IsNull() {
				texts[ci] = append(texts[ci], leafText(v))
			}
		}
		if idCol >= 0 {
			if g := strings.Join(texts[idCol], ","); g != "i"+zhex(int64(i)) {
				c.Violation("convert-evolved-sibling-differs", fmt.Sprintf("%s: row %d: id reads %s", where, i, core.Trunc(g, 200)), x.replay)
				return
			}
		}
		for ci, k := range kept {
			if g, w := strings.Join(texts[ci], ","), strings.Join(wantSib[k][i], ","); g != w {
				c.Violation("convert-evolved-sibling-differs", fmt.Sprintf("%s: row %d: column %v reads %s, written %s",
					where, i, tcols[ci], core.Trunc(g, 200), core.Trunc(w, 200)), x.replay)
				return
			}
		}
	}
}
