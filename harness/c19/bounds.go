// C19 — part 6: the streaming encoder (variant.Builder) and the boundary
// constants of the encoders observed on containers too large for the line
// protocol of the oracle.
//
// offsetSizeCode (variant/types.go) chooses 1/2/3/4-byte widths at 0xFF,
// 0xFFFF and 0xFFFFFF for: the offsets of an array, the offsets of an object,
// the field ids of an object, the offsets of the metadata dictionary.  Each
// of the four uses is driven below / at / above each threshold through both
// encoders (Encode and Builder); the bytes Go produces are compared with the
// model's header functions (Variant/Header.v, proved to be the prefix of the
// model encoder) evaluated on the SIZES of the children, followed by the
// children themselves.
package main

import (
	"bytes"
	"encoding/binary"
	"encoding/hex"
	"fmt"
	"os"
	"sort"
	"strconv"
	"strings"
	"time"

	"github.com/parquet-go/parquet-go/variant"

	"verif/harness/core"
)

// eqTree: equality of variant values (object fields unordered) without
// building the text form (the big cases hold 16 MiB strings).
func eqTree(a, b *tree) bool {
	if a.Kind != b.Kind || a.K != b.K || len(a.Elems) != len(b.Elems) {
		return false
	}
	switch a.Kind {
	case 'i':
		return a.I == b.I
	case 'r':
		return a.U == b.U
	case 'd':
		return a.Scale == b.Scale && a.I == b.I && bytes.Equal(a.D, b.D)
	case 'b', 's', 'u':
		return bytes.Equal(a.D, b.D)
	case '[':
		for i := range a.Elems {
			if !eqTree(a.Elems[i], b.Elems[i]) {
				return false
			}
		}
	case '{':
		m := make(map[string]*tree, len(b.Elems))
		for i, n := range b.Names {
			m[n] = b.Elems[i]
		}
		if len(m) != len(a.Elems) {
			return false
		}
		for i, n := range a.Names {
			if x, ok := m[n]; !ok || !eqTree(a.Elems[i], x) {
				return false
			}
		}
	}
	return true
}

// keySorted: every object lists its fields in name order (then the Builder,
// which keeps values in event order, must produce Encode's bytes).
func (t *tree) keySorted() bool {
	if t.Kind == '{' {
		for i := 1; i < len(t.Names); i++ {
			if t.Names[i-1] >= t.Names[i] {
				return false
			}
		}
	}
	for _, e := range t.Elems {
		if !e.keySorted() {
			return false
		}
	}
	return true
}

// goBuild encodes the tree through the event API: Value.Write on a fresh
// variant.Builder, then Finish.
func goBuild(t *tree) (meta, val []byte, err error) {
	defer func() {
		if r := recover(); r != nil {
			err = fmt.Errorf("panic: %v", r)
		}
	}()
	var b variant.Builder
	t.toValue().Write(&b)
	m, v, err := b.Finish()
	if err != nil {
		return nil, nil, err
	}
	return m, append([]byte{}, v...), nil
}

// checkBuilder: the streaming encoder on the tree Encode has just encoded to
// (meta, val).  Predicate: Decode(Builder(v)) == v.  Correspondence: same
// metadata bytes (names are interned in the same order), same value bytes
// when the fields arrive in name order; otherwise the model decoder reads the
// value back from the Builder's bytes.
func checkBuilder(c *core.Ctx, t *tree, meta, val []byte, rp any) bool {
	want := t.canonText()
	bm, bv, err := goBuild(t)
	if err != nil {
		c.Violation("builder-error", "variant.Builder fails on a well-formed value: "+err.Error(), rp)
		return false
	}
	got, err := goDecode(bm, bv)
	if err != nil {
		c.Violation("decode-of-builder-error", "variant.Decode rejects the bytes variant.Builder produced: "+err.Error(), rp)
		return false
	}
	if got.canonText() != want {
		c.Violation("decode-of-builder-differs", "Decode(Builder(v)) != v: got "+core.Trunc(got.canonText(), 300)+" want "+core.Trunc(want, 300), rp)
		return false
	}
	if !bytes.Equal(bm, meta) {
		c.Mismatch("corr:C19.builder-metadata", "metadata of Builder vs Encode for "+core.Trunc(t.text(), 300), core.Trunc(core.Hexs(bm), 300), core.Trunc(core.Hexs(meta), 300), rp)
		return false
	}
	if t.keySorted() {
		if !bytes.Equal(bv, val) {
			c.Mismatch("corr:C19.builder-value", "value bytes of Builder vs Encode (= model) for "+core.Trunc(t.text(), 300), core.Trunc(core.Hexs(bv), 300), core.Trunc(core.Hexs(val), 300), rp)
			return false
		}
	} else if c.HasOracle() {
		if back := c.Ask("c19.decode " + core.Hexs(bm) + " " + core.Hexs(bv)); back != want {
			c.Mismatch("corr:C19.decode-builder", "c19.decode of Builder's bytes", core.Trunc(want, 300), core.Trunc(back, 300), rp)
			return false
		}
	}
	return true
}

// ---- big cases ----

// (sizes of the children, header bytes Go wrote) of the array cases, for cases.v
var vmHeaders []string

// bigCase describes one deterministic boundary value.
//
//	array           [int8, string, binary, "tail"], children total Total bytes
//	object          {a: string, b: "tail", m: binary, z: int8} built in name order, children total Total bytes
//	object-unsorted the same fields built as z, m, b, a
//	dict            {a...: null, b...: true} whose two names total Total bytes
//	ids             a dictionary of Total+1 names k0000000.., then {k<Total>: true, k0: int16 300}: highest field id = Total
type bigCase struct {
	Mode  string `json:"mode"` // "big"
	Shape string `json:"shape"`
	API   string `json:"api"` // encode | builder
	Total int    `json:"total"`
}

// fill repeats the first period bytes of b over the whole slice.
func fill(b []byte, period int) {
	for n := period; n < len(b); n *= 2 {
		copy(b[n:], b[:n])
	}
}

func patString(n int, salt byte) []byte {
	b := make([]byte, n)
	for i := 0; i < n && i < 26; i++ {
		b[i] = 'a' + (byte(i)+salt)%26
	}
	fill(b, 26)
	return b
}

func patBinary(n int) []byte {
	b := make([]byte, n)
	for i := 0; i < n && i < 256; i++ {
		b[i] = byte(i*7 + 1)
	}
	fill(b, 256)
	return b
}

// specPrim: the encoding of the primitives used in the big cases, written
// from VariantEncoding.md.
func specPrim(t *tree) []byte {
	switch t.Kind {
	case 'n':
		return []byte{0}
	case 't':
		return []byte{1 << 2}
	case 'i':
		if t.K == 0 {
			return []byte{3 << 2, byte(t.I)}
		}
		if t.K == 1 {
			return []byte{4 << 2, byte(t.I), byte(t.I >> 8)}
		}
	case 's':
		if len(t.D) <= 63 {
			return append([]byte{1 | byte(len(t.D))<<2}, t.D...)
		}
		b := binary.LittleEndian.AppendUint32([]byte{16 << 2}, uint32(len(t.D)))
		return append(b, t.D...)
	case 'b':
		b := binary.LittleEndian.AppendUint32([]byte{15 << 2}, uint32(len(t.D)))
		return append(b, t.D...)
	}
	panic("specPrim: kind")
}

func specSize(t *tree) int {
	switch t.Kind {
	case 's':
		if len(t.D) <= 63 {
			return 1 + len(t.D)
		}
		return 5 + len(t.D)
	case 'b':
		return 5 + len(t.D)
	}
	return len(specPrim(t))
}

// strOfSize returns a string whose encoding takes exactly n bytes (n != 65..68:
// a short string takes at most 64 bytes, a long one at least 69).
func strOfSize(n int, salt byte) *tree {
	if n <= 64 {
		return &tree{Kind: 's', D: patString(n-1, salt)}
	}
	return &tree{Kind: 's', D: patString(n-5, salt)}
}

// bigChildren: int8 (2), string (about half), binary (the rest), "tail" (5): total bytes exactly.
func bigChildren(total int) (i8, str, bin, tail *tree) {
	i8 = &tree{Kind: 'i', K: 0, I: 5}
	tail = &tree{Kind: 's', D: []byte("tail")}
	rest := total - 2 - 5
	half := rest / 2
	if half >= 65 && half <= 68 {
		half = 64
	}
	str = strOfSize(half, 3)
	bin = &tree{Kind: 'b', D: patBinary(rest - specSize(str) - 5)}
	return
}

func hexList(xs []int) string {
	if len(xs) == 0 {
		return "_"
	}
	parts := make([]string, len(xs))
	for i, x := range xs {
		parts[i] = strconv.FormatInt(int64(x), 16)
	}
	return strings.Join(parts, ",")
}

func idName(i int) string { return fmt.Sprintf("k%07d", i) }

// checkBig runs one boundary value: the Go round trip (the property
// predicate), then Go's bytes against model header ++ children.
func checkBig(c *core.Ctx, bc *bigCase) {
	if bc.Total < 160 || bc.Total > 1<<25 {
		c.Note("big case out of range: %d", bc.Total)
		return
	}
	var t *tree
	var layout []int // indices of t.Elems in the order of the value bytes
	var preNames int // ids: names interned before the value
	nameOrder := func(t *tree) []int {
		idx := make([]int, len(t.Names))
		for i := range idx {
			idx[i] = i
		}
		sort.Slice(idx, func(a, b int) bool { return t.Names[idx[a]] < t.Names[idx[b]] })
		return idx
	}
	switch bc.Shape {
	case "array":
		i8, str, bin, tail := bigChildren(bc.Total)
		t = &tree{Kind: '[', Elems: []*tree{i8, str, bin, tail}}
	case "object":
		i8, str, bin, tail := bigChildren(bc.Total)
		t = &tree{Kind: '{', Names: []string{"a", "b", "m", "z"}, Elems: []*tree{str, tail, bin, i8}}
	case "object-unsorted":
		i8, str, bin, tail := bigChildren(bc.Total)
		t = &tree{Kind: '{', Names: []string{"z", "m", "b", "a"}, Elems: []*tree{i8, bin, tail, str}}
	case "dict":
		n1 := bc.Total / 2
		a := string(append([]byte{'a'}, patString(n1-1, 1)...))
		b := string(append([]byte{'b'}, patString(bc.Total-n1-1, 2)...))
		t = &tree{Kind: '{', Names: []string{a, b}, Elems: []*tree{{Kind: 'n'}, {Kind: 't'}}}
	case "ids":
		preNames = bc.Total + 1
		t = &tree{Kind: '{', Names: []string{idName(bc.Total), idName(0)}, Elems: []*tree{{Kind: 't'}, {Kind: 'i', K: 1, I: 300}}}
	default:
		c.Note("unknown big shape %q", bc.Shape)
		return
	}
	// Encode lays the values of an object out in name order, the Builder keeps
	// them where the events wrote them
	if t.Kind == '{' && bc.API != "builder" {
		layout = nameOrder(t)
	} else {
		for i := range t.Elems {
			layout = append(layout, i)
		}
	}

	// ---- implementation ----
	var meta, val []byte
	err := protect(func() error {
		var mb variant.MetadataBuilder
		for i := 0; i < preNames; i++ {
			mb.Add(idName(i))
		}
		if bc.API == "builder" {
			b := variant.NewBuilderWithMetadata(&mb)
			t.toValue().Write(b)
			v, err := b.Bytes()
			if err != nil {
				return err
			}
			val = append([]byte{}, v...)
		} else if val = variant.Encode(&mb, t.toValue()); val == nil {
			return fmt.Errorf("Encode returned nil")
		}
		meta = mb.AppendTo(nil)
		return nil
	})
	if err != nil {
		c.Violation("encode-error", fmt.Sprintf("%s/%s at %d: %v", bc.Shape, bc.API, bc.Total, err), bc)
		return
	}
	// predicate: Decode(Encode v) == v
	got, err := goDecode(meta, val)
	if err != nil {
		c.Violation("decode-of-encode-error", fmt.Sprintf("variant.Decode rejects what variant.%s produced for %s at %d (0x%x): %v", bc.API, bc.Shape, bc.Total, bc.Total, err), bc)
		return
	}
	if !eqTree(got, t) {
		c.Violation("decode-of-encode-differs", fmt.Sprintf("Decode(%s(v)) != v for %s at %d (0x%x)", bc.API, bc.Shape, bc.Total, bc.Total), bc)
		return
	}
	if !c.HasOracle() {
		return
	}
	// ---- model: header from sizes, then the children ----
	sizes := make([]int, len(layout)) // in layout order
	offs := make([]int, len(t.Elems)) // offset of t.Elems[i] in the payload
	total := 0
	for p, i := range layout {
		sizes[p], offs[i] = specSize(t.Elems[i]), total
		total += sizes[p]
	}
	var ask string
	if t.Kind == '[' {
		ask = "c19.array_header " + hexList(sizes)
	} else {
		// object_header takes the dictionary ids and the sizes in name order and
		// assumes the values are laid out in that order
		order := nameOrder(t)
		ids := make([]int, len(order))
		szs := make([]int, len(order))
		for j, i := range order {
			ids[j] = i // names of the value are interned in construction order ...
			if bc.Shape == "ids" {
				ids[j] = []int{bc.Total, 0}[i] // ... unless they were in the dictionary already
			}
			szs[j] = specSize(t.Elems[i])
		}
		ask = "c19.object_header " + hexList(ids) + " " + hexList(szs)
	}
	ans := c.Ask(ask)
	hdr, ok := unhexTok(ans)
	if !ok {
		c.Mismatch("corr:C19.header", ask, "", ans, bc)
		return
	}
	if t.Kind == '{' && bc.API == "builder" && len(hdr) > 0 {
		// same header with each field's offset where the Builder left the value
		order := nameOrder(t)
		osz := int((hdr[0]>>2)&3) + 1
		pos := len(hdr) - (len(order)+1)*osz
		if pos < 0 {
			c.Mismatch("corr:C19.header", ask, "", ans, bc)
			return
		}
		hdr = append([]byte{}, hdr...)
		for j, i := range order {
			copy(hdr[pos+j*osz:], putUint(nil, offs[i], osz))
		}
	}
	if len(val) < len(hdr) || !bytes.Equal(val[:len(hdr)], hdr) {
		c.Mismatch("corr:C19.header", ask, core.Trunc(core.Hexs(val[:min(len(val), len(hdr))]), 200), core.Trunc(core.Hexs(hdr), 200), bc)
		return
	}
	if t.Kind == '[' && len(vmHeaders) < 40 {
		// re-evaluated inside coqc (cases.v)
		ns := make([]string, len(sizes))
		for i, x := range sizes {
			ns[i] = fmt.Sprintf("%d", x)
		}
		vmHeaders = append(vmHeaders, fmt.Sprintf("(%s, %s)", core.CoqList(ns), core.CoqBytes(val[:len(hdr)])))
	}
	body := val[len(hdr):]
	if len(body) != total {
		c.Mismatch("corr:C19.header", "payload length after the header", fmt.Sprint(len(body)), fmt.Sprint(total), bc)
		return
	}
	for i, e := range t.Elems {
		if !bytes.Equal(body[offs[i]:offs[i]+specSize(e)], specPrim(e)) {
			c.Mismatch("corr:C19.header", fmt.Sprintf("child %d of the payload", i), "differs", "spec encoding of the child", bc)
			return
		}
	}
	// the offset size field of byte 0 against offset_size_code of the number itself
	osc := c.Ask("c19.osc " + strconv.FormatInt(int64(total), 16))
	if fmt.Sprint((val[0]>>2)&3) != osc {
		c.Mismatch("corr:C19.offset-size-code", fmt.Sprintf("offset size field of the header for %d bytes of children", total), fmt.Sprint((val[0]>>2)&3), osc, bc)
		return
	}
	if bc.Shape == "ids" {
		fsc := c.Ask("c19.osc " + strconv.FormatInt(int64(bc.Total), 16))
		if fmt.Sprint((val[0]>>4)&3) != fsc {
			c.Mismatch("corr:C19.offset-size-code", fmt.Sprintf("field id size field of the header for highest id %d", bc.Total), fmt.Sprint((val[0]>>4)&3), fsc, bc)
			return
		}
	}
	// metadata
	var nameSizes []int
	var names []byte
	switch {
	case bc.Shape == "ids":
		if bc.Total > 1<<20 {
			return // 16M sizes do not fit a request line; the value header was compared above
		}
		for i := 0; i < preNames; i++ {
			nameSizes = append(nameSizes, 8)
			names = append(names, idName(i)...)
		}
	default:
		for _, n := range t.Names {
			nameSizes = append(nameSizes, len(n))
			names = append(names, n...)
		}
	}
	sorted := "1"
	if bc.Shape == "object-unsorted" {
		sorted = "0"
	}
	mask := "c19.metadata_header " + sorted + " " + hexList(nameSizes)
	mans := c.Ask(mask)
	mh, ok := unhexTok(mans)
	if !ok || !bytes.Equal(meta, append(mh, names...)) {
		c.Mismatch("corr:C19.metadata-header", core.Trunc(mask, 200), core.Trunc(core.Hexs(meta), 200), core.Trunc(mans, 200), bc)
		return
	}
	if bc.Shape == "dict" {
		msc := c.Ask("c19.osc " + strconv.FormatInt(int64(len(names)), 16))
		if fmt.Sprint((meta[0]>>6)&3) != msc {
			c.Mismatch("corr:C19.offset-size-code", fmt.Sprintf("offset size field of the metadata header for %d bytes of names", len(names)), fmt.Sprint((meta[0]>>6)&3), msc, bc)
		}
	}
}

func unhexTok(s string) ([]byte, bool) {
	if !strings.HasPrefix(s, "x") {
		return nil, false
	}
	b, err := hex.DecodeString(s[1:])
	return b, err == nil
}

func memAvailableGiB() int {
	data, err := os.ReadFile("/proc/meminfo")
	if err != nil {
		return 0
	}
	for _, line := range strings.Split(string(data), "\n") {
		if strings.HasPrefix(line, "MemAvailable:") {
			f := strings.Fields(line)
			if len(f) >= 2 {
				kb, _ := strconv.Atoi(f[1])
				return kb >> 20
			}
		}
	}
	return 0
}

// runBigCases: every use of offsetSizeCode below / at / above 0xFF, 0xFFFF and
// 0xFFFFFF, through Encode and Builder.
func runBigCases(c *core.Ctx) {
	t0 := time.Now()
	defer func() { c.Note("threshold cases (bounds.go): %.1fs", time.Since(t0).Seconds()) }()
	run := func(bc *bigCase) {
		t1 := time.Now()
		defer func() {
			if d := time.Since(t1); d > 30*time.Millisecond && os.Getenv("C19_TIMES") != "" {
				fmt.Fprintf(os.Stderr, "%s %s %d: %v\n", bc.Shape, bc.API, bc.Total, d)
			}
		}()
		checkBig(c, bc)
		c.Case("encode/threshold/"+bc.Shape+"/"+bc.API, fmt.Sprintf("%s/%s/%d", bc.Shape, bc.API, bc.Total), true)
	}
	small := []int{0xFE, 0xFF, 0x100, 0x101, 0xFFFE, 0xFFFF, 0x10000, 0x10001}
	big := []int{0xFFFFFE, 0xFFFFFF, 0x1000000, 0x1000001}
	for _, api := range []string{"encode", "builder"} {
		for _, shape := range []string{"array", "object", "object-unsorted", "dict"} {
			for _, total := range small {
				run(&bigCase{Mode: "big", Shape: shape, API: api, Total: total})
			}
			for _, total := range big {
				// quick: at and above the 3/4-byte threshold (a 16 MiB case costs 0.03..0.12 s, 12 of them
				// under 1 s); thorough: also one below and two above, and the unsorted objects
				if c.Quick() && (shape == "object-unsorted" || total == 0xFFFFFE || total == 0x1000001) {
					continue
				}
				run(&bigCase{Mode: "big", Shape: shape, API: api, Total: total})
			}
		}
		for _, total := range []int{0xFE, 0xFF, 0x100, 0xFFFE, 0xFFFF, 0x10000} {
			run(&bigCase{Mode: "big", Shape: "ids", API: api, Total: total})
		}
	}
	if !c.Quick() {
		// field ids of 3 and 4 bytes need a dictionary of 2^24 names (about 2 GiB while it is built and decoded)
		if g := memAvailableGiB(); g >= 12 {
			for _, total := range []int{0xFFFFFE, 0xFFFFFF, 0x1000000} {
				run(&bigCase{Mode: "big", Shape: "ids", API: []string{"encode", "builder"}[total%2], Total: total})
			}
		} else {
			c.Note("field ids around 2^24 skipped: %d GiB of memory available, 12 wanted", g)
		}
	}
}
