// C19 — part 10: SIZE x NESTING x encoder history.
//
// The tree encoder behind variant.Encode and variant.Marshal
// (variant/encoding.go) is pooled and keeps its bookkeeping in arenas that all
// open containers share: element positions (arrays), field entries (objects),
// offsets, and the two byte buffers.  A fresh encoder holds 32 entries per
// arena and 1 KiB per buffer; an arena grows (is reallocated) when a
// container needs more, while the containers that enclose it are still open;
// the pool keeps arenas of up to 4096 entries / 1 MiB and drops larger ones.
// variant.Builder keeps the same kind of arenas and is reusable after Reset.
// What an encoder does therefore depends on
//
//   - SIZE: the number of children of a container against 32 (also the size of
//     the on-stack offset buffer: n+1 <= 32), 64 (first doubling), 4096 (pool
//     retention), and the payload against 1 KiB / 1 MiB;
//   - NESTING: whether the growth happens inside a container that is still
//     open (depth 2 and 3), and whether that container has children before
//     and AFTER the one that grew;
//   - HISTORY: what the pooled encoder (or the reused Builder) encoded before:
//     fresh, after a small value, after a value that left a 4096-entry arena,
//     after one whose arena the pool dropped.
//
// The random trees of part 2 have at most 7 children per container and the
// boundary trees are flat, so none of this was reached.  This part generates
// the product: container kinds (array / object, outside and inside) x child
// counts around every threshold x position of the large child (alone, first,
// middle, last) x depth x element kind, through every entry point (Encode,
// Marshal, Builder); and sequences of values of every size class encoded one
// after another on the same pooled encoder / the same Builder, starting from
// an empty pool (two garbage collections empty a sync.Pool, which makes the
// history of a case exactly its sequence, and replays deterministic).
//
// Predicate per value: Decode (Unmarshal for Marshal) of the bytes of the
// entry point is the value.  Correspondence: the bytes equal the model
// encoder's (c19.encode) where the entry point determines them (Encode always;
// Builder when fields arrive in name order; Marshal when no object has two
// fields); values whose dictionary or payload is too large for the line
// protocol in the quick tier (objects of thousands of fields, MiB payloads)
// are compared between Encode and a fresh Builder instead.
package main

import (
	"bytes"
	"encoding/json"
	"fmt"
	"os"
	"runtime"
	"time"

	"github.com/parquet-go/parquet-go/variant"

	"verif/harness/core"
)

// child counts around the arena thresholds
var arenaSmall = []int{31, 32, 33, 64, 65, 100}
var arenaLarge = []int{4095, 4096, 4097, 5000}

type arenaSpec struct {
	outer, inner byte // '[' or '{'
	n            int  // children of the large container
	pos          int  // 0 first, 1 middle, 2 last, 3 alone (no enclosing container)
	depth        int  // 2 | 3: containers around the elements of the large one
	elem         int  // 0 int64, 1 short strings, 2 one-element arrays, 3 strings of 40 bytes, 4 one-field objects
	unsorted     bool // object fields inserted out of name order
}

func arenaElem(kind, i int) *tree {
	switch kind {
	case 1:
		return &tree{Kind: 's', D: []byte(fmt.Sprintf("v%d", i))}
	case 2:
		return &tree{Kind: '[', Elems: []*tree{{Kind: 'i', K: 3, I: int64(i)}}}
	case 3:
		return &tree{Kind: 's', D: []byte(fmt.Sprintf("%040d", i))}
	case 4:
		return &tree{Kind: '{', Names: []string{"k"}, Elems: []*tree{{Kind: 'i', K: 3, I: int64(i)}}}
	}
	return &tree{Kind: 'i', K: 3, I: int64(i) * 7}
}

func arenaContainer(kind byte, elems []*tree, prefix string, unsorted bool) *tree {
	t := &tree{Kind: kind, Elems: elems}
	if kind == '{' {
		n := len(elems)
		for i := range elems {
			j := i
			if unsorted {
				j = n - 1 - i
			}
			t.Names = append(t.Names, fmt.Sprintf("%s%05d", prefix, j))
		}
	}
	return t
}

func (sp arenaSpec) tree() *tree {
	elems := make([]*tree, sp.n)
	for i := range elems {
		elems[i] = arenaElem(sp.elem, i)
	}
	big := arenaContainer(sp.inner, elems, "k", sp.unsorted)
	if sp.pos == 3 {
		return big
	}
	before := []*tree{{Kind: 'i', K: 3, I: 1}, {Kind: 's', D: []byte("head")}}
	after := []*tree{{Kind: 's', D: []byte("tail")}, {Kind: '{', Names: []string{"k"}, Elems: []*tree{{Kind: 'i', K: 3, I: 2}}},
		{Kind: '[', Elems: []*tree{{Kind: 'i', K: 3, I: 3}, {Kind: 'i', K: 3, I: 4}}}}
	var kids []*tree
	switch sp.pos {
	case 0:
		kids = append([]*tree{big}, after...)
	case 1:
		kids = append(append(append([]*tree{}, before...), big), after...)
	default:
		kids = append(append([]*tree{}, before...), big)
	}
	out := arenaContainer(sp.outer, kids, "a", sp.unsorted)
	if sp.depth >= 3 {
		out = arenaContainer(sp.outer, []*tree{{Kind: 't'}, out, {Kind: 's', D: []byte("end")}, {Kind: '[', Elems: []*tree{{Kind: 'n'}}}}, "z", sp.unsorted)
	}
	return out
}

// arenaCase: values encoded one after another through one entry point,
// starting from an empty encoder pool (a zero Builder).
type arenaCase struct {
	Mode  string   `json:"mode"`  // "arena"
	Entry string   `json:"entry"` // encode | marshal | builder | mixed (Encode and Marshal alternate: they share the pool)
	Trees []string `json:"trees"`
}

// emptyEncoderPool: a sync.Pool is emptied by two garbage collections
// (primary cache -> victim cache -> dropped).
func emptyEncoderPool() {
	runtime.GC()
	runtime.GC()
}

func (ac *arenaCase) entryOf(i int) string {
	if ac.Entry == "mixed" {
		return []string{"encode", "marshal"}[i%2]
	}
	return ac.Entry
}

// modelable: the model encoder interns names in a list (quadratic in the
// dictionary) and the oracle reads hexadecimal text.
func arenaModelable(c *core.Ctx, t *tree, textLen int) bool {
	maxNames := 300
	if !c.Quick() {
		maxNames = 6000
	}
	return t.maxFields() <= maxNames && textLen <= 400000
}

func checkArena(c *core.Ctx, ac *arenaCase) {
	trees := make([]*tree, len(ac.Trees))
	for i, s := range ac.Trees {
		t, err := parseTree(s)
		if err != nil {
			c.Note("arena: unreadable tree: %v", err)
			return
		}
		trees[i] = t
	}
	type out struct {
		meta, val []byte
		err       error
	}
	outs := make([]out, len(trees))
	emptyEncoderPool()
	var bld variant.Builder
	for i, t := range trees {
		o := &outs[i]
		func() {
			defer func() {
				if r := recover(); r != nil {
					o.err = fmt.Errorf("panic: %v", r)
				}
			}()
			switch ac.entryOf(i) {
			case "marshal":
				o.meta, o.val, o.err = variant.Marshal(t.goAny())
			case "builder":
				bld.Reset()
				t.toValue().Write(&bld)
				m, v, err := bld.Finish()
				// Finish: the value aliases the builder's buffer until the next write
				o.meta, o.val, o.err = m, append([]byte{}, v...), err
			default:
				var b variant.MetadataBuilder
				o.val = variant.Encode(&b, t.toValue())
				_, o.meta = b.Build()
				if o.val == nil {
					o.err = fmt.Errorf("Encode returned nil")
				}
			}
		}()
	}
	// every output is examined after the whole sequence: a later value must not
	// disturb the bytes returned for an earlier one
	for i, t := range trees {
		o, entry := outs[i], ac.entryOf(i)
		hist := ""
		if len(trees) > 1 {
			hist = fmt.Sprintf(" (value %d of %d encoded one after another from an empty pool)", i+1, len(trees))
		}
		if !t.native() && entry == "marshal" {
			continue
		}
		if o.err != nil {
			c.Violation(entry+"-error", fmt.Sprintf("variant %s fails on a well-formed value%s: %v", entry, hist, o.err), ac)
			return
		}
		if entry == "marshal" {
			x := t.goAny()
			y, err := protectAny(func() (any, error) { return variant.Unmarshal(o.meta, o.val) })
			if err != nil {
				c.Violation("unmarshal-of-marshal-error", fmt.Sprintf("Unmarshal rejects the bytes Marshal produced%s: %v", hist, err), ac)
				return
			}
			if anyText(y) != anyText(x) {
				c.Violation("unmarshal-of-marshal-differs", fmt.Sprintf("Unmarshal(Marshal(x)) != x%s: got %s want %s", hist, core.Trunc(anyText(y), 300), core.Trunc(anyText(x), 300)), ac)
				return
			}
		}
		got, err := goDecode(o.meta, o.val)
		if err != nil {
			c.Violation("decode-of-"+entry+"-error", fmt.Sprintf("variant.Decode rejects the bytes variant %s produced%s: %v", entry, hist, err), ac)
			return
		}
		if !eqTree(got, t) {
			c.Violation("decode-of-"+entry+"-differs", fmt.Sprintf("Decode(%s(v)) != v%s: got %s want %s", entry, hist, core.Trunc(got.canonText(), 300), core.Trunc(t.canonText(), 300)), ac)
			return
		}
		// bytes == the model encoder's, where the entry point determines them
		determined := entry == "encode" || (entry == "builder" && t.keySorted()) || (entry == "marshal" && t.maxFields() <= 1)
		if !determined {
			continue
		}
		text := ac.Trees[i]
		if c.HasOracle() && arenaModelable(c, t, len(text)) {
			impl := core.Hexs(o.meta) + " " + core.Hexs(o.val)
			if ans := c.Ask("c19.encode " + text); ans != impl {
				c.Mismatch("corr:C19.encode-arena", "c19.encode "+core.Trunc(text, 600)+" vs variant "+entry+hist, core.Trunc(impl, 600), core.Trunc(ans, 600), ac)
				return
			}
		} else if entry != "builder" && t.keySorted() {
			// too large for the line protocol: the other encoder of the library
			bm, bv, err := goBuild(t)
			if err != nil {
				c.Violation("builder-error", "variant.Builder fails on a well-formed value: "+err.Error(), ac)
				return
			}
			if !bytes.Equal(bm, o.meta) || !bytes.Equal(bv, o.val) {
				c.Mismatch("corr:C19.builder-value", "bytes of a fresh Builder vs variant "+entry+hist+" for "+core.Trunc(text, 300), fmt.Sprintf("%d+%d bytes", len(o.meta), len(o.val)), fmt.Sprintf("%d+%d bytes", len(bm), len(bv)), ac)
				return
			}
		}
	}
}

func protectAny(f func() (any, error)) (x any, err error) {
	defer func() {
		if r := recover(); r != nil {
			err = fmt.Errorf("panic: %v", r)
		}
	}()
	return f()
}

func shrinkArena(c *core.Ctx, ac *arenaCase) *arenaCase {
	budget := 500
	fails := func(x *arenaCase) bool {
		if budget <= 0 {
			return false
		}
		budget--
		return c.Probe(func() { checkArena(c, x) })
	}
	cur := *ac
	// shorter histories
	for changed := true; changed && len(cur.Trees) > 1; {
		changed = false
		for i := range cur.Trees {
			t := cur
			t.Trees = append(append([]string{}, cur.Trees[:i]...), cur.Trees[i+1:]...)
			if fails(&t) {
				cur, changed = t, true
				break
			}
		}
	}
	if cur.Entry == "mixed" {
		for _, e := range []string{"encode", "marshal"} {
			t := cur
			t.Entry = e
			if fails(&t) {
				cur = t
				break
			}
		}
	}
	for i := range cur.Trees {
		t0, err := parseTree(cur.Trees[i])
		if err != nil {
			continue
		}
		min := shrinkTree(t0, func(x *tree) bool {
			if !x.native() {
				return false
			}
			t := cur
			t.Trees = append([]string{}, cur.Trees...)
			t.Trees[i] = x.text()
			return fails(&t)
		})
		cur.Trees = append([]string{}, cur.Trees...)
		cur.Trees[i] = min.text()
	}
	// shrinking runs other values through the pool; the history of a case is
	// its sequence only, so the result fails again — unless it does not
	if !c.Probe(func() { checkArena(c, &cur) }) {
		return ac
	}
	return &cur
}

// arenaShrinks: the failing cases of this part that were shrunk; the product
// of the dimensions makes one defect fail in dozens of cases, the first few
// are minimised, the others reported as they are (one replay per class is kept).
var arenaShrinks, arenaFileShrinks int

func runArenaCase(c *core.Ctx, ac *arenaCase, bucket string) {
	if c.Probe(func() { checkArena(c, ac) }) {
		if arenaShrinks++; arenaShrinks <= 4 {
			ac = shrinkArena(c, ac)
		}
		checkArena(c, ac)
	}
	key, _ := json.Marshal(ac)
	c.Case(bucket, string(key), true)
}

// arenaReach counts what this part ran (reported as a note).
var arenaReach struct{ trees, large, sequences, files int }

// runArena: the product of the dimensions, then the histories, then files.
func runArena(c *core.Ctx, g *gen) {
	r := g.aux
	start := time.Now()
	lap := func(what string) {
		if os.Getenv("VERIF_C19_LAPS") != "" {
			c.Note("arena %s: %.1fs", what, time.Since(start).Seconds())
		}
		start = time.Now()
	}
	entries := []string{"encode", "marshal", "builder"}
	one := func(sp arenaSpec, bucket string) {
		text := sp.tree().text()
		for _, e := range entries {
			runArenaCase(c, &arenaCase{Mode: "arena", Entry: e, Trees: []string{text}}, bucket+"/"+e)
		}
		arenaReach.trees++
		if sp.n > 4000 {
			arenaReach.large++
		}
	}
	kinds := []byte{'[', '{'}
	for _, n := range arenaSmall {
		for _, inner := range kinds {
			for _, outer := range kinds {
				for pos := 0; pos < 4; pos++ {
					if pos == 3 && outer == '{' {
						continue // alone: no enclosing container
					}
					one(arenaSpec{outer: outer, inner: inner, n: n, pos: pos, depth: 2 + r.Intn(2), elem: r.Intn(5), unsorted: r.Intn(2) == 0}, "arena/children-32..100")
				}
			}
		}
	}
	lap("small")
	// beyond what the pool keeps: every (outer, inner) pair, positions drawn
	for _, n := range arenaLarge {
		for _, inner := range kinds {
			for _, outer := range kinds {
				pos := r.Intn(3)
				if c.Quick() && inner == '{' && outer == '{' && n != 4097 {
					continue
				}
				one(arenaSpec{outer: outer, inner: inner, n: n, pos: pos, depth: 2 + r.Intn(2), elem: []int{0, 0, 1, 2}[r.Intn(4)], unsorted: r.Intn(2) == 0}, "arena/children-4095..5000")
			}
		}
		one(arenaSpec{outer: '[', inner: '[', n: n, pos: 3, elem: 0}, "arena/children-4095..5000")
	}
	lap("large")
	// payloads against the byte buffers: 1 KiB (33 strings of 40 bytes are above it), 1 MiB
	for _, size := range []int{1 << 10, 1 << 20} {
		for _, inner := range kinds {
			for pos := 0; pos < 3; pos++ {
				part := size/3 + 16
				elems := []*tree{strOfSize(part, 'p'), {Kind: 'b', D: patBinary(part)}, strOfSize(part, 'q')}
				big := arenaContainer(inner, elems, "k", false)
				kids := [][]*tree{{big, {Kind: 's', D: []byte("tail")}, {Kind: 'i', K: 3, I: 2}},
					{{Kind: 'i', K: 3, I: 1}, big, {Kind: 's', D: []byte("tail")}},
					{{Kind: 'i', K: 3, I: 1}, {Kind: 's', D: []byte("head")}, big}}[pos]
				t := arenaContainer(kinds[pos%2], kids, "a", false)
				for _, e := range []string{"encode", "builder"} { // a binary is not native: no Marshal
					runArenaCase(c, &arenaCase{Mode: "arena", Entry: e, Trees: []string{t.text()}}, "arena/payload-1KiB-1MiB/"+e)
				}
				arenaReach.trees++
			}
		}
	}
	lap("payload")
	// histories: every ordered pair of size classes, and longer sequences
	classes := []int{3, 33, 100, 2100, 5000}
	mk := func(n int) string {
		return arenaSpec{outer: kinds[r.Intn(2)], inner: '[', n: n, pos: r.Intn(3), depth: 2 + r.Intn(2), elem: []int{0, 1, 2}[r.Intn(3)], unsorted: r.Intn(2) == 0}.tree().text()
	}
	mko := func(n int) string {
		if n > 200 {
			n = 200 + n%100 // objects: the dictionary is the slow part of the model
		}
		return arenaSpec{outer: kinds[r.Intn(2)], inner: '{', n: n, pos: r.Intn(3), depth: 2, elem: r.Intn(3), unsorted: r.Intn(2) == 0}.tree().text()
	}
	for _, e := range []string{"encode", "marshal", "builder", "mixed"} {
		for _, a := range classes {
			for _, b := range classes {
				if c.Quick() && e != "encode" && r.Intn(3) > 0 {
					continue // quick tier: every pair through Encode, a third of them through the others
				}
				trees := []string{mk(a), mk(b)}
				if r.Intn(4) == 0 {
					trees[r.Intn(2)] = mko(a)
				}
				runArenaCase(c, &arenaCase{Mode: "arena", Entry: e, Trees: trees}, "arena/history/"+e)
				arenaReach.sequences++
			}
		}
		for k := c.N(4, 60); k > 0; k-- {
			var trees []string
			for j := 3 + r.Intn(3); j > 0; j-- {
				n := classes[r.Intn(len(classes))]
				if r.Intn(3) == 0 {
					trees = append(trees, mko(n))
				} else {
					trees = append(trees, mk(n))
				}
			}
			runArenaCase(c, &arenaCase{Mode: "arena", Entry: e, Trees: trees}, "arena/history/"+e)
			arenaReach.sequences++
		}
	}
	lap("histories")
	// through files: the value does not match the shredded type (or is a
	// leftover field, or a list element) and is stored by the tree encoder
	for _, n := range []int{33, 100, 4097} {
		for _, st := range []string{"Pi3", "O{61=Pi3}", "LPi3", "N"} {
			for _, write := range []string{"typed", "raw"} {
				s, err := parseSch(st)
				if err != nil {
					continue
				}
				big := arenaSpec{outer: kinds[r.Intn(2)], inner: kinds[r.Intn(2)], n: n, pos: r.Intn(3), depth: 2, elem: []int{0, 1, 2}[r.Intn(3)], unsorted: r.Intn(2) == 0}.tree()
				fc := &fileCase{Mode: "file", Schema: s.replayText(), Optional: r.Intn(2) == 0, PageV: 1 + r.Intn(2), Write: write,
					Path: []string{"writer", "buffer", "rows"}[r.Intn(3)],
					Rows: []string{"i3:2a", big.text(), "s706c61696e", "{61=i3:7,62=" + big.text() + "}"}}
				fc.FreshPool = n < 4000 || r.Intn(2) == 0
				fc.Window = []int{0, 1, 2}[r.Intn(3)]
				fc.Nav, fc.NavAll = g.navPaths(s, fc.Rows), r.Intn(3) == 0
				if c.Probe(func() { checkFile(c, fc) }) {
					min := fc
					if arenaFileShrinks++; arenaFileShrinks <= 3 {
						min = shrinkFile(c, fc)
					}
					checkFile(c, min)
				}
				key, _ := json.Marshal(fc)
				c.Case("file/arena", string(key), true)
				arenaReach.files++
			}
		}
	}
	lap("files")
	c.Note("part 10 (arena.go) ran: %d values with a container of 31..5000 children nested below open containers (%d above the 4096 entries the encoder pool keeps) through Encode, Marshal and Builder from an empty pool; %d sequences of 2..5 values on one pooled encoder / one Builder; %d files holding such values as residuals",
		arenaReach.trees, arenaReach.large, arenaReach.sequences, arenaReach.files)
}
