package main

// C12: reading or copying rows through a different but compatible schema only
// adds or drops columns.
//
// Source schemas and rows come from harness/gen (random schemas with groups,
// LIST groups and every leaf type; value trees shredded by gen's independent
// Dremel implementation).  Targets are obtained by EDIT SCRIPTS: delete,
// permute, add (optional / required / repeated leaves and groups) at any
// depth, including inside LIST groups; and, for the rejection clause, a leaf
// replaced by a group of the same name or the converse.
//
// Predicate (independent of the model): the rows obtained through every
// conversion path equal, value for value and level for level, the shredding
// (gen.Shred) with the target schema of the PROJECTED value tree (goProject:
// same-named fields kept recursively, added optional -> null, repeated ->
// empty, required -> zero), in the same number and order.
//
// Variant columns (variant.go): the source stores them shredded or not, the
// target declares them unshredded (reconstruction by convert_variant.go) or
// alike; the specification and the model see the abstract source in which the
// column holds the canonical encoding of the logical value.  Call histories on
// one reader (history.go): successive reads through different targets, Reset
// and SeekToRow between them.
//
// Correspondence: conversion.Convert's output rows == the extracted model's
// convert_columns, row by row, exactly; goProject+gen.Shred == the model's
// project (assembled and shredded by the model).

import (
	"bytes"
	"encoding/hex"
	"encoding/json"
	"errors"
	"fmt"
	"io"
	"math/rand"
	"os"
	"reflect"
	"runtime/debug"
	"runtime/pprof"
	"sort"
	"strings"

	"github.com/parquet-go/parquet-go"
	"github.com/parquet-go/parquet-go/deprecated"

	"verif/harness/core"
	"verif/harness/gen"
)

func main() {
	if p := os.Getenv("C12_PROF"); p != "" {
		f, _ := os.Create(p)
		pprof.StartCPUProfile(f)
		defer pprof.StopCPUProfile()
	}
	core.Main("C12", run, replay)
}

// modelMode selects the model the implementation is compared with: "fixed"
// (convert_columns) or "pinned" (the closest-sibling heuristic of the tree
// before the repair; only for validating that model).
var modelMode = func() string {
	if m := os.Getenv("C12_MODEL"); m != "" {
		return m
	}
	return "fixed"
}()

// ---------------------------------------------------------------------------
// schema trees

// ordGroup is a group node whose fields keep the given order (parquet.Group
// sorts its fields by name, which would make every permutation the identity).
type ordGroup struct {
	parquet.Group
	order []string
}

func (g ordGroup) Fields() []parquet.Field {
	byName := map[string]parquet.Field{}
	for _, f := range g.Group.Fields() {
		byName[f.Name()] = f
	}
	out := make([]parquet.Field, 0, len(g.order))
	for _, n := range g.order {
		out = append(out, byName[n])
	}
	return out
}

func isIntactList(n *gen.Node) bool {
	return n.Logical == "list" && len(n.Fields) == 1 && n.Fields[0].Name == "list" && n.Fields[0].Rep == gen.Rpt &&
		n.Fields[0].Leaf == "" && len(n.Fields[0].Fields) == 1 && n.Fields[0].Fields[0].Name == "element" && n.Fields[0].Fields[0].Rep != gen.Rpt
}

func buildNode(n *gen.Node) parquet.Node {
	if n.Leaf != "" {
		return n.ParquetNode()
	}
	if isVariantNode(n) {
		return buildVariant(n)
	}
	if isIntactList(n) {
		return parquet.List(withRep(n.Fields[0].Fields[0]))
	}
	g := ordGroup{Group: parquet.Group{}}
	for _, f := range n.Fields {
		g.Group[f.Name] = withRep(f)
		g.order = append(g.order, f.Name)
	}
	return g
}

func withRep(n *gen.Node) parquet.Node {
	p := buildNode(n)
	switch n.Rep {
	case gen.Opt:
		return parquet.Optional(p)
	case gen.Rpt:
		return parquet.Repeated(p)
	}
	return parquet.Required(p)
}

func buildSchema(root *gen.Node) *parquet.Schema { return parquet.NewSchema("root", buildNode(root)) }

func cloneNode(n *gen.Node) *gen.Node {
	c := *n
	c.Fields = nil
	for _, f := range n.Fields {
		c.Fields = append(c.Fields, cloneNode(f))
	}
	return &c
}

func fieldIndex(n *gen.Node, name string) int {
	for i, f := range n.Fields {
		if f.Name == name {
			return i
		}
	}
	return -1
}

// groupAt follows a path of names through groups; nil if it does not lead to a
// group (a variant column is one field: edits do not reach inside it).
func groupAt(root *gen.Node, path []string) *gen.Node {
	n := root
	for _, name := range path {
		i := fieldIndex(n, name)
		if i < 0 || n.Fields[i].Leaf != "" || isVariantNode(n.Fields[i]) {
			return nil
		}
		n = n.Fields[i]
	}
	return n
}

// groupPaths lists the name paths of all groups (root = empty path).
func groupPaths(n *gen.Node, prefix []string, out *[][]string) {
	*out = append(*out, append([]string(nil), prefix...))
	for _, f := range n.Fields {
		if f.Leaf == "" && !isVariantNode(f) {
			groupPaths(f, append(prefix, f.Name), out)
		}
	}
}

// ---------------------------------------------------------------------------
// edit scripts

type edit struct {
	Op   string    `json:"op"`             // del | add | perm | opt | clash
	Path []string  `json:"path"`           // group in which the edit happens
	Name string    `json:"name,omitempty"` // del/clash: field; add: new field name
	Pos  int       `json:"pos,omitempty"`  // add: insertion position; perm: rotation
	Node *gen.Node `json:"node,omitempty"` // add: the new field (with repetition)
}

// applyEdits returns the target tree; edits whose anchor vanished are skipped.
func applyEdits(src *gen.Node, edits []edit) *gen.Node {
	t := cloneNode(src)
	for _, e := range edits {
		g := groupAt(t, e.Path)
		if g == nil {
			continue
		}
		switch e.Op {
		case "del":
			i := fieldIndex(g, e.Name)
			if i < 0 || len(g.Fields) < 2 {
				continue
			}
			g.Fields = append(g.Fields[:i:i], g.Fields[i+1:]...)
			g.Logical = ""
		case "add":
			if fieldIndex(g, e.Name) >= 0 {
				continue
			}
			nf := cloneNode(e.Node)
			nf.Name = e.Name
			p := e.Pos % (len(g.Fields) + 1)
			fs := append([]*gen.Node(nil), g.Fields[:p]...)
			fs = append(fs, nf)
			g.Fields = append(fs, g.Fields[p:]...)
			g.Logical = ""
		case "perm":
			if len(g.Fields) < 2 {
				continue
			}
			k := 1 + e.Pos%(len(g.Fields)-1)
			g.Fields = append(append([]*gen.Node(nil), g.Fields[k:]...), g.Fields[:k]...)
			if e.Pos%2 == 1 { // also reverse: rotations alone miss some orders
				for i, j := 0, len(g.Fields)-1; i < j; i, j = i+1, j-1 {
					g.Fields[i], g.Fields[j] = g.Fields[j], g.Fields[i]
				}
			}
		case "opt":
			// the target reads a required field of the source as an optional
			// one (a struct field read into a pointer field, a nullable or
			// merged schema): every level below it shifts, no value changes
			if i := fieldIndex(g, e.Name); i >= 0 && g.Fields[i].Rep == gen.Req {
				g.Fields[i].Rep = gen.Opt
			}
		case "clash":
			i := fieldIndex(g, e.Name)
			if i < 0 {
				continue
			}
			f := g.Fields[i]
			if f.Leaf != "" {
				g.Fields[i] = &gen.Node{Name: f.Name, Rep: f.Rep, Fields: []*gen.Node{{Name: "y", Rep: gen.Req, Leaf: f.Leaf, Size: f.Size}}}
			} else {
				g.Fields[i] = &gen.Node{Name: f.Name, Rep: f.Rep, Leaf: "int32"}
			}
			g.Logical = ""
		}
	}
	return t
}

var addLeafKinds = []string{"bool", "int32", "int64", "int96", "float", "double", "bytes", "string", "flba", "uuid", "uint32", "date"}

func genAddNode(rng *rand.Rand, depth int) *gen.Node {
	nd := &gen.Node{Rep: []int{gen.Req, gen.Opt, gen.Opt, gen.Rpt}[rng.Intn(4)]}
	if rng.Intn(16) == 0 {
		return variantNode("", nd.Rep, nil) // a variant column that the source lacks
	}
	if depth > 0 && rng.Intn(3) == 0 {
		n := 1 + rng.Intn(3)
		for i := 0; i < n; i++ {
			f := genAddNode(rng, depth-1)
			f.Name = fmt.Sprintf("n%d", i)
			nd.Fields = append(nd.Fields, f)
		}
		return nd
	}
	nd.Leaf = addLeafKinds[rng.Intn(len(addLeafKinds))]
	if nd.Leaf == "flba" {
		nd.Size = []int{1, 3, 8, 12}[rng.Intn(4)]
	}
	return nd
}

func genEdits(rng *rand.Rand, src *gen.Node, n int, ops []string) []edit {
	var edits []edit
	cur := cloneNode(src)
	for len(edits) < n {
		var paths [][]string
		groupPaths(cur, nil, &paths)
		p := paths[rng.Intn(len(paths))]
		g := groupAt(cur, p)
		e := edit{Op: ops[rng.Intn(len(ops))], Path: p}
		if e.Op == "opt" {
			var req []string
			for _, f := range g.Fields {
				if f.Rep == gen.Req {
					req = append(req, f.Name)
				}
			}
			if len(req) == 0 {
				e.Op = "perm"
			} else {
				e.Name = req[rng.Intn(len(req))]
			}
		}
		switch e.Op {
		case "del", "clash":
			e.Name = g.Fields[rng.Intn(len(g.Fields))].Name
		case "add":
			// names before, between and after the generated ones (f00.. g00.. element list)
			e.Name = []string{"a", "f", "m", "z"}[rng.Intn(4)] + fmt.Sprint(len(edits)) + []string{"", "x"}[rng.Intn(2)]
			e.Pos = rng.Intn(8)
			e.Node = genAddNode(rng, 2)
		case "perm":
			e.Pos = rng.Intn(16)
		}
		edits = append(edits, e)
		cur = applyEdits(cur, []edit{e})
		// now and then nothing of a widened group is kept: a column is added
		// to it and all its own fields are deleted (whether such a group
		// reads as null or as present is the library's choice, see goProjectAt)
		if e.Op == "opt" && rng.Intn(3) == 0 {
			if wg := groupAt(cur, append(append([]string(nil), p...), e.Name)); wg != nil {
				wp := append(append([]string(nil), p...), e.Name)
				more := []edit{{Op: "add", Path: wp, Name: "w" + fmt.Sprint(len(edits)), Pos: rng.Intn(4), Node: genAddNode(rng, 1)}}
				for _, f := range wg.Fields {
					more = append(more, edit{Op: "del", Path: wp, Name: f.Name})
				}
				edits = append(edits, more...)
				cur = applyEdits(cur, more)
			}
		}
	}
	return edits
}

// ---------------------------------------------------------------------------
// the specification, on value trees

func zeroLeaf(n *gen.Node) parquet.Value {
	switch n.Leaf {
	case "bool":
		return parquet.BooleanValue(false)
	case "int32", "uint32", "date":
		return parquet.Int32Value(0)
	case "int64", "uint64", "ts":
		return parquet.Int64Value(0)
	case "int96":
		return parquet.Int96Value(deprecated.Int96{})
	case "float":
		return parquet.FloatValue(0)
	case "double":
		return parquet.DoubleValue(0)
	case "bytes", "string":
		return parquet.ByteArrayValue([]byte{})
	case "flba":
		return parquet.FixedLenByteArrayValue(make([]byte, n.Size))
	case "uuid":
		return parquet.FixedLenByteArrayValue(make([]byte, 16))
	}
	panic("leaf " + n.Leaf)
}

func zeroVal(n *gen.Node) *gen.Val {
	if n.Leaf != "" {
		z := zeroLeaf(n)
		return &gen.Val{Leaf: &z}
	}
	g := &gen.Val{}
	for _, f := range n.Fields {
		g.Group = append(g.Group, defaultVal(f))
	}
	return g
}

func defaultVal(f *gen.Node) *gen.Val {
	switch f.Rep {
	case gen.Opt:
		return &gen.Val{IsOpt: true, Null: true}
	case gen.Rpt:
		return &gen.Val{IsRpt: true}
	}
	return zeroVal(f)
}

// goProject: the value of node tgt read from the value v of node src.
func goProject(src, tgt *gen.Node, v *gen.Val) *gen.Val { return goProjectAt(src, tgt, v, true) }

// hasLeafField: the group has a column of its own.
func hasLeafField(n *gen.Node) bool {
	for _, f := range n.Fields {
		if f.Leaf != "" {
			return true
		}
	}
	return false
}

// nothingShared: no column below the target group t tells anything about the
// source group s, which is reached through required nodes only: every column
// below t is missing in the source, and the deepest group both sides have on
// its path is such a group without a column of its own (for these columns
// Convert reads no source column at all).
func nothingShared(s, t *gen.Node) bool {
	for _, tf := range t.Fields {
		si := fieldIndex(s, tf.Name)
		if si < 0 || (s.Fields[si].Leaf != "") != (tf.Leaf != "") {
			if hasLeafField(s) {
				return false
			}
			continue
		}
		sf := s.Fields[si]
		if tf.Leaf != "" || sf.Rep != gen.Req || isVariantNode(sf) || !nothingShared(sf, tf) {
			return false
		}
	}
	return true
}

// nullWidened counts the widened nodes read as null (coverage only).
var nullWidened int

// goProjectAt; top: every node above is required on both sides.
func goProjectAt(src, tgt *gen.Node, v *gen.Val, top bool) *gen.Val {
	if tgt.Leaf != "" {
		return v
	}
	out := &gen.Val{}
	for _, tf := range tgt.Fields {
		si := fieldIndex(src, tf.Name)
		if si < 0 || (src.Fields[si].Leaf != "") != (tf.Leaf != "") {
			out.Group = append(out.Group, defaultVal(tf))
			continue
		}
		sf, fv := src.Fields[si], v.Group[si]
		switch tf.Rep {
		case gen.Opt:
			if sf.Rep == gen.Req {
				// a required node read as an optional one is present wherever
				// its parent is.  One free choice, made the way the library
				// makes it: the outermost such node reads as null when no
				// column below it says anything about the source
				if top && tf.Leaf == "" && !isVariantNode(sf) && nothingShared(sf, tf) {
					nullWidened++
					out.Group = append(out.Group, &gen.Val{IsOpt: true, Null: true})
				} else {
					out.Group = append(out.Group, &gen.Val{IsOpt: true, Some: goProjectAt(sf, tf, fv, false)})
				}
			} else if fv.Null {
				out.Group = append(out.Group, &gen.Val{IsOpt: true, Null: true})
			} else {
				out.Group = append(out.Group, &gen.Val{IsOpt: true, Some: goProjectAt(sf, tf, fv.Some, false)})
			}
		case gen.Rpt:
			l := &gen.Val{IsRpt: true}
			for _, y := range fv.List {
				l.List = append(l.List, goProjectAt(sf, tf, y, false))
			}
			out.Group = append(out.Group, l)
		default:
			out.Group = append(out.Group, goProjectAt(sf, tf, fv, top))
		}
	}
	return out
}

// compatible: same-named nodes agree on kind, repetition and leaf type; the
// one repetition change that keeps every value and the whole nesting is
// allowed: a required node of the source may be optional in the target.
func compatible(src, tgt *gen.Node) bool {
	if (src.Leaf != "") != (tgt.Leaf != "") {
		return false
	}
	if tgt.Leaf != "" {
		return src.Leaf == tgt.Leaf && src.Size == tgt.Size
	}
	for _, tf := range tgt.Fields {
		if si := fieldIndex(src, tf.Name); si >= 0 {
			sr := src.Fields[si].Rep
			if !(sr == tf.Rep || (sr == gen.Req && tf.Rep == gen.Opt)) || !compatible(src.Fields[si], tf) {
				return false
			}
		}
	}
	return true
}

// addedLeaves tells, per target column, whether the column exists in the source.
func addedLeaves(src, tgt *gen.Node, missing bool, out *[]bool) {
	if tgt.Leaf != "" {
		*out = append(*out, missing)
		return
	}
	for _, tf := range tgt.Fields {
		m := missing
		var sf *gen.Node
		if !m {
			if si := fieldIndex(src, tf.Name); si >= 0 && (src.Fields[si].Leaf != "") == (tf.Leaf != "") {
				sf = src.Fields[si]
			} else {
				m = true
			}
		}
		addedLeaves(sf, tf, m, out)
	}
}

// ---------------------------------------------------------------------------
// oracle syntax

func nameTok(s string) string {
	if s == "typed_value" {
		s = "typed_v" // names are 8 bytes in the model; no generated name collides
	}
	if len(s) > 8 {
		panic("name longer than 8 bytes: " + s)
	}
	b := make([]byte, 8)
	copy(b, s)
	return hex.EncodeToString(b)
}

var kindCodes = map[string]int{"bool": 1, "int32": 2, "int64": 3, "int96": 4, "float": 5, "double": 6, "bytes": 7, "string": 8, "uuid": 9, "uint32": 10, "uint64": 11, "date": 12, "ts": 13}

func tyTok(n *gen.Node) string {
	code, ok := kindCodes[n.Leaf]
	if n.Leaf == "flba" {
		code, ok = 100+n.Size, true
	}
	if !ok {
		panic("leaf " + n.Leaf)
	}
	return fmt.Sprintf("%x", code*65536+len(zeroLeaf(n).Bytes()))
}

func schemaTok(n *gen.Node) string {
	parts := make([]string, len(n.Fields))
	for i, f := range n.Fields {
		s := nameTok(f.Name) + ":" + []string{"R", "O", "P"}[f.Rep]
		if f.Leaf != "" {
			s += ":" + tyTok(f)
		} else {
			s += schemaTok(f)
		}
		parts[i] = s
	}
	return "(" + strings.Join(parts, ",") + ")"
}

func rowTok(ncols int, row parquet.Row) string {
	if ncols == 0 {
		return "-"
	}
	cols := make([][]string, ncols)
	for _, v := range row {
		s := "N"
		if !v.IsNull() {
			s = "x" + hex.EncodeToString(v.Bytes())
		}
		ci := v.Column()
		if ci < 0 || ci >= ncols {
			return fmt.Sprintf("BAD-COLUMN-%d", ci)
		}
		cols[ci] = append(cols[ci], fmt.Sprintf("%d.%d.%s", v.RepetitionLevel(), v.DefinitionLevel(), s))
	}
	parts := make([]string, ncols)
	for i, c := range cols {
		if len(c) == 0 {
			parts[i] = "_"
		} else {
			parts[i] = strings.Join(c, ";")
		}
	}
	return strings.Join(parts, "|")
}

// ---------------------------------------------------------------------------
// cases

type c12Case struct {
	Seed      int64     `json:"seed"`
	NRows     int       `json:"nrows"`
	MaxDepth  int       `json:"max_depth"`
	MaxFields int       `json:"max_fields"`
	NullBias  int       `json:"null_bias"`
	Variants  []varSpec `json:"variants,omitempty"` // variant columns put into the generated source
	Edits     []edit    `json:"edits"`
	Kind      string    `json:"kind"` // compat | clash
}

type built struct {
	src, tgt    *gen.Node // the schema of the file (physical source) and the target
	srcA        *gen.Node // the abstract source: variant columns stored the way the target declares them
	tgtN        *gen.Node // the target with the nodes that are required in the source required again (= tgt when nWidened == 0)
	ss, ts      *parquet.Schema
	vals        []*gen.Val    // abstract source values
	rows        []parquet.Row // source rows (file layout)
	rowsA       []parquet.Row // source rows of the abstract source
	want        []parquet.Row // expected target rows
	added       []bool        // per target column
	pairs       [][2]int      // (metadata, value) columns of the unshredded variants of the target
	absToPhys   []int         // column of the file for every column of the abstract source
	nRebuilt    int           // variant columns of the target that are reconstructed from a shredded source
	nWidened    int           // required nodes of the source that the target reads as optional
	nullWidened bool          // one of them reads as null (nothing below it is read from the source)
	compatible  bool
	layoutErr   string
}

// sourceBase is the generated source before variant columns are put in.
func (cs *c12Case) sourceBase() *gen.Node {
	return gen.Schema(rand.New(rand.NewSource(cs.Seed)), gen.Config{MaxDepth: cs.MaxDepth, MaxFields: cs.MaxFields})
}

// editBase is the tree the edit script applies to: the source as the target
// sees it (variant columns in the layout the target declares).
func (cs *c12Case) editBase() *gen.Node { return insertVariants(cs.sourceBase(), cs.Variants, false) }

func (cs *c12Case) build() *built {
	b := &built{}
	base := cs.sourceBase()
	b.src = insertVariants(base, cs.Variants, true)
	b.srcA = insertVariants(base, cs.Variants, false)
	b.tgt = applyEdits(b.srcA, cs.Edits)
	b.tgtN, b.nWidened = narrowLike(b.tgt, b.srcA)
	b.ss, b.ts = buildSchema(b.src), buildSchema(b.tgt)
	b.compatible = compatible(b.srcA, b.tgt)
	addedLeaves(b.srcA, b.tgt, false, &b.added)
	col := 0
	unshreddedPairs(b.tgt, &col, &b.pairs)
	phys := leafPathIndex(b.src)
	b.absToPhys = make([]int, len(b.srcA.Leaves()))
	for p, i := range leafPathIndex(b.srcA) {
		b.absToPhys[i] = phys[p]
	}
	b.nRebuilt = countRebuilt(b.src, b.tgt)
	if len(cs.Variants) > 0 || b.nWidened > 0 {
		if e := schemaLayoutError(b.src, b.ss); e != "" {
			b.layoutErr = "source: " + e
		} else if e := schemaLayoutError(b.tgt, b.ts); e != "" {
			b.layoutErr = "target: " + e
		}
	}
	rrng := rand.New(rand.NewSource(cs.Seed ^ 0x5DEECE66D))
	vrng := rand.New(rand.NewSource(cs.Seed ^ 0x2545F4914F6CDD1D))
	nullWidened = 0
	defer func() { b.nullWidened = nullWidened > 0 }()
	for i := 0; i < cs.NRows; i++ {
		v := gen.Row(rrng, b.srcA, cs.NullBias)
		pv := v
		if len(cs.Variants) > 0 {
			v, pv = variantValues(vrng, b.srcA, b.src, v)
		}
		b.vals = append(b.vals, v)
		b.rows = append(b.rows, gen.Shred(b.src, pv))
		b.rowsA = append(b.rowsA, gen.Shred(b.srcA, v))
		b.want = append(b.want, gen.Shred(b.tgt, goProject(b.srcA, b.tgt, v)))
	}
	return b
}

// narrowLike returns a copy of tgt in which every optional node that is
// required in src is required again, and the number of such nodes: the target
// is that tree (a target the source is converted to without any repetition
// change) read through a schema that makes these nodes optional.
func narrowLike(tgt, src *gen.Node) (*gen.Node, int) {
	c, n := *tgt, 0
	c.Fields = nil
	for _, tf := range tgt.Fields {
		var sf *gen.Node
		if src != nil {
			if si := fieldIndex(src, tf.Name); si >= 0 && (src.Fields[si].Leaf != "") == (tf.Leaf != "") {
				sf = src.Fields[si]
			}
		}
		nf, k := narrowLike(tf, sf)
		if sf != nil && sf.Rep == gen.Req && tf.Rep == gen.Opt {
			nf.Rep = gen.Req
			k++
		}
		c.Fields = append(c.Fields, nf)
		n += k
	}
	return &c, n
}

// countRebuilt counts the variant columns that the target declares unshredded
// and the file stores shredded, at the same place.
func countRebuilt(src, tgt *gen.Node) int {
	if src.Leaf != "" || tgt.Leaf != "" {
		return 0
	}
	if isVariantNode(src) || isVariantNode(tgt) {
		if isVariantNode(src) && isVariantNode(tgt) && len(tgt.Fields) == 2 && len(src.Fields) == 3 {
			return 1
		}
		return 0
	}
	n := 0
	for _, tf := range tgt.Fields {
		if si := fieldIndex(src, tf.Name); si >= 0 {
			n += countRebuilt(src.Fields[si], tf)
		}
	}
	return n
}

func cloneRows(rows []parquet.Row) []parquet.Row {
	out := make([]parquet.Row, len(rows))
	for i, r := range rows {
		out[i] = r.Clone()
	}
	return out
}

// safeCanon renders a value without calling String() (the zero INT96 of the
// pinned tree panics there).
func safeCanonRow(r parquet.Row) string {
	parts := make([]string, len(r))
	for i, v := range r {
		func() {
			defer func() {
				if rec := recover(); rec != nil {
					parts[i] = fmt.Sprintf("%d:PANIC(%v)", v.Column(), rec)
				}
			}()
			parts[i] = gen.Canon(v)
		}()
	}
	return strings.Join(parts, " ")
}

// sameRow: the rows are equal value for value (column, levels, null or the
// same bytes): then their canonical texts are equal.  A shortcut only: false
// sends the caller to the comparison of the texts.
func sameRow(a, b parquet.Row) (same bool) {
	if len(a) != len(b) {
		return false
	}
	defer func() {
		if recover() != nil {
			same = false
		}
	}()
	for i := range a {
		x, y := a[i], b[i]
		if x.Column() != y.Column() || x.RepetitionLevel() != y.RepetitionLevel() || x.DefinitionLevel() != y.DefinitionLevel() || x.IsNull() != y.IsNull() {
			return false
		}
		if !x.IsNull() && !bytes.Equal(x.Bytes(), y.Bytes()) {
			return false
		}
	}
	return true
}

type sliceReader struct {
	rows   []parquet.Row
	i      int
	schema *parquet.Schema
}

func (r *sliceReader) ReadRows(rows []parquet.Row) (int, error) {
	n := 0
	for n < len(rows) && r.i < len(r.rows) {
		rows[n] = append(rows[n][:0], r.rows[r.i]...)
		n++
		r.i++
	}
	if r.i == len(r.rows) {
		return n, io.EOF
	}
	return n, nil
}
func (r *sliceReader) Schema() *parquet.Schema { return r.schema }

func readAll(rr parquet.RowReader, batch int) ([]parquet.Row, error) {
	var out []parquet.Row
	buf := make([]parquet.Row, batch)
	for guard := 0; guard < 1<<20; guard++ {
		n, err := rr.ReadRows(buf)
		for _, r := range buf[:n] {
			out = append(out, r.Clone())
		}
		if err != nil {
			if errors.Is(err, io.EOF) {
				return out, nil
			}
			return out, err
		}
		if n == 0 {
			return out, fmt.Errorf("ReadRows returned 0 rows and no error")
		}
	}
	return out, fmt.Errorf("reader never ended")
}

func writeFile(schema *parquet.Schema, rows []parquet.Row, flushAt int, seed int64) ([]byte, error) {
	var buf bytes.Buffer
	w := parquet.NewGenericWriter[any](&buf, schema, parquet.PageBufferSize(256<<uint(seed&3)), parquet.DataPageVersion(1+int(seed>>2&1)))
	for i, r := range rows {
		if i == flushAt && i > 0 {
			if err := w.Flush(); err != nil {
				return nil, err
			}
		}
		if _, err := w.WriteRows([]parquet.Row{r.Clone()}); err != nil {
			return nil, err
		}
	}
	if err := w.Close(); err != nil {
		return nil, err
	}
	return buf.Bytes(), nil
}

func openFile(data []byte) (*parquet.File, error) {
	return parquet.OpenFile(bytes.NewReader(data), int64(len(data)))
}

// guarded runs f and turns a panic into an error.
func guarded(f func() error) (err error) {
	// a writer fed with rows of another schema (what a broken identity test
	// does) reads through wild pointers: make such faults recoverable panics
	defer debug.SetPanicOnFault(debug.SetPanicOnFault(true))
	defer func() {
		if r := recover(); r != nil {
			err = fmt.Errorf("PANIC: %v", r)
		}
	}()
	return f()
}

// compareRows evaluates the predicate on one path.  Returns "" or the class.
func compareRows(b *built, got []parquet.Row) (class, what string) {
	if len(got) != len(b.want) {
		return "row-count", fmt.Sprintf("%d rows in, %d rows out", len(b.want), len(got))
	}
	ncols := len(b.added)
	layout := ""
	// columns present on both sides first: a deviation there is never excused
	// by one on an added column
	for _, wantAdded := range []bool{false, true} {
		for i := range got {
			if sameRow(b.want[i], got[i]) {
				continue
			}
			w, g := safeCanonRow(b.want[i]), safeCanonRow(got[i])
			if w == g {
				continue
			}
			wc, gc := splitCols(ncols, b.want[i]), splitCols(ncols, got[i])
			differs := false
			for ci := 0; ci < ncols; ci++ {
				if wc[ci] == gc[ci] {
					continue
				}
				differs = true
				if b.added[ci] == wantAdded {
					cl := "common-column-differs"
					if wantAdded {
						cl = "added-column-wrong"
					}
					return cl, fmt.Sprintf("row %d column %d (%s): want [%s] got [%s]", i, ci, strings.Join(leafPath(b.tgt, ci), "."), core.Trunc(wc[ci], 200), core.Trunc(gc[ci], 200))
				}
			}
			if !differs && layout == "" {
				// same values per column, but not laid out column by column (or a column index out of range)
				layout = fmt.Sprintf("row %d: want [%s] got [%s]", i, core.Trunc(w, 300), core.Trunc(g, 300))
			}
		}
	}
	if layout != "" {
		return "row-layout", layout
	}
	return "", ""
}

func splitCols(ncols int, r parquet.Row) []string {
	out := make([]string, ncols+1)
	for _, v := range r {
		ci := v.Column()
		if ci < 0 || ci >= ncols {
			ci = ncols
		}
		s := ""
		func() {
			defer func() {
				if rec := recover(); rec != nil {
					s = "PANIC"
				}
			}()
			s = gen.Canon(v)
		}()
		out[ci] += s + " "
	}
	return out
}

func leafPath(n *gen.Node, ci int) []string {
	var rec func(n *gen.Node, prefix []string, k *int) []string
	rec = func(n *gen.Node, prefix []string, k *int) []string {
		if n.Leaf != "" {
			if *k == ci {
				return prefix
			}
			*k++
			return nil
		}
		for _, f := range n.Fields {
			if p := rec(f, append(append([]string(nil), prefix...), f.Name), k); p != nil {
				return p
			}
		}
		return nil
	}
	k := 0
	return rec(n, nil, &k)
}

type pathFn struct {
	name        string
	run         func(b *built, data []byte, cs *c12Case) ([]parquet.Row, error)
	historyOnly bool // the path compares the rows itself, position by position (it returns no rows)
}

var paths = []pathFn{
	{name: "Convert", run: func(b *built, _ []byte, _ *c12Case) ([]parquet.Row, error) {
		conv, err := parquet.Convert(b.ts, b.ss)
		if err != nil {
			return nil, err
		}
		rows := cloneRows(b.rows)
		n, err := conv.Convert(rows)
		return rows[:n], err
	}},
	{name: "ConvertRowReader", run: func(b *built, _ []byte, cs *c12Case) ([]parquet.Row, error) {
		conv, err := parquet.Convert(b.ts, b.ss)
		if err != nil {
			return nil, err
		}
		return readAll(parquet.ConvertRowReader(&sliceReader{rows: b.rows, schema: b.ss}, conv), 1+int(cs.Seed%5))
	}},
	{name: "ConvertRowGroup.Rows", run: func(b *built, data []byte, cs *c12Case) ([]parquet.Row, error) {
		f, err := openFile(data)
		if err != nil {
			return nil, err
		}
		conv, err := parquet.Convert(b.ts, f.Schema())
		if err != nil {
			return nil, err
		}
		var out []parquet.Row
		for _, rg := range f.RowGroups() {
			rows := parquet.ConvertRowGroup(rg, conv).Rows()
			rs, err := readAll(rows, 3+int(cs.Seed%11))
			rows.Close()
			out = append(out, rs...)
			if err != nil {
				return out, err
			}
		}
		return out, nil
	}},
	{name: "NewGenericReader(schema)", run: func(b *built, data []byte, cs *c12Case) ([]parquet.Row, error) {
		f, err := openFile(data)
		if err != nil {
			return nil, err
		}
		r := parquet.NewGenericReader[any](f, b.ts)
		defer r.Close()
		return readAll(r, 2+int(cs.Seed%13))
	}},
	{name: "NewReader(schema)", run: func(b *built, data []byte, cs *c12Case) ([]parquet.Row, error) {
		f, err := openFile(data)
		if err != nil {
			return nil, err
		}
		r := parquet.NewReader(f, b.ts)
		defer r.Close()
		return readAll(r, 1+int(cs.Seed%7))
	}},
	{name: "CopyRows", run: func(b *built, data []byte, cs *c12Case) ([]parquet.Row, error) {
		f, err := openFile(data)
		if err != nil {
			return nil, err
		}
		src := parquet.NewGenericReader[any](f)
		defer src.Close()
		var out bytes.Buffer
		w := parquet.NewGenericWriter[any](&out, b.ts)
		n, err := parquet.CopyRows(w, src)
		if err != nil {
			return nil, fmt.Errorf("CopyRows: %w", err)
		}
		if err := w.Close(); err != nil {
			return nil, fmt.Errorf("Close: %w", err)
		}
		if n != int64(len(b.rows)) {
			return nil, fmt.Errorf("CopyRows returned %d for %d rows", n, len(b.rows))
		}
		g, err := openFile(out.Bytes())
		if err != nil {
			return nil, fmt.Errorf("open copy: %w", err)
		}
		if g.NumRows() != int64(len(b.rows)) {
			return nil, fmt.Errorf("copy has NumRows=%d for %d rows", g.NumRows(), len(b.rows))
		}
		r := parquet.NewGenericReader[any](g)
		defer r.Close()
		return readAll(r, 4+int(cs.Seed%9))
	}},
	{name: "CopyRows(rows reader)", run: func(b *built, _ []byte, cs *c12Case) ([]parquet.Row, error) {
		var out bytes.Buffer
		w := parquet.NewGenericWriter[any](&out, b.ts)
		if _, err := parquet.CopyRows(w, &sliceReader{rows: b.rows, schema: b.ss}); err != nil {
			return nil, fmt.Errorf("CopyRows: %w", err)
		}
		if err := w.Close(); err != nil {
			return nil, fmt.Errorf("Close: %w", err)
		}
		g, err := openFile(out.Bytes())
		if err != nil {
			return nil, fmt.Errorf("open copy: %w", err)
		}
		r := parquet.NewGenericReader[any](g)
		defer r.Close()
		return readAll(r, 4+int(cs.Seed%9))
	}},
	{name: "MergeRowGroups(schema)", run: func(b *built, data []byte, cs *c12Case) ([]parquet.Row, error) {
		f, err := openFile(data)
		if err != nil {
			return nil, err
		}
		// the slice of inputs belongs to the caller: it is as it was after the
		// call, and the SAME slice merged again, through the schema of the
		// file, holds the rows of the file
		inputs := f.RowGroups()
		snap := snapshotArgs(inputs)
		m, err := parquet.MergeRowGroups(inputs, b.ts)
		if e := snap.check("MergeRowGroups(inputs, target schema)", inputs); e != nil {
			return nil, e
		}
		if err != nil {
			return nil, err
		}
		if m.NumRows() != int64(len(b.rows)) {
			return nil, fmt.Errorf("merged NumRows=%d for %d rows", m.NumRows(), len(b.rows))
		}
		rows := m.Rows()
		defer rows.Close()
		got, err := readAll(rows, 5+int(cs.Seed%3))
		if err != nil {
			return got, err
		}
		if len(inputs) > 0 {
			m2, err := parquet.MergeRowGroups(inputs, f.Schema())
			if e := snap.check("MergeRowGroups(the same inputs, schema of the file)", inputs); e != nil {
				return nil, e
			}
			if err != nil {
				return nil, fmt.Errorf("second MergeRowGroups of the same inputs, through the schema of the file: %w", err)
			}
			rows2 := m2.Rows()
			again, err := readAll(rows2, 4+int(cs.Seed%5))
			rows2.Close()
			if err != nil {
				return nil, fmt.Errorf("second MergeRowGroups of the same inputs, through the schema of the file: %w", err)
			}
			if len(again) != len(b.rows) {
				return nil, &classedError{"source-rows-altered", fmt.Sprintf("MergeRowGroups(inputs, target schema), then MergeRowGroups(the same inputs, schema of the file): %d rows, the file holds %d", len(again), len(b.rows))}
			}
			for i := range again {
				if sameRow(b.rows[i], again[i]) {
					continue
				}
				if w, g := safeCanonRow(b.rows[i]), safeCanonRow(again[i]); w != g {
					return nil, &classedError{"source-rows-altered", fmt.Sprintf("MergeRowGroups(inputs, target schema), then MergeRowGroups(the same inputs, schema of the file): row %d: written [%s] read [%s]", i, core.Trunc(w, 300), core.Trunc(g, 300))}
				}
			}
		}
		return got, nil
	}},
	// the last input is already in the target schema (no conversion), the
	// earlier ones need one: the decision "some input is converted" must not
	// depend on the order of the inputs
	{name: "MergeRowGroups(schema), last input in the target schema", run: func(b *built, data []byte, cs *c12Case) ([]parquet.Row, error) {
		f, err := openFile(data)
		if err != nil {
			return nil, err
		}
		tdata, err := writeFile(b.ts, b.want, -1, cs.Seed)
		if err != nil {
			return nil, fmt.Errorf("writing the expected rows with the target schema: %w", err)
		}
		tf, err := openFile(tdata)
		if err != nil {
			return nil, err
		}
		inputs := append(append([]parquet.RowGroup{}, f.RowGroups()...), tf.RowGroups()...)
		m, err := parquet.MergeRowGroups(inputs, b.ts)
		if err != nil {
			return nil, err
		}
		rows := m.Rows()
		defer rows.Close()
		got, err := readAll(rows, 5+int(cs.Seed%3))
		if err != nil {
			return nil, err
		}
		n := len(b.want)
		if len(got) != 2*n {
			return nil, fmt.Errorf("%d rows merged from %d + %d", len(got), n, n)
		}
		if cl, what := compareRows(b, canonVariants(b.pairs, b.want, got[n:])); cl != "" {
			return nil, fmt.Errorf("rows of the input that is already in the target schema: %s: %s", cl, what)
		}
		return got[:n], nil
	}},
}

// check runs one case through every path.  Returns false when something was reported.
func check(c *core.Ctx, cs *c12Case) (out *findings, bucket string, nontrivial bool) {
	out = &findings{}
	ok := true
	_ = ok
	b := cs.build()
	nAdded := 0
	for _, a := range b.added {
		if a {
			nAdded++
		}
	}
	bucket = fmt.Sprintf("%s/edits=%d", cs.Kind, len(cs.Edits))
	nontrivial = len(cs.Edits) > 0 && cs.NRows > 0
	srcTok, tgtTok := schemaTok(b.srcA), schemaTok(b.tgt)
	// the model names a conversion by the source, the target with the widened
	// nodes still required, and the target
	tgtToks := schemaTok(b.tgtN) + " " + tgtTok
	info := " [source " + b.src.Text() + " -> target " + b.tgt.Text() + "]"
	equal := srcTok == tgtTok
	nA := len(b.srcA.Leaves())
	if len(cs.Variants) > 0 {
		bucket = fmt.Sprintf("%s+variant/edits=%d", cs.Kind, len(cs.Edits))
		if b.nRebuilt > 0 && b.compatible {
			bucket = fmt.Sprintf("%s+variant-reconstructed/edits=%d", cs.Kind, len(cs.Edits))
		}
	}
	if b.nWidened > 0 && b.compatible {
		bucket = strings.Replace(bucket, "/", "+widened/", 1)
		if b.nullWidened {
			bucket = strings.Replace(bucket, "+widened/", "+widened-null/", 1)
		}
	}
	if b.layoutErr != "" {
		out.viol("harness-schema-layout", "the library lays the columns of the schema out differently from the tree it was built from: "+b.layoutErr+info)
		return out, bucket, nontrivial
	}

	data, werr := writeFile(b.ss, b.rows, cs.NRows/2, cs.Seed)
	if werr != nil {
		out.viol("source-write-error", "writing the source rows failed: "+werr.Error()+info)
		return out, bucket, nontrivial
	}

	if !b.compatible {
		// rejection clause: Convert must return an error (and no data)
		var conv parquet.Conversion
		err := guarded(func() error {
			var e error
			conv, e = parquet.Convert(b.ts, b.ss)
			return e
		})
		if err == nil {
			out.viol("kind-clash-accepted", "Convert accepted a target in which a same-named node changes between leaf and group (no error, the node is treated as dropped and added)"+info)
			ok = false
			// pin down what it does instead: drop + add, i.e. the model's general path
			rows := cloneRows(b.rows)
			if e := guarded(func() error { _, e := conv.Convert(rows); return e }); e == nil {
				if cl, what := compareRows(b, canonVariants(b.pairs, b.want, rows)); cl != "" {
					out.viol("clash-"+cl, "accepted incompatible target, and the result is not even drop+add: "+what+info)
				}
			}
		}
		if c.HasOracle() {
			if a := c.Ask("c12.convert fixed " + srcTok + " " + tgtToks + " " + rowTok(nA, parquet.Row{})); !strings.HasPrefix(a, "REJECT") && len(b.rows) >= 0 {
				// the request above carries an empty row on purpose: the verdict does not depend on the row
				out.mism("corr:C12.reject", srcTok+" "+tgtToks, "incompatible (harness rule)", a)
				ok = false
			}
		}
		return out, bucket, nontrivial
	}

	// specification side: goProject + gen.Shred == model project
	if c.HasOracle() && len(b.rows) > 0 {
		req := []string{"c12.project", srcTok, schemaTok(b.tgtN), tgtTok, "64"}
		var want []string
		for i := range b.rows {
			req = append(req, rowTok(nA, b.rowsA[i]))
			want = append(want, rowTok(len(b.added), b.want[i]))
		}
		if a := c.Ask(strings.Join(req, " ")); a != strings.Join(want, " ") {
			out.mism("corr:C12.project", core.Trunc(strings.Join(req, " "), 1500), strings.Join(want, " "), a)
			ok = false
		}
		if a := c.Ask("c12.compat " + srcTok + " " + tgtToks); a != "111"+map[bool]string{true: "1", false: "0"}[equal]+"1" {
			out.mism("corr:C12.compat", srcTok+" "+tgtToks, "111"+map[bool]string{true: "1", false: "0"}[equal]+"1", a)
			ok = false
		}
	}

	for pi, p := range paths {
		var got []parquet.Row
		err := guarded(func() error {
			var e error
			got, e = p.run(b, data, cs)
			return e
		})
		if err != nil {
			cl := "error"
			if strings.HasPrefix(err.Error(), "PANIC") {
				cl = "panic"
			}
			cl += "-on-compatible-target"
			var he *historyError
			if errors.As(err, &he) {
				cl = "row-history-differs"
			}
			var ce *classedError
			if errors.As(err, &ce) {
				cl = ce.class
			}
			out.viol(cl, p.name+": "+core.Trunc(err.Error(), 700)+info)
			ok = false
			continue
		}
		if p.historyOnly {
			continue
		}
		got = canonVariants(b.pairs, b.want, got)
		if cl, what := compareRows(b, got); cl != "" {
			out.viol(cl, p.name+": "+what+info)
			ok = false
		}
		// correspondence with the model on the in-memory path (also when the
		// predicate failed: the model may be the one of a defective tree)
		if pi == 0 && c.HasOracle() && len(b.rows) > 0 && len(got) == len(b.rows) {
			req := []string{"c12.convert", modelMode, srcTok, schemaTok(b.tgtN), tgtTok}
			var impl []string
			for i := range b.rows {
				req = append(req, rowTok(nA, b.rowsA[i]))
				impl = append(impl, rowTok(len(b.added), got[i]))
			}
			if a := c.Ask(strings.Join(req, " ")); a != strings.Join(impl, " ") {
				out.mism("corr:C12.convert", core.Trunc(strings.Join(req, " "), 1500), strings.Join(impl, " "), a)
				ok = false
			}
			// Conversion.Column: which source column each target column reads
			if conv, err := parquet.Convert(b.ts, b.ss); err == nil && schemaTok(b.src) != tgtTok {
				cols := make([]string, len(b.added))
				for i := range cols {
					cols[i] = fmt.Sprint(conv.Column(i))
				}
				mode := "columns"
				if modelMode == "pinned" {
					mode = "pinned"
				}
				// the model names columns of the abstract source: translate to the file's
				a := c.Ask("c12.plan " + mode + " " + srcTok + " " + tgtToks)
				if len(cs.Variants) > 0 {
					parts := strings.Split(a, ",")
					for i, x := range parts {
						var j int
						if _, e := fmt.Sscan(x, &j); e == nil && j >= 0 && j < len(b.absToPhys) {
							parts[i] = fmt.Sprint(b.absToPhys[j])
						}
					}
					a = strings.Join(parts, ",")
				}
				if a != strings.Join(cols, ",") {
					out.mism("corr:C12.column", srcTok+" "+tgtToks, strings.Join(cols, ","), a)
					ok = false
				}
			}
		}
	}

	// the column-chunk view of converted row groups (it hands out the chunks
	// of the file: no reconstruction of shredded variants there, and the
	// levels of the file where the target reads a required node as optional)
	if b.nRebuilt > 0 || b.nWidened > 0 {
		return out, bucket, nontrivial
	}
	checkChunkView(c, out, b, data, cs, nAdded, srcTok, tgtTok, info)
	return out, bucket, nontrivial
}

// knownChunkView is the id of the known finding about the column-chunk view of
// converted row groups (missingColumnChunk): the levels and the number of
// values of a column that the source lacks are wrong there.
const knownChunkView = "converted-column-chunks-levels"

// chunkViewClass classifies a deviation seen through the column-chunk view:
// it is the known finding only if the target has a column missing from the
// source and no column present on both sides is wrong.
func chunkViewClass(cl string, nAdded int) string {
	if nAdded > 0 && (cl == "added-column-wrong" || cl == "row-count" || cl == "row-layout") {
		return knownChunkView
	}
	return cl
}

// findings collects what a case would report, so that each class can be
// shrunk on its own (a known finding must not steer the shrinking of another
// failure of the same case).
type finding struct {
	class              string // violation class, or the name of the correspondence
	what               string
	corr               bool
	cs, impl, modelAns string
}

type findings struct{ list []finding }

func (f *findings) viol(class, what string) {
	f.list = append(f.list, finding{class: class, what: what})
}
func (f *findings) mism(corr, cs, impl, model string) {
	f.list = append(f.list, finding{class: corr, corr: true, cs: cs, impl: impl, modelAns: model})
}
func (f *findings) first(class string) *finding {
	for i := range f.list {
		if f.list[i].class == class {
			return &f.list[i]
		}
	}
	return nil
}

// runCase checks a case; every class of failure found is shrunk separately
// (fewer rows, fewer edits) and reported with its own minimal replay.
func runCase(c *core.Ctx, cs c12Case, sample bool) {
	out, bucket, nontrivial := check(c, &cs)
	for _, f := range out.list {
		if reported[f.class] {
			continue // core keeps one replay per class: no need to shrink another instance
		}
		reported[f.class] = true
		min := shrink(c, cs, f.class)
		mo, _, _ := check(c, &min)
		g := mo.first(f.class)
		if g == nil {
			g, min = &f, cs
		}
		if g.corr {
			c.Mismatch(g.class, g.cs, g.impl, g.modelAns, min)
		} else {
			c.Violation(g.class, g.what, min)
		}
	}
	key, _ := json.Marshal(cs)
	c.Case(bucket, string(key), nontrivial)
	if sample {
		b := cs.build()
		c.Sample(map[string]any{"case": cs, "source": b.src.Text(), "target": b.tgt.Text()})
	}
}

var reported = map[string]bool{}

func shrink(c *core.Ctx, cs c12Case, class string) c12Case {
	fails := func(t *c12Case) bool {
		o, _, _ := check(c, t)
		return o.first(class) != nil
	}
	for cs.NRows > 1 {
		t := cs
		t.NRows = cs.NRows / 2
		if !fails(&t) {
			break
		}
		cs = t
	}
	for changed := true; changed; {
		changed = false
		for i := range cs.Edits {
			t := cs
			t.Edits = append(append([]edit(nil), cs.Edits[:i]...), cs.Edits[i+1:]...)
			if fails(&t) {
				cs, changed = t, true
				break
			}
		}
	}
	for changed := true; changed; {
		changed = false
		for i := range cs.Variants {
			t := cs
			t.Variants = append(append([]varSpec(nil), cs.Variants[:i]...), cs.Variants[i+1:]...)
			if fails(&t) {
				cs, changed = t, true
				break
			}
		}
	}
	for cs.NRows > 1 {
		t := cs
		t.NRows--
		if !fails(&t) {
			break
		}
		cs = t
	}
	return cs
}

func run(c *core.Ctx) {
	c.Res.Rule = "source schemas from harness/gen (required/optional/repeated leaves of every physical type, groups, LIST groups, depth <= 3) x edit scripts of 0..6 steps (delete a field, permute the fields of a group, add an optional/required/repeated leaf or group of depth <= 2, read a required leaf / group / LIST / variant of the source as an optional one [widening; now and then all fields of the widened group are replaced], at any depth incl. inside LIST groups and next to their element) x 0..12 rows with null runs and empty/long lists; every pair runs through Convert+conversion.Convert, ConvertRowReader, ConvertRowGroup.Rows, NewGenericReader(file, schema), NewReader(file, schema), CopyRows (file reader and plain row reader into a writer with the target schema, read back), MergeRowGroups(schema), and the column-chunk view of converted row groups; each must equal the shredding of the projected value trees, in number and order; in a quarter of the pairs the source holds 1-2 VARIANT columns (required/optional/repeated, in any group) stored unshredded or shredded with a declared type (bool/int32/int64/double/string/bytes/date leaf, object, array, nested to depth 2) that the target declares unshredded (reconstruction) or with the same layout, the edit script deleting / permuting / adding siblings before and after them; the file rows are the shredding (harness implementation of VariantShredding.md) of generated logical values, the expected target pair is any encoding that decodes to the same logical value, at exactly the expected column, place and levels; NewGenericReader(file, schema) and NewReader(file, schema) are also driven through ReadRows(k)/SeekToRow/Reset histories, and so are the conversion wrappers themselves: ConvertRowReader over rows in memory or over the rows of the file (forward SeekToRow to arbitrary, also unaligned rows, then >= 1 batches, then read to the end) and ConvertRowGroup(rg, conv).Rows() of every row group (SeekToRow in both directions), three histories in four with ALL reads going into ONE []Row buffer of 1..5 rows (fresh buffers otherwise), every row compared with the expected row of its position; plus row groups that DECLARE an order: the source rows split into 1-3 row groups, each sorted by 1-3 non-repeated leaf columns (ascending/descending, nulls first/last) and declaring so (parquet.Buffer or file row group), edit scripts biased towards deleting sorting columns or their ancestors; every ConvertRowGroup result must tell the truth: NumRows, Schema, one column chunk per target column with its index and kind, rows = projected rows in source order, every declared sorting column a column of the target and the rows IN the declared order (and = the model's kept prefix of the source's sorting columns); MergeRowGroups(inputs, target schema), MergeRowGroups(converted inputs, target schema) and MergeRowGroups(converted inputs) without a sorting option: same rows, in the order the merged row group declares, the inputs one after the other when it declares none; plus call histories on one deprecated parquet.Reader: source and 2-3 edited views rendered as Go struct types (reflect.StructOf), Read(&view_k) / ReadRows / SeekToRow / Reset sequences of 2-8 calls, files written with the generated schema or with the schema of the source struct type (identity shortcut), one or two row groups, reader opened plain or with a view schema, every value read deconstructed and compared with the shredding of the projection of the row at the reader position; plus a catalogue of (T1, T2) struct pairs through parquet.Write / parquet.Read[T2] and Read(k)/SeekToRow/Reset histories on one GenericReader[T2], incl. files with a shredded variant column (5 declared types, top level and in a repeated group) read into structs that declare it plain and add columns before/after/around it, or hold it in a group that is a struct in the file and a pointer in the struct read, the variant itself null in a third of the rows; plus, on every pair, the SOURCE KIND and the REPETITION of the read: the source rows held by a RowBuffer[any] / Buffer / GenericBuffer[any] / the row group(s) of the file / MultiRowGroup or MergeRowGroups(no sorting columns) of two in-memory buffers of different kinds, taken through the target 2-3 times by CopyRows into a Buffer / RowBuffer[any] / file writer of the target schema, ConvertRowGroup(src).Rows(), ConvertRowReader(src.Rows()), MergeRowGroups({src}, target), NewGenericRowGroupReader[any](src, target), every pass compared with the expected rows and the source read plainly afterwards compared with the rows written to it; the column-chunk view of the converted row groups (file row groups, Buffer, GenericBuffer[any], RowBuffer[any] sources; values read 1..4096 at a time) examined chunk by chunk and page by page: Column() of chunks, pages and values, Page.Slice(i, j) of the rows inside a random range, of a random span and a slice of that slice against the rows of the page, page counts against the source page, Pages().SeekToRow(r), and the range of rows collected through Slice against the model (Convert/Chunks.v chunk_views) for the columns the conversion copies; plus LARGE row groups: 2600-4000 rows sorted by a kept non-repeated column of a kind with mostly distinct values, dealt to two files (the first and the last 1300-1700 rows to one input each, 0/40/400 rows in between alternately; pages of 256/512/1024 bytes; the second file optionally written with the target schema), MergeRowGroups(inputs, target, sorting columns) / (inputs, target) / (converted inputs, target) must hold the projected rows in the declared order, ConvertRowGroup.Rows, CopyRows and NewGenericReader(file, schema) over the first file too, and its column-chunk view read 1025/3000/4096 values at a time; plus Reset as an operation: NewGenericRowGroupReader[any](src, target), NewRowGroupReader(src, target) and ConvertRowGroup(src, conv).Rows() over every source kind driven through ReadRows(k), Reset (readers that have it), rows from row 0 again, then the random ReadRows/SeekToRow/Reset history and a read to the end (forward seeks only over concatenating sources); plus caller-owned arguments: the source is handed to every pass as ONE []RowGroup that MergeRowGroups receives as it is, element identity and Schema() compared after every pass, and MergeRowGroups(inputs, target) followed by MergeRowGroups(the same inputs, schema of the file) = the rows of the file; plus reader options x typed constructors (typed_options.go): targets described by struct tags / + explicit schema / by StructTag replacements on an untagged twin type / + explicit schema, files opened plainly or with FileSchema, through parquet.Read[T], NewGenericReader[T], NewGenericRowGroupReader[T] over file row groups, MultiRowGroup, GenericBuffer[T1], RowBuffer[T1], deprecated NewReader/NewRowGroupReader + Read(&T), Schema() and rows compared, Read(k); Reset; read to the end; plus targets in which a same-named node changes kind (must be rejected). Non-trivial = at least one edit and one row (histories: at least two distinct views read); distinct by the JSON of the case."
	if modelMode != "fixed" {
		c.Note("model selected by C12_MODEL=%s", modelMode)
	}
	// debugging aid: C12_ONLY=large|sorted|histories|typed runs one scenario alone
	switch os.Getenv("C12_ONLY") {
	case "large":
		largeCases(c)
		return
	case "sorted":
		sortedCases(c)
		return
	case "histories":
		histories(c)
		return
	case "typed":
		typed(c)
		return
	}
	corpus(c)
	n := c.N(8000, 30000)
	var vm []string
	for i := 0; i < n; i++ {
		seed := c.Seed*1000003 + int64(i)
		cs := c12Case{Seed: seed, NRows: []int{0, 1, 3, 6, 12}[c.Rng.Intn(5)], MaxDepth: 1 + c.Rng.Intn(3), MaxFields: 1 + c.Rng.Intn(4), NullBias: c.Rng.Intn(8), Kind: "compat"}
		src := gen.Schema(rand.New(rand.NewSource(seed)), gen.Config{MaxDepth: cs.MaxDepth, MaxFields: cs.MaxFields})
		ne := c.Rng.Intn(7)
		ops := []string{"del", "add", "add", "perm", "opt"}
		switch c.Rng.Intn(7) {
		case 0:
			ops = []string{"perm"}
		case 1:
			ops = []string{"del", "perm"}
		case 2:
			ops = []string{"add"}
		case 3:
			ops = []string{"opt", "opt", "add", "del"}
		}
		if i%4 == 1 {
			// variant columns: stored shredded or not, declared unshredded by the target (or kept)
			cs.Variants = genVarSpecs(c.Rng, src, 1+c.Rng.Intn(2))
			src = cs.editBase()
		}
		cs.Edits = genEdits(c.Rng, src, ne, ops)
		if i%10 == 9 {
			cs.Kind = "clash"
			cs.Edits = append(cs.Edits, genEdits(c.Rng, applyEdits(src, cs.Edits), 1, []string{"clash"})...)
			if compatible(src, applyEdits(src, cs.Edits)) {
				cs.Kind = "compat"
			}
		}
		runCase(c, cs, i < 3)
		if i%9 == 0 && len(vm) < 60 && cs.Kind == "compat" {
			if s := vmCase(&cs); s != "" {
				vm = append(vm, s)
			}
		}
	}
	histories(c)
	sortedCases(c)
	largeCases(c)
	typed(c)
	writeVm(c, vm)
}

// corpus: the reproducers of the defects repaired in convert.go and the known findings.
func corpus(c *core.Ctx) {
	leaf := func(name string, rep int, kind string) *gen.Node { return &gen.Node{Name: name, Rep: rep, Leaf: kind} }
	for seed := int64(1); seed <= 400; seed++ {
		// seeds whose generated source has a repeated leaf / an optional group are the interesting ones
		src := gen.Schema(rand.New(rand.NewSource(seed)), gen.Config{MaxDepth: 2, MaxFields: 3})
		if !src.HasRepeated() || seed%4 != 0 {
			continue
		}
		var paths [][]string
		groupPaths(src, nil, &paths)
		var edits []edit
		for i, p := range paths {
			edits = append(edits, edit{Op: "add", Path: p, Name: fmt.Sprintf("zz%d", i), Pos: 99, Node: leaf("", gen.Opt, "int32")})
			edits = append(edits, edit{Op: "add", Path: p, Name: fmt.Sprintf("aa%d", i), Pos: 0, Node: leaf("", gen.Req, "flba")})
			edits[len(edits)-1].Node.Size = 3
		}
		runCase(c, c12Case{Seed: seed, NRows: 5, MaxDepth: 2, MaxFields: 3, NullBias: 3, Edits: edits, Kind: "compat"}, false)
	}
}

// ---------------------------------------------------------------------------
// vm_compute cross-check

func coqName(s string) string {
	if s == "typed_value" {
		s = "typed_v"
	}
	b := make([]byte, 8)
	copy(b, s)
	v := uint64(0)
	for _, x := range b {
		v = v<<8 | uint64(x)
	}
	return fmt.Sprintf("%d%%N", v)
}

func coqSchema(n *gen.Node) string {
	if n.Leaf != "" {
		var ty uint64
		fmt.Sscanf(tyTok(n), "%x", &ty)
		return fmt.Sprintf("(NLeaf %d%%N)", ty)
	}
	s := "NNil"
	for i := len(n.Fields) - 1; i >= 0; i-- {
		f := n.Fields[i]
		s = fmt.Sprintf("(NCons %s %s %s %s)", coqName(f.Name), []string{"Req", "Opt", "Rpt"}[f.Rep], coqSchema(f), s)
	}
	return "(NGroup " + s + ")"
}

func coqRow(ncols int, row parquet.Row) string {
	cols := make([][]string, ncols)
	for _, v := range row {
		x := "None"
		if !v.IsNull() {
			x = "Some " + core.CoqBytes(v.Bytes())
		}
		cols[v.Column()] = append(cols[v.Column()], fmt.Sprintf("(%s, %d, %d)", x, v.RepetitionLevel(), v.DefinitionLevel()))
	}
	parts := make([]string, ncols)
	for i, c := range cols {
		parts[i] = core.CoqList(c)
	}
	return core.CoqList(parts)
}

func vmCase(cs *c12Case) string {
	b := cs.build()
	if len(b.rows) == 0 || len(b.added) > 12 || len(cs.Variants) > 0 {
		return ""
	}
	row := b.rows[0]
	if len(row) > 40 {
		return ""
	}
	for _, v := range row {
		if len(v.Bytes()) > 24 {
			return ""
		}
	}
	conv, err := parquet.Convert(b.ts, b.ss)
	if err != nil {
		return ""
	}
	rows := cloneRows(b.rows[:1])
	if _, err := conv.Convert(rows); err != nil {
		return ""
	}
	return fmt.Sprintf("(%s,\n   %s,\n   %s,\n   %s,\n   %s)", coqSchema(b.src), coqSchema(b.tgtN), coqSchema(b.tgt), coqRow(len(b.src.Leaves()), row), coqRow(len(b.added), rows[0]))
}

func writeVm(c *core.Ctx, vm []string) {
	if len(vm) == 0 {
		return
	}
	fn := "convert_widen_bytes s tn t row"
	if modelMode == "pinned" {
		fn = "Some (convert_pinned_bytes s tn row)"
	}
	c.Vm("From Coq Require Import List NArith Bool Arith.\nFrom PQ Require Import Dremel.Model Convert.Model Convert.Widen.\nImport ListNotations.")
	c.Vm("Definition ent := (option (list N) * nat * nat)%type.")
	c.Vm("Definition bytes_eqb (a b : list N) : bool := if list_eq_dec N.eq_dec a b then true else false.")
	c.Vm("Definition ent_eqb (a b : ent) : bool := let '(x, r, d) := a in let '(y, r', d') := b in\n  Nat.eqb r r' && Nat.eqb d d' && match x, y with None, None => true | Some u, Some v => bytes_eqb u v | _, _ => false end.")
	c.Vm("Fixpoint list_eqb {A} (f : A -> A -> bool) (a b : list A) : bool :=\n  match a, b with [], [] => true | x :: a', y :: b' => f x y && list_eqb f a' b' | _, _ => false end.")
	c.Vm("Definition cases : list (nschema * nschema * nschema * list (list ent) * list (list ent)) := [\n  " + strings.Join(vm, ";\n  ") + "].")
	c.Vm("Definition mismatches := filter (fun '(s, tn, t, row, want) =>\n  negb (match " + fn + " with Some got => list_eqb (list_eqb ent_eqb) got want | None => false end)) cases.")
	c.Vm("Definition M := Eval vm_compute in (length cases, map (fun '(s, _, t, _, _) => (s, t)) mismatches).\nPrint M.")
	c.Res.VmCases = len(vm)
}

// ---------------------------------------------------------------------------
// typed catalogue: parquet.Write of []T1, parquet.Read[T2]

type tIn struct {
	X int32   `parquet:"x"`
	Y *string `parquet:"y,optional"`
	Z []int64 `parquet:"z"`
}

type t1 struct {
	ID    int64    `parquet:"id"`
	Name  string   `parquet:"name"`
	Score *float64 `parquet:"score,optional"`
	Tags  []string `parquet:"tags"`
	In    *tIn     `parquet:"in,optional"`
	Items []tIn    `parquet:"items"`
	Seq   []int32  `parquet:"seq,list"`
}

// dropped fields, reordered
type t2a struct {
	Items []tIn  `parquet:"items"`
	Name  string `parquet:"name"`
	ID    int64  `parquet:"id"`
}

type tInB struct {
	W *int32  `parquet:"w,optional"` // added optional
	Z []int64 `parquet:"z"`
	X int32   `parquet:"x"`
	V [4]byte `parquet:"v"` // added required
}

// additions at top level, inside the optional group and inside the repeated group
type t2b struct {
	Extra  *int64   `parquet:"extra,optional"`
	ID     int64    `parquet:"id"`
	Count  int32    `parquet:"count"`
	More   []string `parquet:"more"`
	In     *tInB    `parquet:"in,optional"`
	Items  []tInB   `parquet:"items"`
	Seq    []int32  `parquet:"seq,list"`
	NewGrp *tIn     `parquet:"newgrp,optional"`
	ReqGrp tIn      `parquet:"reqgrp"`
}

type t1m struct {
	K int32          `parquet:"k"`
	M map[string]tIn `parquet:"m"`
}

type tInM struct {
	Y *string `parquet:"y,optional"`
	Q bool    `parquet:"q"`
	X int32   `parquet:"x"`
}

type t2m struct {
	M map[string]tInM `parquet:"m"`
	K int32           `parquet:"k"`
	J *int32          `parquet:"j,optional"`
}

func genIn(rng *rand.Rand) tIn {
	in := tIn{X: int32(rng.Intn(100))}
	if rng.Intn(2) == 0 {
		s := fmt.Sprint("y", rng.Intn(10))
		in.Y = &s
	}
	for i := rng.Intn(4); i > 0; i-- {
		in.Z = append(in.Z, int64(rng.Intn(50)))
	}
	return in
}

func projInB(in tIn) tInB { return tInB{Z: in.Z, X: in.X} }

func typed(c *core.Ctx) {
	n := c.N(24, 200)
	for i := 0; i < n; i++ {
		rng := rand.New(rand.NewSource(c.Seed*31 + int64(i)))
		nr := []int{1, 2, 7, 40}[i%4]
		rows := make([]t1, nr)
		wantA := make([]t2a, nr)
		wantB := make([]t2b, nr)
		rowsM := make([]t1m, nr)
		wantM := make([]t2m, nr)
		for j := range rows {
			r := t1{ID: int64(rng.Intn(1000)), Name: fmt.Sprint("n", rng.Intn(100))}
			if rng.Intn(2) == 0 {
				f := float64(rng.Intn(100)) / 4
				r.Score = &f
			}
			for k := rng.Intn(3); k > 0; k-- {
				r.Tags = append(r.Tags, fmt.Sprint("t", k))
			}
			if rng.Intn(3) != 0 {
				in := genIn(rng)
				r.In = &in
			}
			for k := rng.Intn(4); k > 0; k-- {
				r.Items = append(r.Items, genIn(rng))
			}
			for k := rng.Intn(4); k > 0; k-- {
				r.Seq = append(r.Seq, int32(k))
			}
			rows[j] = r
			wantA[j] = t2a{Items: r.Items, Name: r.Name, ID: r.ID}
			wb := t2b{ID: r.ID, Seq: r.Seq}
			if r.In != nil {
				x := projInB(*r.In)
				wb.In = &x
			}
			for _, it := range r.Items {
				wb.Items = append(wb.Items, projInB(it))
			}
			wantB[j] = wb
			m := t1m{K: int32(j)}
			wm := t2m{K: int32(j)}
			if rng.Intn(4) != 0 {
				m.M, wm.M = map[string]tIn{}, map[string]tInM{}
				for k := rng.Intn(3); k >= 0; k-- {
					in := genIn(rng)
					key := fmt.Sprint("k", k)
					m.M[key] = in
					wm.M[key] = tInM{Y: in.Y, X: in.X}
				}
			}
			rowsM[j], wantM[j] = m, wm
		}
		typedPair(c, "drop+reorder", rows, wantA)
		typedPair(c, "add", rows, wantB)
		typedPair(c, "map-value", rowsM, wantM)
		typedPair(c, "identity", rows, rows)
		if i%3 == 0 {
			// the same targets described by reader options, through every typed constructor (typed_options.go)
			typedOptionModes(c, "drop+reorder", rows, wantA, toT2aU, c.Seed*977+int64(i)*8)
			typedOptionModes(c, "add", rows, wantB, toT2bU, c.Seed*977+int64(i)*8+4)
		}
	}
	typedVariants(c)
}

func typedPair[T1, T2 any](c *core.Ctx, name string, rows []T1, want []T2) {
	var buf bytes.Buffer
	if err := parquet.Write(&buf, rows); err != nil {
		c.Violation("typed-write-error", name+": "+err.Error(), nil)
		return
	}
	typedRead(c, name, buf.Bytes(), rows, want)
}

func jsonOf(v any) string {
	b, _ := json.Marshal(v)
	return core.Trunc(string(b), 400)
}

// normEqual: deep equality where nil and empty slices/maps are the same.
func normEqual(a, b reflect.Value) bool {
	if a.Kind() != b.Kind() {
		return false
	}
	switch a.Kind() {
	case reflect.Pointer:
		if a.IsNil() || b.IsNil() {
			return a.IsNil() == b.IsNil()
		}
		return normEqual(a.Elem(), b.Elem())
	case reflect.Slice:
		if a.Len() != b.Len() {
			return false
		}
		for i := 0; i < a.Len(); i++ {
			if !normEqual(a.Index(i), b.Index(i)) {
				return false
			}
		}
		return true
	case reflect.Map:
		if a.Len() != b.Len() {
			return false
		}
		keys := a.MapKeys()
		sort.Slice(keys, func(i, j int) bool { return keys[i].String() < keys[j].String() })
		for _, k := range keys {
			bv := b.MapIndex(k)
			if !bv.IsValid() || !normEqual(a.MapIndex(k), bv) {
				return false
			}
		}
		return true
	case reflect.Interface:
		if a.IsNil() || b.IsNil() {
			return a.IsNil() == b.IsNil()
		}
		return anyEqual(a.Interface(), b.Interface())
	case reflect.Struct:
		for i := 0; i < a.NumField(); i++ {
			if !normEqual(a.Field(i), b.Field(i)) {
				return false
			}
		}
		return true
	}
	return reflect.DeepEqual(a.Interface(), b.Interface())
}

func replay(c *core.Ctx, raw json.RawMessage) {
	var hc histCase
	if err := json.Unmarshal(raw, &hc); err == nil && hc.Kind == "history" {
		runHistCase(c, hc, true)
		return
	}
	var sc sortedCase
	if err := json.Unmarshal(raw, &sc); err == nil && sc.Kind == "sorted" {
		runSortedCase(c, sc, true)
		return
	}
	var lc largeCase
	if err := json.Unmarshal(raw, &lc); err == nil && lc.Kind == "large" {
		runLargeCase(c, lc, true)
		return
	}
	var cs c12Case
	if err := json.Unmarshal(raw, &cs); err != nil || cs.Kind == "" {
		c.Note("replay is not a generated schema-pair case (typed catalogue cases are rerun with the recorded seed)")
		typed(c)
		return
	}
	runCase(c, cs, true)
}
