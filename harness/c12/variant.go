package main

// Variant columns in the schema pairs.
//
// A variant column is a group (VARIANT) that the file stores either
// unshredded {metadata, value} or shredded {metadata, value?, typed_value?};
// a target that declares it unshredded reads the shredded form through the
// reconstruction of convert_variant.go, which sits beside the per-column
// mapping and keeps its own count of target and source columns.
//
// The specification side never sees the shredding: the ABSTRACT source (what
// goProject, gen.Shred and the extracted model work on) stores every variant
// the way the target declares it, holding the canonical encoding of the
// logical value; the PHYSICAL source (what the library is given) holds the
// shredding of the same logical value, built here from the shredding rules
// (typed_value when the value has exactly the shredded type, field-wise for
// objects with the residual in value, element-wise for arrays, value
// otherwise).  "Exactly the source values" for a reconstructed variant means:
// the (metadata, value) pair of the target decodes to the logical value that
// was stored; canonVariants rewrites such a pair to the canonical bytes, so
// that the level-exact, column-exact comparison and the model correspondence
// apply to the variant columns like to any other column.

import (
	"fmt"
	"math"
	"math/rand"
	"sort"

	"github.com/parquet-go/parquet-go"
	"github.com/parquet-go/parquet-go/variant"

	"verif/harness/gen"
)

const variantLogical = "variant"

func isVariantNode(n *gen.Node) bool { return n != nil && n.Logical == variantLogical }

// varSpec is one variant column of the source.
type varSpec struct {
	Path  []string  `json:"path"`            // group that holds the column (by names, in the generated source)
	Name  string    `json:"name"`            // field name
	Pos   int       `json:"pos"`             // insertion position among the fields of the group
	Rep   int       `json:"rep"`             // repetition of the variant group
	Typed *gen.Node `json:"typed,omitempty"` // the shredded type of the file (nil: stored unshredded)
	Keep  bool      `json:"keep,omitempty"`  // the target declares the same shredded layout (no reconstruction)
}

func bytesLeaf(name string, rep int) *gen.Node { return &gen.Node{Name: name, Rep: rep, Leaf: "bytes"} }

// shreddedGroupFields: the fields {value?, typed_value?} of a shredded
// (sub-)variant whose declared type is user.
func shreddedGroupFields(user *gen.Node) []*gen.Node {
	tv := shreddedTyped(user)
	tv.Name, tv.Rep = "typed_value", gen.Opt
	return []*gen.Node{bytesLeaf("value", gen.Opt), tv}
}

// shreddedTyped maps a declared type (leaf, group of declared types, LIST of a
// declared type) to the typed_value structure of VariantShredding.md.
func shreddedTyped(user *gen.Node) *gen.Node {
	switch {
	case user.Leaf != "":
		return &gen.Node{Leaf: user.Leaf, Size: user.Size}
	case user.Logical == "list":
		el := user.Fields[0].Fields[0]
		return &gen.Node{Logical: "list", Fields: []*gen.Node{{Name: "list", Rep: gen.Rpt, Fields: []*gen.Node{
			{Name: "element", Rep: gen.Req, Fields: shreddedGroupFields(el)}}}}}
	}
	g := &gen.Node{}
	fs := append([]*gen.Node(nil), user.Fields...)
	sort.Slice(fs, func(i, j int) bool { return fs[i].Name < fs[j].Name }) // parquet.Group order
	for _, f := range fs {
		g.Fields = append(g.Fields, &gen.Node{Name: f.Name, Rep: gen.Req, Fields: shreddedGroupFields(f)})
	}
	return g
}

// variantNode: the schema tree of a variant column.
func variantNode(name string, rep int, typed *gen.Node) *gen.Node {
	n := &gen.Node{Name: name, Rep: rep, Logical: variantLogical, Fields: []*gen.Node{bytesLeaf("metadata", gen.Req)}}
	if typed == nil {
		n.Fields = append(n.Fields, bytesLeaf("value", gen.Req))
	} else {
		n.Fields = append(n.Fields, shreddedGroupFields(typed)...)
	}
	return n
}

// declaredType: inverse of shreddedTyped, as a library node (what
// parquet.ShreddedVariant takes).
func declaredType(tv *gen.Node) parquet.Node {
	switch {
	case tv.Leaf != "":
		return (&gen.Node{Leaf: tv.Leaf, Size: tv.Size}).ParquetNode()
	case tv.Logical == "list":
		return parquet.List(declaredType(tv.Fields[0].Fields[0].Fields[1]))
	}
	g := parquet.Group{}
	for _, f := range tv.Fields {
		g[f.Name] = declaredType(f.Fields[1])
	}
	return g
}

func buildVariant(n *gen.Node) parquet.Node {
	if i := fieldIndex(n, "typed_value"); i >= 0 {
		v, err := parquet.ShreddedVariant(declaredType(n.Fields[i]))
		if err != nil {
			panic("harness: ShreddedVariant: " + err.Error())
		}
		return v
	}
	return parquet.Variant()
}

// insertVariants puts the variant columns into a copy of the generated tree;
// form selects the stored (file) layout or the one the target declares.
func insertVariants(base *gen.Node, specs []varSpec, stored bool) *gen.Node {
	t := cloneNode(base)
	for _, s := range specs {
		g := groupAt(t, s.Path)
		if g == nil || fieldIndex(g, s.Name) >= 0 {
			continue
		}
		typed := s.Typed
		if !stored && !s.Keep {
			typed = nil
		}
		nf := variantNode(s.Name, s.Rep, typed)
		p := s.Pos % (len(g.Fields) + 1)
		fs := append([]*gen.Node(nil), g.Fields[:p]...)
		fs = append(fs, nf)
		g.Fields = append(fs, g.Fields[p:]...)
		g.Logical = ""
	}
	return t
}

// ---------------------------------------------------------------------------
// generation

var shredLeafKinds = []string{"bool", "int32", "int64", "double", "string", "bytes", "date"}

var objectFieldNames = []string{"a", "b", "id", "k"}

func genDeclared(rng *rand.Rand, depth int) *gen.Node {
	switch k := rng.Intn(6); {
	case depth > 0 && k == 0: // object
		n := &gen.Node{}
		perm := rng.Perm(len(objectFieldNames))[:1+rng.Intn(2)]
		for _, i := range perm {
			f := genDeclared(rng, depth-1)
			f.Name = objectFieldNames[i]
			n.Fields = append(n.Fields, f)
		}
		return n
	case depth > 0 && k == 1: // array
		el := genDeclared(rng, depth-1)
		el.Name, el.Rep = "element", gen.Req
		return &gen.Node{Logical: "list", Fields: []*gen.Node{{Name: "list", Rep: gen.Rpt, Fields: []*gen.Node{el}}}}
	}
	return &gen.Node{Leaf: shredLeafKinds[rng.Intn(len(shredLeafKinds))]}
}

// genVarSpecs chooses n variant columns for the generated source.
func genVarSpecs(rng *rand.Rand, src *gen.Node, n int) []varSpec {
	var paths [][]string
	groupPaths(src, nil, &paths)
	var out []varSpec
	for i := 0; i < n; i++ {
		s := varSpec{
			Path: paths[rng.Intn(len(paths))],
			// names that sort before, between and after the generated ones
			Name: []string{"c", "fv", "v", "zv"}[rng.Intn(4)] + fmt.Sprint(i),
			Pos:  rng.Intn(8),
			Rep:  []int{gen.Req, gen.Req, gen.Opt, gen.Opt, gen.Rpt}[rng.Intn(5)],
		}
		if rng.Intn(5) != 0 {
			s.Typed = genDeclared(rng, 2)
			s.Keep = rng.Intn(6) == 0
		}
		out = append(out, s)
	}
	return out
}

func genVariantValue(rng *rand.Rand, depth int) variant.Value {
	k := rng.Intn(14)
	switch {
	case depth > 0 && k == 0:
		var fs []variant.Field
		for _, i := range rng.Perm(len(objectFieldNames) + 1)[:rng.Intn(4)] {
			name := "zz"
			if i < len(objectFieldNames) {
				name = objectFieldNames[i]
			}
			fs = append(fs, variant.Field{Name: name, Value: genVariantValue(rng, depth-1)})
		}
		return variant.MakeObject(fs)
	case depth > 0 && k == 1:
		var es []variant.Value
		for i := rng.Intn(4); i > 0; i-- {
			es = append(es, genVariantValue(rng, depth-1))
		}
		return variant.MakeArray(es)
	}
	switch k % 10 {
	case 0:
		return variant.Null()
	case 1:
		return variant.Bool(rng.Intn(2) == 0)
	case 2:
		return variant.Int8(int8(rng.Intn(256) - 128))
	case 3:
		return variant.Int32([]int32{0, -1, math.MaxInt32, math.MinInt32, int32(rng.Intn(1000))}[rng.Intn(5)])
	case 4:
		return variant.Int64([]int64{0, -1, math.MaxInt64, math.MinInt64, int64(rng.Intn(1000))}[rng.Intn(5)])
	case 5:
		return variant.Double([]float64{0, -1.5, math.Inf(1), float64(rng.Intn(100)) / 8}[rng.Intn(4)])
	case 6:
		b := make([]byte, []int{0, 3, 70}[rng.Intn(3)]) // short and long strings
		for i := range b {
			b[i] = byte('a' + rng.Intn(26))
		}
		return variant.String(string(b))
	case 7:
		b := make([]byte, rng.Intn(6))
		rng.Read(b)
		return variant.Binary(b)
	case 8:
		return variant.Date(int32(rng.Intn(40000) - 20000))
	}
	return variant.Int16(int16(rng.Intn(65536) - 32768))
}

// ---------------------------------------------------------------------------
// the two representations of one logical value

func isVString(x variant.Value) bool {
	return x.Basic() == variant.BasicShortString || (x.Basic() == variant.BasicPrimitive && x.Type() == variant.PrimitiveString)
}

// typedLeaf: the typed_value of x when x has exactly the type of the leaf.
func typedLeaf(x variant.Value, leaf string) (parquet.Value, bool) {
	if isVString(x) {
		if leaf == "string" {
			return parquet.ByteArrayValue([]byte(x.Str())), true
		}
		return parquet.Value{}, false
	}
	if x.Basic() != variant.BasicPrimitive {
		return parquet.Value{}, false
	}
	switch t := x.Type(); {
	case leaf == "bool" && (t == variant.PrimitiveTrue || t == variant.PrimitiveFalse):
		return parquet.BooleanValue(x.BoolValue()), true
	case leaf == "int32" && t == variant.PrimitiveInt32, leaf == "date" && t == variant.PrimitiveDate:
		return parquet.Int32Value(int32(x.Int())), true
	case leaf == "int64" && t == variant.PrimitiveInt64:
		return parquet.Int64Value(x.Int()), true
	case leaf == "double" && t == variant.PrimitiveDouble:
		return parquet.DoubleValue(x.FloatValue()), true
	case leaf == "bytes" && t == variant.PrimitiveBinary:
		return parquet.ByteArrayValue(append([]byte{}, x.Bytes()...)), true
	}
	return parquet.Value{}, false
}

func someLeaf(v parquet.Value) *gen.Val {
	return &gen.Val{IsOpt: true, Some: &gen.Val{Leaf: &v}}
}

func nullOpt() *gen.Val { return &gen.Val{IsOpt: true, Null: true} }

func addFieldNames(mb *variant.MetadataBuilder, x variant.Value) {
	switch x.Basic() {
	case variant.BasicObject:
		for _, f := range x.ObjectValue().Fields {
			mb.Add(f.Name)
			addFieldNames(mb, f.Value)
		}
	case variant.BasicArray:
		for _, e := range x.ArrayValue().Elements {
			addFieldNames(mb, e)
		}
	}
}

// shredValue returns the values of the fields {value?, typed_value?} (fs) for
// x; present=false is a missing object field.
func shredValue(fs []*gen.Node, x variant.Value, present bool, mb *variant.MetadataBuilder) []*gen.Val {
	if !present {
		return []*gen.Val{nullOpt(), nullOpt()}
	}
	tv := fs[1]
	switch {
	case tv.Leaf != "":
		if pv, ok := typedLeaf(x, tv.Leaf); ok {
			return []*gen.Val{nullOpt(), someLeaf(pv)}
		}
	case tv.Logical == "list":
		if x.Basic() == variant.BasicArray {
			elem := tv.Fields[0].Fields[0]
			l := &gen.Val{IsRpt: true}
			for _, e := range x.ArrayValue().Elements {
				l.List = append(l.List, &gen.Val{Group: []*gen.Val{{Group: shredValue(elem.Fields, e, true, mb)}}})
			}
			return []*gen.Val{nullOpt(), {IsOpt: true, Some: &gen.Val{Group: []*gen.Val{l}}}}
		}
	default:
		if x.Basic() == variant.BasicObject {
			obj := x.ObjectValue().Fields
			g := &gen.Val{}
			for _, f := range tv.Fields {
				var fx variant.Value
				ok := false
				for _, of := range obj {
					if of.Name == f.Name {
						fx, ok = of.Value, true
					}
				}
				g.Group = append(g.Group, &gen.Val{Group: shredValue(f.Fields, fx, ok, mb)})
			}
			var residual []variant.Field
			for _, of := range obj {
				if fieldIndex(tv, of.Name) < 0 {
					residual = append(residual, of)
				}
			}
			val := nullOpt()
			if len(residual) > 0 {
				val = someLeaf(parquet.ByteArrayValue(variant.Encode(mb, variant.MakeObject(residual))))
			}
			return []*gen.Val{val, {IsOpt: true, Some: g}}
		}
	}
	return []*gen.Val{someLeaf(parquet.ByteArrayValue(variant.Encode(mb, x))), nullOpt()}
}

// variantVal: the content of the variant group n (either layout) holding x.
func variantVal(n *gen.Node, x variant.Value) *gen.Val {
	var mb variant.MetadataBuilder
	if fieldIndex(n, "typed_value") < 0 {
		enc := variant.Encode(&mb, x)
		_, meta := mb.Build()
		m, v := parquet.ByteArrayValue(meta), parquet.ByteArrayValue(enc)
		return &gen.Val{Group: []*gen.Val{{Leaf: &m}, {Leaf: &v}}}
	}
	addFieldNames(&mb, x)
	rest := shredValue(n.Fields[1:], x, true, &mb)
	_, meta := mb.Build()
	m := parquet.ByteArrayValue(meta)
	return &gen.Val{Group: append([]*gen.Val{{Leaf: &m}}, rest...)}
}

// variantValues rewrites the value v of the abstract node na so that every
// variant group holds a logical value, and returns it with the value of the
// physical node np for the same logical values.
func variantValues(rng *rand.Rand, na, np *gen.Node, v *gen.Val) (abs, phys *gen.Val) {
	if isVariantNode(na) {
		x := genVariantValue(rng, 2)
		return variantVal(na, x), variantVal(np, x)
	}
	if na.Leaf != "" {
		return v, v
	}
	abs, phys = &gen.Val{}, &gen.Val{}
	for i, fa := range na.Fields {
		fp, fv := np.Fields[i], v.Group[i]
		var a, p *gen.Val
		switch fa.Rep {
		case gen.Opt:
			a, p = &gen.Val{IsOpt: true, Null: fv.Null}, &gen.Val{IsOpt: true, Null: fv.Null}
			if !fv.Null {
				a.Some, p.Some = variantValues(rng, fa, fp, fv.Some)
			}
		case gen.Rpt:
			a, p = &gen.Val{IsRpt: true}, &gen.Val{IsRpt: true}
			for _, y := range fv.List {
				ya, yp := variantValues(rng, fa, fp, y)
				a.List, p.List = append(a.List, ya), append(p.List, yp)
			}
		default:
			a, p = variantValues(rng, fa, fp, fv)
		}
		abs.Group, phys.Group = append(abs.Group, a), append(phys.Group, p)
	}
	return abs, phys
}

func hasVariant(n *gen.Node) bool {
	if isVariantNode(n) {
		return true
	}
	for _, f := range n.Fields {
		if hasVariant(f) {
			return true
		}
	}
	return false
}

// ---------------------------------------------------------------------------
// comparison

// unshreddedPairs lists the (metadata, value) columns of the unshredded
// variant groups of a schema tree.
func unshreddedPairs(n *gen.Node, col *int, out *[][2]int) {
	if n.Leaf != "" {
		*col++
		return
	}
	if isVariantNode(n) && len(n.Fields) == 2 {
		*out = append(*out, [2]int{*col, *col + 1})
	}
	for _, f := range n.Fields {
		unshreddedPairs(f, col, out)
	}
}

func decodeVariant(meta, value []byte) (variant.Value, bool) {
	m, err := variant.DecodeMetadata(meta)
	if err != nil {
		return variant.Value{}, false
	}
	x, err := variant.Decode(m, value)
	return x, err == nil
}

// canonVariants returns got in which every (metadata, value) occurrence of an
// unshredded variant column that decodes to the same logical value as the
// occurrence at the same place of want carries want's bytes; everything else
// (levels, nulls, places, other columns, pairs that decode to something else
// or do not decode) is left as the implementation produced it.
func canonVariants(pairs [][2]int, want, got []parquet.Row) []parquet.Row {
	if len(pairs) == 0 || len(want) != len(got) {
		return got
	}
	out := make([]parquet.Row, len(got))
	for i := range got {
		out[i] = got[i]
		for _, p := range pairs {
			var wm, wv, gm, gv []int
			for j, v := range want[i] {
				switch v.Column() {
				case p[0]:
					wm = append(wm, j)
				case p[1]:
					wv = append(wv, j)
				}
			}
			for j, v := range got[i] {
				switch v.Column() {
				case p[0]:
					gm = append(gm, j)
				case p[1]:
					gv = append(gv, j)
				}
			}
			if len(wm) != len(gm) || len(wv) != len(gv) || len(gm) != len(gv) {
				continue
			}
			for k := range gm {
				a, b, c, d := want[i][wm[k]], want[i][wv[k]], got[i][gm[k]], got[i][gv[k]]
				if a.IsNull() || b.IsNull() || c.IsNull() || d.IsNull() || c.Kind() != parquet.ByteArray || d.Kind() != parquet.ByteArray {
					continue
				}
				var ok bool
				func() {
					defer func() { _ = recover() }()
					wx, ok1 := decodeVariant(a.ByteArray(), b.ByteArray())
					gx, ok2 := decodeVariant(c.ByteArray(), d.ByteArray())
					ok = ok1 && ok2 && wx.Equal(gx)
				}()
				if !ok {
					continue
				}
				if &out[i][0] == &got[i][0] {
					out[i] = got[i].Clone()
				}
				out[i][gm[k]] = parquet.ByteArrayValue(a.ByteArray()).Level(c.RepetitionLevel(), c.DefinitionLevel(), c.Column())
				out[i][gv[k]] = parquet.ByteArrayValue(b.ByteArray()).Level(d.RepetitionLevel(), d.DefinitionLevel(), d.Column())
			}
		}
	}
	return out
}

// leafPathIndex maps the dotted path of every leaf to its column index.
func leafPathIndex(n *gen.Node) map[string]int {
	out := map[string]int{}
	var rec func(n *gen.Node, prefix string)
	rec = func(n *gen.Node, prefix string) {
		if n.Leaf != "" {
			out[prefix] = len(out)
			return
		}
		for _, f := range n.Fields {
			rec(f, prefix+"."+f.Name)
		}
	}
	rec(n, "")
	return out
}

// schemaLayoutError compares the column paths of the library schema with the
// leaves of the tree it was built from (the harness relies on equal layouts).
func schemaLayoutError(n *gen.Node, s *parquet.Schema) string {
	idx := leafPathIndex(n)
	cols := s.Columns()
	if len(cols) != len(idx) {
		return fmt.Sprintf("%d columns for %d leaves", len(cols), len(idx))
	}
	for i, p := range cols {
		key := ""
		for _, x := range p {
			key += "." + x
		}
		if j, ok := idx[key]; !ok || j != i {
			return fmt.Sprintf("column %d is %v", i, p)
		}
	}
	return ""
}
