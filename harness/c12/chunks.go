package main

// The column-chunk view of converted row groups:
// ConvertRowGroup(rg, conv).ColumnChunks()[c].Pages().
//
// For a target column that the source has (whatever its position there) the
// chunk is the chunk of the source put at its place in the target: the chunk,
// its pages, the slices of its pages (Page.Slice(i, j): what row-range views
// and seeks are made of), the slices of slices and the values of all of them
// must carry the TARGET column index, and the values must be those of the rows
// they stand for.  (Columns that the source lacks: known finding
// converted-column-chunks-levels; only a panic there is not part of it.)
//
// Predicate: (1) the values of the whole pages, regrouped into rows, are the
// expected target rows (compareRows, by the caller); (2) every page agrees
// with the values it yields (Column, NumRows, NumValues), Slice(i, j) yields
// exactly the values of rows i..j-1 of its page, a page read after
// Pages.SeekToRow(r) starts at row r, all with the column index of the chunk.
// Correspondence: the values of a range of rows [a, b) of every column,
// collected page by page through Slice (the way a row-range view reads), equal
// the model's chunk_view (Convert/Chunks.v) for the columns the conversion
// copies.
//
// The row groups that are converted: the row groups of the file, or the same
// rows held by a Buffer, a GenericBuffer[any] or a RowBuffer[any]; the values
// are read in batches of 1..4096.

import (
	"encoding/hex"
	"errors"
	"fmt"
	"io"
	"math/rand"
	"strings"

	"github.com/parquet-go/parquet-go"

	"verif/harness/core"
	"verif/harness/gen"
)

// chunkDev is a deviation of the column-chunk view from itself (see (2) above).
type chunkDev struct {
	kind  string // column-index | page-counts | slice | seek
	col   int
	added bool // on a column that the source lacks
	msg   string
}

type chunkView struct {
	rows []parquet.Row // the values of the whole pages, regrouped into rows
	devs []chunkDev
	// the range view of the first row group: rows [a, b) of its n rows, per
	// target column the values collected through Page.Slice
	a, b, n int
	ranged  [][]parquet.Value
}

var valueBatches = []int{1, 3, 64, 64, 1000, 1025, 4096}

// valueBuffers: one buffer per batch size, reused by every read (the values are cloned).
var valueBuffers = map[int][]parquet.Value{}

func readValues(vr parquet.ValueReader, batch int) ([]parquet.Value, error) {
	var out []parquet.Value
	buf := valueBuffers[batch]
	if buf == nil {
		buf = make([]parquet.Value, batch)
		valueBuffers[batch] = buf
	}
	for guard := 0; guard < 1<<20; guard++ {
		n, err := vr.ReadValues(buf)
		if n < 0 || n > len(buf) {
			return out, fmt.Errorf("ReadValues returned %d for a buffer of %d values", n, len(buf))
		}
		for _, v := range buf[:n] {
			out = append(out, v.Clone())
		}
		if err != nil {
			if errors.Is(err, io.EOF) {
				return out, nil
			}
			return out, err
		}
		if n == 0 {
			return out, fmt.Errorf("ReadValues returned 0 values and no error")
		}
	}
	return out, fmt.Errorf("value reader never ended")
}

func canonValues(vs []parquet.Value) string { return safeCanonRow(parquet.Row(vs)) }

func flatten(rows [][]parquet.Value) []parquet.Value {
	var out []parquet.Value
	for _, r := range rows {
		out = append(out, r...)
	}
	return out
}

// splitRows groups the values of a column by row (repetition level 0 starts a row).
func splitRows(vals []parquet.Value) [][]parquet.Value {
	var out [][]parquet.Value
	for _, v := range vals {
		if v.RepetitionLevel() == 0 || len(out) == 0 {
			out = append(out, nil)
		}
		out[len(out)-1] = append(out[len(out)-1], v)
	}
	return out
}

// chunkSources returns the row groups whose conversion is examined: kind 3 =
// the row groups of the file, else all rows in one in-memory row group.
func chunkSources(kind int, b *built, data []byte) ([]parquet.RowGroup, error) {
	if kind == 3 {
		f, err := openFile(data)
		if err != nil {
			return nil, err
		}
		return f.RowGroups(), nil
	}
	if len(b.rows) == 0 {
		return nil, nil
	}
	rg, err := makeSource(kind, b.ss, b.rows, data)
	if err != nil {
		return nil, err
	}
	return []parquet.RowGroup{rg}, nil
}

// columnChunkView reads the column-chunk view of the converted row groups.
func columnChunkView(b *built, data []byte, rng *rand.Rand, kind, batch int) (*chunkView, error) {
	rgs, err := chunkSources(kind, b, data)
	if err != nil {
		return nil, err
	}
	out := &chunkView{}
	dev := func(kind string, ci int, format string, a ...any) {
		if len(out.devs) < 8 {
			out.devs = append(out.devs, chunkDev{kind: kind, col: ci, added: ci < len(b.added) && b.added[ci], msg: fmt.Sprintf(format, a...)})
		}
	}
	for gi, rg := range rgs {
		conv, err := parquet.Convert(b.ts, rg.Schema())
		if err != nil {
			return nil, err
		}
		crg := parquet.ConvertRowGroup(rg, conv)
		nrows := int(crg.NumRows())
		rows := make([]parquet.Row, nrows)
		// the range of rows collected through slices, and the row sought
		ra := rng.Intn(nrows + 1)
		rb := ra + rng.Intn(nrows-ra+1)
		if rng.Intn(4) == 0 {
			ra, rb = 0, nrows
		}
		seekCol, seekRow := -1, 0
		if nrows > 0 {
			seekCol, seekRow = rng.Intn(len(b.added)), rng.Intn(nrows)
		}
		var ranged [][]parquet.Value
		chunks, srcChunks := crg.ColumnChunks(), rg.ColumnChunks()
		if len(chunks) != len(b.added) {
			return nil, fmt.Errorf("%d column chunks for %d columns", len(chunks), len(b.added))
		}
		for ci, cc := range chunks {
			if cc.Column() != ci {
				dev("column-index", ci, "column chunk %d says Column() = %d", ci, cc.Column())
			}
			var collected []parquet.Value
			var all [][]parquet.Value // the rows of the column, from the whole pages
			pages := cc.Pages()
			// the pages of the source column the chunk stands for, read in step
			var srcPages parquet.Pages
			if j := conv.Column(ci); !b.added[ci] && j >= 0 && j < len(srcChunks) {
				srcPages = srcChunks[j].Pages()
			}
			for guard := 0; guard < 1<<16; guard++ {
				p, err := pages.ReadPage()
				if err != nil {
					break
				}
				r0 := len(all)
				if p.Column() != ci {
					dev("column-index", ci, "a page of column chunk %d says Column() = %d", ci, p.Column())
				}
				vals, err := readValues(p.Values(), batch)
				if err != nil {
					pages.Close()
					return nil, fmt.Errorf("column chunk %d, page at row %d: %w", ci, r0, err)
				}
				for _, v := range vals {
					if v.Column() != ci {
						pages.Close()
						return nil, fmt.Errorf("column chunk %d returned a value of column %d", ci, v.Column())
					}
				}
				pr := splitRows(vals)
				if len(all)+len(pr) > nrows {
					pages.Close()
					return nil, fmt.Errorf("column %d holds values of more than %d rows", ci, nrows)
				}
				all = append(all, pr...)
				n := len(pr)
				if int(p.NumRows()) != n {
					dev("page-counts", ci, "the page of column chunk %d at row %d says NumRows() = %d and yields %d values of %d rows", ci, r0, p.NumRows(), len(vals), n)
				}
				if srcPages != nil {
					if sp, err := srcPages.ReadPage(); err != nil {
						dev("page-counts", ci, "column chunk %d has a page at row %d, the source column has none (%v)", ci, r0, err)
					} else {
						if p.NumRows() != sp.NumRows() || p.NumValues() != sp.NumValues() || p.NumNulls() != sp.NumNulls() {
							dev("page-counts", ci, "the page of column chunk %d at row %d says NumRows() = %d, NumValues() = %d, NumNulls() = %d; the page of the source column it stands for says %d, %d, %d", ci, r0,
								p.NumRows(), p.NumValues(), p.NumNulls(), sp.NumRows(), sp.NumValues(), sp.NumNulls())
						}
						parquet.Release(sp)
					}
				}
				// slices: the part of the page inside the range, a random one, and a slice of that
				type span struct{ lo, hi int }
				var spans []span
				lo, hi := max(ra, r0)-r0, min(rb, r0+n)-r0
				inRange := lo < hi
				if inRange {
					spans = append(spans, span{lo, hi})
				}
				if n > 0 && int(p.NumRows()) == n {
					x := rng.Intn(n + 1)
					spans = append(spans, span{x, x + rng.Intn(n-x+1)})
				}
				for si, sp := range spans {
					if int(p.NumRows()) != n {
						break
					}
					s := p.Slice(int64(sp.lo), int64(sp.hi))
					sv, err := readValues(s.Values(), batch)
					if err != nil {
						dev("slice", ci, "column chunk %d, page at row %d, Slice(%d, %d) of %d rows: %v", ci, r0, sp.lo, sp.hi, n, err)
						continue
					}
					if inRange && si == 0 {
						collected = append(collected, sv...)
					}
					want := flatten(pr[sp.lo:sp.hi])
					if s.Column() != ci {
						dev("column-index", ci, "column chunk %d, page at row %d, Slice(%d, %d) of %d rows says Column() = %d", ci, r0, sp.lo, sp.hi, n, s.Column())
					}
					if sameRow(want, sv) {
					} else if w, g := canonValues(want), canonValues(sv); w != g {
						dev("slice", ci, "column chunk %d (%s), page at row %d, Slice(%d, %d) of %d rows: the page has [%s] there, the slice yields [%s]", ci, strings.Join(leafPath(b.tgt, ci), "."), r0, sp.lo, sp.hi, n, core.Trunc(w, 200), core.Trunc(g, 200))
						continue
					}
					if int(s.NumRows()) != sp.hi-sp.lo {
						dev("page-counts", ci, "column chunk %d, page at row %d, Slice(%d, %d) says NumRows() = %d and yields %d values", ci, r0, sp.lo, sp.hi, s.NumRows(), len(sv))
						continue
					}
					if m := sp.hi - sp.lo; m > 0 && si == len(spans)-1 {
						x := rng.Intn(m + 1)
						y := x + rng.Intn(m-x+1)
						s2 := s.Slice(int64(x), int64(y))
						sv2, err := readValues(s2.Values(), batch)
						if want2 := flatten(pr[sp.lo+x : sp.lo+y]); err != nil || s2.Column() != ci || !sameRow(want2, sv2) {
							w, g := canonValues(want2), canonValues(sv2)
							dev("slice", ci, "column chunk %d (%s), page at row %d, Slice(%d, %d).Slice(%d, %d): Column() = %d, error %v: the page has [%s] there, the slice yields [%s]", ci, strings.Join(leafPath(b.tgt, ci), "."), r0, sp.lo, sp.hi, x, y, s2.Column(), err, core.Trunc(w, 200), core.Trunc(g, 200))
						}
					}
				}
				parquet.Release(p)
			}
			pages.Close()
			if srcPages != nil {
				srcPages.Close()
			}
			for ri, r := range all {
				rows[ri] = append(rows[ri], r...)
			}
			ranged = append(ranged, collected)
			// a fresh page stream positioned on a row: what comes is the rest of the column
			if ci == seekCol && len(all) == nrows {
				if msg := seekCheck(cc, ci, seekRow, flatten(all[seekRow:]), batch); msg != "" {
					dev("seek", ci, "column chunk %d (%s): %s", ci, strings.Join(leafPath(b.tgt, ci), "."), msg)
				}
			}
		}
		// values were appended column by column: already in column order per row
		out.rows = append(out.rows, rows...)
		if gi == 0 {
			out.a, out.b, out.n, out.ranged = ra, rb, nrows, ranged
		}
	}
	return out, nil
}

// seekCheck: Pages().SeekToRow(row), then the pages to the end.
func seekCheck(cc parquet.ColumnChunk, ci, row int, want []parquet.Value, batch int) string {
	pages := cc.Pages()
	defer pages.Close()
	if err := pages.SeekToRow(int64(row)); err != nil {
		return fmt.Sprintf("Pages().SeekToRow(%d): %v", row, err)
	}
	var got []parquet.Value
	for guard := 0; guard < 1<<16; guard++ {
		p, err := pages.ReadPage()
		if err != nil {
			if !errors.Is(err, io.EOF) {
				return fmt.Sprintf("Pages().SeekToRow(%d), ReadPage: %v", row, err)
			}
			break
		}
		if p.Column() != ci {
			return fmt.Sprintf("Pages().SeekToRow(%d): the page read says Column() = %d", row, p.Column())
		}
		vals, err := readValues(p.Values(), batch)
		parquet.Release(p)
		if err != nil {
			return fmt.Sprintf("Pages().SeekToRow(%d), values: %v", row, err)
		}
		got = append(got, vals...)
	}
	if sameRow(want, got) {
		return ""
	}
	if w, g := canonValues(want), canonValues(got); w != g {
		return fmt.Sprintf("Pages().SeekToRow(%d), then every page: rows %d.. hold [%s], read [%s]", row, row, core.Trunc(w, 200), core.Trunc(g, 200))
	}
	return ""
}

// columnTok renders the values of one column the way the oracle does.
func columnTok(vs []parquet.Value) string {
	if len(vs) == 0 {
		return "_"
	}
	parts := make([]string, len(vs))
	for i, v := range vs {
		s := "N"
		if !v.IsNull() {
			s = "x" + hex.EncodeToString(v.Bytes())
		}
		parts[i] = fmt.Sprintf("%d.%d.%s", v.RepetitionLevel(), v.DefinitionLevel(), s)
	}
	return strings.Join(parts, ";")
}

// checkChunkView examines the column-chunk view of the case and files what it
// finds in out.
func checkChunkView(c *core.Ctx, out *findings, b *built, data []byte, cs *c12Case, nAdded int, srcTok, tgtTok, info string) {
	rng := rand.New(rand.NewSource(cs.Seed ^ 0x3C2D1E0F))
	kind := []int{3, 3, 0, 1, 2}[rng.Intn(5)]
	batch := valueBatches[rng.Intn(len(valueBatches))]
	checkChunkViewOf(c, out, b, data, cs, nAdded, srcTok, tgtTok, info, rng, kind, batch)
}

// checkChunkViewOf: the same with the source kind and the batch size given.
func checkChunkViewOf(c *core.Ctx, out *findings, b *built, data []byte, cs *c12Case, nAdded int, srcTok, tgtTok, info string, rng *rand.Rand, kind, batch int) {
	where := fmt.Sprintf("ConvertRowGroup.ColumnChunks (source: %s, values read %d at a time)", sourceKinds[kind], batch)
	var view *chunkView
	if err := guarded(func() error {
		var e error
		view, e = columnChunkView(b, data, rng, kind, batch)
		return e
	}); err != nil {
		cl := "converted-column-chunks-error"
		if strings.HasPrefix(err.Error(), "PANIC") {
			cl = "converted-column-chunks-panic"
		} else if nAdded > 0 {
			cl = knownChunkView
		}
		out.viol(cl, where+": "+core.Trunc(err.Error(), 300)+info)
		return
	}
	if cl, what := compareRows(b, canonVariants(b.pairs, b.want, view.rows)); cl != "" {
		if k := chunkViewClass(cl, nAdded); k != cl {
			cl = k
		} else {
			cl = "converted-column-chunks-" + cl
		}
		out.viol(cl, where+": "+what+info)
	}
	for _, d := range view.devs {
		cl := "converted-column-chunks-" + d.kind
		if d.added {
			cl = knownChunkView
		}
		out.viol(cl, where+": "+d.msg+info)
	}
	// correspondence: the range view against the model's chunk_view
	if c != nil && c.HasOracle() && len(cs.Variants) == 0 && view.n > 0 && view.n <= 64 && view.n <= len(b.rowsA) && len(view.ranged) == len(b.added) {
		req := []string{"c12.chunk", srcTok, tgtTok, fmt.Sprint(view.a), fmt.Sprint(view.b)}
		for i := 0; i < view.n; i++ {
			req = append(req, rowTok(len(b.srcA.Leaves()), b.rowsA[i]))
		}
		impl := make([]string, len(b.added))
		for ci := range impl {
			if b.added[ci] {
				impl[ci] = "?"
			} else {
				impl[ci] = columnTok(view.ranged[ci])
			}
		}
		if a := c.Ask(strings.Join(req, " ")); a != strings.Join(impl, "|") {
			out.mism("corr:C12.chunk", core.Trunc(strings.Join(req, " "), 1500), strings.Join(impl, "|"), a)
		}
	}
}

var _ = gen.Canon
