package main

// Typed catalogue, continued: (1) files whose variant column is stored
// shredded (several declared types, top level and inside a repeated group),
// written from Go values and read into struct types that declare the column
// as a plain variant and drop / permute / add sibling columns before and
// after it; (2) call histories (Read(k) / SeekToRow / Reset) on one
// GenericReader[T2] for every pair of the catalogue.

import (
	"bytes"
	"errors"
	"fmt"
	"io"
	"math/rand"
	"reflect"

	"github.com/parquet-go/parquet-go"

	"verif/harness/core"
)

type tv1 struct {
	ID   int64  `parquet:"id"`
	Name string `parquet:"name"`
	Var  any    `parquet:"var,variant"`
	Zip  *int32 `parquet:"zip,optional"`
}

// a column added before the variant, one dropped before it, one dropped after it
type tv2a struct {
	Added *int64 `parquet:"added,optional"`
	ID    int64  `parquet:"id"`
	Var   any    `parquet:"var,variant"`
}

// the variant first, columns added after it, permuted
type tv2b struct {
	Var  any      `parquet:"var,variant"`
	Zed  []string `parquet:"zed"`
	Name string   `parquet:"name"`
	Yes  bool     `parquet:"yes"`
}

// columns added on both sides (also a group: several columns)
type tv2c struct {
	Aaa  int32  `parquet:"aaa"`
	Grp  *tIn   `parquet:"grp,optional"`
	Name string `parquet:"name"`
	Var  any    `parquet:"var,variant"`
	Zip  *int32 `parquet:"zip,optional"`
	Zzz  *int64 `parquet:"zzz,optional"`
}

type tvItem struct {
	K   int32 `parquet:"k"`
	Var any   `parquet:"var,variant"`
}

type tv1n struct {
	ID    int64    `parquet:"id"`
	Items []tvItem `parquet:"items"`
}

type tvItemB struct {
	Added *int64 `parquet:"added,optional"`
	Var   any    `parquet:"var,variant"`
	K     int32  `parquet:"k"`
}

type tv2n struct {
	Aa    *int32    `parquet:"aa,optional"`
	Items []tvItemB `parquet:"items"`
	ID    int64     `parquet:"id"`
}

// the group that holds the variant is a struct in the file and is read into a
// pointer (required -> optional ancestor of the variant), the variant first,
// a column added after it and the fields permuted
type tvHolder struct {
	K   int32 `parquet:"k"`
	Var any   `parquet:"var,variant"`
}

type tv1p struct {
	ID    int64    `parquet:"id"`
	Outer tvHolder `parquet:"outer"`
}

type tvHolderB struct {
	Var   any    `parquet:"var,variant"`
	Added *int64 `parquet:"added,optional"`
	K     int32  `parquet:"k"`
}

type tv2p struct {
	Outer *tvHolderB `parquet:"outer,optional"`
	ID    int64      `parquet:"id"`
}

func declaredTypes() map[string]parquet.Node {
	return map[string]parquet.Node{
		"string": parquet.String(),
		"int64":  parquet.Int(64),
		"bool":   parquet.Leaf(parquet.BooleanType),
		"object": parquet.Group{"a": parquet.Int(64), "b": parquet.String()},
		"list":   parquet.List(parquet.Int(64)),
	}
}

// anyEqual: deep equality of decoded variant values (nil and empty alike).
func anyEqual(a, b any) bool {
	switch x := a.(type) {
	case map[string]any:
		y, ok := b.(map[string]any)
		if !ok || len(x) != len(y) {
			return false
		}
		for k, v := range x {
			w, ok := y[k]
			if !ok || !anyEqual(v, w) {
				return false
			}
		}
		return true
	case []any:
		y, ok := b.([]any)
		if !ok || len(x) != len(y) {
			return false
		}
		for i := range x {
			if !anyEqual(x[i], y[i]) {
				return false
			}
		}
		return true
	case []byte:
		y, ok := b.([]byte)
		return ok && bytes.Equal(x, y)
	}
	return reflect.DeepEqual(a, b)
}

func typedVariants(c *core.Ctx) {
	n := c.N(6, 40)
	names := []string{"string", "int64", "bool", "object", "list"}
	for i := 0; i < n; i++ {
		rng := rand.New(rand.NewSource(c.Seed*131 + int64(i)))
		nr := []int{1, 3, 9}[i%3]
		for _, tn := range names {
			sv, err := parquet.ShreddedVariant(declaredTypes()[tn])
			if err != nil {
				c.Violation("typed-write-error", "ShreddedVariant("+tn+"): "+err.Error(), nil)
				continue
			}
			flat := parquet.NewSchema("root", parquet.Group{
				"id": parquet.Int(64), "name": parquet.String(), "var": sv, "zip": parquet.Optional(parquet.Int(32)),
			})
			nested := parquet.NewSchema("root", parquet.Group{
				"id": parquet.Int(64), "items": parquet.Repeated(parquet.Group{"k": parquet.Int(32), "var": sv}),
			})
			// the variant itself optional in the file: null variants under the pointer
			holder := parquet.NewSchema("root", parquet.Group{
				"id": parquet.Int(64), "outer": parquet.Group{"k": parquet.Int(32), "var": parquet.Optional(sv)},
			})
			rows := make([]tv1, nr)
			wa, wb, wc := make([]tv2a, nr), make([]tv2b, nr), make([]tv2c, nr)
			rowsN, wn := make([]tv1n, nr), make([]tv2n, nr)
			rowsP, wp := make([]tv1p, nr), make([]tv2p, nr)
			for j := range rows {
				x := genVariantValue(rng, 2).GoValue()
				r := tv1{ID: int64(rng.Intn(1000)), Name: fmt.Sprint("n", rng.Intn(100)), Var: x}
				if rng.Intn(2) == 0 {
					z := int32(rng.Intn(100))
					r.Zip = &z
				}
				rows[j] = r
				wa[j] = tv2a{ID: r.ID, Var: x}
				wb[j] = tv2b{Var: x, Name: r.Name}
				wc[j] = tv2c{Name: r.Name, Var: x, Zip: r.Zip}
				rn, w := tv1n{ID: r.ID}, tv2n{ID: r.ID}
				for k := rng.Intn(4); k > 0; k-- {
					y := genVariantValue(rng, 1).GoValue()
					rn.Items = append(rn.Items, tvItem{K: int32(k), Var: y})
					w.Items = append(w.Items, tvItemB{Var: y, K: int32(k)})
				}
				rowsN[j], wn[j] = rn, w
				var z any // every third variant is null
				if rng.Intn(3) != 0 {
					z = genVariantValue(rng, 1).GoValue()
				}
				rowsP[j] = tv1p{ID: r.ID, Outer: tvHolder{K: int32(j), Var: z}}
				wp[j] = tv2p{ID: r.ID, Outer: &tvHolderB{Var: z, K: int32(j)}}
			}
			typedPairSchema(c, "variant:"+tn+"/added-before", flat, rows, wa)
			typedPairSchema(c, "variant:"+tn+"/added-after", flat, rows, wb)
			typedPairSchema(c, "variant:"+tn+"/added-around", flat, rows, wc)
			typedPairSchema(c, "variant:"+tn+"/in-repeated-group", nested, rowsN, wn)
			typedPairSchema(c, "variant:"+tn+"/in-group-read-as-pointer", holder, rowsP, wp)
		}
	}
}

// typedPairSchema: like typedPair, the file being written with a given schema.
func typedPairSchema[T1, T2 any](c *core.Ctx, name string, schema *parquet.Schema, rows []T1, want []T2) {
	var buf bytes.Buffer
	err := guarded(func() error {
		w := parquet.NewGenericWriter[T1](&buf, schema)
		if _, err := w.Write(rows); err != nil {
			return err
		}
		return w.Close()
	})
	if err != nil {
		c.Violation("typed-write-error", name+": "+core.Trunc(err.Error(), 300), map[string]any{"typed": name, "rows": rows})
		return
	}
	typedRead(c, name, buf.Bytes(), rows, want)
}

// typedRead reads data into []T2 (whole file, then a history on one reader).
func typedRead[T1, T2 any](c *core.Ctx, name string, data []byte, rows []T1, want []T2) {
	var got []T2
	err := guarded(func() error {
		var e error
		got, e = parquet.Read[T2](bytes.NewReader(data), int64(len(data)))
		return e
	})
	replay := map[string]any{"typed": name, "rows": rows}
	if err != nil {
		c.Violation("typed-"+map[bool]string{true: "panic", false: "error"}[len(err.Error()) >= 5 && err.Error()[:5] == "PANIC"], fmt.Sprintf("parquet.Read[%T] of a file written with %T: %s", *new(T2), *new(T1), core.Trunc(err.Error(), 300)), replay)
	} else if len(got) != len(want) {
		c.Violation("typed-row-count", fmt.Sprintf("%s: wrote %d rows, read %d", name, len(want), len(got)), replay)
	} else {
		for i := range got {
			if !normEqual(reflect.ValueOf(got[i]), reflect.ValueOf(want[i])) {
				c.Violation("typed-row-differs", fmt.Sprintf("%s: row %d: want %s got %s", name, i, jsonOf(want[i]), jsonOf(got[i])), replay)
				break
			}
		}
	}
	// history on one GenericReader[T2]
	h := int64(len(data))
	for _, ch := range name {
		h = h*131 + int64(ch)
	}
	rng := rand.New(rand.NewSource(h))
	var trace string
	err = guarded(func() error {
		r := parquet.NewGenericReader[T2](bytes.NewReader(data))
		defer r.Close()
		n, pos := len(want), 0
		for step := 3 + rng.Intn(5); step > 0; step-- {
			switch k := rng.Intn(10); {
			case k < 5:
				ask := 1 + rng.Intn(4)
				trace += fmt.Sprintf(" Read(%d)@%d", ask, pos)
				buf := make([]T2, ask)
				m := 0
				for guard := 0; m < ask && guard < 64; guard++ {
					k, err := r.Read(buf[m:])
					m += k
					if err != nil {
						if errors.Is(err, io.EOF) {
							break
						}
						return err
					}
				}
				exp := min(ask, n-pos)
				if m != exp {
					return &historyError{fmt.Sprintf("%d rows, expected %d", m, exp)}
				}
				for i := 0; i < m; i++ {
					if !normEqual(reflect.ValueOf(buf[i]), reflect.ValueOf(want[pos+i])) {
						return &historyError{fmt.Sprintf("row %d: want %s got %s", pos+i, jsonOf(want[pos+i]), jsonOf(buf[i]))}
					}
				}
				pos += m
			case k < 8:
				pos = rng.Intn(n + 1)
				trace += fmt.Sprintf(" SeekToRow(%d)", pos)
				if err := r.SeekToRow(int64(pos)); err != nil {
					return err
				}
			default:
				trace += " Reset"
				r.Reset()
				pos = 0
			}
		}
		return nil
	})
	if err != nil {
		cl := "typed-history-error"
		var he *historyError
		if errors.As(err, &he) {
			cl = "typed-history-differs"
		} else if len(err.Error()) >= 5 && err.Error()[:5] == "PANIC" {
			cl = "typed-history-panic"
		}
		c.Violation(cl, fmt.Sprintf("GenericReader[%T] on a file written with %T (%s):%s: %s", *new(T2), *new(T1), name, trace, core.Trunc(err.Error(), 300)), replay)
	}
	c.Case("typed/"+name, fmt.Sprintf("%s %s", name, jsonOf(rows)), len(rows) > 0)
}
