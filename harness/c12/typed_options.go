package main

// Reader OPTIONS x every typed reader constructor.
//
// The target schema of a typed read is derived from the Go type T AND the
// reader options: parquet.StructTag(tag, field) replaces the parquet tag of a
// field at run time (rename, exclude), an explicit *parquet.Schema replaces
// the derivation, and a file may have been opened with FileSchema(known
// schema).  Whatever the combination and whichever constructor is used, the
// read is a read through ONE target schema: the columns present on both sides
// carry the source values, the others are zero/null, and the reader says so
// (Schema()).
//
// Scenario, on the struct pairs of the typed catalogue (t1 -> t2a: dropped +
// reordered, t1 -> t2b: additions at every level): the target is described
//   "tagged"            by the struct tags of T2,
//   "tagged+schema"     by T2 and the explicit schema SchemaOf(T2),
//   "struct-tags"       by the twin type T2U - the same Go fields with the
//                       top-level parquet tags missing or WRONG, plus fields
//                       that are no columns at all - and the StructTag options
//                       that put the tags of T2 back (derived by reflection
//                       from T2) and exclude the extra fields,
//   "struct-tags+schema" by T2U, these options and SchemaOf(T2U, options);
// the file is opened plainly or with FileSchema(schema of the writer); the
// rows are read through parquet.Read[T], NewGenericReader[T](file),
// NewGenericRowGroupReader[T] over every row group of the file, over
// MultiRowGroup of them, over a GenericBuffer[T1] and over a RowBuffer[T1]
// holding the same rows, and the deprecated NewReader / NewRowGroupReader with
// Read(&T) (which re-derives the target from the Go type of the destination on
// every Read: with the StructTag replacements of the reader's options since
// repair c13a23a).  Every GenericReader is driven through
// Read(k), Reset, Read to the end.
//
// Predicate: Schema() of the reader equals (EqualNodes) the schema of T2; the
// rows read equal the expected rows of their positions, after Reset from row
// 0 again.

import (
	"bytes"
	"errors"
	"fmt"
	"io"
	"math/rand"
	"reflect"

	"github.com/parquet-go/parquet-go"

	"verif/harness/core"
)

// twins of t2a / t2b: the tags of the top-level fields are missing or wrong
type t2aU struct {
	Items   []tIn
	Name    string `parquet:"label"`
	Ignored int64  // no column: excluded by StructTag(`parquet:"-"`)
	ID      int64  `parquet:"ID,optional"`
}

type t2bU struct {
	Extra   *int64
	ID      int64 `parquet:"key"`
	Count   int32
	More    []string
	In      *tInB `parquet:"inner"`
	Items   []tInB
	Seq     []int32
	NewGrp  *tIn
	ReqGrp  tIn
	Scratch []byte `parquet:"scratch,optional"` // no column: excluded
}

func toT2aU(x t2a) t2aU { return t2aU{Items: x.Items, Name: x.Name, ID: x.ID} }
func toT2bU(x t2b) t2bU {
	return t2bU{Extra: x.Extra, ID: x.ID, Count: x.Count, More: x.More, In: x.In, Items: x.Items, Seq: x.Seq, NewGrp: x.NewGrp, ReqGrp: x.ReqGrp}
}

// tagOptions derives, from the tagged type T2, the StructTag options that
// make the twin TU describe the same target: the tag of the same-named Go
// field of T2, or the exclusion of a field T2 does not have.
func tagOptions(tagged, twin reflect.Type) []parquet.ReaderOption {
	var opts []parquet.ReaderOption
	for i := 0; i < twin.NumField(); i++ {
		f := twin.Field(i)
		if g, ok := tagged.FieldByName(f.Name); ok {
			opts = append(opts, parquet.StructTag(reflect.StructTag(fmt.Sprintf(`parquet:%q`, g.Tag.Get("parquet"))), f.Name).(parquet.ReaderOption))
		} else {
			opts = append(opts, parquet.StructTag(`parquet:"-"`, f.Name).(parquet.ReaderOption))
		}
	}
	return opts
}

func schemaOptions(opts []parquet.ReaderOption) []parquet.SchemaOption {
	var so []parquet.SchemaOption
	for _, o := range opts {
		if s, ok := o.(parquet.SchemaOption); ok {
			so = append(so, s)
		}
	}
	return so
}

// readTyped drives one GenericReader: Schema(), Read(k), Reset, Read to the end.
func readTyped[T any](r *parquet.GenericReader[T], want []T, wantSchema *parquet.Schema, rng *rand.Rand) error {
	if !parquet.EqualNodes(r.Schema(), wantSchema) {
		return &classedError{"typed-reader-schema", fmt.Sprintf("Schema() of the reader is [%s], the target described by the type and the options is [%s]", core.Trunc(r.Schema().String(), 400), core.Trunc(wantSchema.String(), 400))}
	}
	if r.NumRows() != int64(len(want)) {
		return &classedError{"typed-row-count", fmt.Sprintf("NumRows() = %d, the source holds %d rows", r.NumRows(), len(want))}
	}
	pos := 0
	trace := ""
	read := func(ask int) error {
		trace += fmt.Sprintf(" Read(%d)@%d", ask, pos)
		buf := make([]T, ask)
		m := 0
		for guard := 0; m < ask && guard < 64; guard++ {
			k, err := r.Read(buf[m:])
			m += k
			if err != nil {
				if errors.Is(err, io.EOF) {
					break
				}
				return fmt.Errorf("%s: %w", trace, err)
			}
		}
		exp := min(ask, len(want)-pos)
		if m != exp {
			return &classedError{"typed-row-count", fmt.Sprintf("%s: %d rows, expected %d", trace, m, exp)}
		}
		for i := 0; i < m; i++ {
			if !normEqual(reflect.ValueOf(buf[i]), reflect.ValueOf(want[pos+i])) {
				return &classedError{"typed-row-differs", fmt.Sprintf("%s: row %d: want %s got %s", trace, pos+i, jsonOf(want[pos+i]), jsonOf(buf[i]))}
			}
		}
		pos += m
		return nil
	}
	if len(want) > 0 {
		if err := read(1 + rng.Intn(len(want))); err != nil {
			return err
		}
		trace += " Reset"
		r.Reset()
		pos = 0
	}
	return read(len(want) + 1)
}

// readDeprecated reads every row with Reader.Read(&T).
func readDeprecated[T any](r *parquet.Reader, want []T) error {
	for i := 0; ; i++ {
		var v T
		err := r.Read(&v)
		if errors.Is(err, io.EOF) {
			if i != len(want) {
				return &classedError{"typed-row-count", fmt.Sprintf("Read(&%T): %d rows, expected %d", v, i, len(want))}
			}
			return nil
		}
		if err != nil {
			return err
		}
		if i >= len(want) {
			return &classedError{"typed-row-count", fmt.Sprintf("Read(&%T): more than %d rows", v, len(want))}
		}
		if !normEqual(reflect.ValueOf(v), reflect.ValueOf(want[i])) {
			return &classedError{"typed-row-differs", fmt.Sprintf("Read(&%T): row %d: want %s got %s", v, i, jsonOf(want[i]), jsonOf(v))}
		}
	}
}

// typedOptions runs one (T1 -> T) target description through every constructor.
func typedOptions[T1, T any](c *core.Ctx, name, mode string, rows []T1, want []T, wantSchema *parquet.Schema, opts []parquet.ReaderOption, deprecatedToo bool, seed int64) {
	rng := rand.New(rand.NewSource(seed))
	replay := map[string]any{"typed": name, "mode": mode, "rows": rows}
	label := fmt.Sprintf("%s [%s, %T read as %T]", name, mode, *new(T1), *new(T))
	report := func(ctor string, err error) {
		if err == nil {
			return
		}
		cl := "typed-error"
		var ce *classedError
		if errors.As(err, &ce) {
			cl = ce.class
		} else if len(err.Error()) >= 5 && err.Error()[:5] == "PANIC" {
			cl = "typed-panic"
		}
		c.Violation(cl, label+": "+ctor+": "+core.Trunc(err.Error(), 600), replay)
	}

	// the file: one row group, or two
	var out bytes.Buffer
	wopts := []parquet.WriterOption{}
	if len(rows) >= 2 && rng.Intn(2) == 0 {
		wopts = append(wopts, parquet.MaxRowsPerRowGroup(int64((len(rows)+1)/2)))
	}
	var writerSchema *parquet.Schema
	if err := guarded(func() error {
		w := parquet.NewGenericWriter[T1](&out, wopts...)
		writerSchema = w.Schema()
		if _, err := w.Write(rows); err != nil {
			return err
		}
		return w.Close()
	}); err != nil {
		c.Violation("typed-write-error", label+": "+core.Trunc(err.Error(), 300), replay)
		return
	}
	data := out.Bytes()
	open := func(known bool) (*parquet.File, error) {
		if known {
			return parquet.OpenFile(bytes.NewReader(data), int64(len(data)), parquet.FileSchema(writerSchema))
		}
		return parquet.OpenFile(bytes.NewReader(data), int64(len(data)))
	}

	report("parquet.Read[T](file bytes, options)", guarded(func() error {
		got, err := parquet.Read[T](bytes.NewReader(data), int64(len(data)), opts...)
		if err != nil {
			return err
		}
		if len(got) != len(want) {
			return &classedError{"typed-row-count", fmt.Sprintf("%d rows, expected %d", len(got), len(want))}
		}
		for i := range got {
			if !normEqual(reflect.ValueOf(got[i]), reflect.ValueOf(want[i])) {
				return &classedError{"typed-row-differs", fmt.Sprintf("row %d: want %s got %s", i, jsonOf(want[i]), jsonOf(got[i]))}
			}
		}
		return nil
	}))

	for _, known := range []bool{false, true} {
		fname := map[bool]string{false: "file", true: "file opened with FileSchema(schema of the writer)"}[known]
		f, err := open(known)
		if err != nil {
			report("OpenFile, "+fname, err)
			continue
		}
		report("NewGenericReader[T]("+fname+", options)", guarded(func() error {
			r := parquet.NewGenericReader[T](f, opts...)
			defer r.Close()
			return readTyped(r, want, wantSchema, rng)
		}))
		rgs := f.RowGroups()
		off := 0
		for gi, rg := range rgs {
			n := int(rg.NumRows())
			if off+n > len(want) {
				report("row groups of the "+fname, fmt.Errorf("row group %d ends at row %d of %d", gi, off+n, len(want)))
				break
			}
			report(fmt.Sprintf("NewGenericRowGroupReader[T](row group %d of the %s, options)", gi, fname), guarded(func() error {
				r := parquet.NewGenericRowGroupReader[T](rg, opts...)
				defer r.Close()
				return readTyped(r, want[off:off+n], wantSchema, rng)
			}))
			off += n
		}
		if len(rgs) > 1 {
			report("NewGenericRowGroupReader[T](MultiRowGroup(row groups of the "+fname+"), options)", guarded(func() error {
				r := parquet.NewGenericRowGroupReader[T](parquet.MultiRowGroup(rgs...), opts...)
				defer r.Close()
				return readTyped(r, want, wantSchema, rng)
			}))
		}
		if deprecatedToo {
			report("NewReader("+fname+", options), Read(&T)", guarded(func() error {
				r := parquet.NewReader(f, opts...)
				defer r.Close()
				return readDeprecated(r, want)
			}))
			if len(rgs) > 0 {
				report("NewRowGroupReader(row group 0 of the "+fname+", options), Read(&T)", guarded(func() error {
					r := parquet.NewRowGroupReader(rgs[0], opts...)
					defer r.Close()
					return readDeprecated(r, want[:rgs[0].NumRows()])
				}))
			}
		}
	}

	// the same rows in memory
	report("NewGenericRowGroupReader[T](GenericBuffer[T1], options)", guarded(func() error {
		buf := parquet.NewGenericBuffer[T1]()
		if _, err := buf.Write(rows); err != nil {
			return err
		}
		r := parquet.NewGenericRowGroupReader[T](buf, opts...)
		defer r.Close()
		return readTyped(r, want, wantSchema, rng)
	}))
	report("NewGenericRowGroupReader[T](RowBuffer[T1], options)", guarded(func() error {
		buf := parquet.NewRowBuffer[T1]()
		if _, err := buf.Write(rows); err != nil {
			return err
		}
		r := parquet.NewGenericRowGroupReader[T](buf, opts...)
		defer r.Close()
		return readTyped(r, want, wantSchema, rng)
	}))
	c.Case("typed-options/"+name+"/"+mode, fmt.Sprintf("%s %s %s", name, mode, jsonOf(rows)), len(rows) > 0)
}

// typedOptionModes: the four descriptions of one target.
func typedOptionModes[T1, T2, TU any](c *core.Ctx, name string, rows []T1, want []T2, twin func(T2) TU, seed int64) {
	tagged := parquet.SchemaOf(new(T2))
	typedOptions(c, name, "tagged", rows, want, tagged, nil, true, seed)
	typedOptions(c, name, "tagged+schema", rows, want, tagged, []parquet.ReaderOption{tagged}, true, seed+1)
	wantU := make([]TU, len(want))
	for i := range want {
		wantU[i] = twin(want[i])
	}
	tags := tagOptions(reflect.TypeOf(*new(T2)), reflect.TypeOf(*new(TU)))
	typedOptions(c, name, "struct-tags", rows, wantU, tagged, tags, true, seed+2)
	explicit := parquet.SchemaOf(new(TU), schemaOptions(tags)...)
	typedOptions(c, name, "struct-tags+schema", rows, wantU, tagged, append(append([]parquet.ReaderOption{}, tags...), explicit), true, seed+3)
}
