package main

// Call histories on ONE reader.
//
// The statement is about every read through a target schema, not about the
// first one: a reader that is asked for another target (the deprecated
// parquet.Reader derives the target from the Go type of the destination on
// every Read), that is repositioned (SeekToRow) or rewound (Reset) between
// reads must still hand out, for the row it is positioned at, the projection
// of that source row onto the target in force.
//
// (a) rowHistory: on every generated pair, NewGenericReader(file, schema) and
//     NewReader(file, schema) are driven through ReadRows(k) / SeekToRow /
//     Reset sequences; every batch is compared with the expected target rows
//     of the positions it covers.
// (b) histCase: the source schema is rendered as a Go struct type
//     (reflect.StructOf), and so are several targets (edit scripts: views);
//     one parquet.Reader is driven through Read(&view_k) / ReadRows / SeekToRow
//     / Reset; the Go value of every Read, deconstructed with the view's
//     schema, must be the shredding of the projection of the source row at the
//     reader's position; files written with the generated schema and with the
//     schema of the source struct type (for which Read takes the identity
//     shortcut), one or two row groups, optionally a reader that was itself
//     opened with a target schema (projection of a projection).

import (
	"encoding/json"
	"errors"
	"fmt"
	"io"
	"math/rand"
	"reflect"
	"strings"

	"github.com/parquet-go/parquet-go"
	"github.com/parquet-go/parquet-go/deprecated"

	"verif/harness/core"
	"verif/harness/gen"
)

// ---------------------------------------------------------------------------
// (a) row-level histories on the generated pairs

type rowsAPI interface {
	ReadRows([]parquet.Row) (int, error)
	SeekToRow(int64) error
}

type historyError struct{ msg string }

func (e *historyError) Error() string { return e.msg }

// readN reads up to k rows into fresh buffers (a reader may return fewer rows
// than asked for).
func readN(r rowsAPI, k int) ([]parquet.Row, error) { return readInto(r, nil, k) }

// readInto reads up to k rows.  With buf == nil every call gets a fresh
// buffer; else every call reads into the first slots of buf, the ONE buffer
// the caller keeps using (what CopyRows and every read loop do): the rows a
// call returns are only valid until the next call, so they are cloned here,
// and whatever the reader left in the slots (capacity, aliasing) is what the
// next call starts from.
func readInto(r rowsAPI, buf []parquet.Row, k int) ([]parquet.Row, error) {
	var out []parquet.Row
	for guard := 0; len(out) < k && guard < 64; guard++ {
		b := buf
		if b == nil {
			b = make([]parquet.Row, k-len(out))
		} else {
			b = b[:min(len(b), k-len(out))]
		}
		n, err := r.ReadRows(b)
		if n < 0 || n > len(b) {
			return out, fmt.Errorf("ReadRows returned %d for a buffer of %d rows", n, len(b))
		}
		for _, x := range b[:n] {
			out = append(out, x.Clone())
		}
		if err != nil {
			if errors.Is(err, io.EOF) {
				return out, io.EOF
			}
			return out, err
		}
		if n == 0 {
			return out, fmt.Errorf("ReadRows returned 0 rows and no error")
		}
	}
	return out, nil
}

// histMode: how a row-level history is driven.
type histMode struct {
	batch   int  // > 0: all reads go into one buffer of this many rows; 0: fresh buffers
	forward bool // the reader only seeks forward and cannot be rewound (ConvertRowReader over a plain reader)
	drain   bool // finish by reading to the end (in batches), comparing every row
	fwdSeek bool // SeekToRow only forward (the rows of the source refuse to seek backward, with an error), Reset allowed
	rewind  bool // begin with ReadRows(k), Reset: the rows must start again at row 0 (readers with a Reset method)
}

func (m histMode) String() string {
	s := "fresh buffers"
	if m.batch > 0 {
		s = fmt.Sprintf("one buffer of %d rows", m.batch)
	}
	if m.forward {
		s += ", forward seeks"
	}
	return s
}

func genHistMode(rng *rand.Rand, forward, drain bool) histMode {
	m := histMode{forward: forward, drain: drain}
	if rng.Intn(4) != 0 {
		m.batch = 1 + rng.Intn(5)
	}
	return m
}

// rowHistory drives r through a history derived from rng; want are the rows r
// must produce from position 0.  It leaves r rewound when r can be rewound.
func rowHistory(pairs [][2]int, want []parquet.Row, r rowsAPI, rng *rand.Rand, mode histMode) error {
	n, pos := len(want), 0
	var buf []parquet.Row
	maxAsk := 4
	if mode.batch > 0 {
		buf, maxAsk = make([]parquet.Row, mode.batch), mode.batch
	}
	trace := []string{"[" + mode.String() + "]"}
	read := func(ask int) error {
		trace = append(trace, fmt.Sprintf("ReadRows(%d)@%d", ask, pos))
		got, err := readInto(r, buf, ask)
		exp := min(ask, n-pos)
		if err != nil && !errors.Is(err, io.EOF) {
			return &historyError{strings.Join(trace, " ") + ": " + err.Error()}
		}
		if len(got) != exp {
			return &historyError{fmt.Sprintf("%s: %d rows, expected %d", strings.Join(trace, " "), len(got), exp)}
		}
		got = canonVariants(pairs, want[pos:pos+exp], got)
		for i := range got {
			if sameRow(want[pos+i], got[i]) {
				continue
			}
			if w, g := safeCanonRow(want[pos+i]), safeCanonRow(got[i]); w != g {
				return &historyError{fmt.Sprintf("%s: row %d: want [%s] got [%s]", strings.Join(trace, " "), pos+i, core.Trunc(w, 300), core.Trunc(g, 300))}
			}
		}
		pos += exp
		return nil
	}
	resetter, _ := r.(interface{ Reset() })
	if mode.rewind && resetter != nil && n > 0 {
		if err := read(1 + rng.Intn(maxAsk)); err != nil {
			return err
		}
		trace = append(trace, "Reset")
		resetter.Reset()
		pos = 0
		if err := read(1 + rng.Intn(maxAsk)); err != nil {
			return err
		}
	}
	for step := 2 + rng.Intn(5); step > 0; step-- {
		switch k := rng.Intn(10); {
		case k < 5:
			ask := 1 + rng.Intn(maxAsk)
			if mode.batch > 0 && rng.Intn(2) == 0 {
				ask = mode.batch // the whole buffer, like a read loop
			}
			if err := read(ask); err != nil {
				return err
			}
		case k < 8 || resetter == nil || mode.forward:
			if mode.forward || mode.fwdSeek {
				pos += rng.Intn(n - pos + 1)
			} else {
				pos = rng.Intn(n + 1)
			}
			trace = append(trace, fmt.Sprintf("SeekToRow(%d)", pos))
			if err := r.SeekToRow(int64(pos)); err != nil {
				return &historyError{strings.Join(trace, " ") + ": " + err.Error()}
			}
		default:
			trace = append(trace, "Reset")
			resetter.Reset()
			pos = 0
		}
	}
	if mode.drain {
		for guard := 0; pos < n && guard <= n; guard++ {
			if err := read(maxAsk); err != nil {
				return err
			}
		}
		trace = append(trace, fmt.Sprintf("ReadRows(%d)@%d", maxAsk, pos))
		if got, err := readInto(r, buf, maxAsk); len(got) != 0 || !errors.Is(err, io.EOF) {
			return &historyError{fmt.Sprintf("%s: past the last row: %d rows, error %v, expected io.EOF", strings.Join(trace, " "), len(got), err)}
		}
	}
	if resetter != nil && !mode.forward {
		resetter.Reset()
	}
	return nil
}

func init() {
	paths = append(paths,
		pathFn{name: "NewGenericReader(schema), ReadRows/SeekToRow/Reset history", run: func(b *built, data []byte, cs *c12Case) ([]parquet.Row, error) {
			f, err := openFile(data)
			if err != nil {
				return nil, err
			}
			r := parquet.NewGenericReader[any](f, b.ts)
			defer r.Close()
			rng := rand.New(rand.NewSource(cs.Seed ^ 0x1234567))
			if err := rowHistory(b.pairs, b.want, r, rng, genHistMode(rng, false, false)); err != nil {
				return nil, err
			}
			return readAll(r, 2+int(cs.Seed%5))
		}},
		pathFn{name: "NewReader(schema), ReadRows/SeekToRow/Reset history", run: func(b *built, data []byte, cs *c12Case) ([]parquet.Row, error) {
			f, err := openFile(data)
			if err != nil {
				return nil, err
			}
			r := parquet.NewReader(f, b.ts)
			defer r.Close()
			rng := rand.New(rand.NewSource(cs.Seed ^ 0x7654321))
			if err := rowHistory(b.pairs, b.want, r, rng, genHistMode(rng, false, false)); err != nil {
				return nil, err
			}
			return readAll(r, 1+int(cs.Seed%4))
		}},
		// the conversion wrappers themselves: ConvertRowReader puts a
		// forward-only seeker (row.go forwardRowSeeker) in front of any source
		// reader; the rows of a converted row group seek in the rows of the
		// source row group.  Both convert in place, in the caller's buffer.
		pathFn{name: "ConvertRowReader, SeekToRow/ReadRows history", historyOnly: true, run: func(b *built, data []byte, cs *c12Case) ([]parquet.Row, error) {
			rng := rand.New(rand.NewSource(cs.Seed ^ 0x2468ACE))
			var src parquet.RowReader = &sliceReader{rows: b.rows, schema: b.ss}
			var from parquet.Node = b.ss
			if rng.Intn(2) == 0 { // the rows of the file (one or two row groups) instead of rows in memory
				f, err := openFile(data)
				if err != nil {
					return nil, err
				}
				fr := parquet.NewGenericReader[any](f)
				defer fr.Close()
				src, from = fr, f.Schema()
			}
			conv, err := parquet.Convert(b.ts, from)
			if err != nil {
				return nil, err
			}
			r, ok := parquet.ConvertRowReader(src, conv).(rowsAPI)
			if !ok {
				return nil, fmt.Errorf("ConvertRowReader does not return a parquet.RowSeeker")
			}
			return nil, rowHistory(b.pairs, b.want, r, rng, genHistMode(rng, true, true))
		}},
		pathFn{name: "ConvertRowGroup.Rows, SeekToRow/ReadRows history", historyOnly: true, run: func(b *built, data []byte, cs *c12Case) ([]parquet.Row, error) {
			rng := rand.New(rand.NewSource(cs.Seed ^ 0x13579BD))
			f, err := openFile(data)
			if err != nil {
				return nil, err
			}
			conv, err := parquet.Convert(b.ts, f.Schema())
			if err != nil {
				return nil, err
			}
			off := 0
			for gi, rg := range f.RowGroups() {
				n := int(rg.NumRows())
				if off+n > len(b.want) {
					return nil, fmt.Errorf("row group %d ends at row %d of %d", gi, off+n, len(b.want))
				}
				rows := parquet.ConvertRowGroup(rg, conv).Rows()
				err := rowHistory(b.pairs, b.want[off:off+n], rows, rng, genHistMode(rng, false, true))
				rows.Close()
				if err != nil {
					var he *historyError
					if errors.As(err, &he) {
						return nil, &historyError{fmt.Sprintf("row group %d (rows %d..%d): %s", gi, off, off+n-1, he.msg)}
					}
					return nil, err
				}
				off += n
			}
			if off != len(b.want) {
				return nil, &historyError{fmt.Sprintf("the row groups hold %d rows of %d", off, len(b.want))}
			}
			return nil, nil
		}},
	)
}

// ---------------------------------------------------------------------------
// (b) typed histories on the deprecated Reader

// structable rewrites the leaves that need a struct tag depending on the Go
// type (uuid, date, timestamp) into their physical types and drops encodings:
// the view types must be expressible for every repetition.
func structable(n *gen.Node) *gen.Node {
	c := *n
	c.Encoding, c.Codec = "", ""
	switch c.Leaf {
	case "uuid":
		c.Leaf, c.Size = "flba", 16
	case "date":
		c.Leaf = "int32"
	case "ts":
		c.Leaf = "int64"
	}
	c.Fields = nil
	for _, f := range n.Fields {
		c.Fields = append(c.Fields, structable(f))
	}
	return &c
}

var leafGoTypes = map[string]reflect.Type{
	"bool": reflect.TypeOf(false), "int32": reflect.TypeOf(int32(0)), "int64": reflect.TypeOf(int64(0)),
	"int96": reflect.TypeOf(deprecated.Int96{}), "float": reflect.TypeOf(float32(0)), "double": reflect.TypeOf(float64(0)),
	"bytes": reflect.TypeOf([]byte(nil)), "string": reflect.TypeOf(""), "uint32": reflect.TypeOf(uint32(0)), "uint64": reflect.TypeOf(uint64(0)),
}

// goType: the Go type of the content of node n (its repetition is applied by the parent).
func goType(n *gen.Node) reflect.Type {
	if n.Leaf == "flba" {
		return reflect.ArrayOf(n.Size, reflect.TypeOf(byte(0)))
	}
	if n.Leaf != "" {
		t, ok := leafGoTypes[n.Leaf]
		if !ok {
			panic("harness: no Go type for leaf " + n.Leaf)
		}
		return t
	}
	fields := make([]reflect.StructField, len(n.Fields))
	for i, f := range n.Fields {
		t := goType(f)
		switch f.Rep {
		case gen.Opt:
			t = reflect.PointerTo(t)
		case gen.Rpt:
			t = reflect.SliceOf(t)
		}
		fields[i] = reflect.StructField{Name: fmt.Sprintf("F%d", i), Type: t, Tag: reflect.StructTag(fmt.Sprintf(`parquet:%q`, f.Name))}
	}
	return reflect.StructOf(fields)
}

var physicalKinds = map[string]parquet.Kind{
	"bool": parquet.Boolean, "int32": parquet.Int32, "uint32": parquet.Int32, "int64": parquet.Int64, "uint64": parquet.Int64,
	"int96": parquet.Int96, "float": parquet.Float, "double": parquet.Double, "bytes": parquet.ByteArray, "string": parquet.ByteArray,
	"flba": parquet.FixedLenByteArray,
}

// sameShape: the library node has the fields of the tree, in order, with the
// same repetition and physical type.
func sameShape(n *gen.Node, p parquet.Node, rep int) bool {
	if (p.Optional() && rep != gen.Opt) || (p.Repeated() && rep != gen.Rpt) || (p.Required() && rep != gen.Req) {
		return false
	}
	if n.Leaf != "" {
		return p.Leaf() && p.Type().Kind() == physicalKinds[n.Leaf] && (n.Leaf != "flba" || p.Type().Length() == n.Size)
	}
	fs := p.Fields()
	if p.Leaf() || len(fs) != len(n.Fields) {
		return false
	}
	for i, f := range n.Fields {
		if fs[i].Name() != f.Name || !sameShape(f, fs[i], f.Rep) {
			return false
		}
	}
	return true
}

type hop struct {
	Op   string `json:"op"`             // read | rows | seek | reset
	View int    `json:"view,omitempty"` // read: index of the view
	N    int    `json:"n,omitempty"`    // rows: how many; seek: the row
}

type histCase struct {
	Kind       string   `json:"kind"` // history
	Seed       int64    `json:"seed"`
	NRows      int      `json:"nrows"`
	MaxDepth   int      `json:"max_depth"`
	MaxFields  int      `json:"max_fields"`
	NullBias   int      `json:"null_bias"`
	Views      [][]edit `json:"views"`       // edit scripts: view k = the source edited by Views[k] (empty: the source itself)
	StructFile bool     `json:"struct_file"` // the file is written with the schema of the source struct type (else the generated schema)
	FlushAt    int      `json:"flush_at"`    // a second row group starts at this row (<= 0: one row group)
	Opened     int      `json:"opened"`      // NewReader(file, schema of view Opened-1); 0: NewReader(file)
	Ops        []hop    `json:"ops"`
}

func (hc *histCase) source() *gen.Node {
	return structable(gen.Schema(rand.New(rand.NewSource(hc.Seed)), gen.Config{MaxDepth: hc.MaxDepth, MaxFields: hc.MaxFields}))
}

type histView struct {
	node   *gen.Node
	typ    reflect.Type
	schema *parquet.Schema
	want   []parquet.Row
}

// runHistory executes the history; "" or (class, what).
func runHistory(hc *histCase) (class, what string) {
	src := hc.source()
	srcType := goType(src)
	srcSchema := parquet.SchemaOf(reflect.New(srcType).Interface())
	if !sameShape(src, srcSchema, gen.Req) {
		return "harness-struct-schema", "the schema of the struct type generated for the source differs from the source: " + src.Text() + " vs " + srcSchema.String()
	}
	rrng := rand.New(rand.NewSource(hc.Seed ^ 0x5DEECE66D))
	var vals []*gen.Val
	var rows []parquet.Row
	for i := 0; i < hc.NRows; i++ {
		v := gen.Row(rrng, src, hc.NullBias)
		vals = append(vals, v)
		rows = append(rows, gen.Shred(src, v))
	}
	// the reader's own view of the file
	base, baseRows := src, rows
	project := func(from, to *gen.Node, vs []*gen.Val) ([]*gen.Val, []parquet.Row) {
		var pv []*gen.Val
		var pr []parquet.Row
		for _, v := range vs {
			p := goProject(from, to, v)
			pv = append(pv, p)
			pr = append(pr, gen.Shred(to, p))
		}
		return pv, pr
	}
	nodes := make([]*gen.Node, len(hc.Views))
	for k, es := range hc.Views {
		nodes[k] = applyEdits(src, es)
		if !compatible(src, nodes[k]) {
			return "", ""
		}
	}
	baseVals := vals
	var options []parquet.ReaderOption
	if hc.Opened > 0 && hc.Opened <= len(nodes) {
		base = nodes[hc.Opened-1]
		baseVals, baseRows = project(src, base, vals)
		options = append(options, parquet.SchemaOf(reflect.New(goType(base)).Interface()))
	}
	views := make([]histView, len(nodes))
	for k, n := range nodes {
		if !compatible(base, n) {
			return "", "" // two edit scripts added the same name with different types
		}
		v := histView{node: n, typ: goType(n)}
		v.schema = parquet.SchemaOf(reflect.New(v.typ).Interface())
		if !sameShape(n, v.schema, gen.Req) {
			return "harness-struct-schema", "the schema of the struct type generated for a view differs from the view: " + n.Text() + " vs " + v.schema.String()
		}
		_, v.want = project(base, n, baseVals)
		views[k] = v
	}
	info := func() string {
		s := " [file " + src.Text()
		if base != src {
			s += ", opened with " + base.Text()
		}
		for k, v := range views {
			s += fmt.Sprintf("; view %d: %s", k, v.node.Text())
		}
		return s + "]"
	}

	fileSchema := buildSchema(src)
	if hc.StructFile {
		fileSchema = srcSchema
	}
	data, err := writeFile(fileSchema, rows, hc.FlushAt, hc.Seed)
	if err != nil {
		return "source-write-error", "writing the source rows failed: " + err.Error() + info()
	}

	var trace []string
	fail := func(cl, msg string) (string, string) {
		return cl, strings.Join(trace, " ") + ": " + msg + info()
	}
	err = guarded(func() error {
		f, err := openFile(data)
		if err != nil {
			return err
		}
		r := parquet.NewReader(f, options...)
		defer r.Close()
		n, pos := len(rows), 0
		if got := r.NumRows(); got != int64(n) {
			class, what = fail("reader-history-row-count", fmt.Sprintf("NumRows() = %d for %d rows", got, n))
			return nil
		}
		for _, op := range hc.Ops {
			switch op.Op {
			case "read":
				if op.View < 0 || op.View >= len(views) {
					continue
				}
				v := views[op.View]
				trace = append(trace, fmt.Sprintf("Read(&view%d)@%d", op.View, pos))
				dst := reflect.New(v.typ)
				err := r.Read(dst.Interface())
				if pos >= n {
					if !errors.Is(err, io.EOF) {
						class, what = fail("reader-history-eof", fmt.Sprintf("past the last row: error %v, expected io.EOF", err))
						return nil
					}
					continue
				}
				if err != nil {
					class, what = fail("reader-history-error", err.Error())
					return nil
				}
				got := v.schema.Deconstruct(nil, dst.Interface())
				if w, g := safeCanonRow(v.want[pos]), safeCanonRow(got); w != g {
					wc, gc := splitCols(len(v.node.Leaves()), v.want[pos]), splitCols(len(v.node.Leaves()), got)
					for ci := range wc {
						if wc[ci] != gc[ci] {
							class, what = fail("reader-history-row-differs", fmt.Sprintf("row %d column %d (%s): want [%s] got [%s]", pos, ci, strings.Join(leafPath(v.node, ci), "."), core.Trunc(wc[ci], 200), core.Trunc(gc[ci], 200)))
							return nil
						}
					}
					class, what = fail("reader-history-row-differs", fmt.Sprintf("row %d: want [%s] got [%s]", pos, core.Trunc(w, 300), core.Trunc(g, 300)))
					return nil
				}
				pos++
			case "rows":
				trace = append(trace, fmt.Sprintf("ReadRows(%d)@%d", op.N, pos))
				got, err := readN(r, op.N)
				exp := min(op.N, n-pos)
				if err != nil && !errors.Is(err, io.EOF) {
					class, what = fail("reader-history-error", err.Error())
					return nil
				}
				if len(got) != exp {
					class, what = fail("reader-history-row-count", fmt.Sprintf("%d rows, expected %d", len(got), exp))
					return nil
				}
				for i := range got {
					if w, g := safeCanonRow(baseRows[pos+i]), safeCanonRow(got[i]); w != g {
						class, what = fail("reader-history-row-differs", fmt.Sprintf("row %d: want [%s] got [%s]", pos+i, core.Trunc(w, 300), core.Trunc(g, 300)))
						return nil
					}
				}
				pos += exp
			case "seek":
				pos = max(0, min(op.N, n))
				trace = append(trace, fmt.Sprintf("SeekToRow(%d)", pos))
				if err := r.SeekToRow(int64(pos)); err != nil {
					class, what = fail("reader-history-error", err.Error())
					return nil
				}
			case "reset":
				trace = append(trace, "Reset")
				r.Reset()
				pos = 0
			}
		}
		return nil
	})
	if err != nil {
		cl := "reader-history-error"
		if strings.HasPrefix(err.Error(), "PANIC") {
			cl = "reader-history-panic"
		}
		return fail(cl, core.Trunc(err.Error(), 300))
	}
	return class, what
}

func shrinkHistory(c *core.Ctx, hc histCase, class string) histCase {
	fails := func(t *histCase) bool {
		cl, _ := runHistory(t)
		return cl == class
	}
	for changed := true; changed; {
		changed = false
		for i := range hc.Ops {
			t := hc
			t.Ops = append(append([]hop(nil), hc.Ops[:i]...), hc.Ops[i+1:]...)
			if fails(&t) {
				hc, changed = t, true
				break
			}
		}
	}
	for changed := true; changed; {
		changed = false
		for k := range hc.Views {
			for i := range hc.Views[k] {
				t := hc
				t.Views = append([][]edit(nil), hc.Views...)
				t.Views[k] = append(append([]edit(nil), hc.Views[k][:i]...), hc.Views[k][i+1:]...)
				if fails(&t) {
					hc, changed = t, true
					break
				}
			}
		}
	}
	if t := hc; t.FlushAt > 0 {
		t.FlushAt = 0
		if fails(&t) {
			hc = t
		}
	}
	return hc
}

func runHistCase(c *core.Ctx, hc histCase, sample bool) {
	class, what := runHistory(&hc)
	if class != "" && !reported[class] {
		reported[class] = true
		min := shrinkHistory(c, hc, class)
		if cl, w := runHistory(&min); cl == class {
			what = w
		} else {
			min = hc
		}
		c.Violation(class, what, min)
	}
	nviews := map[int]bool{}
	for _, op := range hc.Ops {
		if op.Op == "read" {
			nviews[op.View] = true
		}
	}
	key, _ := json.Marshal(hc)
	c.Case(fmt.Sprintf("history/views-read=%d", len(nviews)), string(key), len(nviews) > 1 && hc.NRows > 0)
	if sample {
		c.Sample(map[string]any{"case": hc, "source": hc.source().Text()})
	}
}

func histories(c *core.Ctx) {
	n := c.N(1200, 6000)
	for i := 0; i < n; i++ {
		hc := histCase{Kind: "history", Seed: c.Seed*7000003 + int64(i), NRows: []int{1, 3, 6, 12}[c.Rng.Intn(4)],
			MaxDepth: 1 + c.Rng.Intn(3), MaxFields: 2 + c.Rng.Intn(3), NullBias: c.Rng.Intn(8), StructFile: c.Rng.Intn(2) == 0}
		if c.Rng.Intn(2) == 0 {
			hc.FlushAt = hc.NRows / 2
		}
		src := hc.source()
		for k := 2 + c.Rng.Intn(2); k > 0; k-- {
			var es []edit
			if c.Rng.Intn(5) != 0 {
				// "opt": a struct field of the file read into a pointer field of the view
				ops := [][]string{{"del", "add", "perm", "opt"}, {"del"}, {"del", "perm"}, {"opt", "add"}}[c.Rng.Intn(4)]
				es = genEdits(c.Rng, src, 1+c.Rng.Intn(4), ops)
				for j := range es {
					if es[j].Node != nil {
						es[j].Node = structable(es[j].Node)
					}
				}
			}
			hc.Views = append(hc.Views, es)
		}
		if c.Rng.Intn(5) == 0 {
			hc.Opened = 1 + c.Rng.Intn(len(hc.Views))
		}
		for k := 2 + c.Rng.Intn(7); k > 0; k-- {
			switch x := c.Rng.Intn(10); {
			case x < 6:
				hc.Ops = append(hc.Ops, hop{Op: "read", View: c.Rng.Intn(len(hc.Views))})
			case x < 7:
				hc.Ops = append(hc.Ops, hop{Op: "rows", N: 1 + c.Rng.Intn(3)})
			case x < 9:
				hc.Ops = append(hc.Ops, hop{Op: "seek", N: c.Rng.Intn(hc.NRows + 1)})
			default:
				hc.Ops = append(hc.Ops, hop{Op: "reset"})
			}
		}
		runHistCase(c, hc, i < 2)
	}
}
