package main

// What the rows are read FROM, and reading them more than once.
//
// The statement is about every read through a target schema, whatever holds
// the source rows: the conversion is a function of the source rows alone, so a
// source that is read through a target a second time yields the same rows
// again, and the source itself still holds the rows written to it (the
// conversion works in place, in the buffers its caller hands it: these must
// never be the memory of the source).
//
// Scenario, on every generated pair: the source rows are put into one of the
// row group kinds of the library (RowBuffer[any], Buffer, GenericBuffer[any],
// the row group(s) of a file, MultiRowGroup / MergeRowGroups without sorting
// columns over two in-memory buffers of different kinds); the rows are then
// taken through the target 2-3 times, each time by one of the conversion entry
// points that accept a row group or its Rows() (CopyRows into a Buffer / a
// RowBuffer / a file writer of the target schema, ConvertRowGroup(...).Rows(),
// ConvertRowReader(src.Rows()), MergeRowGroups({src}, target),
// NewGenericRowGroupReader[any](src, target)); finally the source is read
// plainly.
//
// Among the passes are the readers and rows that can be REWOUND: a
// GenericReader / Reader over the source row group and the rows of
// ConvertRowGroup are driven through ReadRows(k), Reset (when they have it),
// and must start again at row 0 (history.go rowHistory, mode rewind), whatever
// kind of Rows() the source hands out.  The source travels through the passes
// as ONE slice of row groups owned by the scenario (argSnapshot): what an entry
// point does to its arguments is what the next pass starts from, and the slice
// is compared with its snapshot after every pass.
//
// Predicate: every pass yields the expected target rows (compareRows, the
// independent projection + shredding), and the final plain read yields the
// source rows, value for value.

import (
	"bytes"
	"fmt"
	"math/rand"
	"reflect"

	"github.com/parquet-go/parquet-go"

	"verif/harness/core"
)

// classedError carries its own violation class through the path runner.
type classedError struct{ class, msg string }

func (e *classedError) Error() string { return e.msg }

var sourceKinds = []string{
	"RowBuffer[any]",
	"Buffer",
	"GenericBuffer[any]",
	"file row groups",
	"MultiRowGroup(RowBuffer[any], Buffer)",
	"MergeRowGroups({Buffer, RowBuffer[any]}, source schema) without sorting columns",
}

// makeSource holds rows (of schema) in a row group of the given kind.
func makeSource(kind int, schema *parquet.Schema, rows []parquet.Row, data []byte) (parquet.RowGroup, error) {
	rowBuffer := func(rows []parquet.Row) (parquet.RowGroup, error) {
		rb := parquet.NewRowBuffer[any](schema)
		_, err := rb.WriteRows(cloneRows(rows))
		return rb, err
	}
	buffer := func(rows []parquet.Row) (parquet.RowGroup, error) {
		buf := parquet.NewBuffer(schema)
		_, err := buf.WriteRows(cloneRows(rows))
		return buf, err
	}
	switch kind {
	case 0:
		return rowBuffer(rows)
	case 1:
		return buffer(rows)
	case 2:
		buf := parquet.NewGenericBuffer[any](schema)
		_, err := buf.WriteRows(cloneRows(rows))
		return buf, err
	case 3:
		f, err := openFile(data)
		if err != nil {
			return nil, err
		}
		switch rgs := f.RowGroups(); len(rgs) {
		case 0:
			return rowBuffer(rows)
		case 1:
			return rgs[0], nil
		default:
			return parquet.MultiRowGroup(rgs...), nil
		}
	}
	// two members of different kinds; an empty member is somebody else's
	// subject: with fewer than two rows the whole source is one buffer
	if len(rows) < 2 {
		return rowBuffer(rows)
	}
	h := len(rows) / 2
	if kind == 4 {
		x, err := rowBuffer(rows[:h])
		if err != nil {
			return nil, err
		}
		y, err := buffer(rows[h:])
		if err != nil {
			return nil, err
		}
		return parquet.MultiRowGroup(x, y), nil
	}
	x, err := buffer(rows[:h])
	if err != nil {
		return nil, err
	}
	y, err := rowBuffer(rows[h:])
	if err != nil {
		return nil, err
	}
	return parquet.MergeRowGroups([]parquet.RowGroup{x, y}, schema)
}

type sourcePass struct {
	name string
	run  func(b *built, src []parquet.RowGroup, batch int, rng *rand.Rand) ([]parquet.Row, error)
}

// Caller-owned arguments.  The source is handed to the passes as a slice of one
// row group that sourceHistory owns: the entry points that take a []RowGroup
// (MergeRowGroups, MultiRowGroup) get THAT slice, every pass, and the entry
// points that take a row group get its element.  Whatever an entry point does
// to its arguments is therefore what the next pass starts from, and after every
// pass the slice must still hold the row group that was put there, with the
// schema it had (argSnapshot).
type argSnapshot struct {
	elems   []parquet.RowGroup
	schemas []string
}

func sameRowGroupValue(a, b parquet.RowGroup) (same bool) {
	ta, tb := reflect.TypeOf(a), reflect.TypeOf(b)
	if ta != tb {
		return false
	}
	if ta == nil || !ta.Comparable() {
		return true
	}
	defer func() {
		if recover() != nil {
			same = true
		}
	}()
	return a == b
}

func snapshotArgs(rgs []parquet.RowGroup) *argSnapshot {
	s := &argSnapshot{elems: append([]parquet.RowGroup(nil), rgs...)}
	for _, rg := range rgs {
		s.schemas = append(s.schemas, rg.Schema().String())
	}
	return s
}

// check: the slice (and the row groups in it) the caller passed are as they were.
func (s *argSnapshot) check(call string, rgs []parquet.RowGroup) error {
	if len(rgs) != len(s.elems) {
		return &classedError{"caller-arguments-modified", fmt.Sprintf("%s: the caller's slice has %d row groups, it had %d", call, len(rgs), len(s.elems))}
	}
	for i := range rgs {
		if !sameRowGroupValue(rgs[i], s.elems[i]) {
			return &classedError{"caller-arguments-modified", fmt.Sprintf("%s replaced element %d of the slice of row groups the caller passed (%T -> %T)", call, i, s.elems[i], rgs[i])}
		}
		if got := rgs[i].Schema().String(); got != s.schemas[i] {
			return &classedError{"caller-arguments-modified", fmt.Sprintf("%s changed the schema of the row group %d the caller passed: it was [%s], it is [%s]", call, i, core.Trunc(s.schemas[i], 300), core.Trunc(got, 300))}
		}
	}
	return nil
}

func copyRowsInto(dst interface {
	parquet.RowWriter
	Rows() parquet.Rows
}, src parquet.RowGroup, n int, batch int) ([]parquet.Row, error) {
	rows := src.Rows()
	k, err := parquet.CopyRows(dst, rows)
	rows.Close()
	if err != nil {
		return nil, fmt.Errorf("CopyRows: %w", err)
	}
	if k != int64(n) {
		return nil, fmt.Errorf("CopyRows returned %d for %d rows", k, n)
	}
	r := dst.Rows()
	defer r.Close()
	return readAll(r, batch)
}

var sourcePasses = []sourcePass{
	{"CopyRows(Buffer of the target schema, src.Rows())", func(b *built, srcs []parquet.RowGroup, batch int, rng *rand.Rand) ([]parquet.Row, error) {
		src := srcs[0]
		return copyRowsInto(parquet.NewBuffer(b.ts), src, len(b.rows), batch)
	}},
	{"CopyRows(RowBuffer[any] of the target schema, src.Rows())", func(b *built, srcs []parquet.RowGroup, batch int, rng *rand.Rand) ([]parquet.Row, error) {
		src := srcs[0]
		return copyRowsInto(parquet.NewRowBuffer[any](b.ts), src, len(b.rows), batch)
	}},
	{"CopyRows(file writer of the target schema, src.Rows())", func(b *built, srcs []parquet.RowGroup, batch int, rng *rand.Rand) ([]parquet.Row, error) {
		src := srcs[0]
		var out bytes.Buffer
		w := parquet.NewGenericWriter[any](&out, b.ts)
		rows := src.Rows()
		_, err := parquet.CopyRows(w, rows)
		rows.Close()
		if err != nil {
			return nil, fmt.Errorf("CopyRows: %w", err)
		}
		if err := w.Close(); err != nil {
			return nil, fmt.Errorf("Close: %w", err)
		}
		g, err := openFile(out.Bytes())
		if err != nil {
			return nil, fmt.Errorf("open copy: %w", err)
		}
		r := parquet.NewGenericReader[any](g)
		defer r.Close()
		return readAll(r, batch)
	}},
	{"ConvertRowGroup(src, conv).Rows()", func(b *built, srcs []parquet.RowGroup, batch int, rng *rand.Rand) ([]parquet.Row, error) {
		src := srcs[0]
		conv, err := parquet.Convert(b.ts, src.Schema())
		if err != nil {
			return nil, err
		}
		rows := parquet.ConvertRowGroup(src, conv).Rows()
		defer rows.Close()
		return readAll(rows, batch)
	}},
	{"ConvertRowReader(src.Rows(), conv)", func(b *built, srcs []parquet.RowGroup, batch int, rng *rand.Rand) ([]parquet.Row, error) {
		src := srcs[0]
		conv, err := parquet.Convert(b.ts, src.Schema())
		if err != nil {
			return nil, err
		}
		rows := src.Rows()
		defer rows.Close()
		return readAll(parquet.ConvertRowReader(rows, conv), batch)
	}},
	{"MergeRowGroups({src}, target schema).Rows()", func(b *built, srcs []parquet.RowGroup, batch int, rng *rand.Rand) ([]parquet.Row, error) {
		m, err := parquet.MergeRowGroups(srcs, b.ts)
		if err != nil {
			return nil, err
		}
		rows := m.Rows()
		defer rows.Close()
		return readAll(rows, batch)
	}},
	{"NewGenericRowGroupReader[any](src, target schema)", func(b *built, srcs []parquet.RowGroup, batch int, rng *rand.Rand) ([]parquet.Row, error) {
		src := srcs[0]
		r := parquet.NewGenericRowGroupReader[any](src, b.ts)
		defer r.Close()
		return readAll(r, batch)
	}},
	{"NewRowGroupReader(src, target schema)", func(b *built, srcs []parquet.RowGroup, batch int, rng *rand.Rand) ([]parquet.Row, error) {
		r := parquet.NewRowGroupReader(srcs[0], b.ts)
		defer r.Close()
		return readAll(r, batch)
	}},
	// Reset (and SeekToRow) as operations of the readers that have them, over
	// every source kind: some rows are read, the reader is rewound, and the
	// rows must start again at row 0 (rowHistory, mode rewind); then the usual
	// random history, and the rewound reader read to the end.
	{"NewGenericRowGroupReader[any](src, target schema), ReadRows/Reset/SeekToRow history", func(b *built, srcs []parquet.RowGroup, batch int, rng *rand.Rand) ([]parquet.Row, error) {
		r := parquet.NewGenericRowGroupReader[any](srcs[0], b.ts)
		defer r.Close()
		mode := genHistMode(rng, false, true)
		mode.rewind, mode.fwdSeek = true, forwardOnlySource
		if err := rowHistory(b.pairs, b.want, r, rng, mode); err != nil {
			return nil, err
		}
		return readAll(r, batch)
	}},
	{"NewRowGroupReader(src, target schema), ReadRows/Reset/SeekToRow history", func(b *built, srcs []parquet.RowGroup, batch int, rng *rand.Rand) ([]parquet.Row, error) {
		r := parquet.NewRowGroupReader(srcs[0], b.ts)
		defer r.Close()
		mode := genHistMode(rng, false, true)
		mode.rewind, mode.fwdSeek = true, forwardOnlySource
		if err := rowHistory(b.pairs, b.want, r, rng, mode); err != nil {
			return nil, err
		}
		return readAll(r, batch)
	}},
	{"ConvertRowGroup(src, conv).Rows(), ReadRows/Reset/SeekToRow history", func(b *built, srcs []parquet.RowGroup, batch int, rng *rand.Rand) ([]parquet.Row, error) {
		conv, err := parquet.Convert(b.ts, srcs[0].Schema())
		if err != nil {
			return nil, err
		}
		rows := parquet.ConvertRowGroup(srcs[0], conv).Rows()
		defer rows.Close()
		mode := genHistMode(rng, false, true)
		mode.rewind, mode.fwdSeek = true, forwardOnlySource
		if err := rowHistory(b.pairs, b.want, rows, rng, mode); err != nil {
			return nil, err
		}
		again := parquet.ConvertRowGroup(srcs[0], conv).Rows()
		defer again.Close()
		return readAll(again, batch)
	}},
}

// forwardOnlySource: the rows of the source in hand refuse to seek backward
// (with an error: the concatenation of the rows of several row groups); the
// histories then seek forward only, Reset stays.
var forwardOnlySource bool

// sourceHistory runs the scenario; nil or a *classedError (or the error of the library).
func sourceHistory(b *built, data []byte, rng *rand.Rand) error {
	kind := rng.Intn(len(sourceKinds))
	src, err := makeSource(kind, b.ss, b.rows, data)
	if err != nil {
		return fmt.Errorf("source %s: %w", sourceKinds[kind], err)
	}
	if src.NumRows() != int64(len(b.rows)) {
		return &classedError{"source-rows-altered", fmt.Sprintf("source %s: NumRows() = %d for %d rows written", sourceKinds[kind], src.NumRows(), len(b.rows))}
	}
	trace := "source " + sourceKinds[kind]
	forwardOnlySource = kind >= 4 && len(b.rows) >= 2
	srcs := []parquet.RowGroup{src}
	snap := snapshotArgs(srcs)
	for pass, n := 1, 2+rng.Intn(2); pass <= n; pass++ {
		p := sourcePasses[rng.Intn(len(sourcePasses))]
		trace += fmt.Sprintf("; pass %d: %s", pass, p.name)
		got, err := p.run(b, srcs, 1+rng.Intn(7), rng)
		if e := snap.check(trace, srcs); e != nil {
			return e
		}
		if err != nil {
			return fmt.Errorf("%s: %w", trace, err)
		}
		if cl, what := compareRows(b, canonVariants(b.pairs, b.want, got)); cl != "" {
			if pass > 1 {
				cl = "reread-" + cl // the first pass was right
			}
			return &classedError{cl, trace + ": " + what}
		}
	}
	src = srcs[0]
	// the source still holds its rows
	rows := src.Rows()
	got, err := readAll(rows, 1+rng.Intn(7))
	rows.Close()
	if err != nil {
		return fmt.Errorf("%s; plain read of the source: %w", trace, err)
	}
	if len(got) != len(b.rows) {
		return &classedError{"source-rows-altered", fmt.Sprintf("%s; plain read of the source: %d rows, %d were written", trace, len(got), len(b.rows))}
	}
	for i := range got {
		if sameRow(b.rows[i], got[i]) {
			continue
		}
		if w, g := safeCanonRow(b.rows[i]), safeCanonRow(got[i]); w != g {
			return &classedError{"source-rows-altered", fmt.Sprintf("%s; plain read of the source: row %d: written [%s] read [%s]", trace, i, core.Trunc(w, 300), core.Trunc(g, 300))}
		}
	}
	return nil
}

func init() {
	paths = append(paths, pathFn{name: "source kinds, converted more than once", historyOnly: true, run: func(b *built, data []byte, cs *c12Case) ([]parquet.Row, error) {
		return nil, sourceHistory(b, data, rand.New(rand.NewSource(cs.Seed^0x0F1E2D3C)))
	}})
}
